#!/usr/bin/env python3
"""Translator T3: executor/mt_executor.rs -> coq/gen/PoolProg.v.

1. The "barrier" of run_local_worker (the code at the top of the worker's outer loop: what is done
   before try_set_worker_inactive, in each of its three outcomes) becomes the barrier program
   `barrier_gen` in the instruction set of coq/Model/Pool.v.  Every statement must be recognised (an
   unknown statement is refused, not skipped); the verification hooks (#[cfg(nexosim_verif)]
   crate::verif::point(..)) are dropped.
2. The ORDER of the protocol calls in the rest of run_local_worker, in schedule_task, in
   Executor::run and in the PoolManager methods is emitted as lists of call names (`skel_*_gen`): the
   model's remaining steps were written against these orders and the proof obligation compares them
   with the lists recorded in the proof file.

usage: gen_pool.py <out.v> [--print]"""
import os, re, sys

SRC = os.environ.get("NEXOSIM_SRC", "/repo/nexosim/src")


class Refuse(Exception):
    pass


def strip_comments(t):
    t = re.sub(r"/\*.*?\*/", " ", t, flags=re.S)
    return re.sub(r"//[^\n]*", " ", t)


def strip_hooks(t):
    t = re.sub(r"#\[cfg\(nexosim_verif\)\]\s*crate::verif::point\(\s*\d+\s*\)\s*;", " ", t)
    return t


def block_at(text, i, what):
    """text[i] == '{' -> (body, index after the closing brace)"""
    if text[i] != "{":
        raise Refuse("%s: '{' expected" % what)
    depth, j = 0, i
    while j < len(text):
        if text[j] == "{":
            depth += 1
        elif text[j] == "}":
            depth -= 1
            if depth == 0:
                return text[i + 1:j], j + 1
        j += 1
    raise Refuse("%s: unbalanced braces" % what)


def fn_body(text, sig_re, what):
    m = re.search(sig_re, text)
    if not m:
        raise Refuse("%s not found" % what)
    i = text.index("{", m.end() - 1)
    return block_at(text, i, what)[0]


BOPS = [
    (re.compile(r"^update_msg_count\s*\(\s*\)$"), "BUpdate"),
    (re.compile(r"^parker\s*\.\s*park\s*\(\s*\)$"), "BPark"),
    (re.compile(r"^pool_manager\s*\.\s*set_all_workers_inactive\s*\(\s*\)$"), "BSetAllInactive"),
    (re.compile(r"^executor_unparker\s*\.\s*unpark\s*\(\s*\)$"), "BUnparkMain"),
    (re.compile(r"^pool_manager\s*\.\s*begin_worker_search\s*\(\s*\)$"), "BBeginSearch"),
]


def bops(block, what):
    out = []
    for st in block.split(";"):
        st = " ".join(st.split())
        if not st:
            continue
        for rx, name in BOPS:
            if rx.match(st):
                out.append(name)
                break
        else:
            raise Refuse("%s: statement outside the modelled fragment: %r" % (what, st))
    return out


def barrier(mt):
    body = fn_body(mt, r"fn\s+run_local_worker\s*\(", "run_local_worker")
    # the closure that folds the thread's message count
    m = re.search(r"let\s+update_msg_count\s*=\s*\|\|\s*\{", body)
    if not m:
        raise Refuse("update_msg_count closure not found")
    clo, _ = block_at(body, m.end() - 1, "update_msg_count")
    clo_n = "".join(clo.split())
    want = "letthread_msg_count=channel::THREAD_MSG_COUNT.replace(0);worker.executor_context.msg_count.fetch_add(thread_msg_count,Ordering::Relaxed);"
    if clo_n != want:
        raise Refuse("update_msg_count is not `msg_count += THREAD_MSG_COUNT.replace(0)`: %r" % clo_n)
    # the outer loop: the first `loop {` after the rng
    m = re.search(r"let\s+rng\s*=\s*Rng::new\([^;]*;\s*loop\s*\{", body)
    if not m:
        raise Refuse("outer loop of run_local_worker not found")
    outer, _ = block_at(body, m.end() - 1, "outer loop")
    m = re.search(r"if\s+pool_manager\s*\.\s*try_set_worker_inactive\s*\(\s*id\s*\)\s*\{", outer)
    if not m:
        raise Refuse("`if pool_manager.try_set_worker_inactive(id)` not found at the top of the outer loop")
    pre = bops(outer[:m.start()], "before try_set_worker_inactive")
    b1, j = block_at(outer, m.end() - 1, "inactive branch")
    m2 = re.match(r"\s*else\s+if\s+injector\s*\.\s*is_empty\s*\(\s*\)\s*\{", outer[j:])
    if not m2:
        raise Refuse("`else if injector.is_empty()` expected after the first branch")
    b2, j2 = block_at(outer, j + m2.end() - 1, "last-empty branch")
    m3 = re.match(r"\s*else\s*\{", outer[j2:])
    if not m3:
        raise Refuse("final `else` branch expected")
    b3, j3 = block_at(outer, j2 + m3.end() - 1, "last-busy branch")
    rest = outer[j3:]
    return pre, bops(b1, "inactive branch"), bops(b2, "last-empty branch"), bops(b3, "last-busy branch"), rest


CALLS = re.compile(
    r"\b(activate_worker_relaxed|activate_worker|activate_all_workers|take_panic|pool_is_idle|msg_count\s*\.\s*load|"
    r"parker\s*\.\s*park_timeout|parker\s*\.\s*park|abort_signal\s*\.\s*is_set|abort_signal\s*\.\s*set|pop_bucket|local_queue\s*\.\s*extend|"
    r"shuffled_stealers|steal_and_pop|fast_slot\s*\.\s*replace|fast_slot\s*\.\s*take|local_queue\s*\.\s*pop|"
    r"local_queue\s*\.\s*push|local_queue\s*\.\s*drain|push_bucket|insert_task|end_worker_search|begin_worker_search|"
    r"searching_worker_count|task\s*\.\s*run|spare_capacity|fetch_or|fetch_update|trailing_ones|"
    r"unpark|atomic::fence|active_workers\s*\.\s*load|active_workers\s*\.\s*store|fetch_add|fetch_sub|break|continue|return)\b")


def calls(text):
    return ["".join(m.group(1).split()) for m in CALLS.finditer(text)]


def coq_strs(name, l):
    return "Definition %s : list string :=\n  [%s].\n" % (name, "; ".join('"%s"' % x for x in l))


def generate():
    mt = strip_hooks(strip_comments(open(os.path.join(SRC, "executor/mt_executor.rs")).read()))
    pm = strip_hooks(strip_comments(open(os.path.join(SRC, "executor/mt_executor/pool_manager.rs")).read()))
    pre, b1, b2, b3, rest = barrier(mt)
    sk = {
        "skel_worker_gen": calls(rest),
        "skel_sched_gen": calls(fn_body(mt, r"fn\s+schedule_task\s*\(", "schedule_task")),
        "skel_run_gen": calls(fn_body(mt, r"pub\(crate\)\s+fn\s+run\s*\(", "Executor::run")),
        "skel_act_relaxed_gen": calls(fn_body(pm, r"fn\s+activate_worker_relaxed\s*\(", "activate_worker_relaxed")),
        "skel_act_gen": calls(fn_body(pm, r"fn\s+activate_worker\s*\(", "activate_worker")),
        "skel_try_inactive_gen": calls(fn_body(pm, r"fn\s+try_set_worker_inactive\s*\(", "try_set_worker_inactive")),
        "skel_set_inactive_gen": calls(fn_body(pm, r"fn\s+set_all_workers_inactive\s*\(", "set_all_workers_inactive")),
        "skel_is_idle_gen": calls(fn_body(pm, r"fn\s+pool_is_idle\s*\(", "pool_is_idle")),
        "skel_act_all_gen": ["".join(fn_body(pm, r"fn\s+activate_all_workers\s*\(", "activate_all_workers").split())],
    }
    # the overflow path of schedule_task moves exactly one bucket from the full local queue to the injector (tasks are
    # conserved by every step in Pool.v): the drained count, what is pushed, and the two sizes are part of the obligation
    sched_body = fn_body(mt, r"fn\s+schedule_task\s*\(", "schedule_task")
    def call_arg(text, rx, what):
        m = re.search(rx, text)
        if not m:
            raise Refuse(what + " not found in schedule_task")
        depth, j = 0, m.end() - 1
        while j < len(text):
            if text[j] == "(":
                depth += 1
            elif text[j] == ")":
                depth -= 1
                if depth == 0:
                    return "".join(text[m.end():j].split())
            j += 1
        raise Refuse(what + ": unbalanced parentheses")
    sk["skel_sched_gen"] = sk["skel_sched_gen"] + [
        "drain:" + call_arg(sched_body, r"local_queue\s*\.\s*drain\s*\(", "local_queue.drain(..)"),
        "push_bucket:" + call_arg(sched_body, r"injector\s*\.\s*push_bucket\s*\(", "injector.push_bucket(..)")]
    for name in ("BUCKET_SIZE", "QUEUE_SIZE"):
        m = re.search(r"const\s+%s\s*:\s*usize\s*=\s*([^;]+);" % name, mt)
        if not m:
            raise Refuse("const %s not found" % name)
        sk["skel_sched_gen"].append("%s=%s" % (name, "".join(m.group(1).split())))
    # the decisive condition of try_set_worker_inactive, textually
    tsi = "".join(fn_body(pm, r"fn\s+try_set_worker_inactive\s*\(", "try_set_worker_inactive").split())
    for frag in ("ifactive_workers==(1<<worker_id){Some(active_workers)}else{Some(active_workers&!(1<<worker_id))}",
                 "ifactive_workers==(1<<worker_id){atomic::fence(Ordering::Acquire);false}else{true}"):
        if frag not in tsi:
            raise Refuse("try_set_worker_inactive: expected fragment missing: %s" % frag)
    out = ["(* GENERATED by tools/gen_pool.py from executor/mt_executor.rs and executor/mt_executor/pool_manager.rs - do not edit *)",
           "Require Import Coq.Strings.String.", "Require Import NX.Base.Prelude NX.Model.Pool.", "Open Scope string_scope.", "",
           "Definition barrier_gen : barrier :=",
           "  {| b_pre := [%s];" % "; ".join(pre),
           "     b_inactive := [%s];" % "; ".join(b1),
           "     b_last_empty := [%s];" % "; ".join(b2),
           "     b_last_busy := [%s] |}." % "; ".join(b3), ""]
    for k in sorted(sk):
        out.append(coq_strs(k, sk[k]))
    return "\n".join(out) + "\n", (pre, b1, b2, b3)


def main():
    out = sys.argv[1]
    try:
        text, _ = generate()
    except Refuse as e:
        # an untranslatable source: emit a file that makes the obligation fail, naming the reason
        msg = str(e).replace('"', "'")
        text = ("(* GENERATED by tools/gen_pool.py: TRANSLATION REFUSED *)\nRequire Import Coq.Strings.String.\n"
                "Require Import NX.Base.Prelude NX.Model.Pool.\nOpen Scope string_scope.\n"
                "Definition translation_refused : string := \"%s\".\n"
                "Definition barrier_gen : barrier := {| b_pre := []; b_inactive := []; b_last_empty := []; b_last_busy := [] |}.\n" % msg)
        for k in ("skel_worker_gen", "skel_sched_gen", "skel_run_gen", "skel_act_relaxed_gen", "skel_act_gen",
                  "skel_try_inactive_gen", "skel_set_inactive_gen", "skel_is_idle_gen", "skel_act_all_gen"):
            text += "Definition %s : list string := [\"refused\"].\n" % k
        sys.stderr.write("gen_pool: REFUSED: %s\n" % e)
    old = open(out).read() if os.path.exists(out) else None
    if old != text:
        os.makedirs(os.path.dirname(out), exist_ok=True)
        open(out, "w").write(text)
    if "--print" in sys.argv:
        print(text)


if __name__ == "__main__":
    main()
