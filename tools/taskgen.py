"""Generator of task-lifecycle scenarios for harness/atomh (tscen.rs)."""
OPS = ["run", "run", "run", "dropr", "wake", "wakeref", "wakeref", "clone", "dropw", "cancel", "droptok", "pollp", "dropp"]


def gen(rng, n):
    out = []
    for _ in range(n):
        kind = rng.choice(["p", "f"])
        L = rng.randint(1, 4)
        script = "".join(rng.choice("PPWWCRX") for _ in range(L))
        if rng.random() < 0.35:
            script += "D"
        nth = rng.randint(2, 3)
        threads = []
        for t in range(nth):
            k = rng.randint(1, 4)
            ops = [rng.choice(OPS) for _ in range(k)]
            if t == 0 and "run" not in ops:
                ops[0] = "run"
            threads.append(",".join(ops))
        sched = [rng.randrange(nth) for _ in range(rng.randint(6, 60))]
        out.append("task %s %s %d %s S %s" % (kind, script, nth, " ".join(threads), " ".join(map(str, sched))))
    return out


# the eight scenario shapes of the repository's own loom tests, as scripts
SHAPES = [
    "task p PR 2 run,run wake,pollp",
    "task p PR 2 run,run wakeref,pollp",
    "task p PR 3 run,run wake wakeref",
    "task p P 2 run cancel,pollp",
    "task p R 2 run dropp",
    "task f P 2 run,run wake,dropw",
    "task p WR 2 run,run,run pollp,cancel",
    "task f P 3 run,dropr wakeref cancel",
]


def enum_shapes(max_len):
    """every schedule prefix of length <= max_len over the threads of each shape (the rest is
    scheduled round-robin)"""
    import itertools
    out = []
    for sh in SHAPES:
        nth = int(sh.split()[3])
        for L in range(0, max_len + 1):
            for s in itertools.product(range(nth), repeat=L):
                out.append(sh + " S " + " ".join(map(str, s)))
    return out
