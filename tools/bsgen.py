"""Generator of broadcaster scenarios (harness/atomh bscen.rs `bs`, model coq/Model/Broadcast.v)."""


def gen(rng, count):
    out = []
    for _ in range(count):
        n = rng.choice([0, 1, 2, 2, 3, 3, 3, 4, 5])
        ops = []
        for q in range(rng.randint(1, 4)):
            bits = "".join("1" if rng.random() < 0.8 else "0" for _ in range(n))
            m = rng.choice(["a", "a", "a", "0", "1", "2"])
            ops.append("Q:%s:%s" % (bits, m))
            if n:
                for _ in range(rng.choice([0, 0, 1, 2, 3])):
                    acts = "+".join(rng.choice("ccw" if rng.random() < 0.93 else "e") + str(rng.randrange(n))
                                    for _ in range(rng.randint(1, 3)))
                    ops.append("S:%d.%d:%s" % (rng.randrange(n), rng.randint(0, 2), acts))
            for _ in range(rng.randint(1, 10)):
                r = rng.random()
                if r < 0.4 or n == 0:
                    ops.append("p")
                elif r < 0.75:
                    ops.append("c%d" % rng.randrange(n))
                elif r < 0.85:
                    ops.append("w%d" % rng.randrange(n))
                elif r < 0.88:
                    ops.append("e%d" % rng.randrange(n))
                elif r < 0.95:
                    ops.append("N")
                else:
                    ops.append("d")
            if rng.random() < 0.7:
                # drain: every sub-future completes, then the parent is polled until done
                ops += ["c%d" % j for j in rng.sample(range(n), n)] + ["N", "p", "p"]
        out.append("bs %d %s" % (n, " ".join(ops)))
    return out
