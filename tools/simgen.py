"""Generators of bench cases (dicts understood by simcase.render).  Every random choice comes
from the rng handed in, so a seed replays exactly.  Each case carries:
  mode: 'seq' (the log order is schedule-independent by construction) or 'multiset'
  tags: set of mechanisms the case exercises (used for the non-triviality rules)"""
import random

DELAYS = [1, 2, 3, 5, 7]


def model_sched(rng, with_sink=True):
    """A model whose handlers schedule / cancel events on itself.
    inputs: 0 = leaf (optionally writes its payload to a sink); 1 = schedule one-shot on input 0;
            2 = schedule periodic/keyed on input 0; 3 = cancel a slot"""
    h0 = [("snd", 0, "in")] if with_sink else []
    d1 = rng.choice(DELAYS)
    h1 = [("sch", ("r", d1), 0, ("ip", 100), None, None)]
    if rng.random() < 0.5:
        h1.append(("sch", ("r", rng.choice(DELAYS)), 0, ("ip", 200), rng.randrange(2), None))
    slot = rng.randrange(2)
    per = rng.choice([None, 10, 10, 20])
    h2 = [("sch", ("r", rng.choice(DELAYS)), 0, ("ip", 300), slot, per)]
    h3 = [("can", rng.randrange(2))]
    if rng.random() < 0.3:
        h3.append(("can", rng.randrange(2)))
    m = {"cap": rng.choice([4, 8, 16]), "handlers": [h0, h1, h2, h3],
         "outs": [[("all", 0, ("s", 0))]] if with_sink else []}
    if rng.random() < 0.3:
        # the model arms events on itself from its init, with relative deadlines (off the driver's 10-ns lattice)
        m["init"] = [("sch", ("r", rng.choice(DELAYS)), 0, ("c", 7000 + rng.randrange(100)), None, rng.choice([None, None, 10, 20]))]
    return m


def gen_sched(rng, n_cmds=None):
    """Deterministic family: one model; the driver schedules at multiples of 10 (origin: global
    scheduler), handlers schedule at offsets 1..9 behind a multiple of 10 (origin: the model): at any
    time only one origin has events due, hence one sequential task and a schedule-independent log."""
    n_cmds = n_cmds or rng.randint(4, 14)
    case = {"models": [model_sched(rng)], "sinks": [("buf", 64)], "mode": "seq", "tags": set(),
            "t0": rng.choice([0, 0, 10, 1000, -2000000000, -1500000010])}   # start times before the epoch are legal
    t0 = case["t0"]
    cmds = []
    val = 0
    horizon = t0
    now_known = True      # the current time is known to be `horizon` (a multiple of 5)
    clock = []
    if rng.random() < 0.3:
        case["tol"] = rng.choice([5, 50])
        clock = [rng.choice([None, None, None, 3, 60]) for _ in range(40)]
        case["tags"].add("clock")
    case["clock"] = clock
    for _ in range(n_cmds):
        r = rng.random()
        if r < 0.45:
            val += 1
            kind = rng.random()
            when = rng.random()
            if when < 0.7:
                d = ("a", (horizon // 10 + rng.randint(1, 4)) * 10)
            elif when < 0.8:
                d = ("a", max(0, (horizon // 10 - rng.randint(0, 2)) * 10))   # past / present
                case["tags"].add("bad-deadline")
            elif now_known and horizon % 10 == 0 and not any(c[0] in ("st", "su") for c in cmds):
                # relative deadlines only while the time is certainly the start time (see process_event below)
                d = ("r", rng.choice([0, 10, 20, 30]))
                if d[1] == 0:
                    case["tags"].add("bad-deadline")
            else:
                d = ("a", (horizon // 10 + rng.randint(1, 4)) * 10)
            inp = rng.choice([0, 0, 1, 2, 3])
            slot = rng.randrange(4) if kind < 0.4 else None
            per = rng.choice([10, 20, 30, 0]) if rng.random() < 0.3 else None
            if per == 0:
                case["tags"].add("zero-period")
            if per:
                case["tags"].add("periodic")
            if slot is not None:
                case["tags"].add("keyed")
            cmds.append(("se", d, 0, inp, val, slot, per))
        elif r < 0.55:
            cmds.append(("cn", rng.randrange(4)))
            case["tags"].add("cancel")
        elif r < 0.75:
            cmds.append(("st",))
            horizon += 10
            now_known = False
        elif r < 0.9:
            if rng.random() < 0.8:
                tgt = horizon + rng.choice([0, 5, 10, 15, 20, 40])
                cmds.append(("su", ("a", tgt)))
                horizon = max(horizon, tgt)
                now_known = "clock" not in case["tags"]
            else:
                dd = rng.choice([0, 10, 25])
                cmds.append(("su", ("r", dd)))
                horizon += dd
                now_known = False
            case["tags"].add("step_until")
        elif r < 0.95:
            val += 1
            # process_event on an input whose handler schedules (1, 2) only while the time is certainly the
            # start time: after a step the time may be a handler-scheduled one (not a multiple of 10) and a
            # handler deadline could then coincide with a driver deadline (two origins due at one time:
            # the order between them is schedule-dependent)
            ok10 = now_known and horizon == t0 and t0 % 10 == 0 and not any(c[0] in ("st", "su") for c in cmds)
            cmds.append(("pe", 0, rng.choice([0, 1, 2, 3] if ok10 else [0, 3]), val))
        else:
            cmds.append(("rs", 0))
    cmds.append(("st",))
    cmds.append(("rs", 0))
    case["cmds"] = cmds
    return case


def gen_multi(rng):
    """Confluent family: 2-4 models in a DAG (i sends/queries only j > i), handlers await only port
    operations and schedule un-keyed events; small mailboxes so that senders block; large buffers."""
    n = rng.randint(2, 4)
    models = []
    nsinks = 1
    for i in range(n):
        outs, reqs = [], []
        later = list(range(i + 1, n))
        for _ in range(rng.randint(1, 2)):
            conns = []
            for _ in range(rng.randint(1, 3)):
                keep = rng.choice(["all", "all", "even", ("lt", rng.choice([50, 500]))])
                add = rng.choice([0, 0, 1, 1000])
                if later and rng.random() < 0.75:
                    conns.append((keep, add, ("m", rng.choice(later), rng.randrange(3))))
                else:
                    conns.append((keep, add, ("s", 0)))
            outs.append(conns)
        if later and rng.random() < 0.6:
            qs = []
            for _ in range(rng.randint(1, 3)):
                qs.append((rng.choice(["all", "all", "even"]), rng.choice([0, 1]), rng.choice(later), rng.randrange(2),
                           rng.choice([0, 5])))
            reqs.append(qs)
        hs = []
        for inp in range(3):
            ops = []
            for _ in range(rng.randint(0, 3)):
                r = rng.random()
                if r < 0.6 and outs:
                    ops.append(("snd", rng.randrange(len(outs)), rng.choice(["in", ("ip", 1), ("ip", 2)])))
                elif r < 0.8 and reqs:
                    ops.append(("qry", 0, rng.choice(["in", ("ip", 1)])))
                elif r < 0.9:
                    # handlers only schedule onto input 2, which never schedules: no event storm (a handler
                    # that schedules two events onto an input that schedules again doubles the population at
                    # every step and exhausts the model's fuel before the implementation finishes)
                    ops.append(("sch", ("r", rng.choice(DELAYS)), 2, ("ip", 10), None,
                                rng.choice([None, None, 5])))
            hs.append(ops)
        # leaf-ish input 2 to keep event storms finite
        hs[2] = [o for o in hs[2] if o[0] != "sch"]
        reps = [([("snd", 0, "in")] if outs and rng.random() < 0.3 else [], rng.choice([0, 7])) for _ in range(2)]
        init = []
        if rng.random() < 0.3 and outs:
            init.append(("snd", rng.randrange(len(outs)), ("c", 40 + i)))
        models.append({"cap": rng.choice([1, 1, 2, 3, 4, 16]), "handlers": hs, "repliers": reps, "outs": outs,
                       "reqs": reqs, "init": init})
    # periodic self-scheduling must die out: periods only on input 2 which never reschedules
    for m in models:
        for h in m["handlers"]:
            for k, o in enumerate(h):
                if o[0] == "sch" and o[5] is not None:
                    h[k] = ("sch", o[1], 2, o[3], None, o[5])
    case = {"models": models, "sinks": [("buf", 4096)], "mode": "multiset", "tags": {"multi"},
            "threads": 1, "t0": 0, "clock": []}
    src = []
    for _ in range(rng.randint(0, 2)):
        src.append([(rng.choice(["all", "even"]), rng.choice([0, 3]), ("m", rng.randrange(n), rng.randrange(3)))
                    for _ in range(rng.randint(1, 3))])
    case["sources"] = src
    cmds, val, horizon = [], 0, 0
    for _ in range(rng.randint(3, 10)):
        r = rng.random()
        val += 2
        if r < 0.35:
            cmds.append(("se", ("a", horizon + rng.choice([10, 10, 20, 30])), rng.randrange(n), rng.randrange(3),
                         val + rng.randrange(2), None, rng.choice([None, None, None, 10])))
        elif r < 0.45 and src:
            cmds.append(("ss", ("a", horizon + rng.choice([10, 20])), rng.randrange(len(src)), val, None, None))
        elif r < 0.6:
            cmds.append(("pe", rng.randrange(n), rng.randrange(3), val + rng.randrange(2)))
        elif r < 0.68:
            cmds.append(("pq", rng.randrange(n), rng.randrange(2), val))
        elif r < 0.73 and src:
            cmds.append(("ps", rng.randrange(len(src)), val))
        elif r < 0.9:
            cmds.append(("st",))
            horizon += 10
        else:
            tgt = horizon + rng.choice([10, 25, 40])
            cmds.append(("su", ("a", tgt)))
            horizon = tgt
    cmds += [("st",), ("rs", 0)]
    case["cmds"] = cmds
    return case


def gen_req(rng):
    """Malformed-input stream for scheduling requests: past / present / future deadlines, absolute and
    relative, zero and non-zero periods, every request kind, from the driver and from handlers."""
    periods = [None, None, 0, 10, 20]
    def sched_op():
        return ("sch", rng.choice([("r", rng.choice([0, 0, 1, 3])), ("a", rng.choice([0, 5, 15, 25, 1000]))]), 0,
                ("ip", 100), rng.choice([None, None, 0, 1]), rng.choice(periods))
    hs = [[], [sched_op() for _ in range(rng.randint(1, 3))], [sched_op()], []]
    case = {"models": [{"cap": 16, "handlers": hs, "outs": []}], "sinks": [], "mode": "seq",
            "tags": {"requests"}, "t0": rng.choice([0, 10]), "clock": [],
            "sources": [[("all", 0, ("m", 0, 0))], [("even", 1, ("m", 0, 3)), ("all", 0, ("m", 0, 0))]]}
    cmds, val, horizon = [], 0, case["t0"]
    for _ in range(rng.randint(4, 12)):
        r = rng.random()
        val += 1
        d = rng.choice([("a", horizon + 10 * rng.randint(-2, 3)), ("r", rng.choice([0, 0, 10, 20]))])
        if d[0] == "a" and d[1] < 0:
            d = ("a", 0)
        if r < 0.4:
            cmds.append(("se", d, 0, rng.choice([0, 1, 2, 3]), val, rng.choice([None, None, 0, 1]), rng.choice(periods)))
        elif r < 0.6:
            cmds.append(("ss", d, rng.randrange(2), val, rng.choice([None, None, 2, 3]), rng.choice(periods)))
        elif r < 0.7:
            cmds.append(("cn", rng.randrange(4)))
        elif r < 0.85:
            cmds.append(("st",))
            horizon += 10
        else:
            tgt = horizon + rng.choice([0, 10, 20, 30])
            cmds.append(("su", ("a", tgt)))
            horizon = tgt
    cmds.append(("st",))
    case["cmds"] = cmds
    # handler-scheduled events (origin: the model) may coincide with driver events (origin: scheduler):
    # two tasks deliver to one mailbox, so the order inside such a step is schedule-dependent
    case["mode"] = "multiset"
    return case


FAULTS = ["panic", "norecip_model", "norecip_src", "norecip_query", "oos", "loss", "dead_query", "invdl", "badq", "sched_err"]


def gen_fault(rng, fault=None, tail=None):
    """Fault-sequence family (C11): one fault of a given kind injected at some point of a short driver
    sequence, followed by a tail of further API calls."""
    fault = fault or rng.choice(FAULTS)
    # model 0: victim/actor; model 1: dropped or orphan target
    m0 = {"cap": 4, "handlers": [[], [("pan", 7)], [("snd", 0, "in")], [("qry", 0, "in")]],
          "repliers": [([("qry", 0, "in")], 1), ([], 2)],
          "outs": [[("all", 0, ("m", 1, 0))]], "reqs": [[("all", 0, 0, 0, 0)]]}
    place1 = {"norecip_model": 2, "norecip_src": 2, "norecip_query": 2, "loss": 1, "badq": 2}.get(fault, 0)
    m1 = {"cap": 4, "place": place1, "handlers": [[]], "repliers": [([], 5)]}
    case = {"models": [m0, m1], "sinks": [], "mode": "multiset", "tags": {"fault", fault}, "t0": 0,
            "sources": [[("all", 0, ("m", 1, 0))], [("all", 0, ("m", 0, 0))]], "clock": []}
    pre = []
    if rng.random() < 0.6:
        pre.append(("se", ("a", 10), 0, 0, 1, None, None))
        pre.append(("st",))
    pending = rng.random() < 0.6
    if pending:
        pre.append(("se", ("a", 100), 0, 0, 2, None, rng.choice([None, 10])))
    now = 10 if ("st",) in pre else 0
    if fault == "panic":
        inj = [("pe", 0, 1, 3)] if rng.random() < 0.5 else [("se", ("a", now + 10), 0, 1, 3, None, None), ("st",)]
    elif fault == "norecip_model":
        inj = [("pe", 0, 2, 3)]
    elif fault == "norecip_query":
        # a query (single-connection requestor: Requestor or UniRequestor, the harness alternates) to a dropped mailbox
        m0["reqs"] = [[(rng.choice(["all", "all", "even"]), rng.choice([0, 1]), 1, 0, rng.choice([0, 5]))]]
        inj = [("pe", 0, 3, 4)] if rng.random() < 0.5 else [("se", ("a", now + 10), 0, 3, 4, None, None), ("st",)]
    elif fault == "norecip_src":
        inj = [("ps", 0, 3)] if rng.random() < 0.5 else [("ss", ("a", now + 10), 0, 3, None, None), ("st",)]
    elif fault == "oos":
        case["tol"] = 5
        k = 1 + sum(1 for c in pre if c[0] == "st")
        case["clock"] = [None] * k + [50]
        inj = [("se", ("a", now + 10), 0, 0, 3, None, None), rng.choice([("st",), ("su", ("a", now + 10)), ("su", ("a", now + 20))])]
    elif fault == "loss":
        inj = [("pe", 1, 0, 3)] if rng.random() < 0.5 else [("pq", 1, 0, 3)]
    elif fault == "dead_query":
        inj = [("pe", 0, 3, 3)] if rng.random() < 0.5 else [("pq", 0, 0, 3)]
    elif fault == "invdl":
        inj = [("su", ("a", max(0, now - 5)))] if now > 0 else [("se", ("a", 10), 0, 0, 9, None, None), ("st",), ("su", ("a", 5))]
    elif fault == "badq":
        inj = [("pq", 1, 0, 3)]
    else:
        inj = [("se", ("a", 0), 0, 0, 3, None, None), ("se", ("r", 5), 0, 0, 4, None, 0)]
    if rng.random() < 0.4:
        # attribution inside hierarchies: the faulty model owns sub-models / is a sub-model
        extra = {"cap": 4, "handlers": [[]], "repliers": [([], 5)], "parent": 0, "named": rng.random() < 0.8}
        case["models"].append(extra)
        if rng.random() < 0.5:
            case["models"].append({"cap": 4, "handlers": [[], [("pan", 8)]], "repliers": [([], 5)], "parent": 2})
            if fault == "panic":
                inj = [("pe", 3, 1, 3)]
    if tail is None:
        calls = [("st",), ("su", ("r", 10)), ("su", ("a", 500)), ("pe", 0, 0, 11), ("pq", 0, 1, 12), ("ps", 1, 13),
                 ("su", ("a", 0))]
        tail = [rng.choice(calls) for _ in range(rng.randint(1, 3))]
    case["cmds"] = pre + inj + list(tail)
    return case


def enum_faults():
    """The complete fault x tail space of the thorough tier: every fault kind followed by every
    sequence of <= 2 further calls (and every single call after every fault with pending/empty queue)."""
    calls = [("st",), ("su", ("r", 10)), ("pe", 0, 0, 11), ("pq", 0, 1, 12), ("ps", 1, 13)]
    import itertools
    out = []
    for f in FAULTS:
        for n in (1, 2):
            for tail in itertools.product(calls, repeat=n):
                for seed in (1, 2, 3):
                    out.append(gen_fault(random.Random(seed * 7919 + hash(f) % 1000), f, tail))
    return out


def gen_burst(rng):
    """C07 family: bursts of same-deadline events from one origin to one small mailbox (the sequential
    task of the group blocks on the full mailbox), one-shot / keyed / periodic mixed, other deadlines in
    between; and bursts scheduled by one handler invocation (origin: the model)."""
    cap = rng.choice([1, 1, 2, 3, 16])
    d = rng.choice(DELAYS)
    burst = [("sch", ("r", d), 0, ("ip", 100 * (k + 1)), rng.choice([None, None, k % 4]), None) for k in range(rng.randint(2, 5))]
    m = {"cap": cap, "handlers": [[], burst, [("sch", ("r", rng.choice(DELAYS)), 0, ("ip", 900), 0, 10)], [("can", 0)]], "outs": []}
    case = {"models": [m], "sinks": [], "mode": "seq", "tags": {"burst"}, "t0": 0, "clock": []}
    cmds, val, horizon = [], 0, 0
    for _ in range(rng.randint(2, 5)):
        t = horizon + 10 * rng.randint(1, 3)
        for _ in range(rng.randint(2, 8)):
            val += 1
            r = rng.random()
            cmds.append(("se", ("a", t if r < 0.8 else t + 10), 0, rng.choice([0, 0, 0, 1, 3]), val,
                         rng.choice([None, None, rng.randrange(4)]), rng.choice([None, None, None, 10, 20])))
        if rng.random() < 0.3:
            cmds.append(("cn", rng.randrange(4)))
        if rng.random() < 0.5:
            cmds.append(("st",)); horizon += 10
        else:
            cmds.append(("su", ("a", t))); horizon = t
    cmds += [("su", ("a", horizon + 40))]
    case["cmds"] = cmds
    return case


def gen_cancel(rng):
    """C09 family: keyed one-shot / periodic events cancelled before the step, by an earlier event of
    the same model at the same time (same origin, so the order is fixed), after firing, through the
    driver, with step and step_until."""
    d = rng.choice(DELAYS)
    per = rng.choice([None, 10, 20])
    # input 1: schedule a canceller (input 3) and then a keyed victim (input 0, slot 0) for the same time
    first_cancel = rng.random() < 0.7
    pair = [("sch", ("r", d), 3, ("c", 7000), None, None), ("sch", ("r", d), 0, ("ip", 500), 0, per)]
    if not first_cancel:
        pair.reverse()
    h2 = [("sch", ("r", rng.choice(DELAYS)), 0, ("ip", 300), rng.randrange(2), rng.choice([None, 10]))]
    # the canceller cancels explicitly or by dropping an auto-cancelling key
    m = {"cap": rng.choice([2, 4, 16]), "handlers": [[], pair, h2, [(rng.choice(["can", "can", "cau"]), 0)]], "outs": []}
    case = {"models": [m], "sinks": [], "mode": "seq", "tags": {"cancel"}, "t0": 0, "clock": [],
            "meta": {"d": d, "first_cancel": first_cancel}}
    cmds, val, horizon = [], 0, 0
    frozen = set()      # driver slots whose key has been cloned: not reused (the model resolves a clone to its slot)
    for _ in range(rng.randint(4, 12)):
        r = rng.random()
        val += 1
        if r < 0.45:
            t = horizon + 10 * rng.randint(1, 3)
            free = [x for x in (0, 1, 2, 3) if x not in frozen]
            cmds.append(("se", ("a", t), 0, rng.choice([0, 0, 1, 1, 2, 3]), val, rng.choice([None] + free) if free else None,
                         rng.choice([None, None, 10, 30])))
        elif r < 0.53:
            a = rng.randrange(4)
            frozen.add(a)
            cmds.append(("ck", a, rng.choice([4, 5, 6])))
            case["tags"].add("key-clone")
        elif r < 0.65:
            cmds.append((rng.choice(["cn", "cn", "ca"]), rng.randrange(7)))
        elif r < 0.85:
            cmds.append(("st",)); horizon += 10
        else:
            tgt = horizon + rng.choice([10, 20, 30])
            cmds.append(("su", ("a", tgt))); horizon = tgt
    cmds += [("su", ("a", horizon + 30))]
    case["cmds"] = cmds
    return case


def gen_cancel_same_time(rng):
    """C09 / C07 family: K >= 3 driver actions due at the SAME time (one origin, so one queue key and one
    sequential group), a mix of model-input events and source (EventSource) events, keyed one-shot and
    periodic, some of them cancelled before the step - the cancelled ones being first, second, third
    or later in scheduling order."""
    m = {"cap": rng.choice([1, 2, 16]), "handlers": [[], [], [], []], "outs": []}
    case = {"models": [m], "sinks": [], "mode": "seq", "tags": {"cancel", "ss-oracle"}, "t0": 0, "clock": [],
            "sources": [[("all", 0, ("m", 0, 0))], [("all", 1000, ("m", 0, 1))]]}
    cmds, val, horizon = [], 0, 0
    for _ in range(rng.randint(1, 3)):
        t = horizon + 10 * rng.randint(1, 2)
        slots = []
        for k in range(rng.randint(3, 7)):
            val += 1
            slot = None
            if rng.random() < 0.7:
                free = [x for x in range(4) if x not in slots]
                if free:
                    slot = rng.choice(free); slots.append(slot)
            per = rng.choice([None, None, None, 10])
            if rng.random() < 0.55:
                cmds.append(("ss", ("a", t), rng.randrange(2), val, slot, per))
            else:
                cmds.append(("se", ("a", t), 0, rng.choice([0, 1, 2, 3]), val, slot, per))
        for sl in rng.sample(slots, min(len(slots), rng.randint(1, 3))):
            cmds.append(("cn", sl))
        if rng.random() < 0.5:
            cmds.append(("st",))
        else:
            cmds.append(("su", ("a", t)))
        horizon = t
    cmds += [("su", ("a", horizon + 30))]
    case["cmds"] = cmds
    return case


def gen_multi_origin(rng):
    """C07 family: two origins have events pending for the SAME time and the same target: the global
    scheduler (driver) and a model whose handler scheduled a burst to itself; each origin's events must
    run in its own scheduling order (the order between the two origins is free: multiset mode)."""
    d = 10
    burst = [("sch", ("r", d), 0, ("ip", 100 * (k + 1)), None, None) for k in range(rng.randint(2, 4))]
    m0 = {"cap": rng.choice([1, 2, 16]), "handlers": [[], burst, [], []], "outs": []}
    m1 = {"cap": rng.choice([1, 2, 16]), "handlers": [[], [("sch", ("r", d), 0, ("ip", 100 * (k + 1)), None, None) for k in range(rng.randint(2, 4))], [], []], "outs": []}
    case = {"models": [m0, m1], "sinks": [], "mode": "multiset", "tags": {"burst", "multi-origin"}, "t0": 0, "clock": []}
    cmds, val = [], 0
    # at time 10: the trigger handlers (input 1) of both models run and schedule their bursts for time 20
    base = {}
    for mi in rng.sample([0, 1], rng.randint(1, 2)):
        val += 1
        base[mi] = 5000 * (mi + 1) + val
        cmds.append(("se", ("a", 10), mi, 1, base[mi], None, None))
    # the driver schedules its own same-time events for time 20 (before and after stepping to 10)
    for _ in range(rng.randint(1, 3)):
        val += 1
        cmds.append(("se", ("a", 20), rng.randrange(2), 0, val, None, None))
    cmds.append(("su", ("a", 10)))
    for _ in range(rng.randint(1, 3)):
        val += 1
        cmds.append(("se", ("a", 20), rng.randrange(2), 0, val, None, None))
    cmds.append(rng.choice([("st",), ("su", ("a", 20)), ("su", ("a", 30))]))
    cmds.append(("su", ("a", 40)))
    case["cmds"] = cmds
    case["meta"] = {"bases": base}
    return case


def gen_periodic(rng):
    """C10 family: several periodic series with commensurable periods down to 1 ns, coincidences,
    cancel points at fixed times; returns (setup commands, horizon, cancel list)."""
    m = {"cap": rng.choice([1, 1, 2, 16]), "handlers": [[], [], [], []], "outs": []}
    setup, cancels = [], []
    for k in range(rng.randint(1, 4)):
        p = rng.choice([1, 2, 3, 4, 6, 10])
        t0 = rng.randint(1, 12)
        slot = k if rng.random() < 0.5 else None
        if rng.random() < 0.5:
            # the same series through an EventSource (source k is connected to input k): its key is only
            # checked by the scheduler, not a second time inside the model
            setup.append(("ss", ("a", t0), k, 100 + k, slot, p))
        else:
            setup.append(("se", ("a", t0), 0, k, 100 + k, slot, p))
        if slot is not None and rng.random() < 0.6:
            cancels.append((rng.randint(2, 30), slot))
    if rng.random() < 0.5:
        setup.append(("se", ("a", rng.randint(1, 30)), 0, 3, 999, None, None))
    return m, setup, sorted(cancels), rng.randint(15, 40)


def gen_periodic_rearm(rng):
    """C07 family: a periodic series armed by the model on itself (input 1, period p); every occurrence schedules a
    one-shot on input 0 due exactly at the NEXT occurrence (relative deadline p): same origin, same time - the
    occurrence was re-armed when the previous one was pulled, i.e. before the one-shot was scheduled, so at every such
    time the occurrence must run first.  Returns a 'seq' case with meta for o_rearm_order."""
    p = rng.choice([2, 3, 5, 10])
    d = rng.randint(1, 9)
    m = {"cap": rng.choice([1, 2, 16]),
         "handlers": [[], [("sch", ("r", p), 0, ("ip", 500), None, None)], [], [("sch", ("r", d), 1, ("c", 40), rng.choice([None, 0]), p)]],
         "outs": []}
    horizon = d + p * rng.randint(2, 6) + rng.randint(0, p - 1)
    cmds = [("pe", 0, 3, 1)] + partition_cmds(rng, horizon, [], rng.choice(["big", "unit", "mixed"]))
    return {"models": [m], "sinks": [], "mode": "seq", "tags": {"periodic", "rearm"}, "t0": 0, "clock": [], "cmds": cmds,
            "sources": [], "meta": {"first": d, "period": p}}


def gen_periodic_model(rng):
    """C10 family, model-origin variant: one handler (input 3, triggered at the start time by process_event) arms 1-2
    periodic series on the model itself with relative first deadlines; single origin, so the order is fixed.
    Returns (model, setup, series, horizon); series = [(input, payload, first deadline, period)]."""
    series, ops = [], []
    for k in range(rng.randint(1, 2)):
        d = rng.randint(1, 9)
        p = rng.choice([1, 2, 3, 4, 6, 10])
        ops.append(("sch", ("r", d), k, ("c", 300 + k), None, p))
        series.append((k, 300 + k, d, p))
    m = {"cap": rng.choice([1, 2, 16]), "handlers": [[], [], [], ops], "outs": []}
    return m, [("pe", 0, 3, 1)], series, rng.randint(12, 40)


def partition_cmds(rng, horizon, cancels, kind):
    """cuts [0, horizon] into stepping commands; a cancel at time c is issued once now >= c... to be
    partition independent, cancels are issued right after a step_until(c) in every partition."""
    cmds, now = [], 0
    stops = sorted(set([c for c, _ in cancels] + [horizon]))
    for stop in stops:
        # reach `stop` with an arbitrary mix, always finishing with step_until(stop)
        while now < stop:
            if kind == "big":
                nxt = stop
            elif kind == "unit":
                nxt = now + 1
            else:
                nxt = min(stop, now + rng.randint(1, 7))
            cmds.append(("su", ("a", nxt)) if rng.random() < 0.7 or kind != "mixed" else ("su", ("r", nxt - now)))
            now = nxt
        for c, slot in cancels:
            if c == stop:
                cmds.append(("cn", slot))
    return cmds


def gen_net(rng, hier=False, cyc=False):
    """Message-passing family (C02/C03/C04/C06/C16): 2-5 models, DAG sends/queries (i -> j > i), plain /
    map / filter_map connections to models and a big sink, bursts of 1..3 x capacity messages, capacities
    1..16, optional hierarchy (sub-models, ids in pre-order, some unnamed) and init scripts; no handler
    schedules anything (so the sent/processed accounting of the oracles is exact)."""
    n = rng.randint(2, 5)
    models = []
    for i in range(n):
        later = list(range(i + 1, n))
        outs, reqs = [], []
        for _ in range(rng.randint(1, 2)):
            conns = []
            for _ in range(rng.randint(1, 3)):
                keep = rng.choice(["all", "all", "even", ("lt", rng.choice([50, 500]))])
                add = rng.choice([0, 0, 1, 1000])
                if later and rng.random() < 0.8:
                    conns.append((keep, add, ("m", rng.choice(later), rng.randrange(3))))
                else:
                    conns.append((keep, add, ("s", 0)))
            outs.append(conns)
        if later and rng.random() < 0.6:
            reqs.append([(rng.choice(["all", "all", "even"]), rng.choice([0, 1]), rng.choice(later), rng.randrange(2),
                          rng.choice([0, 5])) for _ in range(rng.randint(1, 3))])
        hs = []
        for inp in range(3):
            ops = []
            for _ in range(rng.randint(0, 3)):
                r = rng.random()
                if r < 0.7 and outs:
                    ops.append(("snd", rng.randrange(len(outs)), rng.choice(["in", ("ip", 1), ("ip", 2)])))
                elif reqs:
                    ops.append(("qry", 0, rng.choice(["in", ("ip", 1)])))
            hs.append(ops)
        reps = [([("snd", 0, "in")] if outs and rng.random() < 0.3 else [], rng.choice([0, 7])) for _ in range(2)]
        init = [("snd", rng.randrange(len(outs)), ("c", 40 + i))] if (outs and rng.random() < 0.4) else []
        models.append({"cap": rng.choice([1, 1, 2, 3, 4, 16]), "handlers": hs, "repliers": reps, "outs": outs,
                       "reqs": reqs, "init": init})
    if hier:
        # ids are in pre-order: the parent of i is some j < i on the current path
        path = [0]
        for i in range(1, n):
            if rng.random() < 0.6:
                k = rng.randrange(len(path))
                models[i]["parent"] = path[k]
                path = path[:k + 1] + [i]
            else:
                path = [i]
            if rng.random() < 0.25:
                models[i]["named"] = False
    case = {"models": models, "sinks": [("buf", 4096)], "mode": "multiset", "tags": {"net"}, "threads": 1, "t0": 0,
            "clock": [], "sources": [[(rng.choice(["all", "even"]), rng.choice([0, 3]), ("m", rng.randrange(n), rng.randrange(3)))
                                      for _ in range(rng.randint(1, 3))]]}
    cmds, val = [], 0
    horizon = 0
    for _ in range(rng.randint(2, 8)):
        r = rng.random()
        if r < 0.5:
            # burst into one model: 1..3 x capacity messages
            m = rng.randrange(n)
            k = rng.randint(1, 3 * models[m]["cap"])
            t = horizon + 10
            for _ in range(min(k, 12)):
                val += 2
                cmds.append(("se", ("a", t), m, rng.randrange(3), val + rng.randrange(2), None, None))
            cmds.append(("st",)); horizon = t
        elif r < 0.7:
            val += 2
            cmds.append(("pe", rng.randrange(n), rng.randrange(3), val + rng.randrange(2)))
        elif r < 0.8:
            val += 2
            cmds.append(("pq", rng.randrange(n), rng.randrange(2), val))
        elif r < 0.9:
            val += 2
            cmds.append(("ps", 0, val))
        else:
            val += 2
            cmds.append(("ss", ("a", horizon + 10), 0, val, None, None)); cmds.append(("st",)); horizon += 10
    cmds.append(("rs", 0))
    case["cmds"] = cmds
    return case


def gen_wide(rng):
    """Wide family (C04): 129..300 independent pass-through models (more than one injector bucket of
    128 tasks on the multi-threaded executor), every one receiving an event due at the same time; some
    forward to the next model as well.  Multiset mode."""
    n = rng.choice([129, 130, 160, 200, 257, 300])
    models = []
    for i in range(n):
        conns = [("all", 0, ("s", 0))]
        if i + 1 < n and rng.random() < 0.1:
            conns.append(("all", 1000, ("m", i + 1, 0)))
        models.append({"cap": rng.choice([1, 2, 4]), "handlers": [[("snd", 0, "in")], [], []], "repliers": [], "outs": [conns],
                       "reqs": [], "init": []})
    case = {"models": models, "sinks": [("buf", 8192)], "mode": "multiset", "tags": {"net", "wide"}, "threads": 1, "t0": 0,
            "clock": [], "sources": []}
    cmds, val = [], 0
    for r in range(rng.randint(1, 3)):
        t = 10 * (r + 1)
        for m in range(n):
            if rng.random() < 0.95:
                val += 1
                cmds.append(("se", ("a", t), m, 0, val, None, None))
        cmds.append(("st",))
        cmds.append(("rs", 0))
    val += 1
    cmds.append(("pe", rng.randrange(n), 0, val))
    cmds.append(("rs", 0))
    case["cmds"] = cmds
    return case


def gen_nested(rng):
    """C19 family: handlers build, run and drop a NESTED simulation (1..3 threads, 1..4 models) before
    going on; the enclosing simulation (2..6 models) must be unaffected, and when it is dropped at the
    end of the bench every one of its models must be dropped exactly once.  Multiset mode."""
    n = rng.randint(2, 6)
    models = []
    for i in range(n):
        ops = []
        if rng.random() < 0.6:
            ops.append(("nst", rng.choice([1, 2, 2, 3]), rng.randint(1, 4)))
        ops.append(("snd", 0, "in"))
        if rng.random() < 0.5:
            # after the send: a message of the enclosing simulation may be in flight while the nested one runs;
            # nsp: the nested model panics and the handler handles the error
            ops.append((rng.choice(["nst", "nsp", "nsp"]), rng.choice([1, 1, 2, 3]), rng.randint(1, 4)))
        conns = [("all", 0, ("s", 0))]
        if i + 1 < n and rng.random() < 0.6:
            conns.append(("all", 1000, ("m", i + 1, rng.randrange(2))))
        init = [("nst", rng.choice([1, 2]), rng.randint(1, 3))] if rng.random() < 0.2 else []
        models.append({"cap": rng.choice([1, 2, 4]), "handlers": [ops, [("snd", 0, "in")], []], "repliers": [], "outs": [conns],
                       "reqs": [], "init": init})
    if not any(o[0] == "nst" for m in models for o in m["handlers"][0]):
        models[0]["handlers"][0].insert(0, ("nst", 2, n))
    case = {"models": models, "sinks": [("buf", 4096)], "mode": "multiset", "tags": {"net", "nested"}, "threads": 1, "t0": 0,
            "clock": [], "sources": []}
    cmds, val = [], 0
    for r in range(rng.randint(1, 3)):
        t = 10 * (r + 1)
        for m in range(n):
            if rng.random() < 0.7:
                val += 1
                cmds.append(("se", ("a", t), m, 0, val, None, None))
        cmds.append(("st",))
    val += 1
    cmds.append(("pe", rng.randrange(n), 0, val))
    cmds.append(("rs", 0))
    case["cmds"] = cmds
    return case


def gen_nested_panic(rng):
    """C11 family: a handler builds, runs and drops a nested simulation (whose model may itself panic, the
    error being handled) and THEN panics: the panic must be reported as Panic of the enclosing model, the
    enclosing simulation terminated; further calls return Terminated."""
    n = rng.randint(1, 3)
    models = []
    bad = rng.randrange(n)
    for i in range(n):
        ops = [("snd", 0, "in")]
        if i == bad:
            ops = [(rng.choice(["nst", "nsp"]), rng.choice([1, 1, 2]), rng.randint(1, 3))] + ([("snd", 0, "in")] if rng.random() < 0.5 else []) + [("pan", rng.randint(1, 9))]
        models.append({"cap": 4, "handlers": [ops, [("snd", 0, "in")], []], "repliers": [], "outs": [[("all", 0, ("s", 0))]],
                       "reqs": [], "init": []})
    case = {"models": models, "sinks": [("buf", 64)], "mode": "multiset", "tags": {"nested", "panic"}, "threads": 1, "t0": 0,
            "clock": [], "sources": []}
    cmds, val = [], 0
    for m in range(n):
        if m != bad and rng.random() < 0.5:
            val += 1; cmds.append(("pe", m, 0, val))
    val += 1; cmds.append(("pe", bad, 0, val))
    for _ in range(rng.randint(1, 2)):
        val += 1; cmds.append(rng.choice([("pe", rng.randrange(n), 1, val), ("st",)]))
    case["cmds"] = cmds
    return case


def gen_panic_inflight(rng):
    """C11 family: a handler fails (panic, or send to a dropped mailbox) while messages it has just sent to
    live models are still queued: the failure must be reported as Panic / NoRecipient of that model (not as a
    Deadlock or MessageLoss because of the messages in flight), on every executor."""
    n = rng.randint(2, 4)
    kind = rng.choice(["panic", "panic", "norecip"])
    models = []
    for i in range(n):
        models.append({"cap": rng.choice([2, 4, 16]), "handlers": [[("snd", 0, "in")], [], []], "repliers": [],
                       "outs": [[("all", 0, ("s", 0))]], "reqs": [], "init": []})
    # model 0: sends to 1..k live models, then fails
    k = rng.randint(1, n - 1)
    conns = [("all", 100 * j, ("m", j, 0)) for j in range(1, k + 1)]
    models[0]["outs"] = [conns]
    ops = [("snd", 0, "in")] * rng.randint(1, 2)
    if kind == "panic":
        ops.append(("pan", rng.randint(1, 9)))
    else:
        models.append({"cap": 2, "place": 2, "handlers": [[], [], []], "repliers": [], "outs": [], "reqs": [], "init": []})
        models[0]["outs"].append([("all", 0, ("m", len(models) - 1, 0))])
        ops.append(("snd", 1, "in"))
    models[0]["handlers"][0] = ops
    case = {"models": models, "sinks": [("buf", 256)], "mode": "multiset", "tags": {"fault", "inflight", kind}, "threads": 1, "t0": 0,
            "clock": [], "sources": []}
    cmds, val = [], 0
    if rng.random() < 0.5:
        val += 1; cmds.append(("se", ("a", 50), 1, 0, val, None, None))      # non-empty scheduler queue
    val += 1; cmds.append(("pe", 0, 0, val))
    for _ in range(rng.randint(1, 2)):
        val += 1; cmds.append(rng.choice([("pe", 1, 0, val), ("st",), ("su", ("a", 100))]))
    case["cmds"] = cmds
    return case


def gen_fail_while_busy(rng):
    """C19 family: a step fails (a model panics, or sends to a dropped mailbox) while another model, on another
    worker thread, is still inside a handler (busy for some tens of milliseconds); the simulation is dropped at the
    end of the bench: the drop must return and every model must be dropped."""
    kind = rng.choice(["panic", "panic", "norecip"])
    fan = {"cap": 4, "handlers": [[("snd", 0, "in")], [], []], "repliers": [],
           "outs": [[("all", 0, ("m", 1, 0)), ("all", 0, ("m", 2, 0))]], "reqs": [], "init": []}
    slow = {"cap": 4, "handlers": [[("slp", rng.choice([20, 40, 80])), ("snd", 0, "in")], [], []], "repliers": [],
            "outs": [[("all", 0, ("s", 0))]], "reqs": [], "init": []}
    if kind == "panic":
        bad = {"cap": 4, "handlers": [[("slp", 5), ("pan", rng.randint(1, 9))], [], []], "repliers": [], "outs": [], "reqs": [], "init": []}
        models = [fan, slow, bad]
    else:
        bad = {"cap": 4, "handlers": [[("slp", 5), ("snd", 0, "in")], [], []], "repliers": [],
               "outs": [[("all", 0, ("m", 3, 0))]], "reqs": [], "init": []}
        models = [fan, slow, bad, {"cap": 2, "place": 2, "handlers": [[], [], []], "repliers": [], "outs": [], "reqs": [], "init": []}]
    # which of the two is reached first by the broadcast is free
    if rng.random() < 0.5:
        fan["outs"][0].reverse()
    case = {"models": models, "sinks": [("buf", 64)], "mode": "multiset", "tags": {"fault", "busy", kind}, "threads": 2, "t0": 0,
            "clock": [], "sources": []}
    case["cmds"] = [("pe", 0, 0, 1)] + ([("st",)] if rng.random() < 0.5 else [])
    return case


def gen_reply_unread(rng):
    """C19 family: process_query whose reply is produced but never read because the same run fails afterwards
    (the replier's script first sends an event that makes another model panic / hit a dropped mailbox): the
    simulation is then dropped with a populated reply slot, which must be released."""
    kind = rng.choice(["panic", "norecip"])
    m0 = {"cap": 4, "handlers": [[], [], []], "repliers": [([("snd", 0, "in")], rng.choice([0, 7])), ([], 3)],
          "outs": [[("all", 0, ("m", 1, 0))]], "reqs": [], "init": []}
    if kind == "panic":
        m1 = {"cap": 4, "handlers": [[("pan", rng.randint(1, 9))], [], []], "repliers": [], "outs": [], "reqs": [], "init": []}
    else:
        m1 = {"cap": 4, "place": 2, "handlers": [[], [], []], "repliers": [], "outs": [], "reqs": [], "init": []}
    case = {"models": [m0, m1], "sinks": [], "mode": "multiset", "tags": {"fault", "reply-unread", kind}, "threads": 1, "t0": 0,
            "clock": [], "sources": []}
    cmds, val = [], 0
    for _ in range(rng.randint(0, 2)):
        val += 1; cmds.append(("pq", 0, 1, val))          # queries whose replies are read
    val += 1; cmds.append(("pq", 0, 0, val))
    if rng.random() < 0.5:
        val += 1; cmds.append(("pq", 0, 1, val))
    case["cmds"] = cmds
    return case


def gen_deadlock(rng):
    """C06 family: query loop-backs (direct, transitive, in sub-models), saturating event loops that
    deadlock deterministically (a model that sends itself capacity+1 events from one handler), orphan
    and dropped mailboxes."""
    kind_ = rng.choice(["self_query", "transitive_query", "sub_query", "self_saturate", "orphan", "orphan_query", "clean",
                        "mixed_query", "mixed_saturate", "twin_query", "twin_query"])
    cap = rng.choice([1, 2, 3])
    mk = lambda **kw: dict({"cap": cap, "handlers": [[], [], []], "repliers": [([], 1), ([], 2)], "outs": [], "reqs": []}, **kw)
    models = [mk(), mk(), mk()]
    roots = []
    if kind_ == "self_query":
        models[0]["reqs"] = [[("all", 0, 0, 0, 0)]]; models[0]["handlers"][1] = [("qry", 0, "in")]
        roots = [("pe", 0, 1, 5)]
    elif kind_ == "transitive_query":
        models[0]["reqs"] = [[("all", 0, 1, 0, 0)]]; models[0]["handlers"][1] = [("qry", 0, "in")]
        models[1]["reqs"] = [[("all", 0, 2, 0, 0)]]; models[1]["repliers"][0] = ([("qry", 0, "in")], 1)
        models[2]["reqs"] = [[("all", 0, 0, 1, 0)]]; models[2]["repliers"][0] = ([("qry", 0, "in")], 1)
        roots = [("pe", 0, 1, 5)]
    elif kind_ == "sub_query":
        models[1]["parent"] = 0; models[2]["parent"] = 1
        models[1]["named"] = rng.random() < 0.7
        v = rng.choice([1, 2])
        models[v]["reqs"] = [[("all", 0, v, 0, 0)]]; models[v]["handlers"][1] = [("qry", 0, "in")]
        roots = [("pe", v, 1, 5)]
    elif kind_ == "twin_query":
        # TWO (or three) models stuck at once with different numbers of queued messages; some or all of them
        # unnamed (reported as <unknown>) or unnamed sub-models of one parent: names in a report need not be unique
        k = rng.randint(0, max(0, cap - 1))
        models[0]["outs"] = [[("all", 0, ("m", 1, 1))], [("all", 0, ("m", 0, 0))], [("all", 0, ("m", 2, 1))]]
        models[0]["reqs"] = [[("all", 0, 0, 0, 0)]]
        third = rng.random() < 0.4
        models[0]["handlers"][1] = [("snd", 0, "in")] + ([("snd", 2, "in")] if third else []) + [("snd", 1, "in")] * k + [("qry", 0, "in")]
        for v in (1, 2):
            models[v]["reqs"] = [[("all", 0, v, 0, 0)]]; models[v]["handlers"][1] = [("qry", 0, "in")]
        shape = rng.choice(["top", "top", "sub"])
        if shape == "sub":
            models[1]["parent"] = 0; models[2]["parent"] = 0
        for v in ((1, 2) if shape == "sub" else (0, 1, 2)):
            if rng.random() < 0.75:
                models[v]["named"] = False
        roots = [("pe", 0, 1, 5)]
    elif kind_ == "self_saturate":
        models[0]["outs"] = [[("all", 0, ("m", 0, 0))]]
        models[0]["handlers"][1] = [("snd", 0, "in")] * (cap + 1)
        roots = [("pe", 0, 1, 5)]
    elif kind_ == "orphan":
        models[2]["place"] = 1
        models[0]["outs"] = [[("all", 0, ("m", 2, 0))]]; models[0]["handlers"][1] = [("snd", 0, "in")] * rng.randint(1, cap + 2)
        roots = [("pe", 0, 1, 5)]
    elif kind_ == "orphan_query":
        models[2]["place"] = 1
        roots = [("pq", 2, 0, 5)]
    elif kind_ == "mixed_query":
        # a stall with BOTH messages lost in a never-added mailbox AND a registered model stuck on its own
        # query: the report must be Deadlock (listing the registered model), not MessageLoss
        models[2]["place"] = 1
        models[0]["outs"] = [[("all", 0, ("m", 2, 0))]]
        models[0]["reqs"] = [[("all", 0, 0, 0, 0)]]
        models[0]["handlers"][1] = [("snd", 0, "in")] * rng.randint(1, cap) + [("qry", 0, "in")]
        roots = [("pe", 0, 1, 5)]
    elif kind_ == "mixed_saturate":
        models[2]["place"] = 1
        models[0]["outs"] = [[("all", 0, ("m", 2, 0))], [("all", 0, ("m", 0, 0))]]
        models[0]["handlers"][1] = [("snd", 0, "in")] * rng.randint(1, cap) + [("snd", 1, "in")] * (cap + 1)
        roots = [("pe", 0, 1, 5)]
    else:
        models[0]["outs"] = [[("all", 0, ("m", 1, 0)), ("even", 1, ("m", 2, 0))]]
        models[0]["handlers"][1] = [("snd", 0, "in"), ("snd", 0, ("ip", 1))]
        roots = [("pe", 0, 1, 4), ("pe", 0, 1, 7)]
    case = {"models": models, "sinks": [], "mode": "multiset", "tags": {"deadlock", kind_}, "t0": 0, "clock": [], "sources": []}
    pre = [("pe", 1, 0, 1)] if rng.random() < 0.5 else []
    case["cmds"] = pre + roots + [("st",), ("pe", 0, 0, 9)]
    return case


def gen_triangle(rng):
    """C02 family: A -> B, then A -> C, and C (processing that message) -> B, with mailboxes of
    capacity 1..3 so that senders suspend; several roots; optional extra relay D between C and B."""
    cap = lambda: rng.choice([1, 1, 2, 3])
    relay = rng.random() < 0.4
    a = {"cap": cap(), "handlers": [[("snd", 0, "in"), ("snd", 1, ("ip", 1))]],
         "outs": [[("all", 0, ("m", 1, 0))], [("all", 0, ("m", 2, 0))]]}
    b = {"cap": cap(), "handlers": [[]], "outs": []}
    if relay:
        c = {"cap": cap(), "handlers": [[("snd", 0, "in")]], "outs": [[("all", 0, ("m", 3, 0))]]}
        d = {"cap": cap(), "handlers": [[("snd", 0, ("ip", 1000))]], "outs": [[("all", 0, ("m", 1, 0))]]}
        models = [a, b, c, d]
    else:
        c = {"cap": cap(), "handlers": [[("snd", 0, ("ip", 1000))]], "outs": [[("all", 0, ("m", 1, 0))]]}
        models = [a, b, c]
    roots = [10 * (k + 1) for k in range(rng.randint(1, 5))]
    case = {"models": models, "sinks": [], "mode": "multiset", "tags": {"triangle"}, "t0": 0, "clock": [], "sources": [],
            "meta": {"roots": roots}}
    cmds = []
    if rng.random() < 0.5:
        # all roots in one step, from one origin: one sequential task, A processes them in order
        for v in roots:
            cmds.append(("se", ("a", 10), 0, 0, v, None, None))
        cmds.append(("st",))
        case["meta"]["sequential_roots"] = True
    else:
        for v in roots:
            cmds.append(("pe", 0, 0, v))
        case["meta"]["sequential_roots"] = True
    case["cmds"] = cmds
    return case


def gen_query(rng):
    """C14 family: one requester with 0..6 repliers over 1-3 replier models, arbitrary subsets filtered
    out (even / lt filters on the request), request and reply maps, replier mailboxes of capacity 1
    (slow repliers: the per-replier sub-sends block and complete in varying orders), nested queries."""
    nrep = rng.randint(1, 3)
    models = [{"cap": 4, "handlers": [[("qry", 0, "in")], [("qry", 0, ("ip", 1)), ("qry", 1, "in")]], "repliers": [], "outs": [], "reqs": []}]
    for j in range(nrep):
        nested = [("qry", 0, "in")] if (j + 1 < nrep and rng.random() < 0.4) else []
        m = {"cap": rng.choice([1, 1, 2]), "handlers": [[]], "repliers": [(nested, rng.choice([10, 20])), ([], rng.choice([30, 40]))],
             "outs": [], "reqs": [[("all", 0, j + 2, 0, 0)]] if nested else []}
        models.append(m)
    for port in range(2):
        qs = []
        for _ in range(rng.randint(0, 6)):
            qs.append((rng.choice(["all", "all", "even", ("lt", 50)]), rng.choice([0, 1, 5]), rng.randint(1, nrep), rng.randrange(2),
                       rng.choice([0, 100])))
        models[0]["reqs"].append(qs)
    case = {"models": models, "sinks": [], "mode": "multiset", "tags": {"query"}, "t0": 0, "clock": [], "sources": []}
    cmds, val = [], 0
    for _ in range(rng.randint(1, 6)):
        val += rng.choice([1, 2, 7, 50])
        r = rng.random()
        if r < 0.6:
            cmds.append(("pe", 0, rng.randrange(2), val))
        elif r < 0.8:
            cmds.append(("pq", rng.randint(1, nrep), rng.randrange(2), val))
        else:
            cmds.append(("se", ("r", 10), 0, rng.randrange(2), val, None, None)); cmds.append(("st",))
    case["cmds"] = cmds
    return case


def gen_timeout(rng):
    """C11: an overrunning step.  Simulation::set_timeout(1 s); one handler sleeps 5 s (harness op `slp`): the call that
    runs it must return Timeout, and every later attempt to run the simulation Terminated, without running model code
    or moving the time.  Oracle-only family (the model has no wall clock).  The margins (a quick call has 1 s, the slow
    handler overruns by 4 s) keep the verdict independent of the load of the machine; an early, spurious Timeout of a
    quick call is accepted by the oracle (everything after it must still be Terminated)."""
    n = rng.randint(1, 3)
    models = []
    for i in range(n):
        models.append({"cap": rng.choice([1, 2, 16]), "handlers": [[("slp", 5000)], [], []], "repliers": [([], 0), ([], 7)],
                       "outs": [], "reqs": [], "init": []})
    slow_m = rng.randrange(n)
    cmds = [("to", 1000)]
    for _ in range(rng.randint(0, 2)):
        cmds.append(("pe", rng.randrange(n), 1, rng.randrange(100)))
    if rng.random() < 0.5:
        cmds.append(("se", ("a", 10), rng.randrange(n), 2, 5, None, None))     # something left in the queue
    slow = len(cmds)
    if rng.random() < 0.5:
        cmds.append(("pe", slow_m, 0, 1))
    else:
        cmds.insert(slow, ("se", ("a", 5), slow_m, 0, 1, None, None)); slow += 1
        cmds.append(("st",))
    for _ in range(rng.randint(2, 4)):
        r = rng.random()
        if r < 0.3: cmds.append(("st",))
        elif r < 0.5: cmds.append(("su", ("a", 50)))
        elif r < 0.75: cmds.append(("pe", rng.randrange(n), 1, 3))
        else: cmds.append(("pq", rng.randrange(n), 0, 4))
    return {"models": models, "sinks": [], "mode": "seq", "tags": {"timeout"}, "threads": 1, "t0": 0, "clock": [], "sources": [],
            "cmds": cmds, "slow_cmd": slow}


def gen_norecip_broadcast(rng):
    """C11: a send to a dropped mailbox through a port that ALSO feeds live models, some of whose mailboxes are full
    at that moment (filled just before through another port of the same handler): the broadcast cannot complete at
    its first poll, and the missing recipient must still be reported (NoRecipient naming the sender) however the
    other sub-sends complete.  Connection order of the dead and the live recipients varies."""
    n_live = rng.randint(1, 3)
    cap = rng.choice([1, 1, 2])
    emitter = {"cap": 4, "handlers": [[], [], []], "repliers": [([], 0), ([], 7)], "outs": [], "reqs": [], "init": []}
    lives = [{"cap": cap, "handlers": [[], [], []], "repliers": [([], 0), ([], 7)], "outs": [], "reqs": [], "init": []} for _ in range(n_live)]
    dead = {"cap": 2, "place": 2, "handlers": [[], [], []], "repliers": [([], 0), ([], 7)], "outs": [], "reqs": [], "init": []}
    models = [emitter] + lives + [dead]
    di = len(models) - 1
    fill = [("all", 0, ("m", 1 + i, 0)) for i in range(n_live)]
    mixed = [("all", rng.choice([0, 1]), ("m", 1 + i, 1)) for i in range(n_live)]
    mixed.insert(rng.randint(0, len(mixed)), ("all", 0, ("m", di, 0)))
    emitter["outs"] = [fill, mixed]
    emitter["handlers"][0] = [("snd", 0, "in")] * cap + [("snd", 1, ("ip", 1))]
    cmds = []
    if rng.random() < 0.5:
        cmds.append(("pe", rng.randint(1, n_live), 2, 3))
    if rng.random() < 0.5:
        cmds.append(("pe", 0, 0, 10))
    else:
        cmds += [("se", ("a", 10), 0, 0, 10, None, None), ("st",)]
    for _ in range(rng.randint(1, 3)):
        cmds.append(rng.choice([("st",), ("pe", 1, 2, 4), ("su", ("a", 50))]))
    return {"models": models, "sinks": [], "mode": "multiset", "tags": {"norecip-broadcast"}, "threads": 1, "t0": 0, "clock": [],
            "sources": [], "cmds": cmds}
