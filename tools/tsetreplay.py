"""Translation validation of coq/Model/TaskSetConc.v: every explored trace of the real
util/task_set.rs (verbatim mirror over instrumented atomics, harness/atomh tsetscen.rs `tsc`) is
turned into the sequence of model steps - one per shared-memory access, in trace order - and the
extracted model is run on it (ocaml/driver.ml `tkr`): after every step the model's head word
(countdown, index) and the next word of the task touched must be the decoded values the code
wrote; at the end the indices yielded by the iterator must agree, the model must not have met
SLEEPING in a list, and every wake operation must have completed in the model too."""
import vlib

SLEEPING, EMPTY = 0xFFFFFFFF, 0xFFFFFFFE


def dec_next(w):
    return "S" if w == SLEEPING else ("E" if w == EMPTY else str(w))


def dec_head(w):
    idx = w & 0xFFFFFFFF
    return (w >> 32, -1 if idx == EMPTY else idx)


def map_trace(case, out):
    """-> (model line, expectations) or (None, reason).  A compare-exchange of the instrumented
    atomics never fails spuriously, so it succeeded iff the value found equals the value the thread
    last saw at that location (its expected value)."""
    w = case.split()
    ntasks = int(w[1])
    parts = out.split("|", 1)
    if len(parts) < 2:
        return None, "no trace"
    trace = [e.strip() for e in parts[1].split(";") if e.strip()]
    L_head = None
    next_of = {}                 # location -> task index
    cur_wake = {}                # thread -> [model waker index, task, number of accesses so far]
    wake_tasks = []              # model waker j -> task index
    seen = {}                    # (thread, location) -> last value seen there
    events, expect, yields = [], [], []
    it_pos = None                # iterator position of the owner (task index or None)
    drop_loaded = None
    owner_expect_head = False    # the owner's next access to an unknown location is the head
    discard_peek = False
    pending_discard_drop = False
    for ev in trace:
        f = ev.split()
        t = f[0]
        if f[1] == "ghost":
            g = f[2]
            if g == "wake-begin":
                cur_wake[t] = [len(wake_tasks), int(f[3]), 0]; wake_tasks.append(int(f[3]))
            elif g == "wake-end":
                cur_wake.pop(t, None)
            elif g == "take":
                events.append("kt" + f[3]); expect.append(None); owner_expect_head = True
            elif g == "yield":
                yields.append(f[3])
            elif g == "drop-iter":
                events.append("kd"); expect.append(None)
            elif g == "discard":
                discard_peek = True; owner_expect_head = True
            continue
        if f[1] in ("fence", "cellW", "cellR", "lock", "unlock") or len(f) < 6:
            return None, "unexpected event %r" % ev
        kind, loc, rd, wr = f[1], f[3], int(f[4]), int(f[5])
        exp = seen.get((t, loc))
        ok = not (kind == "cas" and exp is not None and rd != exp)
        seen[(t, loc)] = rd if (kind == "load" or (kind == "cas" and not ok)) else wr
        new = rd if (kind == "load" or (kind == "cas" and not ok)) else wr
        if t == "t0":
            if L_head is None and owner_expect_head:
                L_head = loc
            if loc == L_head:
                owner_expect_head = False
                if discard_peek:
                    # discard_scheduled(): peek; take_scheduled(0) + drop of the iterator follow iff head != EMPTY
                    discard_peek = False
                    if rd != EMPTY:
                        events.append("kt0"); expect.append(None)
                        pending_discard_drop = True
                    continue
                events.append("c:%d" % (0 if ok else 1)); expect.append(("h", dec_head(new)))
                if kind == "cas" and ok:
                    ix = rd & 0xFFFFFFFF
                    it_pos = None if ix == EMPTY else ix
                    if pending_discard_drop:
                        pending_discard_drop = False
                        if it_pos is not None:
                            events.append("kd"); expect.append(None)
                continue
            if loc not in next_of:
                if it_pos is None:
                    return None, "owner touches an unknown next word without an iterator position: %r" % ev
                next_of[loc] = it_pos
            i = next_of[loc]
            events.append("c:0"); expect.append(("n", i, dec_next(new)))
            if kind == "swap":
                it_pos = None if rd == EMPTY else rd
            elif kind == "load":
                drop_loaded = rd
            elif kind == "store":
                it_pos = None if drop_loaded == EMPTY else drop_loaded
            else:
                return None, "unexpected owner access %r" % ev
            continue
        if t not in cur_wake:
            return None, "waker access outside a wake operation: %r" % ev
        cw = cur_wake[t]
        j, task = cw[0], cw[1]
        if loc != L_head and loc not in next_of:
            if cw[2] == 0:
                next_of[loc] = task          # the first access of wake_by_ref is the load of its own next word
            elif L_head is None:
                L_head = loc
            else:
                return None, "cannot attribute location in %r" % ev
        cw[2] += 1
        events.append("w%d:%d" % (j, 0 if ok else 1))
        if loc == L_head:
            expect.append(("h", dec_head(new)))
        else:
            expect.append(("n", next_of[loc], dec_next(new)))
    line = "tkr %d W %s E %s" % (ntasks, " ".join(map(str, wake_tasks)), " ".join(events))
    return line, {"expect": expect, "yields": yields, "nwakes": len(wake_tasks)}


def replay(cases, outs):
    lines, metas, skipped = [], [], []
    for c, o in zip(cases, outs):
        if not o.startswith("OK |"):
            continue
        line, meta = map_trace(c, o)
        if line is None:
            skipped.append({"case": c, "why": meta}); continue
        lines.append(line); metas.append((c, o, meta))
    res = vlib.run_model(lines) if lines else []
    bad, nsteps = [], 0
    for (c, o, meta), r in zip(metas, res):
        f = [x.strip() for x in r.split("|")]
        why = None
        if len(f) != 6:
            why = "model runner output malformed: %r" % r[:200]
        else:
            sums = f[0].split()
            nsteps += len(sums)
            if len(sums) != len(meta["expect"]):
                why = "%d model summaries for %d events" % (len(sums), len(meta["expect"]))
            for k, (sm, e) in enumerate(zip(sums, meta["expect"])):
                if why:
                    break
                if sm == "X":
                    why = "step %d is not enabled in the model" % k; break
                if e is None:
                    continue
                hd, nx = sm.split("/")
                if e[0] == "h":
                    cd, ix = [int(x) for x in hd.split(",")]
                    if (cd, ix) != e[1]:
                        why = "after step %d the model's head is (countdown %d, index %d), the code wrote %s" % (k, cd, ix, e[1])
                else:
                    if nx.split(",")[e[1]] != e[2]:
                        why = "after step %d the model's next[%d] is %s, the code wrote %s" % (k, e[1], nx.split(",")[e[1]], e[2])
            if not why:
                if f[2].split() != meta["yields"]:
                    why = "yielded: model %s, code %s" % (f[2].split(), meta["yields"])
                elif f[4] != "0":
                    why = "the model's iterator met SLEEPING on a run the code completed"
                elif any(p != "6" for p in f[5].split(",") if p):
                    why = "a wake operation completed in the code but not in the model (pcs %s)" % f[5]
        if why:
            bad.append({"case": c, "why": why, "model": r[:800], "impl": o[:1500]})
    return len(metas), nsteps, bad, skipped


def gen(rng, n):
    out = []
    for _ in range(n):
        nt = rng.randint(1, 4)
        nw = rng.randint(1, 3)
        ws = ["W " + ",".join(str(rng.randrange(nt)) for _ in range(rng.randint(1, 3))) for _ in range(nw)]
        cops = []
        for _ in range(rng.randint(1, 4)):
            r = rng.random()
            if r < 0.6:
                cops.append("t%d" % rng.choice([0, 1, 1, 2]))
            elif r < 0.85:
                cops.append("p%d:%d" % (rng.choice([0, 1, 2]), rng.randint(0, 2)))
            else:
                cops.append("x")
        sched = [rng.randrange(nw + 1) for _ in range(rng.randint(8, 70))]
        out.append("tsc %d %s C %s S %s" % (nt, " ".join(ws), ",".join(cops), " ".join(map(str, sched))))
    return out
