"""Direct oracles: predicates over the implementation's own observations (one list of
(result, time, [entries]) per command, init first), written from the property texts and
independent of the Coq model.  Each returns None or a description of what fails."""

FATAL = ("dead", "loss", "norecip", "panic", "oos", "timeout")
RUNNING = ("st", "su", "pe", "pq", "ps")


def kind(res):
    return res.split(":")[0]


def ents(o, tag):
    return [e.split(":") for e in o[2] if e.split(":")[0] == tag]


def o_harness(case, obs):
    if len(obs) != len(case["cmds"]) + 1:
        return "harness: %d observations for %d commands" % (len(obs), len(case["cmds"]))
    return None


def o_time(case, obs):
    """C01: time never decreases; process_* never change it; step_until ends at its target;
    every handler observes the time of the step it runs in; K(t) precedes the handlers at t."""
    prev = obs[0][1]
    if obs[0][0] == "ok" and prev != case.get("t0", 0):
        return "time after init is %s, not the start time" % prev
    for e in obs[0][2]:
        f = e.split(":")
        if f[0] in ("I", "H", "P") and int(f[-1]) != case.get("t0", 0):
            return "init: %s observed time %s, not the start time %d" % (e, f[-1], case.get("t0", 0))
    for j, c in enumerate(case["cmds"]):
        res, t, es = obs[j + 1]
        if res == "noinit":
            return None
        if t < prev:
            return "cmd %d (%s): time decreased from %d to %d" % (j, c[0], prev, t)
        if c[0] in ("pe", "pq", "ps", "se", "ss", "cn", "ca", "ck", "rs", "so") and t != prev:
            return "cmd %d (%s) changed the time from %d to %d" % (j, c[0], prev, t)
        if c[0] == "su" and res == "ok":
            tgt = c[1][1] if c[1][0] == "a" else prev + c[1][1]
            if t != tgt:
                return "cmd %d: step_until(%d) returned Ok with time %d" % (j, tgt, t)
        # handlers observe the current step time
        cur = prev
        for e in es:
            f = e.split(":")
            if f[0] == "K":
                k = int(f[1])
                if k < cur:
                    return "cmd %d: clock asked to synchronize on %d after %d" % (j, k, cur)
                cur = k
            elif f[0] in ("H", "P", "I"):
                ht = int(f[-1])
                if ht != cur:
                    return "cmd %d: handler %s observed time %d during the step at %d" % (j, e, ht, cur)
        if c[0] in ("st", "su") and kind(res) not in FATAL + ("term",) and cur > t:
            return "cmd %d: a step at %d ran but the call returned with time %d" % (j, cur, t)
        if c[0] in ("st", "su") and res == "ok":
            if c[0] == "st" and cur != t:
                return "cmd %d: step() returned with time %d after synchronizing on %d" % (j, t, cur)
        prev = t
    return None


def o_terminated(case, obs):
    """C11: after a fatal error every further run attempt returns Terminated, runs nothing and
    leaves the time unchanged."""
    dead_at = None
    t_dead = None
    if kind(obs[0][0]) in FATAL:
        return None     # init failed: the Simulation object is not returned
    for j, c in enumerate(case["cmds"]):
        res, t, es = obs[j + 1]
        if dead_at is not None and c[0] in RUNNING:
            if res != "term":
                return "cmd %d (%s) after the fatal error of cmd %d returned %s, not Terminated" % (j, c[0], dead_at, res)
            if t != t_dead:
                return "cmd %d (%s) after the fatal error of cmd %d moved the time from %d to %d" % (j, c[0], dead_at, t_dead, t)
            if es:
                return "cmd %d (%s) after the fatal error of cmd %d ran: %s" % (j, c[0], dead_at, " ".join(es))
        if dead_at is None and kind(res) in FATAL:
            dead_at, t_dead = j, t
        if dead_at is None and res == "term":
            return "cmd %d returned Terminated although no fatal error was reported before" % j
    return None


def o_clock(case, obs):
    """C18: synchronize(t0) precedes every init; per new time exactly one synchronize, before the
    handlers of that time; arguments never decrease; a lag above the tolerance fails the step with
    OutOfSync before any model code of that time runs (ignored without tolerance)."""
    answers = case.get("clock", [])
    tol = case.get("tol")
    nk = 0
    es0 = obs[0][2]
    if es0 and es0[0] != "K:%d" % case.get("t0", 0):
        return "init: first event is %s, not synchronize(start time)" % es0[0]
    if sum(1 for e in es0 if e.startswith("K:")) != 1:
        return "init: %d clock calls" % sum(1 for e in es0 if e.startswith("K:"))
    nk = 1
    last_k = case.get("t0", 0)
    prev_t = obs[0][1]
    for j, c in enumerate(case["cmds"]):
        res, t, es = obs[j + 1]
        if res == "noinit":
            return None
        seen_times = set()
        for i, e in enumerate(es):
            f = e.split(":")
            if f[0] == "K":
                k = int(f[1])
                if k < last_k:
                    return "cmd %d: synchronize(%d) after synchronize(%d)" % (j, k, last_k)
                if k in seen_times:
                    return "cmd %d: synchronize(%d) called twice" % (j, k)
                seen_times.add(k)
                last_k = k
                ans = answers[nk] if nk < len(answers) else None
                nk += 1
                if ans is not None and tol is not None and ans > tol:
                    if res != "oos:%d" % ans:
                        return "cmd %d: clock reported a lag of %d > tolerance %d at time %d but the call returned %s" % (j, ans, tol, k, res)
                    if i != len(es) - 1:
                        return "cmd %d: model code ran after the out-of-sync report: %s" % (j, " ".join(es[i + 1:]))
            elif f[0] in ("H", "P") and c[0] in ("st", "su"):
                if int(f[-1]) not in seen_times:
                    return "cmd %d: %s ran before synchronize(%s)" % (j, e, f[-1])
        if kind(res) == "oos" and (not es or not es[-1].startswith("K:")):
            return "cmd %d: OutOfSync without a preceding clock call" % j
        if kind(res) == "oos" and tol is None:
            return "cmd %d: the call failed with %s although no clock tolerance is configured (lags must be ignored)" % (j, res)
        if kind(res) == "oos" and tol is not None and int(res.split(":")[1]) <= tol:
            return "cmd %d: the call failed with %s although the lag does not exceed the tolerance %d" % (j, res, tol)
        if c[0] in ("st", "su") and res == "ok" and t != prev_t and t not in seen_times:
            return "cmd %d: moved to time %d without synchronize(%d)" % (j, t, t)
        prev_t = t
    return None


def ref_driver_events(case, obs):
    """Reference for the events the *driver* schedules through the global Scheduler (one origin):
    given the observed time after each command, which of them must fire in which command, at what
    time and in what order.  Returns (expected, problems): expected[j] = list of (payload, time)."""
    pending = []     # dicts: v, t, per, slot_key, stamp, m, i, cancelled
    keys = {}        # driver slot -> event dict
    stamp = 0
    expected = {}
    problems = []
    prev = obs[0][1]
    if kind(obs[0][0]) in FATAL:
        return expected, problems, False
    alive = True
    for j, c in enumerate(case["cmds"]):
        res, t, es = obs[j + 1]
        if res == "noinit":
            break
        if c[0] == "se":
            _, d, m, i, v, slot, per = c
            when = d[1] if d[0] == "a" else prev + d[1]
            want = 2 if per == 0 else (1 if when <= prev else 0)
            if res != "sched:%d" % want:
                problems.append("cmd %d: schedule(deadline %d at time %d, period %s) returned %s, expected sched:%d" % (j, when, prev, per, res, want))
            if res == "sched:0":
                ev = {"v": v, "t": when, "per": per, "stamp": stamp, "m": m, "i": i, "cancelled": False}
                stamp += 1
                pending.append(ev)
                if slot is not None:
                    keys[slot] = ev
        elif c[0] == "ss" and "ss-oracle" in case.get("tags", ()):
            # a source event (EventSource): one handler invocation per accepting connection to a model
            _, d, src, v, slot, per = c
            when = d[1] if d[0] == "a" else prev + d[1]
            want = 2 if per == 0 else (1 if when <= prev else 0)
            if res != "sched:%d" % want:
                problems.append("cmd %d: schedule(source event, deadline %d at time %d, period %s) returned %s, expected sched:%d" % (j, when, prev, per, res, want))
            if res == "sched:0":
                conns = [cn for cn in case["sources"][src] if cn[2][0] == "m" and
                         (cn[0] == "all" or (cn[0] == "even" and v % 2 == 0) or (isinstance(cn[0], tuple) and v < cn[0][1]))]
                first = True
                for cn in conns:
                    ev = {"v": v + cn[1], "t": when, "per": per, "stamp": stamp, "m": cn[2][1], "i": cn[2][2], "cancelled": False}
                    stamp += 1
                    pending.append(ev)
                    if slot is not None:
                        keys.setdefault(("grp", slot), []).append(ev) if not first else keys.__setitem__(("grp", slot), [ev])
                    first = False
                if slot is not None:
                    keys[slot] = {"group": keys.get(("grp", slot), [])}
        elif c[0] == "ck":
            # slot b receives a clone of the key of slot a: both designate the same action
            if c[1] in keys:
                keys[c[2]] = keys[c[1]]
            else:
                keys.pop(c[2], None)
        elif c[0] in ("cn", "ca"):
            # explicit cancellation, or drop of the key turned into an auto-cancelling key
            ev = keys.pop(c[1], None)
            if ev is not None:
                if "group" in ev:
                    for e2 in ev["group"]:
                        e2["cancelled"] = True
                else:
                    ev["cancelled"] = True
        elif c[0] in ("st", "su") and alive:
            if kind(res) in ("panic", "norecip", "dead", "loss", "timeout", "term"):
                alive = False
            else:
                # events due in (prev, t] fire, in (time, stamp) order; at an out-of-sync time nothing runs
                limit_excl = t if kind(res) == "oos" else None
                fired = []
                while True:
                    due = [e for e in pending if not e["cancelled"] and e["t"] <= t and (limit_excl is None or e["t"] < limit_excl)]
                    if not due:
                        break
                    e = min(due, key=lambda e: (e["t"], e["stamp"]))
                    fired.append((e["v"], e["t"], e["m"], e["i"]))
                    if e["per"]:
                        e["t"] += e["per"]
                        e["stamp"] = stamp
                        stamp += 1
                    else:
                        pending.remove(e)
                expected[j] = fired
                if kind(res) == "oos":
                    alive = False
                    # the events due exactly at the failing time were pulled, not run
        if kind(res) in FATAL:
            alive = False
        prev = t
    return expected, problems, True


def o_driver_events(case, obs):
    """C01/C07/C08/C09/C10 for events scheduled by the driver: each accepted, non-cancelled
    occurrence fires exactly once, at its deadline (t0 + k*p for periodic ones), in (deadline,
    scheduling order) order for one target model; cancelled ones never fire; requests are accepted
    iff deadline > now and period != 0.  Payloads of driver events are unique per case."""
    expected, problems, ok = ref_driver_events(case, obs)
    if problems:
        return problems[0]
    if not ok:
        return None
    driver_vals = set(c[4] for c in case["cmds"] if c[0] == "se")
    if "ss-oracle" in case.get("tags", ()):
        for c in case["cmds"]:
            if c[0] == "ss":
                driver_vals |= set(c[3] + cn[1] for cn in case["sources"][c[2]])
    pe_vals = set(c[3] for c in case["cmds"] if c[0] == "pe")
    for j, c in enumerate(case["cmds"]):
        res, t, es = obs[j + 1]
        if res == "noinit":
            break
        got = []
        for e in es:
            f = e.split(":")
            if f[0] == "H" and int(f[3]) in driver_vals and int(f[3]) not in pe_vals:
                got.append((int(f[3]), int(f[4]), int(f[1]), int(f[2])))
        if j in expected:
            exp = expected[j]
            if sorted(got) != sorted(exp):
                missing = [x for x in exp if x not in got]
                extra = [x for x in got if x not in exp]
                return "cmd %d (%s -> %s @%d): driver events (payload,time,model,input) missing %s unexpected %s" % (j, c[0], res, t, missing[:4], extra[:4])
            # order per target model
            for m in set(x[2] for x in exp):
                if [x for x in got if x[2] == m] != [x for x in exp if x[2] == m]:
                    return "cmd %d: events of model %d ran in order %s, scheduled order is %s" % (j, m, [x[:2] for x in got if x[2] == m][:8], [x[:2] for x in exp if x[2] == m][:8])
        elif got and c[0] in ("st", "su"):
            if kind(res) not in ("panic", "norecip", "dead", "loss", "timeout"):
                return "cmd %d (%s -> %s): driver events ran unexpectedly: %s" % (j, c[0], res, got[:4])
    return None


def o_handler_cancel(case, obs):
    """C09, handler side (benches of simgen.gen_cancel): input 1 of the model schedules, for the same
    time T+d and from the same origin, a canceller (input 3: cancels slot 0) and then a keyed victim
    (payload v+500, slot 0).  When the canceller was scheduled first and nothing re-keys slot 0 in
    between, the victim must never run (nor any later occurrence of it)."""
    meta = case.get("meta")
    if not meta or not meta.get("first_cancel"):
        return None
    d = meta["d"]
    flat = []
    for j, o in enumerate(obs):
        for e in o[2]:
            f = e.split(":")
            if f[0] == "H":
                flat.append((j, int(f[2]), int(f[3]), int(f[4])))
    for idx, (j, inp, v, t) in enumerate(flat):
        if inp != 1:
            continue
        # an earlier invocation with the same payload may have left a periodic victim with the same
        # payload whose key was displaced (not cancelled): its occurrences cannot be told apart
        if any(i0 == 1 and v0 == v for (_, i0, v0, _) in flat[:idx]):
            continue
        rekey = False
        for (j2, inp2, v2, t2) in flat[idx + 1:]:
            if t2 > t + d:
                break
            if inp2 in (1, 2):
                rekey = True
            if inp2 == 3 and t2 == t + d:
                break
        if rekey:
            continue
        # is the canceller's own run observed at T+d (the step may not have been reached)?
        if not any(i2 == 3 and t2 == t + d for (_, i2, _, t2) in flat[idx + 1:]):
            continue
        for (j2, inp2, v2, t2) in flat[idx + 1:]:
            if inp2 == 0 and v2 == v + 500 and t2 >= t + d:
                # a later invocation of input 1 with the same payload would legitimately produce v+500 again
                if any(i3 == 1 and v3 == v and t3 > t for (_, i3, v3, t3) in flat[idx + 1:]):
                    break
                return "cmd %d: the event with payload %d ran at %d although an earlier event of the same model and time cancelled its key (scheduled at %d by the handler of payload %d)" % (j2, v2, t2, t, v)
    return None


ALL_SCHED = (o_harness, o_time, o_terminated, o_clock, o_driver_events)


# ---------------------------------------------------------------- message accounting (C03/C04/C06)

def keep_ok(k, v):
    if k == "all":
        return True
    if k == "even":
        return v % 2 == 0
    return v < k[1]


def ev(e, v):
    if e == "in":
        return v
    return e[1] if e[0] == "c" else v + e[1]


def children(case, kind, m, idx, v):
    """Messages a handler invocation sends, as reception keys ('H', model, input, payload) /
    ('P', model, replier, payload), one per accepting connection (sink writes are ('S', sink, payload))."""
    sp = case["models"][m]
    if kind == "H":
        hs = sp.get("handlers", [])
        script = hs[idx] if idx < len(hs) else []
    elif kind == "P":
        rs = sp.get("repliers", [])
        script = rs[idx][0] if idx < len(rs) else []
    else:
        script = sp.get("init", [])
    out = []
    for op in script:
        if op[0] == "snd":
            x = ev(op[2], v)
            conns = sp.get("outs", [])
            for (k, add, tgt) in (conns[op[1]] if op[1] < len(conns) else []):
                if keep_ok(k, x):
                    out.append(("H", tgt[1], tgt[2], x + add) if tgt[0] == "m" else ("S", tgt[1], x + add))
        elif op[0] == "qry":
            x = ev(op[2], v)
            reqs = sp.get("reqs", [])
            for (k, add, mm, rep, radd) in (reqs[op[1]] if op[1] < len(reqs) else []):
                if keep_ok(k, x):
                    out.append(("P", mm, rep, x + add))
    return out


def accounting(case, obs, upto=None):
    """expected receptions (roots + children of every observed invocation) and observed receptions, as
    Counters, over commands [0, upto).  Only for benches without handler-side scheduling."""
    from collections import Counter
    exp, got = Counter(), Counter()
    n = len(obs) if upto is None else upto
    pending_se = []
    for j in range(n):
        res, t, es = obs[j]
        if j >= 1:
            c = case["cmds"][j - 1]
            if c[0] == "pe":
                exp[("H", c[1], c[2], c[3])] += 1
            elif c[0] == "pq":
                exp[("P", c[1], c[2], c[3])] += 1
            elif c[0] == "ps":
                for (k, add, tgt) in case["sources"][c[1]]:
                    if keep_ok(k, c[2]):
                        exp[("H", tgt[1], tgt[2], c[2] + add)] += 1
            elif c[0] in ("se", "ss") and res == "sched:0":
                prev = obs[j - 1][1]
                when = c[1][1] if c[1][0] == "a" else prev + c[1][1]
                pending_se.append([when, c])
            if c[0] in ("st", "su"):
                for item in list(pending_se):
                    when, cc = item
                    limit = t if kind(res) != "oos" else t - 1
                    while when <= limit:
                        if cc[0] == "se":
                            exp[("H", cc[2], cc[3], cc[4])] += 1
                            per = cc[6]
                        else:
                            for (k, add, tgt) in case["sources"][cc[2]]:
                                if keep_ok(k, cc[3]):
                                    exp[("H", tgt[1], tgt[2], cc[3] + add)] += 1
                            per = cc[5]
                        if per:
                            when += per
                            item[0] = when
                        else:
                            pending_se.remove(item)
                            break
        for e in es:
            f = e.split(":")
            if f[0] == "H":
                key = ("H", int(f[1]), int(f[2]), int(f[3]))
            elif f[0] == "P":
                key = ("P", int(f[1]), int(f[2]), int(f[3]))
            elif f[0] == "I":
                for ch in children(case, "I", int(f[1]), 0, 0):
                    if ch[0] != "S":
                        exp[ch] += 1
                continue
            else:
                continue
            got[key] += 1
            for ch in children(case, key[0], key[1], key[2], key[3]):
                if ch[0] != "S":
                    exp[ch] += 1
    return exp, got


def first_fatal(obs):
    for j, o in enumerate(obs):
        if kind(o[0]) in FATAL + ("hang", "noinit"):
            return j
    return None


def o_exactly_once(case, obs):
    """C03/C04: over a prefix of commands that all returned without a fatal error, the multiset of
    handler/replier invocations equals the multiset of messages sent to models (roots from the driver
    and the scheduler + one per accepting connection of every send of every observed invocation):
    nothing lost, duplicated or invented, and nothing left unprocessed when a call returns Ok."""
    ff = first_fatal(obs)
    upto = len(obs) if ff is None else ff
    exp, got = accounting(case, obs, upto)
    if exp != got:
        missing = list((exp - got).elements())[:5]
        extra = list((got - exp).elements())[:5]
        return "after %d commands: sent-but-not-processed %s, processed-but-never-sent %s" % (upto - 1, missing, extra)
    return None


def o_deadlock_report(case, obs):
    """C06: at the first fatal Deadlock/MessageLoss verdict, compare with the per-model accounting
    pending(m) = messages sent to m - handlers started by m.  Deadlock must list only added models, with
    1 <= n <= min(capacity, pending); MessageLoss(n) requires pending on added models = 0 and n = pending
    on never-added mailboxes; if nothing is pending the verdict must not be Deadlock/MessageLoss; if an
    ADDED model (sub-models included) has pending messages and no sender can be blocked on it... the
    verdict must be Deadlock."""
    ff = first_fatal(obs)
    if ff is None:
        return None
    res = obs[ff][0]
    k = kind(res)
    if k not in ("dead", "loss"):
        return None
    exp, got = accounting(case, obs, ff + 1)
    from collections import Counter
    pend = Counter()
    for key, n in (exp - got).items():
        pend[key[1]] += n
    models = case["models"]
    added = [i for i, m in enumerate(models) if m.get("place", 0) == 0]
    def qname(i):
        parts, cur = [], i
        while cur is not None:
            parts.append(str(cur) if models[cur].get("named", True) else "?")
            cur = models[cur].get("parent")
        return ".".join(reversed(parts))
    if sum(pend.values()) == 0:
        return "cmd %d: verdict %s although every sent message was processed" % (ff - 1, res)
    if k == "dead":
        # names need not be unique (unnamed models are all reported as <unknown>): the report is a multiset
        listed = {}
        for x in res[5:].split(","):
            nm, n = x.split("=")
            listed.setdefault(nm, []).append(int(n))
        byname = {}
        for i in added:
            byname.setdefault(qname(i), []).append(i)
        for nm, counts in listed.items():
            if nm not in byname:
                return "cmd %d: Deadlock lists '%s', which is not a model of the simulation (%s)" % (ff - 1, nm, sorted(byname))
            stuck = [i for i in byname[nm] if pend[i] >= 1]
            if len(counts) != len(stuck):
                return "cmd %d: Deadlock lists %d model(s) named %s but %d model(s) of that name hold unprocessed messages (%s)" % (
                    ff - 1, len(counts), nm, len(stuck), res)
            bounds = sorted((min(models[i]["cap"], pend[i]) for i in stuck), reverse=True)
            for n, bnd in zip(sorted(counts, reverse=True), bounds):
                if not (1 <= n <= bnd):
                    return "cmd %d: Deadlock reports %d messages for a model named %s; capacity / sent-unprocessed bounds of the stuck models of that name: %s" % (ff - 1, n, nm, bounds)
        for i in added:
            if pend[i] >= 1 and qname(i) not in listed:
                # a message counted as pending may still be held by a blocked sender, but then the
                # mailbox it is blocked on is full, hence non-empty, hence listed: pend[i] >= 1 with an
                # empty mailbox is only possible if every such message is held by a blocked sender of
                # a FULL mailbox i - a contradiction.
                return "cmd %d: model %s has %d unprocessed messages but is not in the Deadlock report %s" % (ff - 1, qname(i), pend[i], res)
    else:
        n = int(res[5:])
        bad = [qname(i) for i in added if pend[i] >= 1]
        if bad:
            return "cmd %d: MessageLoss(%d) although models of the simulation hold unprocessed messages: %s (signature C06/submodel-mailbox-not-observed when these are sub-models)" % (ff - 1, n, bad)
        # a never-added mailbox holds at most its capacity; what was sent beyond that is still held by
        # blocked senders and was never enqueued
        lost = sum(min(models[i]["cap"], pend[i]) for i in range(len(models)) if i not in added)
        if n != lost:
            return "cmd %d: MessageLoss(%d) but %d messages sit in mailboxes never added" % (ff - 1, n, lost)
    return None


def o_init(case, obs):
    """C16: every added model (sub-models included) is initialised exactly once, during init, before
    it handles anything; Context::name() is parent.child."""
    models = case["models"]
    def is_added(i):
        cur = i
        while cur is not None:
            if models[cur].get("place", 0) != 0:
                return False
            cur = models[cur].get("parent")
        return True
    def qname(i):
        parts, cur = [], i
        while cur is not None:
            parts.append(str(cur) if models[cur].get("named", True) else "?")
            cur = models[cur].get("parent")
        return ".".join(reversed(parts))
    seen_init = set()
    for j, (res, t, es) in enumerate(obs):
        for e in es:
            f = e.split(":")
            if f[0] == "I":
                m = int(f[1])
                if j != 0:
                    return "model %d initialised during command %d, not during SimInit::init" % (m, j - 1)
                if m in seen_init:
                    return "model %d initialised twice" % m
                seen_init.add(m)
            elif f[0] == "N":
                m = int(f[1])
                if f[2] != qname(m):
                    return "model %d sees the name '%s' in its context, expected '%s'" % (m, f[2], qname(m))
            elif f[0] in ("H", "P"):
                if int(f[1]) not in seen_init:
                    return "model %s handled %s before its init" % (f[1], e)
    if kind(obs[0][0]) not in ("panic", "norecip"):
        for i in range(len(models)):
            if is_added(i) and i not in seen_init:
                return "added model %d (%s) was never initialised" % (i, qname(i))
    return None


def o_attribution(case, obs):
    """C11/C16: a Panic names the model whose script panics (codes are unique per model in the fault
    benches) by its qualified name parent.child; NoRecipient names a model that sends to a dropped
    mailbox, or none for a source action."""
    models = case["models"]
    def qname(i):
        parts, cur = [], i
        while cur is not None:
            parts.append(str(cur) if models[cur].get("named", True) else "?")
            cur = models[cur].get("parent")
        return ".".join(reversed(parts))
    for j, (res, t, es) in enumerate(obs):
        k = kind(res)
        if k == "panic":
            _, name, code = res.split(":")
            owners = [i for i, m in enumerate(models)
                      for sc in (m.get("handlers", []) + [m.get("init", [])] + [r[0] for r in m.get("repliers", [])])
                      for op in sc if op[0] == "pan" and str(op[1]) == code]
            if owners and name not in [qname(i) for i in owners]:
                return "cmd %d: Panic attributed to '%s', but payload %s is raised by model %s" % (j - 1, name, code, [qname(i) for i in owners])
        elif k == "norecip":
            name = res.split(":", 1)[1]
            dropped = set(i for i, m in enumerate(models) if m.get("place", 0) == 2)
            senders = [qname(i) for i, m in enumerate(models)
                       if any(c[2][0] == "m" and c[2][1] in dropped for cs in m.get("outs", []) for c in cs)
                       or any(q[2] in dropped for qs in m.get("reqs", []) for q in qs)]
            src = any(c[2][0] == "m" and c[2][1] in dropped for cs in case.get("sources", []) for c in cs)
            if name == "-":
                if not src:
                    return "cmd %d: NoRecipient without a sender name although no source action targets a dropped mailbox" % (j - 1)
            elif name not in senders:
                return "cmd %d: NoRecipient attributed to '%s'; models sending to a dropped mailbox: %s" % (j - 1, name, senders)
    return None


def o_query_replies(case, obs):
    """C14: every query yields exactly one reply per connected replier whose filter accepts the request,
    computed by that replier from its mapped request (request + qadd, + the replier's constant, + the
    reply map), in connection order."""
    from collections import defaultdict
    exp, got = defaultdict(list), defaultdict(list)
    models = case["models"]
    for (res, t, es) in obs:
        for e in es:
            f = e.split(":")
            if f[0] in ("H", "P", "I"):
                m = int(f[1])
                sp = models[m]
                if f[0] == "H":
                    hs = sp.get("handlers", []); idx = int(f[2]); script = hs[idx] if idx < len(hs) else []; v = int(f[3])
                elif f[0] == "P":
                    rs = sp.get("repliers", []); idx = int(f[2]); script = rs[idx][0] if idx < len(rs) else []; v = int(f[3])
                else:
                    script = sp.get("init", []); v = 0
                for op in script:
                    if op[0] == "qry":
                        x = ev(op[2], v)
                        reqs = sp.get("reqs", [])
                        reps = []
                        for (k, add, mm, rep, radd) in (reqs[op[1]] if op[1] < len(reqs) else []):
                            if keep_ok(k, x):
                                rr = models[mm].get("repliers", [])
                                c = rr[rep][1] if rep < len(rr) else 0
                                reps.append(x + add + c + radd)
                        if reps:
                            exp[m].append(reps)
            elif f[0] == "Y":
                got[int(f[1])].append([int(x) for x in f[2].split(",")] if f[2] else [])
    ff = first_fatal(obs)
    for m in set(exp) | set(got):
        e, g = exp[m], got[m]
        if ff is None:
            if e != g:
                return "model %d: query replies %s, expected %s" % (m, g[:6], e[:6])
        else:
            if g != e[:len(g)]:
                return "model %d: query replies %s are not a prefix of the expected %s" % (m, g[:6], e[:6])
    return None


def o_triangle(case, obs):
    """C02 (benches of simgen.gen_triangle): A sends v to B, then v+1 to C; C, processing it, sends
    v+1001 to B: B must process v before v+1001, for every root v."""
    seq = []
    for (res, t, es) in obs:
        for e in es:
            f = e.split(":")
            if f[0] == "H" and int(f[1]) == 1:
                seq.append(int(f[3]))
    pos = {}
    for i, v in enumerate(seq):
        pos.setdefault(v, i)
    for v in case.get("meta", {}).get("roots", []):
        if v in pos and v + 1001 in pos and pos[v] > pos[v + 1001]:
            return "model B processed %d (sent by C while handling A's later message) before %d (sent earlier by A): order at B %s" % (v + 1001, v, seq[:12])
        # same-sender program order: A's first-port messages arrive in sending order
    a_vals = [v for v in seq if v in set(case.get("meta", {}).get("roots", []))]
    roots_in_order = [v for v in case.get("meta", {}).get("roots", []) if v in set(a_vals)]
    if case.get("meta", {}).get("sequential_roots") and a_vals != roots_in_order:
        return "messages sent to B by one sender in the order %s were processed in the order %s" % (roots_in_order, a_vals)
    return None


def o_burst_order(case, obs):
    """C07, origin = a model (benches of simgen.gen_multi_origin): the events that one handler invocation
    scheduled for the same time and the same target (payloads base+100, base+200, ...) are processed in
    that order, whatever the other origins do at that time."""
    bases = case.get("meta", {}).get("bases", {})
    for mi, b in bases.items():
        seq = []
        for res, t, es in obs[1:]:
            for e in es:
                f = e.split(":")
                if f[0] == "H" and int(f[1]) == mi and int(f[2]) == 0 and (int(f[3]) - b) % 100 == 0 and 0 < int(f[3]) - b <= 500:
                    seq.append((int(f[3]) - b) // 100)
        n = len(case["models"][mi]["handlers"][1])
        if seq and seq != sorted(seq):
            return "model %d processed the burst scheduled by one handler invocation in order %s (scheduling order is 1..%d)" % (mi, seq, n)
        if seq and sorted(seq) != list(range(1, n + 1)) and all(kind(o[0]) == "ok" for o in obs):
            return "model %d processed burst elements %s, scheduled 1..%d" % (mi, seq, n)
    return None


def o_clock_probe(case, obs):
    """A request for an event AT the deadline of the step in progress, issued through a Scheduler handle
    while that step waits in Clock::synchronize (entries Z:<code>:<time published?>), must be refused
    with InvalidScheduledTime: the step's time is no longer in the future."""
    for i, (res, t, ents) in enumerate(obs):
        for e in ents:
            if e.startswith("Z:") and e.split(":")[1] != "1":
                return "cmd %d: a scheduling request at the deadline of the step in progress, made during Clock::synchronize, was answered with code %s (0 = accepted)" % (i, e.split(":")[1])
    return None


def o_nonfatal(case, obs):
    """C11: a query to a mailbox that was dropped is a BadQuery, an event to it is accepted and lost
    silently; neither is a fatal error: the simulation stays usable (the next run attempt does not
    return Terminated because of it)."""
    models = case["models"]
    def dropped(m):
        cur = m
        while cur is not None and cur < len(models):
            if models[cur].get("place", 0) == 2:
                return True
            cur = models[cur].get("parent")
        return False
    if kind(obs[0][0]) in FATAL:
        return None
    dead = False
    for j, c in enumerate(case["cmds"]):
        res, t, es = obs[j + 1]
        if res == "noinit":
            return None
        if not dead and c[0] == "pq" and dropped(c[1]) and res != "badq":
            return "cmd %d: process_query to the dropped mailbox of model %d returned %s, not BadQuery" % (j, c[1], res)
        if not dead and c[0] == "pe" and dropped(c[1]) and res != "ok":
            return "cmd %d: process_event to the dropped mailbox of model %d returned %s, not Ok" % (j, c[1], res)
        if kind(res) in FATAL:
            dead = True
    return None


def o_inflight_failure(case, obs):
    """C11 (family gen_panic_inflight): the handler of model 0 panics / sends to a dropped mailbox after having
    sent to live models: the call must report that failure, whatever is still queued."""
    if "inflight" not in case.get("tags", ()):
        return None
    want = "panic:0:" if "panic" in case["tags"] else "norecip:0"
    for j, c in enumerate(case["cmds"]):
        if c[0] == "pe" and c[1] == 0 and c[2] == 0:
            res = obs[j + 1][0]
            if res == "noinit":
                return None
            if not res.startswith(want):
                return "cmd %d: model 0 %s after sending to live models; the call returned %s instead of %s..." % (
                    j, "panics" if "panic" in case["tags"] else "sends to a dropped mailbox", res, want)
            return None
    return None


def o_model_periodic(case, obs):
    """C10 (family gen_periodic_model): each periodic series armed by the model on itself fires exactly once at
    first + k*period for every such time up to the time reached, in that order, whatever the partition."""
    series = case.get("meta", {}).get("series")
    if not series:
        return None
    if any(kind(o[0]) in FATAL or o[0] == "noinit" for o in obs):
        return None
    t_end = obs[-1][1]
    got = {}
    for j, (res, t, es) in enumerate(obs):
        for e in es:
            f = e.split(":")
            if f[0] == "H" and int(f[2]) in (0, 1):
                got.setdefault((int(f[2]), int(f[3])), []).append((int(f[4]), j, t))
    for inp, pay, d, p in series:
        want = list(range(d, t_end + 1, p))
        have = [x[0] for x in got.get((inp, pay), [])]
        if have != want:
            return "periodic series (input %d, payload %d, first %d, period %d) fired at %s up to time %d, expected %s" % (inp, pay, d, p, have[:30], t_end, want[:30])
        for (tt, j, tcmd) in got.get((inp, pay), []):
            if tt > tcmd:
                return "occurrence at %d of series (input %d) ran in a command that ended at time %d" % (tt, inp, tcmd)
    # every occurrence due at or before the time a command ends has run when that command returns
    fired_by = {}
    for j, (res, t, es) in enumerate(obs):
        for e in es:
            f = e.split(":")
            if f[0] == "H" and int(f[2]) in (0, 1):
                fired_by.setdefault((int(f[2]), int(f[3]), int(f[4])), j)
    for j, (res, t, es) in enumerate(obs):
        if j == 0 or case["cmds"][j - 1][0] not in ("st", "su"):
            continue
        for inp, pay, d, p in series:
            for tt in range(d, t + 1, p):
                if fired_by.get((inp, pay, tt), 10**9) > j:
                    return "cmd %d returned at time %d before the occurrence at %d of the series (input %d, period %d) had run" % (j - 1, t, tt, inp, p)
    return None


def o_rearm_order(case, obs):
    """C07 (family gen_periodic_rearm): at every time where an occurrence of the periodic series (input 1) and the
    one-shot scheduled by the previous occurrence (input 0) are both due, the occurrence runs first: it was re-armed
    when the previous occurrence was pulled, before that occurrence's handler scheduled the one-shot."""
    if "rearm" not in case.get("tags", ()):
        return None
    by_time = {}
    for j, (res, t, es) in enumerate(obs):
        for e in es:
            f = e.split(":")
            if f[0] == "H" and int(f[2]) in (0, 1):
                by_time.setdefault(int(f[4]), []).append(int(f[2]))
    for t, inputs in sorted(by_time.items()):
        if 0 in inputs and 1 in inputs and inputs.index(0) < inputs.index(1):
            return "at time %d the one-shot scheduled by the previous occurrence ran before the periodic occurrence due at the same time (inputs in order: %s)" % (t, inputs)
    return None


def o_timeout(c, obs):
    """C11: the call that runs the overrunning handler returns Timeout; afterwards every attempt to run the simulation
    returns Terminated, runs no model code and leaves the time where it was."""
    if "timeout" not in c.get("tags", ()):
        return None
    fired, tfail = None, None
    for j, cm in enumerate(c["cmds"]):
        if j + 1 >= len(obs):
            return "no observation for command %d (%s)" % (j, cm[0])
        res, t, ents = obs[j + 1]
        kind = res.split(":")[0]
        if fired is not None:
            if cm[0] in ("st", "su", "pe", "pq", "ps"):
                if kind != "term":
                    return "command %d (%s) after the Timeout of command %d returned %s, not Terminated" % (j, cm[0], fired, res)
                if any(e.split(":")[0] in ("H", "P", "I") for e in ents):
                    return "model code ran in command %d, after the Timeout of command %d: %s" % (j, fired, " ".join(ents))
                if t != tfail:
                    return "the time moved from %s to %s in command %d, after the Timeout of command %d" % (tfail, t, j, fired)
            continue
        if kind == "timeout":
            fired, tfail = j, t
        elif j == c["slow_cmd"]:
            return "the call running a handler that overruns the 1 s timeout by 4 s returned %s, not Timeout" % res
    return None


def o_sink_closure(case, obs):
    """C03/C04: what a sink holds is what was sent to it.  For every EventBuffer sink that is never closed and
    never overflows, at each read the multiset of values read so far equals the multiset of values the
    invocations observed so far wrote to it through accepting connections (after map / filter_map), over
    the prefix of commands that returned without a fatal error."""
    from collections import Counter
    sinks = case.get("sinks", [])
    if not sinks or any(c[0] == "so" for c in case["cmds"]):
        return None
    ff = first_fatal(obs)
    upto = len(obs) if ff is None else ff
    exp = [Counter() for _ in sinks]
    got = [Counter() for _ in sinks]
    def add_children(kind_, m, idx, v):
        for ch in children(case, kind_, m, idx, v):
            if ch[0] == "S" and ch[1] < len(sinks):
                exp[ch[1]][ch[2]] += 1
    for j in range(upto):
        res, t, es = obs[j]
        for e in es:
            f = e.split(":")
            if f[0] in ("H", "P"):
                add_children(f[0], int(f[1]), int(f[2]), int(f[3]))
            elif f[0] == "I":
                add_children("I", int(f[1]), 0, 0)
        if j >= 1:
            c = case["cmds"][j - 1]
            if c[0] == "rs" and res.startswith("sink:") and "overflowed" not in res:
                k = c[1]
                if k < len(sinks) and sinks[k][0] == "buf":
                    for x in res[5:].split(","):
                        if x:
                            got[k][int(x)] += 1
                    if sum(exp[k].values()) <= sinks[k][1] and got[k] != exp[k]:
                        missing = list((exp[k] - got[k]).elements())[:6]
                        extra = list((got[k] - exp[k]).elements())[:6]
                        return "cmd %d: sink %d: written-but-not-in-the-sink %s, in-the-sink-but-never-written %s" % (j - 1, k, missing, extra)
    return None


def o_norecip_broadcast(c, obs):
    """C11 (family norecip-broadcast): the call in which the emitter (model 0, input 0) broadcasts to a dropped
    mailbox and to live models with full mailboxes must fail with NoRecipient naming the emitter."""
    if "norecip-broadcast" not in c.get("tags", ()):
        return None
    for j, (res, t, ents) in enumerate(obs):
        if any(e.startswith("H:0:0:") for e in ents):
            if res != "norecip:0":
                return "cmd %d: the emitter sent to a dropped mailbox (in a broadcast whose other recipients were full) but the call returned %s, not NoRecipient(m0)" % (j - 1, res)
            return None
    return None


def o_norecip_query(c, obs):
    """C11 (fault norecip_query): the call in which model 0 (input 3) sends a query to a dropped mailbox through a
    single-connection requestor port must fail with NoRecipient naming model 0."""
    if "norecip_query" not in c.get("tags", ()):
        return None
    for j, (res, t, ents) in enumerate(obs):
        if any(e.startswith("H:0:3:") for e in ents):
            if res != "norecip:0":
                return "cmd %d: model 0 queried a dropped mailbox but the call returned %s, not NoRecipient(m0)" % (j - 1, res)
            return None
    return None
