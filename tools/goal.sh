#!/bin/bash
# usage: goal.sh <file.v> <line>  -- shows the goals after executing the first <line> lines
f=$1; n=$2
d=$(dirname $f); b=$(basename $f .v)
tmp=$d/_goal_$b.v
head -n $n $f > $tmp
echo "Show. " >> $tmp
cd /verif/coq && timeout 120 coqc -Q . NX $tmp 2>&1 | grep -v "^File\|Error: There are pending\|^$" | head -${3:-60}
rm -f $d/_goal_$b.* $d/._goal_$b.aux
