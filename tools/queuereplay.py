"""Translation validation of the concurrent queue model (coq/Model/QueueConc.v): every trace of the
real channel/queue.rs (verbatim mirror under the deterministic scheduler, harness/atomh qscen.rs
`qc`) is turned into the sequence of model steps - one per shared-memory access of the code, in
trace order - and the extracted model is run on it (ocaml/driver.ml `qcr`); after every step the
model's enqueue position, closed flag, dequeue position and the stamp of the slot touched must be
the decoded values the code wrote, and at the end the outcomes of all pushes and pops, the order of
acceptance and the values delivered must agree."""
import vlib


def decode_pos(w, cap):
    M = 1
    while M < cap:
        M *= 2
    return (w // (2 * M)) * cap + (w & (M - 1)), bool(w & M)


def decode_stamp(w, cap, idx):
    M = 1
    while M < cap:
        M *= 2
    lap, r = w // (2 * M), w % (2 * M)
    if r == idx:
        return 2 * (lap * cap + idx)
    if r == idx + 1:
        return 2 * (lap * cap + idx) + 1
    return None


def map_trace(case, out):
    """-> (model line, expectations) or (None, reason)"""
    w = case.split()
    cap, nprod, per, npops = int(w[1]), int(w[2]), int(w[3]), int(w[4])
    parts = out.split("|", 1)
    if len(parts) < 2:
        return None, "no trace"
    trace = [e.strip() for e in parts[1].split(";") if e.strip()]
    cons_t = "t%d" % nprod
    M = 1
    while M < cap:
        M *= 2
    L_enq = L_deq = None
    slot_of = {}                 # location -> slot index
    cur_pos = {}                 # thread -> last position word it holds (for the slot index)
    attempts = {p: [] for p in range(nprod)}
    outcomes = {p: [] for p in range(nprod)}
    couts, popped = [], []
    events, expect = [], []      # model events "t:b", expectations per event (enq, closed, deq, (idx, stamp) or None)
    enq_w = deq_w = 0
    for ev in trace:
        f = ev.split()
        t = f[0]
        tid = int(t[1:])
        if f[1] == "ghost":
            g = f[2]
            if g.startswith("push-"):
                attempts[tid].append(f[3]); outcomes[tid].append(g[5:])
            elif g == "pop":
                couts.append("v" + f[3]); popped.append(f[3])
            elif g == "pop-empty":
                couts.append("empty")
            elif g == "pop-closed":
                couts.append("closed")
            continue
        is_cons = t == cons_t
        mt = 0 if is_cons else tid + 2
        if f[1] in ("cellW", "cellR"):
            events.append("%d:0" % mt); expect.append(None)
            continue
        if f[1] == "fence" or len(f) < 6:
            return None, "unexpected event %r" % ev
        kind, loc, rd, wr = f[1], f[3], int(f[4]), int(f[5])
        # identify the two position words by their first use
        if loc not in slot_of and loc != L_enq and loc != L_deq:
            if kind == "load" and f[2] == "rlx" and not is_cons and L_enq is None:
                L_enq = loc
            elif kind == "load" and f[2] == "rlx" and is_cons and L_deq is None and loc != L_enq:
                L_deq = loc
            elif kind == "load" and f[2] == "rlx" and is_cons and L_deq is not None and L_enq is None:
                L_enq = loc          # the consumer's empty/closed test reads enqueue_pos
            elif kind == "fetch_or" and L_enq is None:
                L_enq = loc
            elif f[2] in ("acq",) and kind == "load":
                if t not in cur_pos:
                    return None, "stamp load before a position load: %r" % ev
                slot_of[loc] = cur_pos[t] & (M - 1)
            else:
                return None, "cannot attribute location in %r" % ev
        if kind == "fetch_or":
            events.append("1:0"); enq_w = wr
            expect.append(("g", decode_pos(enq_w, cap), decode_pos(deq_w, cap)[0], None))
            continue
        if loc == L_enq:
            failed = kind == "cas" and rd == wr
            if kind == "cas" and not failed:
                enq_w = wr
            if kind in ("load",) or failed:
                cur_pos[t] = rd
            elif kind == "cas":
                pass
            events.append("%d:%d" % (mt, 1 if failed else 0))
            expect.append(("g", decode_pos(enq_w, cap), decode_pos(deq_w, cap)[0], None))
            continue
        if loc == L_deq:
            if kind == "store":
                deq_w = wr
            else:
                cur_pos[t] = rd
            events.append("%d:0" % mt)
            expect.append(("g", decode_pos(enq_w, cap), decode_pos(deq_w, cap)[0], None))
            continue
        idx = slot_of[loc]
        st = decode_stamp(wr, cap, idx)
        if st is None:
            return None, "stamp %d of slot %d does not decode (capacity %d)" % (wr, idx, cap)
        events.append("%d:0" % mt)
        expect.append(("g", decode_pos(enq_w, cap), decode_pos(deq_w, cap)[0], (idx, st)))
    line = "qcr %d %s C %d E %s" % (cap, " ".join("P " + (",".join(attempts[p]) or ",") for p in range(nprod)), npops, " ".join(events))
    return line, {"expect": expect, "outcomes": outcomes, "couts": couts, "popped": popped, "nprod": nprod}


def replay(cases, outs):
    lines, metas, skipped = [], [], []
    for c, o in zip(cases, outs):
        if not o.startswith("OK |"):
            continue
        line, meta = map_trace(c, o)
        if line is None:
            skipped.append({"case": c, "why": meta})
            continue
        lines.append(line); metas.append((c, o, meta))
    res = vlib.run_model(lines) if lines else []
    bad, nsteps = [], 0
    for (c, o, meta), r in zip(metas, res):
        f = [x.strip() for x in r.split("|")]
        why = None
        if len(f) != 7:
            why = "model runner output malformed: %r" % r[:200]
        else:
            sums = f[0].split()
            nsteps += len(sums)
            if len(sums) != len(meta["expect"]):
                why = "%d model summaries for %d events" % (len(sums), len(meta["expect"]))
            for i, (sm, e) in enumerate(zip(sums, meta["expect"])):
                if why:
                    break
                if sm == "X":
                    why = "step %d is not enabled in the model" % i
                    break
                if e is None:
                    continue
                g, stamps = sm.split("/")
                enq, clo, deq = [int(x) for x in g.split(",")]
                (eenq, eclo), edeq, es = e[1], e[2], e[3]
                if (enq, bool(clo), deq) != (eenq, eclo, edeq):
                    why = "after step %d the model has (enq, closed, deq) = %s, the code %s" % (i, (enq, bool(clo), deq), (eenq, eclo, edeq))
                elif es is not None and int(stamps.split(",")[es[0]]) != es[1]:
                    why = "after step %d the model's stamp of slot %d is %s, the code wrote %d" % (i, es[0], stamps.split(",")[es[0]], es[1])
            if not why:
                pouts = [x.split() for x in f[2].split(";")] if meta["nprod"] else []
                pouts += [[]] * (meta["nprod"] - len(pouts))
                for p in range(meta["nprod"]):
                    if pouts[p] != meta["outcomes"][p]:
                        why = "producer %d: model outcomes %s, code %s" % (p, pouts[p], meta["outcomes"][p])
                if f[3].split() != meta["couts"]:
                    why = why or "consumer: model results %s, code %s" % (f[3].split(), meta["couts"])
                if f[5].split() != meta["popped"]:
                    why = why or "values delivered: model %s, code %s" % (f[5].split(), meta["popped"])
                if f[6] != "0":
                    why = why or "the model reached an unreachable!() arm on a run the code completed"
        if why:
            bad.append({"case": c, "why": why, "model": r[:800], "impl": o[:1500]})
    return len(metas), nsteps, bad, skipped
