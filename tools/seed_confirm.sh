#!/bin/bash
# usage: seed_confirm.sh <Cxx> <n>  -- confirms a sub-agent's seeded change in its scratch worktree /tmp/wt_<Cxx>,
# taking /tmp/seed_out/<Cxx>/out/patch.diff as the change (no git stash: the stash is shared between worktrees).
P=$1; N=${2:-1}; WT=/tmp/wt_$P; OUT=/tmp/seed_out/$P/out; DST=/verif/seeded/$P-$N
cd $WT || exit 2
DEMO=$(grep -v '^\s*$' $OUT/demo_cmd.txt | tail -1)
echo "== demo cmd: $DEMO"
git checkout -q -- nexosim/src
if [ -f $OUT/demo.diff ]; then git apply $OUT/demo.diff || echo "demo.diff does not apply"; fi
echo "== demo without change (must pass)"
( eval "$DEMO" ) > /tmp/seed_out/$P/demo_without.log 2>&1; WO=$?; grep -E "^test result|error" /tmp/seed_out/$P/demo_without.log | tail -3
git apply $OUT/patch.diff || { echo "patch.diff does not apply"; exit 2; }
echo "== suite with change (excluding the demo target)"
cargo test --workspace --offline > /tmp/seed_out/$P/suite_with.log 2>&1
grep -E "^test result|^test .*FAILED|Running" /tmp/seed_out/$P/suite_with.log | grep -B1 -A0 -E "FAILED|failed" | head -20
grep -E "^test result" /tmp/seed_out/$P/suite_with.log | sort | uniq -c
echo "== demo with change (must fail)"
( eval "$DEMO" ) > /tmp/seed_out/$P/demo_with.log 2>&1; W=$?; grep -E "^test result|panicked" /tmp/seed_out/$P/demo_with.log | tail -4
echo "with=$W without=$WO"
if [ $W -ne 0 ] && [ $WO -eq 0 ]; then
  mkdir -p $DST && cp $OUT/patch.diff $OUT/meta.json $DST/ && cp $OUT/demo.* $OUT/demo_cmd.txt $DST/ 2>/dev/null
  echo "CONFIRMED -> $DST"
else echo "NOT CONFIRMED"; fi
