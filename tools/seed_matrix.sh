#!/bin/bash
# Runs every seeded change against the check of its own property (and extra checks given in
# seeded/<id>/also.txt) and records the outcome in seeded/<id>/detected.json.
cd /verif
for d in /verif/seeded/C*/; do
  d=${d%/}; id=$(basename $d); prop=${id%%-*}
  patch=$d/patch.diff
  [ -f $d/patch_ported_to_fixed_tree.diff ] && patch=$d/patch_ported_to_fixed_tree.diff
  checks="$prop"; [ -f $d/also.txt ] && checks="$checks $(cat $d/also.txt)"
  if ! git -C /repo apply --check $patch 2>/dev/null; then echo "$id: patch does not apply"; continue; fi
  git -C /repo apply $patch
  res="{"
  for c in $checks; do
    out=$(timeout 3000 ./check $c --tier quick 2>&1 | grep -E "^VIOLATION" | head -3 | tr '\n' ';')
    res="$res\"$c\": \"${out//\"/}\","
  done
  git -C /repo checkout -- .
  echo "$id: $res"
  python3 - "$d" "$res" <<'PY'
import sys, json, re
d, res = sys.argv[1], sys.argv[2]
pairs = re.findall(r'"(C\d+)": "([^"]*)"', res)
out = {c: {"caught": bool(v.strip()), "concrete_failing_input": bool(v.strip()) and "no-failing-input-found" not in v, "violation_lines": v.strip(";")} for c, v in pairs}
json.dump({"checks_run_with_the_change_applied_to_/repo": out,
           "how": "git -C /repo apply <patch>; ./check <id> --tier quick; git -C /repo checkout -- ."}, open(d + "/detected.json", "w"), indent=1)
PY
done
# leave the harnesses rebuilt for the unchanged tree
python3 -c "import sys; sys.path.insert(0,'tools'); import vlib; vlib.harness_build()"
