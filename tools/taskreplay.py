"""Translation validation of the coarse task model: every trace of the real executor/task.rs
(verbatim mirror under the deterministic scheduler, harness/atomh/src/tscen.rs) is mapped to a
sequence of TaskSM.v operations - one per read-modify-write of the state word, plus the few
operations of the model that have no read-modify-write (TRunStart = the Acquire load, TRunBegin =
entering poll or the cancel path, TPollReady / TPollPanic / TRunnableDrop = the drop of the
future) - and the extracted model is run on it: after each operation the model's decoded state
word must equal the word the real code wrote, no operation may be disabled in the model, and at
the end the model's ghost counters (future drops, output drops, deallocations) must equal the
counts of the real run.  The operation is chosen from the thread's control context (which
function it is in), never from the value written, so the comparison is not circular."""
import vlib

OPS_OWN_SUB = {"droptok": "droptok", "dropp": "dropp"}


def consts():
    c = vlib.gen_consts_values()
    return c


def decode(word, K):
    w = word // K["WAKE_INC"]
    rest = word % K["WAKE_INC"]
    r = rest // K["REF_INC"]
    return (w, r, 1 if word & K["CLOSED"] else 0, 1 if word & K["POLLING"] else 0)


class Th:
    def __init__(self):
        self.op = None
        self.phase = None       # run-phase of this thread's Runnable::run / drop
        self.inpoll = False
        self.temp = 0           # temporary waker clones to be dropped by this thread
        self.cancel_pending = False
        self.own_sub_done = False
        self.after_dropfut = False


def map_trace(kind, trace, K):
    """returns (ops, expected) where expected[i] is the decoded real state after ops[i], plus
    the real ghost counts (future drops, output drops, deallocations) and a list of events that the
    mapper could not attribute"""
    init = (1, 2, 0, 1) if kind == "p" else (1, 1, 0, 1)
    cur = init
    ths = {}
    ops, exp, unknown = [], [], []
    counts = {"drop-future": 0, "drop-output": 0, "dealloc": 0}

    def emit(o):
        ops.append(o)
        exp.append(cur)

    for ev in trace:
        f = ev.split()
        if len(f) < 2:
            continue
        t = f[0]
        th = ths.setdefault(t, Th())
        k = f[1]
        if k == "ghost":
            g = f[2]
            if g.startswith("op:"):
                th.op = g[3:]
                th.phase = None
                th.cancel_pending = False
                th.own_sub_done = False
                th.after_dropfut = False
                th.temp = 0
            elif g == "poll-begin":
                emit("begin")
                th.phase = "inpoll"
                th.inpoll = True
            elif g == "poll-end":
                th.phase = "polled"
                th.inpoll = False
            elif g == "poll-panic":
                th.phase = "panicking"
                th.inpoll = False
            elif g == "drop-runnable":
                th.phase = "droppingr"
            elif g == "drop-future":
                counts[g] += 1
                th.after_dropfut = True
                if th.phase == "loaded":
                    emit("begin")            # CLOSED seen: the cancel path
                    th.phase = "canceldrop"
                elif th.phase == "polled":
                    emit("ready")
                    th.phase = "readystored"
                elif th.phase == "panicking":
                    emit("panic")
                    th.phase = "canceldrop"
                elif th.phase == "droppingr":
                    emit("dropr")
                    th.phase = "canceldrop"
                # otherwise: part of the operation whose read-modify-write came first
            elif g == "drop-output":
                counts[g] += 1
                if th.phase == "readystored":
                    emit("rupd")             # the fetch_update refused: output dropped
                    th.phase = "readyfail"
            elif g == "dealloc":
                counts[g] += 1
            elif g.startswith("promise-"):
                if g != "promise-ready":
                    emit("pollp")
            continue
        if k in ("fence", "cellW", "cellR", "lock", "unlock"):
            continue
        # atomic: t kind ord Lx rd wr
        if len(f) < 6 or not f[3].startswith("L"):
            unknown.append(ev)
            continue
        ord_, rd, wr = f[2], int(f[4]), int(f[5])
        if k == "load":
            cur = decode(rd, K)
            if ord_ == "acq" and th.op == "run" and th.phase is None:
                emit("start")
                th.phase = "loaded"
            continue
        if k == "cas" and rd == wr:
            # a failed compare-exchange (logged with the value found) - nothing happens
            cur = decode(rd, K)
            continue
        cur = decode(wr, K)
        delta = wr - rd
        if k == "fetch_add" and ord_ == "rlx" and delta == K["REF_INC"]:
            emit("clone")
            if th.op == "wakeref" or (th.after_dropfut and not th.inpoll):
                th.temp += 1
        elif k == "fetch_add" and ord_ == "rel" and delta == K["WAKE_INC"]:
            emit("wakeref")
        elif k == "fetch_add" and ord_ == "rel" and delta == K["WAKE_INC"] - K["REF_INC"]:
            emit("wake")
        elif k == "fetch_sub" and ord_ == "acqrel":
            emit("pending")
            # idle return (wake count back to 0, not closed) or another turn of the loop
            th.phase = "idle" if (cur[0] == 0 and cur[2] == 0) else "loaded"
        elif k == "fetch_sub" and ord_ == "rel" and -delta == K["REF_INC"]:
            if th.temp > 0:
                th.temp -= 1
                emit("dropw")
            elif th.cancel_pending:
                th.cancel_pending = False
                emit("cancelfin")
            elif th.op in OPS_OWN_SUB and not th.own_sub_done:
                th.own_sub_done = True
                emit(OPS_OWN_SUB[th.op])
            else:
                emit("dropw")
        elif k == "fetch_and" and ord_ == "rel":
            emit("rfin")
            th.phase = "idle"
        elif k == "cas" and ord_ == "rel":
            if th.phase == "readystored":
                emit("rupd")
                th.phase = "idle"
            elif th.phase == "canceldrop":
                emit("cclose")
                th.phase = "idle"
            else:
                unknown.append(ev)
        elif k == "cas" and ord_ == "acqrel":
            emit("cancel")
            if not th.inpoll:
                th.cancel_pending = True
        elif k == "cas" and ord_ == "acq":
            emit("pollp")
        else:
            unknown.append(ev)
    return ops, exp, counts, unknown


def parse(case, out):
    """(kind, verdict, trace list)"""
    w = case.split()
    parts = out.split("|", 2)
    trace = [e.strip() for e in parts[2].split(";")] if len(parts) == 3 else []
    return w[1], parts[0].strip(), trace


def replay(cases, outs, K):
    """returns (n_replayed, n_ops, op histogram, list of mismatches)"""
    lines, metas = [], []
    for c, o in zip(cases, outs):
        kind, verdict, trace = parse(c, o)
        if not trace:
            continue
        ops, exp, counts, unknown = map_trace(kind, trace, K)
        if not ops:
            continue
        lines.append("tsr %s %s" % (kind, " ".join(ops)))
        metas.append((c, o, ops, exp, counts, unknown, verdict))
    res = vlib.run_model(lines) if lines else []
    hist, bad, nops = {}, [], 0
    for (c, o, ops, exp, counts, unknown, verdict), r in zip(metas, res):
        nops += len(ops)
        for x in ops:
            hist[x] = hist.get(x, 0) + 1
        toks = r.split()
        why = None
        if unknown:
            why = "unattributed event %r" % unknown[0]
        elif len(toks) != len(ops):
            why = "model runner output malformed: %r" % r[:200]
        else:
            for i, (tk, e) in enumerate(zip(toks, exp)):
                if tk == "X":
                    why = "operation %d (%s) is not enabled in the model" % (i, ops[i])
                    break
                m = tuple(int(x) for x in tk.split(","))
                if m[:4] != e:
                    why = "after operation %d (%s) the model's state word (wake,refs,closed,polling)=%s, the code wrote %s" % (i, ops[i], m[:4], e)
                    break
            if why is None and verdict == "OK":
                m = tuple(int(x) for x in toks[-1].split(","))
                real = (counts["drop-future"], counts["drop-output"], counts["dealloc"])
                if m[4:7] != real:
                    why = "at the end of the run the model counts (future drops, output drops, deallocations)=%s, the code %s" % (m[4:7], real)
                elif m[7] != 0:
                    why = "the model flags a bad access (badpoll+badrun+badfree=%d) on a run the code completed cleanly" % m[7]
        if why:
            bad.append({"case": c, "ops": " ".join(ops), "why": why, "model": r[:600], "impl": o[:1500]})
    return len(metas), nops, hist, bad
