#!/usr/bin/env python3
"""T1 translator: reads the constants and literal layouts the Coq models depend
on out of /repo's current Rust sources and writes coq/gen/Consts.v.

It evaluates only integer literals, names of previously evaluated constants,
`u32::MAX`/`u64::MAX`/`usize::MAX`, `as <int type>` casts, parentheses and the
operators  << >> | & ! - + * /  over u64.  Anything else is refused (exit 2):
a refusal is reported by the checks as a broken tie, never ignored."""
import re, sys, os

REPO = os.environ.get("NX_REPO", "/repo")
SRC = os.path.join(REPO, "nexosim/src")
M64 = (1 << 64) - 1

class Refuse(Exception):
    pass

TOK = re.compile(r"\s*(?:(0x[0-9a-fA-F_]+|[0-9][0-9_]*)(?:u64|u32|usize)?|([A-Za-z_][A-Za-z_0-9]*(?:::[A-Za-z_][A-Za-z_0-9]*)*)|(<<|>>|[|&!\-+*/()]))")

def tokenize(s):
    pos, out = 0, []
    s = s.strip()
    while pos < len(s):
        m = TOK.match(s, pos)
        if not m:
            raise Refuse("cannot tokenize %r at %d" % (s, pos))
        pos = m.end()
        if m.group(1) is not None:
            out.append(("num", int(m.group(1).replace("_", ""), 0)))
        elif m.group(2) is not None:
            out.append(("id", m.group(2)))
        else:
            out.append(("op", m.group(3)))
    return out

class Parser:
    # precedence (Rust): unary ! -  >  as  >  * /  >  + -  >  << >>  >  &  >  |
    def __init__(self, toks, env, width):
        self.t, self.i, self.env, self.mask = toks, 0, env, (1 << width) - 1
    def peek(self):
        return self.t[self.i] if self.i < len(self.t) else (None, None)
    def eat(self, kind=None, val=None):
        k, v = self.peek()
        if (kind and k != kind) or (val and v != val):
            raise Refuse("unexpected token %r" % (v,))
        self.i += 1
        return v
    def parse(self):
        v = self.p_or()
        if self.i != len(self.t):
            raise Refuse("trailing tokens")
        return v
    def p_or(self):
        v = self.p_and()
        while self.peek() == ("op", "|"):
            self.eat(); v |= self.p_and()
        return v
    def p_and(self):
        v = self.p_shift()
        while self.peek() == ("op", "&"):
            self.eat(); v &= self.p_shift()
        return v
    def p_shift(self):
        v = self.p_add()
        while self.peek() in (("op", "<<"), ("op", ">>")):
            op = self.eat(); r = self.p_add()
            v = (v << r) & self.mask if op == "<<" else v >> r
        return v
    def p_add(self):
        v = self.p_mul()
        while self.peek() in (("op", "+"), ("op", "-")):
            op = self.eat(); r = self.p_mul()
            v = v + r if op == "+" else v - r
            if v < 0 or v > self.mask:
                raise Refuse("overflow in constant expression")
        return v
    def p_mul(self):
        v = self.p_cast()
        while self.peek() in (("op", "*"), ("op", "/")):
            op = self.eat(); r = self.p_cast()
            v = v * r if op == "*" else v // r
            if v > self.mask:
                raise Refuse("overflow in constant expression")
        return v
    def p_cast(self):
        v = self.p_unary()
        while self.peek() == ("id", "as"):
            self.eat(); ty = self.eat("id")
            if ty not in ("u64", "u32", "usize"):
                raise Refuse("cast to %s" % ty)
            if ty == "u32":
                v &= 0xFFFFFFFF
        return v
    def p_unary(self):
        k, v = self.peek()
        if (k, v) == ("op", "!"):
            self.eat(); return (~self.p_unary()) & self.mask
        if (k, v) == ("op", "("):
            self.eat(); r = self.p_or(); self.eat("op", ")"); return r
        if k == "num":
            self.eat(); return v
        if k == "id":
            self.eat()
            if v == "u32::MAX": return 0xFFFFFFFF
            if v in ("u64::MAX", "usize::MAX"): return M64
            if v in self.env: return self.env[v]
            raise Refuse("unknown name %s" % v)
        raise Refuse("unexpected token %r" % (v,))

def consts_of(path, names, env=None, prefix=""):
    """Evaluates `const NAME: ty = expr;` items of a file, in source order."""
    text = open(os.path.join(SRC, path)).read()
    env = dict(env or {})
    out = []
    for name in names:
        m = re.search(r"const\s+%s\s*:\s*(u64|u32|usize)\s*=\s*([^;]+);" % re.escape(name), text)
        if not m:
            raise Refuse("%s: constant %s not found" % (path, name))
        width = 32 if m.group(1) == "u32" else 64
        val = Parser(tokenize(m.group(2)), env, width).parse()
        env[name] = val
        out.append((prefix + name, val, path, " ".join(m.group(2).split())))
    return out, env

def expr_after(path, pattern, env, label, occurrence=0):
    text = open(os.path.join(SRC, path)).read()
    ms = list(re.finditer(pattern, text))
    if len(ms) <= occurrence:
        raise Refuse("%s: pattern for %s not found" % (path, label))
    e = ms[occurrence].group(1)
    return (label, Parser(tokenize(e), env, 64).parse(), path, " ".join(e.split()))

def main(outpath):
    items = []
    task, tenv = consts_of("executor/task.rs",
        ["POLLING", "CLOSED", "REF_INC", "WAKE_INC", "REF_MASK", "WAKE_MASK", "REF_CRITICAL", "WAKE_CRITICAL"],
        prefix="TASK_")
    items += task
    # initial task states written by spawn / spawn_and_forget
    items.append(expr_after("executor/task.rs", r"state:\s*AtomicU64::new\(([^;]*?)\),\s*\n", tenv, "TASK_INIT_SPAWN", 0))
    items.append(expr_after("executor/task.rs", r"state:\s*AtomicU64::new\(([^;]*?)\),\s*\n", tenv, "TASK_INIT_SPAWN_FORGET", 1))
    ts, _ = consts_of("util/task_set.rs",
        ["SLEEPING", "EMPTY", "INDEX_MASK", "COUNTDOWN_MASK", "COUNTDOWN_ONE"], prefix="TS_")
    items += ts
    sch, _ = consts_of("simulation/scheduler.rs", ["GLOBAL_SCHEDULER_ORIGIN_ID"], prefix="SCHED_")
    items += sch
    mb, _ = consts_of("simulation/mailbox.rs", ["DEFAULT_CAPACITY"], prefix="MAILBOX_")
    items += mb
    eb, _ = consts_of("ports/sink/event_buffer.rs", ["DEFAULT_CAPACITY"], prefix="EVENTBUFFER_")
    items += eb
    # shape of the tearable time cell (time/monotonic_time.rs uses std atomics directly and cannot be
    # mirrored): secs then nanos, all Relaxed, for both the load and the store
    mt = open(os.path.join(SRC, "time/monotonic_time.rs")).read()
    import re as _re
    m1 = _re.search(r"fn tearable_load\(&self\)[^{]*\{(.*?)\n    \}", mt, _re.S)
    m2 = _re.search(r"fn tearable_store\(&self,[^{]*\{(.*?)\n    \}", mt, _re.S)
    if not m1 or not m2:
        raise Refuse("time/monotonic_time.rs: tearable_load/tearable_store not found")
    ld = _re.findall(r"self\.(secs|nanos)\.load\(Ordering::(\w+)\)", m1.group(1))
    st = _re.findall(r"self\.(secs|nanos)\.store\([^;]*?Ordering::(\w+)\)", m2.group(1))
    if ld != [("secs", "Relaxed"), ("nanos", "Relaxed")] or st != [("secs", "Relaxed"), ("nanos", "Relaxed")]:
        raise Refuse("time/monotonic_time.rs: tearable load/store shape changed: %r %r" % (ld, st))
    items.append(("MT_TEARABLE_HALVES", 2, "time/monotonic_time.rs", "secs then nanos, Relaxed loads/stores"))
    lines = ["(* GENERATED by tools/gen_consts.py from %s -- do not edit. *)" % SRC,
             "From Coq Require Import NArith.", "Open Scope N_scope.", ""]
    for name, val, path, expr in items:
        lines.append("(* %s: %s *)" % (path, expr.replace("*)", "* )")))
        lines.append("Definition %s : N := %d." % (name, val))
    lines.append("")
    text = "\n".join(lines)
    os.makedirs(os.path.dirname(outpath), exist_ok=True)
    old = open(outpath).read() if os.path.exists(outpath) else None
    if old != text:
        open(outpath, "w").write(text)
    return items

if __name__ == "__main__":
    out = sys.argv[1] if len(sys.argv) > 1 else "/verif/coq/gen/Consts.v"
    try:
        for name, val, path, expr in main(out):
            print("%s = %d" % (name, val))
    except Refuse as e:
        print("REFUSED: %s" % e)
        sys.exit(2)
