#!/usr/bin/env python3
"""Writes /verif/MANIFEST.json from the table below (single source of truth for the interface)."""
import json, os
V = os.path.dirname(os.path.dirname(os.path.abspath(__file__)))

CLAIMS = {
 "C20": dict(
    text="Coq theorems: the scheduler queue model (Item::cmp + epoch counter) refines, for every insert/pull/peek sequence, the specification 'first entry among those with the least key' (c20_pq_min_stable, c20_pq_spec_meaning). Model tied to the current source by running the verbatim mirrored priority_queue.rs / indexed_priority_queue.rs and the extracted model on the same operation sequences (exhaustive to a length bound + random + stale-key reuse), plus a reference oracle written from the property text.",
    note="Trusted: Coq kernel, ExtrOcamlBasic extraction, OCaml driver, Python generators; std BinaryHeap modelled as 'pop returns the Ord-maximum'; epoch overflow excluded. IndexedPriorityQueue: see evidence 'parts.ipq' (model/proof status stated there).",
    technique="Coq proof (refinement by invariant over op sequences) + differential op-sequence correspondence against mirrored source",
    ref="DESIGN.md §5 C20, §4.1"),
 "C17": dict(
    text="Coq theorems: EventBuffer refines a log of accepted writes with a monotone read cursor for every capacity >= 1 and every write/read/open/close sequence (c17_buffer, c17_buffer_content, c17_spec_*), EventSlot yields the last accepted write once (c17_slot). Tied to the code by running the real public-API sinks and the extracted model on the same sequences (exhaustive to a bound + random).",
    note="Trusted: Coq kernel, extraction, drivers; std VecDeque/Mutex; concurrent writers to an EventSlot (try_lock contention) outside the statement; c17_output_order (sink order under simulated models) is part of the Net model checks.",
    technique="Coq proof (refinement to log+cursor spec) + differential op-sequence correspondence through the public API",
    ref="DESIGN.md §5 C17, §4.2"),
}

PENDING_REASON = "check not built yet in this snapshot (planned per DESIGN.md section 5/8); not claimed until its check exists"

def main():
    props = [json.loads(l) for l in open(os.path.join(V, "properties.jsonl"))]
    checks, na = [], []
    for p in props:
        pid = p["id"]
        if pid in CLAIMS:
            c = CLAIMS[pid]
            checks.append({
                "property_id": pid,
                "quick_cmd": "./check %s --tier quick" % pid,
                "thorough_cmd": "./check %s --tier thorough" % pid,
                "evidence_file": "/verif/evidence/%s.json" % pid,
                "replay_cmd_template": "./check %s --replay {path}" % pid,
                "engine": "coq+correspondence",
                "level_claimed": {"category": "proof", "text": c["text"], "design_ref": c["ref"]},
                "level_note": c["note"],
                "technique": c["technique"],
            })
        else:
            na.append({"property_id": pid, "reason": NA.get(pid, PENDING_REASON)})
    m = {
        "version": 1,
        "setup_cmd": "./setup.sh",
        "hooks": {
            "guard": "nexosim_verif",
            "enable": "RUSTFLAGS=\"--cfg nexosim_verif\" (set in /verif/harness/.cargo/config.toml for the harness builds)",
            "baseline_off_cmd": "cd /repo && (cargo nextest run --workspace --no-fail-fast --tool-config-file pb:/w/lib/nextest.toml --profile pb --test-threads 8 --offline || cargo test --workspace --no-fail-fast --offline)",
            "source_commits": HOOK_COMMITS,
            "add_only": True,
        },
        "engines": [
            {"name": "coq+correspondence", "path": "/verif/check",
             "serves_properties": sorted(CLAIMS.keys()),
             "kind_free_text": "Coq 8.16 theorems about executable Gallina models (coq/), extracted to OCaml (ocaml/) and run against the implementation (harness/) on the same inputs; T1 translator tools/gen_consts.py regenerates the constant layer from the Rust source"},
        ],
        "checks": checks,
        "notes": "All checks rebuild from /repo's working tree (cargo path dependency + verbatim source mirror). known_findings.json lists recorded/fixed defects.",
        "not_applicable": na,
    }
    json.dump(m, open(os.path.join(V, "MANIFEST.json"), "w"), indent=1)

NA = {}
HOOK_COMMITS = []

if __name__ == "__main__":
    main()
