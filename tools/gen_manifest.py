#!/usr/bin/env python3
"""Writes /verif/MANIFEST.json from the table below (single source of truth for the interface)."""
import json, os
V = os.path.dirname(os.path.dirname(os.path.abspath(__file__)))

CLAIMS = {
 "C20": dict(
    text="Coq theorems: the scheduler queue model (Item::cmp + epoch counter) refines, for every insert/pull/peek sequence, the specification 'first entry among those with the least key' (c20_pq_min_stable, c20_pq_spec_meaning); the keyed queue model - the actual algorithm of indexed_priority_queue.rs: array heap cross-indexed with a slab, free list, epochs, sift_up/sift_down - never fails an indexing operation and refines, for every insert/pull/peek/peek_key/len/extract sequence, the list-with-epochs specification (c20_ipq_refines, by a heap-order + cross-index + free-list + unique-epoch invariant), in which the key of the n-th insertion designates exactly the entry that insertion created, slot re-use included (c20_ipq_key_designates_its_entry, c20_ipq_entries_origin) and pull yields the least key, earliest insertion first (c20_ipq_pull_least_first). Models tied to the current source by running the verbatim mirrored priority_queue.rs / indexed_priority_queue.rs and the extracted model on the same operation sequences (exhaustive to a length bound + random + stale-key reuse), plus a reference oracle written from the property text.",
    note="Trusted: Coq kernel, ExtrOcamlBasic extraction, OCaml driver, Python generators; std BinaryHeap modelled as 'pop returns the Ord-maximum'; epoch overflow excluded.",
    technique="Coq proof (refinement by invariant over op sequences) + differential op-sequence correspondence against mirrored source",
    ref="DESIGN.md §5 C20, §4.1"),
 "C17": dict(
    text="Coq theorems: EventBuffer refines a log of accepted writes with a monotone read cursor for every capacity >= 1 and every write/read/open/close sequence (c17_buffer, c17_buffer_content, c17_spec_*), EventSlot yields the last accepted write once (c17_slot). Tied to the code by running the real public-API sinks and the extracted model on the same sequences (exhaustive to a bound + random).",
    note="Trusted: Coq kernel, extraction, drivers; std VecDeque/Mutex; concurrent writers to an EventSlot (try_lock contention) outside the statement; c17_output_order (sink order under simulated models) is part of the Net model checks.",
    technique="Coq proof (refinement to log+cursor spec) + differential op-sequence correspondence through the public API",
    ref="DESIGN.md §5 C17, §4.2"),
}

SIMNOTE = "Trusted: Coq kernel, ExtrOcamlBasic extraction, OCaml driver, Python generators/canonicaliser/oracles, harness simh (generic script model over the public API); Sim.v is hand-written and tied to /repo by differential execution on the same benches (samples); std Mutex/BinaryHeap, tai_time, Rust async desugaring, executors' scheduling (covered as nondeterministic choice) are modelled, not verified. "
CLAIMS.update({
 "C01": dict(
    text="Coq theorems about Sim.v for every bench, state, command and schedule: the queue invariant 'every pending action is due strictly after now' is established by init and kept by every command; time never decreases; only step/step_until move it; a successful step_until ends at its target; a step moves to a pending non-cancelled deadline within the bound and leaves nothing due behind (c01_command, c01_init, c01_time_monotone_pending_future, c01_step, c01_run_keeps_time). Tie: same benches on the real Simulation (1..16 threads) and the extracted model, exact log comparison for schedule-independent benches, multiset comparison otherwise; direct oracles (time monotone, handler sees step time, driver events fire exactly at deadline in order).",
    note=SIMNOTE + "The stepping loop is proved to terminate (no RHang, c01_all_reachable_states is unconditional); fire order within a critical section is a theorem (c07_fired_in_key_epoch_order), across steps it follows from time monotonicity; it is not restated as one trace theorem.",
    technique="Coq proof (inductive invariant over commands and run steps) + differential bench correspondence + direct oracles",
    ref="DESIGN.md §5 C01, §4.4"),
 "C08": dict(
    text="Coq theorems: a request of any kind is accepted iff deadline > now and the (checked) period is non-null, a rejected request changes nothing, an accepted one adds exactly one entry at its deadline/origin with the next epoch; requests and all run steps keep the 'pending strictly in the future' invariant, so an accepted occurrence cannot be fired late or dropped by a stepping call that returns; refutation witness for the pinned tree (zero-period source action: step never returns) and its repair. Tie: malformed-input stream x all request kinds from driver and handlers, watch-dogged stepping calls, on 1..8 threads.",
    note=SIMNOTE + "The race between Scheduler handles on other threads and step() is modelled at lock granularity (requests are atomic steps of Sim.v) and checked on real threads: requests gated inside Deadline::into_time must agree with one of the two linearisations of the model (part C08-threaded-requests); termination of every stepping call is a theorem (c08_step_returns); known defect F4 fixed (witness in Properties/C08.v).",
    technique="Coq proof (request specification + invariant) + refutation witness by vm_compute + differential bench correspondence",
    ref="DESIGN.md §5 C08"),
 "C11": dict(
    text="Coq theorems: once terminated, step/step_until/process_event/process_query/process return Terminated and leave the entire state unchanged (c11_fatal_sticky); every fatal result terminates (c11_fatal_terminates); InvalidDeadline and scheduling errors change nothing (non-fatal); run results are exactly classify's (c11_run_result); refutation witness of the pinned tree (F1) and post-fix example. Tie: fault-sequence enumeration (9 fault kinds x prefixes x tails of further calls, 1 and 4 threads) with exact comparison of results/times/logs and the oracle 'after fatal: Terminated, no handler, no time change'.",
    note=SIMNOTE + "Timeout is produced by wall-clock overrun and is not modelled (no bench generates it); attribution of Panic/NoRecipient is by definition of classify + correspondence.",
    technique="Coq proof (case analysis of the driver) + exhaustive fault-sequence enumeration against the implementation",
    ref="DESIGN.md §5 C11"),
 "C18": dict(
    text="Coq theorems: every bounded step writes either nothing or ETime T, exactly one EClock T, then only handler-level entries; a lag above the tolerance yields OutOfSync(lag) with nothing after the clock call and termination, otherwise never OutOfSync (c18_step_gate, c18_tolerance); init synchronises on t0 before any init entry (c18_init_first); clock arguments follow the strictly increasing step times (c18_monotone_args); refutation witness of the pinned tree (F3). Tie: scripted recording clock with OutOfSync answers at arbitrary call indices, tolerances, random step/step_until partitions; call-protocol oracle on the implementation log.",
    note=SIMNOTE + "The final jump of step_until is covered by the model definition + correspondence + the F3 witness, not by a separate theorem.",
    technique="Coq proof (log-shape lemma per step) + differential bench correspondence with a scripted clock",
    ref="DESIGN.md §5 C18"),
})

CLAIMS.update({
 "C07": dict(
    text="Coq theorems, each for all inputs: the scheduler queue hands out equal-key entries in insertion order (c07_queue_stable), a request is inserted behind everything queued and a periodic occurrence is re-inserted when its predecessor is pulled (c07_insert_last, c07_periodic_reinserted_at_pull), the actions of one (time, origin) group run in one task that does not start its next op while a delivery is outstanding (c07_task_sequential), mailboxes are FIFO and bounded (c07_mailbox_fifo); end-to-end instance for every choice list up to length 2 with a capacity-1 mailbox (c07_nonvacuous). Tie: bursts of same-deadline events to small mailboxes, exact log comparison on 1..16 threads + order oracle on the implementation.",
    note=SIMNOTE + "Partial: the composition of the four facts into one trace-level order theorem is not mechanised; it is checked by correspondence and by the direct oracle.",
    technique="Coq proof (component lemmas + PQ refinement) + differential bench correspondence + order oracle",
    ref="DESIGN.md §5 C07"),
 "C09": dict(
    text="Coq theorems for all inputs: every action the critical section of a step turns into a task had a non-cancelled key when pulled (c09_cancelled_before_step_never_spawned), a cancelled head is discarded and never re-inserted (c09_cancelled_head_discarded, c09_peek_never_inserts), a keyed event dequeued after its key was cancelled runs nothing (c09_cancelled_before_dequeue_not_run), cancelling changes one flag only (c09_cancel_only_its_key). Tie: keyed one-shot/periodic events with cancellation before the step, by an earlier same-time event of the same model, after firing, from the driver; exact log comparison + oracles (driver events, handler-side cancel).",
    note=SIMNOTE + "Partial: per-mechanism theorems; the trace-level 'runs iff not cancelled before ...' characterisation is checked by correspondence and oracles.",
    technique="Coq proof (critical-section lemma by induction on the pull loop) + differential bench correspondence + cancellation oracles",
    ref="DESIGN.md §5 C09"),
 "C10": dict(
    text="Coq theorems for all inputs: the next occurrence is keyed by the pulled key's time plus the period with the same origin/action (c10_reinsert, c10_progression_arith), after every returning command nothing is pending at or before now and queued periods are positive (c10_nothing_due_left), only live heads fire (c10_only_live_heads_fire); computed instance of partition independence (c10_partition_independent). Tie: 1-4 periodic series with periods down to 1 ns and cancel points, each bench under 4 step/step_until partitions on the implementation: all partitions must fire the same occurrences, equal to the model's and to the arithmetic-progression oracle.",
    note=SIMNOTE + "Partial: the trace-level progression theorem is not mechanised end-to-end.",
    technique="Coq proof (component lemmas + invariant) + cross-partition differential execution + progression oracle",
    ref="DESIGN.md §5 C10"),
})

CLAIMS.update({
 "C03": dict(
    text="Coq theorems for all inputs: a send creates exactly one delivery per accepting connection with the mapped value (c03_deliveries_of_send); a delivery appends exactly that message to exactly the target mailbox, only when there is room (c03_delivery_enqueues_once); the owner consumes exactly the head of its mailbox (c03_start_consumes_once); the sender does not move on before all deliveries are made (c03_send_completes_before_next_op); in-flight counter = number of queued messages in every reachable state and Ok iff all mailboxes are empty (c03_conservation, c03_ok_means_all_consumed). Tie: bursts of 1..3x capacity into mailboxes of capacity 1..16 through plain/map/filter_map connections, sources, queries; multiset comparison with Sim.v on 1..16 threads + closure oracle (processed = sent per accepting connection) on the implementation. Channel protocol (Chan.v, programs generated from channel.rs by translator T4, obligation c03_chan_source_is_proved_program): for every number of senders, capacity and interleaving a parked sender that nobody is going to wake faces a full mailbox and the parked receiver an empty one (c03_chan_sender_sleeps_only_when_full, c03_chan_receiver_sleeps_only_when_empty, c03_chan_invariant, c03_chan_bounded): no wake-up is lost, which is what Sim.v's 'a send proceeds iff there is room' abstracts.",
    note=SIMNOTE + "Trace level: c03_mailbox_trace (nothing lost, duplicated, reordered or invented in any execution) and c03_ok_means_all_consumed; the multiset 'sent = processed per recipient' is derived from them in prose, and decided on the implementation by the oracle.",
    technique="Coq proof (per-step lemmas + counting invariant; inductive invariant of the channel's parking protocol on programs translated from the source) + differential bench correspondence + closure oracle",
    ref="DESIGN.md §5 C03"),
 "C04": dict(
    text="Coq theorems: Ok iff every mailbox is empty (all sent messages consumed); in a quiescent failure-free state with empty mailboxes no task is in the middle of a send (c04_no_half_done_send, all benches with capacities >= 1); a run changes neither time nor termination nor clock position (c04_run_frame); computed schedule-independence instances. Tie: every bench on the single-threaded executor and on 2,3,4,8,16 workers must equal the model's per-command multiset of handler invocations, results, times, sink contents; oracle 'Ok => everything sent was processed'; wide benches (129..300 models, more than one injector bucket); runs with seeded delays at 15 protocol points of the multi-threaded executor (guarded hooks nexosim::verif). Pool protocol (Pool.v): for the barrier program generated from the current mt_executor.rs (translator T3, obligation c04_pool_source_is_proved_program + call-order obligation), every pool size, every interleaving at one-shared-access granularity and every task behaviour, Executor::run reads the idle pool only when no task is left in the injector, a local queue, a fast slot or a worker's hands and no task is running (c04_pool_run_returns_only_at_quiescence, c04_pool_every_task_was_run = every task spawned or woken has been run, tasks being conserved by every step for any barrier (c04_pool_tasks_conserved), c04_pool_idle_means_quiescent, c04_pool_work_only_on_active_workers, c04_pool_no_assert_failure), and whenever run() is blocked in park() without a pending unpark some worker can perform its next step (c04_pool_run_never_blocked_with_all_workers_blocked: deadlock-freedom of the parking protocol).",
    note=SIMNOTE + "Partial: 'does not block forever' is proved as deadlock-freedom of the model (no reachable state with the main thread and every worker blocked), not as termination (fairness and terminating tasks are assumed), and is otherwise observed on the real multi-threaded runs with delays (watchdog); Pool.v is sequentially consistent and over-approximates search/steal/activation (see its header); confluence proved only as instances; a task waiting for a query reply at quiescence is excluded by correspondence, not by a theorem.",
    technique="Coq proof (quiescence lemma + frame; inductive invariant of the worker-pool protocol on the barrier program translated from the source) + cross-executor differential execution (1..16 threads, seeded delays)",
    ref="DESIGN.md §5 C04"),
 "C06": dict(
    text="Coq theorems: the in-flight counter equals the total number of queued messages over all mailboxes in every reachable state (c06_count_exact_step/run); the verdict is Ok iff all mailboxes are empty, Deadlock l iff l is the non-empty list of observed mailboxes, MessageLoss n iff no observed mailbox holds a message and n is the total (c06_report); observed = exactly the added models, sub-models included, with non-empty mailbox, by qualified name and exact length (c06_observed); refutation witness of the pinned tree (F2) and post-fix example. Tie: deterministic deadlocks (query loop-backs incl. sub-models, self-saturation), orphan mailboxes, hierarchies; exact verdict comparison + accounting oracle, also under seeded delays at the executor's protocol points. Pool protocol (Pool.v): for the barrier program generated from the current mt_executor.rs, every value of msg_count that Executor::run reads at an idle pool equals sent-minus-received over all tasks run so far, for every pool size, interleaving and task behaviour (c06_pool_count_read_is_exact, c06_pool_every_count_read_was_exact); refutation witness for the barrier of the pinned tree (F5). Nested simulations: the body of the single-threaded executor's run translated from st_executor.rs (T5) restores THREAD_MSG_COUNT and CURRENT_MODEL_ID of an enclosing executor on every path and classifies a panic before unprocessed messages (c06_strun_nested_run_restores_thread_locals; refuted for the pinned body = F6/F7). Per-channel count: c06_chan_count_is_queued.",
    note=SIMNOTE + "The folding of per-thread counters and the idle hand-off are modelled in Pool.v (sequentially consistent; the release/acquire argument for active_workers is in DESIGN, not proved) and exercised on 2..16 threads with seeded delays. Known defects F2 and F5 fixed (commits in known_findings.json).",
    technique="Coq proof (counting invariant + characterisation of classify; inductive invariant of the worker-pool protocol on the barrier program translated from the source) + differential bench correspondence + accounting oracle",
    ref="DESIGN.md §5 C06"),
 "C16": dict(
    text="Coq theorems: the first start of a model task is its init (logs EInit, installs the init script, leaves queued messages in place), a start logs an init iff the task was not yet initialised and a handler entry only on an initialised task, no other step logs an init or handler entry (c16_*); computed instance with sub-model names and an early message under all start orders. Tie: hierarchies of depth 0..3 with init scripts sending events/queries to other models, 1..16 threads; oracle: one init per added model inside SimInit::init before any of its handlers; Context::name() = parent.child; names in error reports via C11/C06 benches.",
    note=SIMNOTE + "Partial: 'exactly once' over whole traces is decided by the oracle and correspondence; the theorems are step-level.",
    technique="Coq proof (step-level lemmas) + differential bench correspondence + init oracle",
    ref="DESIGN.md §5 C16"),
})

DNOTE = "Trusted: Coq kernel, ExtrOcamlBasic extraction, OCaml driver, Python orchestration; harness atomh = verbatim mirror of the lock-free source files compiled against instrumented atomics + deterministic scheduler (OS threads, one running at a time): explores sequentially consistent interleavings only. "
CLAIMS.update({
 "C12": dict(
    text="Coq theorem (full, sequential): for every capacity >= 1 and every sequence of push/pop/pop-and-hold/release/close/len/is_closed the stamped ring buffer of queue.rs answers exactly like a bounded FIFO with one borrowable slot - Full exactly when capacity messages are outstanding, pops in push order each once, Closed only when closed and drained, len = queued (c12_seq_refines, c12_seq_step; representation invariant over slot stamps). Tie: op sequences (exhaustive to a bound + random over many laps, capacities 1..16) on the verbatim queue.rs vs the extracted model. Concurrent part NOT proved: 1-3 producers + consumer (+close) under thousands of random schedules at atomic-operation granularity on the real code, judged by an oracle (exactly-once, per-producer FIFO, capacity, quiescent len, close). Concurrent part (Coq, for every interleaving of single shared-memory accesses, any number of producers, one consumer, close() at any time, spurious compare_exchange_weak failures, sequential consistency): an inductive invariant (c12_conc_invariant) gives: the consumer receives a prefix of the accepted messages in acceptance order, each once, none invented (c12_conc_fifo); at most capacity messages are accepted and not yet handed back (c12_conc_bounded); each producer's messages are delivered in the order it sent them (c12_conc_producer_order); no unreachable!() arm or debug assertion is reached - no two parties touch one cell at once (c12_conc_no_unreachable); len() is the number of messages held whenever nothing is in flight (c12_conc_len); after close() nothing is accepted and Closed is reported to the consumer only once every accepted message was delivered (c12_conc_closed_*). QueueConc.v is tied to the code by replaying every explored trace of the verbatim queue.rs, access by access, in the extracted model.",
    note=DNOTE + "Sequential consistency only for the concurrent part: the Release/Acquire orderings on the stamps are recorded, not given a weak-memory semantics; the bit encoding of positions is abstracted (monotone re-encoding, decoded by the replay and exercised over several laps and capacities); wake-up pairing of channel.rs (async_event, diatomic_waker) is not modelled - covered only by the explored schedules and the capacity-1 Sim benches.",
    technique="Coq proof (sequential refinement by representation invariant; concurrent inductive invariant over all SC interleavings) + op-sequence correspondence and step-by-step trace replay on mirrored source + scheduled exploration with oracle",
    ref="DESIGN.md §5 C12"),
 "C15": dict(
    text="Coq theorems under a release/acquire + relaxed + fences memory model (view-based operational semantics, Model/WMem.v), for the two programs GENERATED on every run from util/sync_cell.rs and time/monotonic_time.rs (translator T2, gen/SyncCellProg.v): for any initial value, any sequence of writes, any number of readers, any schedule and any choice of the (possibly stale) message each load reads, every result of try_read is exactly a value the cell has held (c15_wm_not_torn), results of one reader follow the write order and are never older than what the reader's view already contained (c15_wm_monotone), by an inductive invariant over message views and program counters (c15_wm_invariant); the obligation 'generated program = proved program' (c15_wm_source_is_proved_program) breaks when the atomic operations, their order or their orderings change, and the check then searches the weak-memory machine on the generated programs for a torn/backward read and reports that execution as the replay. The same statements are also proved under sequential consistency (c15_sc_*) for the model that is run against the verbatim sync_cell.rs schedule by schedule under the deterministic scheduler (same values per reader); the orderings the compiled code executes are compared with the generated programs.",
    note=DNOTE + "Trusted: that the view machine (ORC11-style, no load buffering, no same-thread release sequences, append-only modification order for single-writer locations, no SeqCst) captures the Rust memory model on the targets; translator T2; sequence-number wrap-around excluded; Scheduler/Context glue around SyncCellReader::read (a retry loop, checked syntactically) not modelled beyond that.",
    technique="Coq proof (inductive invariant over a weak-memory view machine, programs generated from the source) + SC schedule-replay correspondence on mirrored source + bounded weak-memory search for the replay when the obligation breaks",
    ref="DESIGN.md §5 C15, §4.6"),
})

CLAIMS.update({
 "C02": dict(
    text="Coq theorems for all inputs and schedules: in every step a mailbox stays as it is, loses its head or gains one message at its tail (c02_mailbox_order_step), a handler does not start its next port operation while a delivery is outstanding (c02_program_order), a delivery needs room and appends (c02_enqueue_at_tail); computed instance: the documented A->B, A->C->B triangle with capacity-1 mailboxes under every choice list of length <= 4. Tie: triangle benches (optional relay, 1-5 roots, capacities 1..3) on 1..16 threads vs Sim.v + causal-order oracle at B. Trace level: in any execution the messages a model has started processing are, in order, a prefix of (initial mailbox content ++ messages enqueued, in enqueue order) (c02_processed_prefix_of_enqueued, c02_processed_in_enqueue_order; c02_mailbox_trace).",
    note=SIMNOTE + "The trace-level statement is c02_mailbox_trace (+ _run): in ANY execution a mailbox is its initial content followed by the messages enqueued into it in enqueue order, minus the prefix consumed by its owner; together with c02_program_order (a handler's next port operation waits for the enqueue of the current one) this is the causal order of the property, because in the interleaving semantics 'the send of M1 happens before the send of M3' implies 'M1 is enqueued before M3'; the happens-before relation itself is not a Coq definition.",
    technique="Coq proof (per-step FIFO lemmas + computed instance) + differential bench correspondence + causal oracle",
    ref="DESIGN.md §5 C02, §0"),
 "C05": dict(
    text="Coq theorems: executor level - in every reachable state of TaskSM (any interleaving of wakers, runner, canceller) no second runner ever starts and no poll happens on anything but the live future, at most one Runnable exists (c05_one_poller, from the 18-lemma invariant proof); model level - a task inside its init or a handler (including while suspended on a send or query) cannot start another message, and only the owner consumes its mailbox (c05_handler_sequential, c05_single_consumer). Tie: concurrent schedules on the verbatim task.rs (oracle: poll overlap / poll after end) + benches on 2..16 worker threads vs Sim.v.",
    note=DNOTE + "PARTIAL: sequential consistency; steal/re-schedule paths of the multi-threaded executor exercised, not modelled; ownership of model+receiver by one task is a modelling assumption read off add_model.",
    technique="Coq proof (inductive invariant over all interleavings of a coarse task state machine) + scheduled exploration on mirrored source + multi-threaded differential runs",
    ref="DESIGN.md §5 C05"),
 "C13": dict(
    text="Coq theorems: the invariant of TaskSM.v holds in every state reachable from spawn / spawn_and_forget under any sequence of handle operations by any number of wakers/threads (c13_invariant_*, c13_step: one preservation lemma per operation, 18 in all); its meaning (c13_meaning): single poller, no poll after end, Runnable exists iff POLLING and (wake count <> 0 or CLOSED) - so a wake while pending always leaves a Runnable -, refs = live handles, future dropped <= 1, output dropped/taken <= 1, memory freed <= 1, no access after free, no leak; layout lemmas against the constants regenerated from task.rs (c13_initial_words). Tie: handle-operation scripts for 2-3 threads over scripted futures on the verbatim task.rs under the deterministic scheduler (all schedule prefixes up to a bound on the 8 loom scenario shapes + random), oracle with drop counters, poll flags and a quarantine allocator.",
    note=DNOTE + "PARTIAL: TaskSM is coarse (one step = one read-modify-write + its dependent release effects; run() and the idle-cancel path split at every RMW): interleavings inside the release effects and weak-memory behaviours are not covered; every explored real trace is also replayed operation by operation in the extracted TaskSM (state word after every read-modify-write, enabledness, final drop/dealloc counts); counter saturation excluded.",
    technique="Coq proof (inductive invariant, case analysis + lia per operation) + T1 constant translation + oracle-judged scheduled exploration on mirrored source",
    ref="DESIGN.md §5 C13, Appendix B"),
 "C14": dict(
    text="Coq theorems: a query addresses exactly the accepting connections with mapped requests and consecutive slots in connection order (c14_requests), the requester proceeds only when all replies are in (c14_waits_for_all) and yields them in slot = connection order (c14_yields_in_connection_order), a reply fills exactly its slot (c14_reply_matched); CachedRwLock: after a write through any clone every clone's next read/write_scratchpad starts from the updated list, scratchpad edits are local, the epoch invariant holds in every reachable state (c14_clones_*); instance under all short schedules. Tie: query benches with 0..6 connections, filters, maps, nested queries and capacity-1 replier mailboxes on 1..16 threads vs Sim.v + reply oracle; op sequences on the verbatim cached_rw_lock.rs vs CachedRw.v. Broadcast of one query (Broadcast.v: QueryBroadcaster::broadcast, BroadcasterInner::futures, BroadcastFuture::new/poll/drop and the lazily consumed reply iterator over an abstract task set and wake sink): for every number of repliers, every sequence of queries and filters, every order of completions / failures / spurious wake-ups between polls and inside the polls of other sub-futures, an Ok result carries exactly the replies of the accepting repliers of this query in connection order (c14_broadcast_replies), the slot/counter invariant is kept by every operation (c14_broadcast_invariant), and a Pending multi-replier broadcast leaves the parent armed so that the next wake-up notifies it and is recorded (c14_broadcast_pending_armed, c14_broadcast_wake_notifies, c14_broadcast_wake_recorded); tied to the code by running the verbatim broadcaster.rs with the real task_set.rs and diatomic-waker on the same scripted scenarios. The lock-free task set (TaskSetConc.v: every shared access of Task::wake_by_ref, take_scheduled, TaskIterator::next and the iterator's drop as one step, any number of wakers, spurious compare_exchange_weak failures, SC interleavings): an inductive invariant (c14_taskset_invariant) gives that the linked lists are never corrupted (c14_taskset_no_panic) and that no completed wake-up is lost (c14_taskset_no_lost_wake, c14_taskset_quiescent_woken_is_scheduled); tied to the verbatim task_set.rs by step-by-step replay of every explored trace.",
    note=SIMNOTE + "Broadcast.v uses an ABSTRACT task set driven sequentially; the lock-free TaskSet has its own model and proof (TaskSetConc.v) under sequential consistency, but the two are not composed formally the countdown law of the concurrent task set is proved step-wise (c14_taskset_countdown, c14_taskset_armed_push_notifies); the theorems exclude runs that hit the model's loop bound (result BRFuel, never observed); connect-during-run is covered only by the CachedRw theorems.",
    technique="Coq proof (query step lemmas + CachedRw invariant) + differential bench / op-sequence correspondence + reply oracle + scripted broadcast scenarios on mirrored broadcaster.rs vs Broadcast.v + task-set trace replay in TaskSetConc.v",
    ref="DESIGN.md §5 C14"),
 "C19": dict(
    text="Coq theorems (task level): in every reachable state of TaskSM the invariant holds, and once every handle is gone the memory has been freed exactly once, the future dropped exactly once, nothing accessed after release (c19_cancel_releases, c19_no_leak_no_double_free) - cancellation racing with wakers and a runner is what an executor drop does to each task. Tie: cancel-heavy schedules on the verbatim task.rs; the Simulation is dropped at the end of fault / deadlock / hierarchy / scheduling benches (pending actions, blocked senders, pending queries) on 1..16 threads: every added model dropped exactly once, no model code afterwards, the drop returns (watchdog). One-shot reply slot (Slot.v, finite; constants and write mask generated from util/slot.rs by T6): for every interleaving of writer and reader no access after free, no double free, no double drop, and once both handles are gone the allocation is freed and a written value was read or dropped (c19_slot_released_exactly_once, c19_slot_no_misuse, c19_slot_value_read_at_most_once), plus scheduled exploration of the verbatim slot.rs with a contract oracle.",
    note=DNOTE + "PARTIAL: the executor-level drop (ExecDrop: models, queued messages and pending futures each released once) is not modelled, only observed: drop counts of models and of undelivered messages, and the allocator balance (live bytes must return to the same level when the same bench is built, run and dropped three times in one process - a leaked future, payload or task shows as growth); joining of worker threads is observed as 'drop returns'.",
    technique="Coq proof (task-level invariant corollaries; finite-state closure proof of the reply slot on constants translated from the source) + scheduled exploration on mirrored sources + drop-count / allocator-balance observation on benches",
    ref="DESIGN.md §5 C19"),
})

PENDING_REASON = "check not built yet in this snapshot (planned per DESIGN.md section 5/8); not claimed until its check exists"

def main():
    props = [json.loads(l) for l in open(os.path.join(V, "properties.jsonl"))]
    checks, na = [], []
    for p in props:
        pid = p["id"]
        if pid in CLAIMS:
            c = CLAIMS[pid]
            checks.append({
                "property_id": pid,
                "quick_cmd": "./check %s --tier quick" % pid,
                "thorough_cmd": "./check %s --tier thorough" % pid,
                "evidence_file": "/verif/evidence/%s.json" % pid,
                "replay_cmd_template": "./check %s --replay {path}" % pid,
                "engine": "coq+correspondence",
                "level_claimed": {"category": "proof", "text": c["text"], "design_ref": c["ref"]},
                "level_note": c["note"],
                "technique": c["technique"],
            })
        else:
            na.append({"property_id": pid, "reason": NA.get(pid, PENDING_REASON)})
    m = {
        "version": 1,
        "setup_cmd": "./setup.sh",
        "hooks": {
            "guard": "nexosim_verif",
            "enable": "RUSTFLAGS=\"--cfg nexosim_verif\" (set in /verif/harness/.cargo/config.toml for the harness builds)",
            "baseline_off_cmd": "cd /repo && (cargo nextest run --workspace --no-fail-fast --tool-config-file pb:/w/lib/nextest.toml --profile pb --test-threads 8 --offline || cargo test --workspace --no-fail-fast --offline)",
            "source_commits": HOOK_COMMITS,
            "add_only": True,
        },
        "engines": [
            {"name": "coq+correspondence", "path": "/verif/check",
             "serves_properties": sorted(CLAIMS.keys()),
             "kind_free_text": "Coq 8.16 theorems about executable Gallina models (coq/), extracted to OCaml (ocaml/) and run against the implementation (harness/) on the same inputs; six translators (tools/gen_consts.py, gen_synccell.py, gen_pool.py, gen_chan.py, gen_strun.py, gen_slot.py) regenerate parts of the models from the Rust source on every run; seven verbatim mirrors of lock-free sources (and of the async-event / diatomic-waker crates) run under a deterministic scheduler (harness/atomh)"},
        ],
        "checks": checks,
        "notes": "All checks rebuild from /repo's working tree (cargo path dependency + verbatim source mirror). known_findings.json lists recorded/fixed defects.",
        "not_applicable": na,
    }
    json.dump(m, open(os.path.join(V, "MANIFEST.json"), "w"), indent=1)

NA = {}
HOOK_COMMITS = ["6cda707", "3fe4d13"]

if __name__ == "__main__":
    main()
