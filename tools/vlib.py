"""Shared machinery of the checks: builds (Coq, OCaml runner, Rust harnesses), proof-status
collection, model/implementation runners, shrinking, evidence and violation reporting."""
import fcntl, json, os, random, re, subprocess, sys, time, hashlib

VERIF = os.path.dirname(os.path.dirname(os.path.abspath(__file__)))
REPO = os.environ.get("NX_REPO", "/repo")
BUILD = os.path.join(VERIF, ".build")
COQ = os.path.join(VERIF, "coq")
TARGET = os.path.join(BUILD, "target")
MODELRUN = os.path.join(BUILD, "ocaml", "modelrun")
ATOMH = os.path.join(TARGET, "debug", "atomh")
SIMH = os.path.join(TARGET, "debug", "simh")
EVID = os.path.join(VERIF, "evidence")
REPLAYS = os.path.join(EVID, "replays")
NPROC = os.cpu_count() or 4

FORBIDDEN = re.compile(
    r"\b(Admitted|admit|Axiom|Axioms|Parameter|Parameters|Conjecture|Conjectures|Hypothesis|Hypotheses|Variables?)\b"
    r"|Unset\s+Guard|bypass_check|Admit\s+Obligations|-type-in-type|impredicative-set|Unset\s+Universe|Unset\s+Positivity")

STD_AXIOM_ALLOW = {
    # standard-library axioms that may appear; each is named in DESIGN.md section 7 if used.
}


class BrokenTie(Exception):
    """A proof obligation, the translator or a build no longer checks."""
    def __init__(self, what, detail=""):
        super().__init__(what)
        self.what, self.detail = what, detail


def sh(cmd, cwd=None, timeout=1800, env=None, input=None):
    e = dict(os.environ)
    e.update({"CARGO_NET_OFFLINE": "true"})
    if env:
        e.update(env)
    p = subprocess.run(cmd, shell=isinstance(cmd, str), cwd=cwd, env=e, input=input,
                       stdout=subprocess.PIPE, stderr=subprocess.STDOUT, timeout=timeout, text=True)
    return p.returncode, p.stdout


class BuildLock:
    def __enter__(self):
        os.makedirs(BUILD, exist_ok=True)
        self.f = open(os.path.join(BUILD, "lock"), "w")
        fcntl.flock(self.f, fcntl.LOCK_EX)
        return self
    def __exit__(self, *a):
        fcntl.flock(self.f, fcntl.LOCK_UN)
        self.f.close()


RUNNER_OK = True   # set by ./check: the extracted model runner was built from the current sources

# ------------------------------------------------------------------ builds

def gen_consts():
    rc, out = sh([sys.executable, os.path.join(VERIF, "tools", "gen_consts.py"),
                  os.path.join(COQ, "gen", "Consts.v")])
    if rc != 0:
        raise BrokenTie("translator gen_consts.py refused the current source", out)
    rc2, out2 = sh([sys.executable, os.path.join(VERIF, "tools", "gen_synccell.py"),
                    os.path.join(COQ, "gen", "SyncCellProg.v")])
    if rc2 != 0:
        raise BrokenTie("translator gen_synccell.py refused the current source (util/sync_cell.rs, time/monotonic_time.rs)", out2)
    # T3 never fails: on an untranslatable source it writes a PoolProg.v that breaks the obligations of C04/C06 only
    sh([sys.executable, os.path.join(VERIF, "tools", "gen_pool.py"), os.path.join(COQ, "gen", "PoolProg.v")])
    # T4 likewise: an untranslatable channel.rs breaks the obligations of C03 (and of C04, which imports them)
    sh([sys.executable, os.path.join(VERIF, "tools", "gen_chan.py"), os.path.join(COQ, "gen", "ChanProg.v")])
    # T5: the body of the single-threaded executor's run (obligations of C06 / C11)
    sh([sys.executable, os.path.join(VERIF, "tools", "gen_strun.py"), os.path.join(COQ, "gen", "StRunProg.v")])
    # T6: the constants of util/slot.rs (obligations of C19)
    sh([sys.executable, os.path.join(VERIF, "tools", "gen_slot.py"), os.path.join(COQ, "gen", "SlotProg.v")])
    # T7: the loop body of SeqFuture::poll (obligations of C07 / C08)
    sh([sys.executable, os.path.join(VERIF, "tools", "gen_seqfut.py"), os.path.join(COQ, "gen", "SeqFutProg.v")])
    return out


def gen_consts_values():
    """the constants of gen/Consts.v (regenerated from the source by gen_consts) as a dict"""
    import re
    vals = {}
    for m in re.finditer(r"Definition (\w+) : N := (\d+)\.", open(os.path.join(COQ, "gen", "Consts.v")).read()):
        vals[m.group(1)] = int(m.group(2))
    return {"WAKE_INC": vals["TASK_WAKE_INC"], "REF_INC": vals["TASK_REF_INC"], "CLOSED": vals["TASK_CLOSED"],
            "POLLING": vals["TASK_POLLING"], "all": vals}


def forbidden_scan():
    """No Admitted/admit/Axiom/Parameter/... anywhere in the development (comments are stripped
    first; Section-local Variable/Hypothesis are allowed only inside a Section)."""
    hits = []
    for root, _, files in os.walk(COQ):
        for fn in files:
            if not fn.endswith(".v") or fn.startswith("_goal_"):
                continue
            path = os.path.join(root, fn)
            text = open(path).read()
            # strip comments (nested)
            out, depth, i = [], 0, 0
            while i < len(text):
                if text.startswith("(*", i):
                    depth += 1; i += 2
                elif text.startswith("*)", i) and depth > 0:
                    depth -= 1; i += 2
                else:
                    if depth == 0:
                        out.append(text[i])
                    elif text[i] == "\n":
                        out.append("\n")
                    i += 1
            code = "".join(out)
            section_depth = 0
            for ln, line in enumerate(code.split("\n"), 1):
                if re.match(r"\s*Section\b", line):
                    section_depth += 1
                if re.match(r"\s*End\b", line) and section_depth > 0:
                    section_depth -= 1
                for m in FORBIDDEN.finditer(line):
                    w = m.group(0)
                    if re.match(r"Variables?|Hypothes[ie]s", w) and section_depth > 0:
                        continue
                    hits.append("%s:%d: %s" % (os.path.relpath(path, VERIF), ln, line.strip()))
    return hits


def coq_build(targets, timeout=3000):
    """Full .vo build (never -vos) of the given targets (paths relative to coq/)."""
    gen_consts()
    rc, out = sh("coq_makefile -f _CoqProject -o Makefile > /dev/null && timeout %d make -j%d %s" %
                 (timeout, NPROC, " ".join(targets)), cwd=COQ, timeout=timeout + 60)
    if rc != 0:
        m = re.search(r'File "([^"]+)", line (\d+)', out)
        where = "%s:%s" % (m.group(1), m.group(2)) if m else "?"
        raise BrokenTie("Coq build failed at %s" % where, out[-3000:])
    return out


def prop_theorems(pid):
    """Re-checks Properties/<pid>.v alone (it only contains statements closed by `exact`) and
    returns [(theorem, assumptions_text)] as printed by Print Assumptions."""
    src = os.path.join(COQ, "Properties", pid + ".v")
    tmpdir = os.path.join(BUILD, "props")
    os.makedirs(tmpdir, exist_ok=True)
    # Print Assumptions walks the whole dependency graph of proof terms (minutes for the task-state
    # proofs); its answer only depends on the Coq sources (gen/Consts.v included), so it is cached
    # under a hash of all of them.
    h = hashlib.sha256()
    for root, _, files in sorted(os.walk(COQ)):
        for fn in sorted(files):
            if fn.endswith(".v") and not fn.startswith("_goal_"):
                h.update(fn.encode()); h.update(open(os.path.join(root, fn), "rb").read())
    key = h.hexdigest()
    cache = os.path.join(tmpdir, pid + ".cache.json")
    if os.path.exists(cache):
        try:
            c = json.load(open(cache))
            if c.get("key") == key:
                return [tuple(x) for x in c["thms"]]
        except Exception:
            pass
    rc, out = sh(["coqc", "-q", "-Q", ".", "NX", "-w", "-notation-overridden", "-o", os.path.join(tmpdir, pid + ".vo"), src],
                 cwd=COQ, timeout=900)
    if rc != 0:
        raise BrokenTie("Properties/%s.v does not check" % pid, out[-3000:])
    text = open(src).read()
    names = re.findall(r"^Print Assumptions\s+([A-Za-z0-9_']+)\s*\.", text, re.M)
    thms = re.findall(r"^(?:Theorem|Lemma|Corollary)\s+([A-Za-z0-9_']+)", text, re.M)
    missing = [t for t in thms if t not in names]
    if missing:
        raise BrokenTie("theorems without Print Assumptions in Properties/%s.v: %s" % (pid, missing))
    # split coqc output into blocks, one per Print Assumptions, in order
    blocks, cur = [], None
    for line in out.split("\n"):
        if line.startswith("Closed under the global context"):
            blocks.append("closed")
        elif line.startswith("Axioms:"):
            cur = []
            blocks.append(cur)
        elif cur is not None and (line.startswith(" ") or line.strip() == "") and blocks and blocks[-1] is cur:
            if line.strip():
                cur.append(line.strip())
        else:
            cur = None
    if len(blocks) != len(names):
        raise BrokenTie("cannot match Print Assumptions output for %s" % pid, out[-2000:])
    res = []
    for n, b in zip(names, blocks):
        res.append((n, "closed" if b == "closed" else "; ".join(b)))
    json.dump({"key": key, "thms": res}, open(cache, "w"))
    return res


def check_assumptions(thms, allow=()):
    bad = []
    for n, a in thms:
        if a == "closed":
            continue
        for ax in a.split("; "):
            axn = ax.split(":")[0].strip()
            if axn and axn not in allow and not ax.startswith(":"):
                bad.append((n, ax))
    return bad


def ocaml_build():
    os.makedirs(os.path.join(BUILD, "ocaml"), exist_ok=True)
    srcs = [os.path.join(VERIF, "ocaml", "gen", "nxmodel.mli"), os.path.join(VERIF, "ocaml", "gen", "nxmodel.ml"),
            os.path.join(VERIF, "ocaml", "driver.ml")]
    for s in srcs:
        if not os.path.exists(s):
            raise BrokenTie("extraction output missing: %s" % s)
    stamp = os.path.join(BUILD, "ocaml", "stamp")
    h = hashlib.sha256(b"".join(open(s, "rb").read() for s in srcs)).hexdigest()
    if os.path.exists(MODELRUN) and os.path.exists(stamp) and open(stamp).read() == h:
        return
    for s in srcs:
        sh(["cp", s, os.path.join(BUILD, "ocaml")])
    rc, out = sh("ocamlfind ocamlopt -w -a -package str -linkpkg nxmodel.mli nxmodel.ml driver.ml -o modelrun",
                 cwd=os.path.join(BUILD, "ocaml"), timeout=600)
    if rc != 0:
        raise BrokenTie("OCaml build of the extracted model failed", out[-3000:])
    open(stamp, "w").write(h)


def harness_build(pkgs=("atomh", "simh")):
    hdir = os.path.join(VERIF, "harness")
    lock = os.path.join(hdir, "Cargo.lock")
    if not os.path.exists(lock):
        sh(["cp", os.path.join(REPO, "Cargo.lock"), lock])
    if "atomh" in pkgs:
        rc, out = sh([os.path.join(VERIF, "tools", "sync_mirror.sh")])
        if rc != 0:
            raise BrokenTie("source mirror failed", out)
    args = " ".join("-p %s" % p for p in pkgs)
    rc, out = sh("cargo build --offline %s" % args, cwd=hdir, timeout=1800)
    if rc != 0:
        raise BrokenTie("harness build failed (does /repo still compile?)", out[-4000:])


# ------------------------------------------------------------------ runners

def run_lines(binary, args, lines, timeout=900, shards=None):
    """Feeds case lines to a line-oriented runner; returns one output line per case.  If the runner
    dies (crash, abort, watchdog) the case it was working on is reported as CRASH and the runner is
    restarted on the remaining cases."""
    if not lines:
        return []
    shards = shards or min(NPROC, max(1, len(lines) // 200))
    res = [None] * len(lines)
    import threading
    def work(idx):
        todo = list(idx)
        restarts = 0
        while todo:
            p = subprocess.Popen([binary] + list(args), stdin=subprocess.PIPE, stdout=subprocess.PIPE,
                                 stderr=subprocess.DEVNULL, text=True, errors="replace")
            try:
                o, _ = p.communicate("\n".join(lines[i] for i in todo) + "\n", timeout=timeout)
            except subprocess.TimeoutExpired:
                p.kill()
                try:
                    o, _ = p.communicate(timeout=5)
                except Exception:
                    o = ""
            outs = o.split("\n")
            if outs and outs[-1] == "":
                outs = outs[:-1]
            for i, x in zip(todo, outs):
                res[i] = x
            done = len(outs)
            if done >= len(todo):
                break
            # a watchdog exit ("HANG" is the last line printed) or a crash: the runner is restarted on the
            # remaining cases, but not for ever - when hangs / crashes pile up (every multi-threaded bench
            # hangs when, say, the main thread is never unparked) the rest is not run
            if outs and outs[-1] == "HANG":
                todo = todo[done:]
            else:
                res[todo[done]] = "CRASH"
                todo = todo[done + 1:]
            restarts += 1
            if restarts > 6:
                for i in todo:
                    res[i] = "NOT-RUN after repeated hangs or crashes of the runner"
                break
            if restarts > 200:
                for i in todo:
                    res[i] = "NO-OUTPUT"
                break
    ths = [threading.Thread(target=work, args=(list(range(s0, len(lines), shards)),)) for s0 in range(shards)]
    for t in ths: t.start()
    for t in ths: t.join()
    return [r if r is not None else "NO-OUTPUT" for r in res]


def run_model(lines, **kw):
    return run_lines(MODELRUN, [], lines, **kw)


# ------------------------------------------------------------------ shrinking

def shrink_tokens(head, toks, fails, max_rounds=200):
    """Delta-debugging on a list of op tokens: `fails(head, toks)` -> bool."""
    toks = list(toks)
    n = 2
    rounds = 0
    while len(toks) >= 2 and rounds < max_rounds:
        rounds += 1
        chunk = max(1, len(toks) // n)
        removed = False
        for i in range(0, len(toks), chunk):
            cand = toks[:i] + toks[i + chunk:]
            if cand and fails(head, cand):
                toks = cand
                n = max(n - 1, 2)
                removed = True
                break
        if not removed:
            if chunk == 1:
                break
            n = min(len(toks), n * 2)
    return toks


# ------------------------------------------------------------------ evidence / reporting

class Report:
    def __init__(self, pid, tier, seed):
        self.pid, self.tier, self.seed = pid, tier, seed
        self.t0 = time.time()
        self.cov = {"evaluations": 0, "distinct_nontrivial": 0, "rule": "", "samples": [],
                    "obligations": 0, "discharged": 0, "checker_cmd": "", "trusted_base": [],
                    "traces_validated_against_impl": 0, "disagreements_checked": 0}
        self.assumptions = []
        self.violations = []   # (replay_path, suffix)
        self.known = []
        self.notes = []
    def add_proof(self, thms, cmd):
        self.cov["obligations"] += len(thms)
        self.cov["discharged"] += len(thms)
        self.cov["checker_cmd"] = (self.cov["checker_cmd"] + " ; " if self.cov["checker_cmd"] else "") + cmd
        self.cov.setdefault("theorems", [])
        for n, a in thms:
            self.cov["theorems"].append({"name": n, "assumptions": a})
    def violation(self, name, payload, no_input=False):
        os.makedirs(REPLAYS, exist_ok=True)
        path = os.path.join(REPLAYS, "%s-%s.json" % (self.pid, name))
        payload = dict(payload)
        payload.update({"property": self.pid, "seed": self.seed, "tier": self.tier,
                        "no_failing_input_found": bool(no_input)})
        json.dump(payload, open(path, "w"), indent=1)
        self.violations.append((path, no_input))
    def finish(self, level="proof"):
        os.makedirs(EVID, exist_ok=True)
        ev = {"property_id": self.pid, "tier": self.tier, "seed": self.seed, "level": level,
              "coverage": self.cov, "assumptions": self.assumptions,
              "wall_s": round(time.time() - self.t0, 2), "violations": len(self.violations)}
        if self.notes:
            ev["coverage"]["notes"] = self.notes
        json.dump(ev, open(os.path.join(EVID, self.pid + ".json"), "w"), indent=1)
        for k in self.known:
            print("KNOWN-FINDING: property=%s %s" % (self.pid, k))
        for path, no_input in self.violations:
            print("VIOLATION property=%s replay=%s%s" % (self.pid, path, " no-failing-input-found" if no_input else ""))
        return 1 if self.violations else 0


TRUSTED_COMMON = [
    "Coq 8.16.1 kernel (coqc); vm_compute used for witnesses/examples; no native_compute",
    "extraction: Require Extraction + ExtrOcamlBasic only (bool/option/list/prod/unit/sumbool); no Extract Constant/Inductive of our own; OCaml 4.13.1",
    "ocaml/driver.ml parser/printers; tools/*.py orchestration, generators and canonicalisers",
    "correspondence check is differential testing (samples); it ties the hand-written model to /repo's current source",
]


def known_findings():
    p = os.path.join(VERIF, "known_findings.json")
    if not os.path.exists(p):
        return []
    return json.load(open(p)).get("findings", [])
