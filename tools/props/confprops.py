"""Schedule independence (C04, second sentence): coq/Model/Conf.v + Proofs/ConfProofs.v + Proofs/ConfNet.v.

The theorems (c04_schedule_independence, c04_net_run_is_pool_schedule, ...) are about the net model of
Sim.v on benches of the plain fragment and have two decidable hypotheses: the invariant at the start of
a call (ninv_check) and an empty pool at the end of a call that returned Ok.  This part evaluates them
on generated benches (extracted Conf.conf_case, `conf` command of ocaml/driver.ml), runs the net model
under RANDOM choice lists against the pool scheduler's own prediction, and compares that prediction
directly with the invocations the IMPLEMENTATION logged for the same call on 1 and several threads."""
import vlib, simcase, simgen, simcheck

TRUSTED = ["schedule independence is proved for the pool abstraction (any message type, any content-only reaction) and, by the refinement c04_net_run_is_pool_schedule, for the net model of Sim.v on plain benches (scripts made of sends, queries and scheduling requests, every model added, no cancelled key); scripts that cancel or panic and benches with orphan / dropped models are outside the theorem (their schedule independence stays a compared-executors check); the step from the net model to the real executors is the bench correspondence"]

WHY = {"1": "hypothesis NInv does not hold at the start of the call", "2": "a call returned Ok with a non-empty pool",
       "3": "the pool scheduler ran out of fuel", "4": "the net model's log is not the multiset the pool scheduler predicts"}


def strip_time(e):
    p = e.split(":")
    return ":".join(p[:-1])


def with_sched(rng, c):
    """handlers that also schedule events (one-shot, keyed, periodic; never cancelled): a request adds to the
    scheduler queue and sends nothing in the current call, so the bench stays in the plain fragment"""
    for m in c["models"]:
        for h in m["handlers"]:
            if rng.random() < 0.3:
                h.insert(rng.randrange(len(h) + 1),
                         ("sch", ("r", rng.choice([5, 10, 25])), rng.randrange(3), rng.choice(["in", ("ip", 1)]),
                          rng.choice([None, None, 0, 1]), rng.choice([None, None, None, 7])))
    c["tags"] = set(c.get("tags", ())) | {"conf-sched"}
    return c


def run(rep, tier, rng, model_ok):
    if not model_ok:
        return
    q = tier == "quick"
    cases = [simgen.gen_net(rng, hier=(rng.random() < 0.3)) for _ in range(200 if q else 5000)]
    cases = [with_sched(rng, c) if i % 2 else c for i, c in enumerate(cases)]
    bugs = simcheck.current_bugs()
    chs = [([rng.randrange(97) for _ in range(80)], [[rng.randrange(97) for _ in range(80)] for _ in c["cmds"]]) for c in cases]
    clines = ["conf" + simcase.render(c, bugs=bugs, choices=ch)[3:] for c, ch in zip(cases, chs)]
    couts = vlib.run_model(clines)
    threads = (1, 4) if q else (1, 2, 4, 8)
    impl = {th: simcheck.run_impl([simcase.render(c, bugs=bugs, threads=th) for c in cases]) for th in threads}
    st = {"benches": len(cases), "benches_with_scheduling_handlers": sum(1 for c in cases if "conf-sched" in c.get("tags", ())), "calls_checked": 0, "calls_na": 0, "model_bad": 0, "impl_mismatch": 0,
          "invocations_predicted": 0, "calls_where_quiescence_theorem_applies": 0, "threads": list(threads), "max_invocations_in_one_call": 0}
    bad_m, bad_i = [], []
    for ci, (c, cl, co) in enumerate(zip(cases, clines, couts)):
        vs = [v.strip() for v in (co or "").split(" | ")]
        if len(vs) != len(c["cmds"]) + 1:
            bad_m.append((ci, "no verdict list from the model: %r" % (co or "")[:200])); continue
        for j, v in enumerate(vs):
            if v == "na":
                st["calls_na"] += 1; continue
            if v.startswith("bad:"):
                bad_m.append((ci, "call %d: %s" % (j, WHY.get(v[4:], v)))); continue
            proved = v.startswith("ok+:")
            pred = sorted(x for x in v[(4 if proved else 3):].split() if x)
            st["calls_checked"] += 1
            st["calls_where_quiescence_theorem_applies"] += 1 if proved else 0
            st["invocations_predicted"] += len(pred)
            st["max_invocations_in_one_call"] = max(st["max_invocations_in_one_call"], len(pred))
            for th in threads:
                iobs = simcase.parse_out(impl[th][ci])
                if iobs is None or j >= len(iobs):
                    continue            # hangs / crashes are reported by the executor parts
                res, _, ents = iobs[j]
                if res.split(":")[0] not in ("ok", "reply"):
                    continue
                got = sorted(strip_time(e) for e in ents if e.split(":")[0] in ("H", "P", "I"))
                if got != pred:
                    bad_i.append((ci, th, j, got, pred))
    st["model_bad"], st["impl_mismatch"] = len(bad_m), len(bad_i)
    rep.cov["evaluations"] += len(cases) * (1 + len(threads))
    rep.cov["traces_validated_against_impl"] += len(cases) * len(threads)
    rep.cov["distinct_nontrivial"] += sum(1 for co in couts if co and "ok:H" in co.replace("ok+:", "ok:").replace("ok:I", "ok:H"))
    rep.cov["disagreements_checked"] += len(bad_m) + len(bad_i)
    rep.cov.setdefault("parts", {})["pool-confluence"] = st
    if bad_i:
        ci, th, j, got, pred = bad_i[0]
        rep.violation("pool-confluence-impl", {
            "kind": "property-violated-on-implementation", "threads": th,
            "why": "call %d returned Ok but the multiset of handler invocations it logged is not the one every schedule of the call must produce (c04_schedule_independence)" % j,
            "implementation_invocations": got, "predicted_invocations": pred,
            "case": simcase.render(cases[ci], bugs=bugs, threads=th), "observed": impl[th][ci], "failures": len(bad_i)})
    elif bad_m:
        ci, why = bad_m[0]
        rep.violation("pool-confluence-model", {
            "kind": "broken-correspondence",
            "what": "a decidable hypothesis of c04_schedule_independence / the pool prediction fails on the net model of Sim.v: " + why,
            "case": clines[ci], "model": couts[ci], "failures": len(bad_m)}, no_input=True)


def replay(r):
    line = r.get("case", "")
    if r.get("kind") == "broken-correspondence" and line.startswith("conf"):
        print("case: ", line); print("model:", vlib.run_model([line], shards=1)[0]); return True
    if "predicted_invocations" in r:
        out = simcheck.run_impl([line])[0]
        print("case:           ", line); print("implementation: ", out)
        print("predicted:      ", r["predicted_invocations"])
        print("model verdicts: ", vlib.run_model(["conf" + line[3:]], shards=1)[0]); return True
    return False
