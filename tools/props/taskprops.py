"""Shared tie for the properties decided on TaskSM.v (C13, C05, C19): the verbatim task.rs tree
under the deterministic scheduler, judged by the oracle of harness/atomh/src/tscen.rs."""
import vlib, taskgen, taskreplay

FLAGS_C13 = None  # every flag


def run_tasks(rep, name, cases, relevant=None, model_ok=True):
    outs = vlib.run_lines(vlib.ATOMH, ["seq"], cases, timeout=900)
    bad, distinct, kinds = [], set(), {}
    for c, o in zip(cases, outs):
        v = o.split("|")[0].strip()
        if "|" in o:
            distinct.add(o.split("|", 2)[2] if o.count("|") >= 2 else o)
        if v != "OK":
            flags = [f for f in v.split(",") if relevant is None or any(f.startswith(r) for r in relevant)]
            if v in ("CRASH", "NO-OUTPUT") or flags:
                bad.append((c, v, o))
            for f in v.split(","):
                kinds[f] = kinds.get(f, 0) + 1
    rep.cov["evaluations"] += len(cases)
    rep.cov["distinct_nontrivial"] += len(distinct)
    rep.cov.setdefault("parts", {})[name] = {"schedules": len(cases), "distinct_traces": len(distinct), "oracle_failures": len(bad), "verdict_kinds": kinds}
    if cases and len(rep.cov["samples"]) < 3:
        rep.cov["samples"].append({"case": cases[0], "impl": outs[0][:400]})
    if bad:
        c, v, o = min(bad, key=lambda x: len(x[0]))
        rep.violation(name + "-oracle", {"kind": "property-violated-on-implementation", "case": c, "verdict": v,
                                         "trace": o[:3000], "failures": len(bad)})
    if model_ok:
        model_replay(rep, name, cases, outs, report=not bad)


def model_replay(rep, name, cases, outs, report=True):
    """translation validation: every real trace is replayed, operation by operation, in the
    extracted TaskSM (tools/taskreplay.py)"""
    K = vlib.gen_consts_values()
    n, nops, hist, bad = taskreplay.replay(cases, outs, K)
    rep.cov.setdefault("parts", {})[name + "-model-replay"] = {
        "traces_replayed": n, "model_operations": nops, "operation_histogram": hist, "disagreements": len(bad)}
    if bad and report:
        b = min(bad, key=lambda x: len(x["case"]))
        d = {"kind": "broken-correspondence", "what": "a trace of the real executor/task.rs is not a run of TaskSM.v (theorems ts_run_inv / inv_meaning are about TaskSM.v)",
             "disagreements": len(bad)}
        d.update(b)
        rep.violation(name + "-model-replay", d, no_input=True)


def model_exploration(rep, rng, n):
    """random operation sequences on the extracted TaskSM: the boolean invariant must hold after every
    prefix (a test of the model, the theorem is c13_invariant_*)"""
    OPS = "clone wakeref wake dropw droptok cancel cancelfin pollp dropp start begin pending ready panic rupd rfin cclose dropr".split()
    cases = ["ts %s %s" % (rng.choice("pf"), " ".join(rng.choice(OPS) for _ in range(rng.randint(3, 40)))) for _ in range(n)]
    outs = vlib.run_model(cases)
    bad = [(c, o) for c, o in zip(cases, outs) if o != "OK"]
    rep.cov.setdefault("parts", {})["model-invariant-sampling"] = {"sequences": len(cases), "failures": len(bad)}
    if bad:
        rep.violation("model-invariant", {"kind": "broken-proof-obligation", "what": "inv_b fails on a run of the extracted TaskSM", "case": bad[0][0], "result": bad[0][1]}, no_input=True)
