"""ExecutorInner::run of the single-threaded executor (coq/Model/StRun.v): translator T5 + search for a failing input."""
import vlib

TRUSTED = ["translator T5 tools/gen_strun.py: the body of ExecutorInner::run (st_executor.rs) is translated statement by statement into gen/StRunProg.v on every run (unknown statements are refused); the task loop is abstracted to its effect on the two thread-locals (a change of the count; completion or a panic of some model); the multi-threaded executor does not share these thread-locals with its caller (its tasks run on its own worker threads) and has no counterpart of this model"]


def run(rep, tier):
    import gen_strun
    part = {"translator": "ok"}
    try:
        _, ops = gen_strun.generate()
        part["program_generated"] = ops
    except gen_strun.Refuse as e:
        part["translator"] = "refused: %s" % e
        rep.cov.setdefault("parts", {})["st-run-model"] = part
        raise vlib.BrokenTie("translator gen_strun.py refused the current executor/st_executor.rs", str(e))
    if vlib.RUNNER_OK:
        o = vlib.run_model(["strun"], shards=1)[0]
        part["search"] = o
        if o.startswith("FOUND"):
            rep.violation("st-run-model-execution", {
                "kind": "property-violated-on-model-generated-from-source",
                "what": "the body of ExecutorInner::run generated from the current st_executor.rs violates its specification (coq/Model/StRun.v, sr_spec): after the run the thread-locals of an enclosing executor are not what they were, or the outcome is misclassified (a panic must be reported before unprocessed messages and name the panicking model)",
                "input": o[6:], "program_generated": ops,
                "replay_cmd": "echo strun | .build/ocaml/modelrun",
                "theorems_broken": "c06_strun_source_is_proved_program / c06_strun_nested_run_restores_thread_locals / c11_strun_panic_is_reported_first"})
        elif not o.startswith("NONE"):
            raise vlib.BrokenTie("strun search failed", o[:300])
    rep.cov.setdefault("parts", {})["st-run-model"] = part


def replay(r):
    if r.get("kind") != "property-violated-on-model-generated-from-source" or "input" not in r:
        return False
    import gen_strun
    print("recorded input:", r.get("input"))
    try:
        print("program generated from the current source:", gen_strun.generate()[1])
    except gen_strun.Refuse as e:
        print("translator refuses the current source:", e); return True
    print("search on the current source:", vlib.run_model(["strun"], shards=1)[0])
    return True
