"""Correspondence of coq/Model/Broadcast.v with the verbatim ports/output/broadcaster.rs (+ the real
util/task_set.rs and diatomic-waker) on scripted query broadcasts (harness/atomh bscen.rs)."""
import vlib, bsgen

CORPUS = [
    "bs 3 Q:111:a p N c1 N p c0 c2 N p",
    "bs 3 Q:111:a S:0.0:c1+c2 p N p c0 N p",
    "bs 3 Q:101:1 p c2 c0 N p Q:111:a p c0 c1 c2 p N",
    "bs 2 Q:11:a p w0 N p N c0 c1 N p",
    "bs 3 Q:111:a p c0 N p c1 N c2 N p",
    "bs 3 Q:111:0 c0 c1 c2 p Q:111:a p c0 N c1 c2 N p p",
    "bs 2 Q:11:a p c0 c1 N p p",
]


def run(rep, name, rng, n, model_ok):
    cases = CORPUS + bsgen.gen(rng, n)
    impl = vlib.run_lines(vlib.ATOMH, ["seq"], cases)
    model = vlib.run_model(cases) if model_ok else [None] * len(cases)
    bad = [(c, i, m) for c, i, m in zip(cases, impl, model) if m is not None and i != m]
    crashed = [(c, i) for c, i in zip(cases, impl) if i in ("CRASH", "NO-OUTPUT", "PANIC") or i.startswith("ERR")]
    polls = sum(i.count("P[") for i in impl)
    oks = sum(i.count("]=ok") for i in impl)
    rep.cov["evaluations"] += len(cases)
    rep.cov["distinct_nontrivial"] += len(set(impl))
    rep.cov["traces_validated_against_impl"] += len(cases) if model_ok else 0
    rep.cov.setdefault("parts", {})[name] = {"scenarios": len(cases), "parent_polls": polls, "completed_queries": oks,
                                             "disagreements": len(bad), "crashes": len(crashed)}
    if len(rep.cov["samples"]) < 4:
        rep.cov["samples"].append({"case": cases[8], "impl": impl[8][:300], "model": model[8]})
    if crashed and not bad:
        c, i = min(crashed, key=lambda x: len(x[0]))
        rep.violation(name + "-crash", {"kind": "property-violated-on-implementation", "case": c, "observed": i,
                                        "what": "the real broadcaster panicked / crashed on a scripted query broadcast"})
    if bad:
        c, i, m = min(bad, key=lambda x: len(x[0]))
        head = c.split()[:2]
        toks = vlib.shrink_tokens(head, c.split()[2:], lambda h, ts: _differs(h + ts), max_rounds=60)
        if toks:
            c = " ".join(head + toks)
            i = vlib.run_lines(vlib.ATOMH, ["seq"], [c], shards=1)[0]
            m = vlib.run_model([c], shards=1)[0]
        rep.violation(name, {"kind": "model-and-implementation-disagree", "case": c, "implementation": i, "model": m,
                             "what": "the real BroadcastFuture / reply iterator behaves differently from Broadcast.v, for which the theorems (replies matched to repliers in connection order, completion only when all replied, parent armed whenever Pending is returned) are proved: on this scenario the implementation's sub-future polls, completion or replies differ",
                             "disagreements": len(bad)})


def _differs(tokens):
    c = " ".join(tokens)
    return vlib.run_lines(vlib.ATOMH, ["seq"], [c], shards=1)[0] != vlib.run_model([c], shards=1)[0]


def run_taskset(rep, name, rng, n, model_ok):
    """the real util/task_set.rs under the deterministic scheduler (wakers racing with the owner's
    take / iterate / drop), judged by an oracle and replayed step by step in TaskSetConc.v"""
    import tsetreplay
    cases = tsetreplay.gen(rng, n)
    outs = vlib.run_lines(vlib.ATOMH, ["seq"], cases)
    real = [(c, o) for c, o in zip(cases, outs) if not o.startswith("OK |") and not o.startswith("BUDGET")]
    distinct = len(set(o.split("|", 1)[1] for o in outs if "|" in o))
    rep.cov["evaluations"] += len(cases)
    rep.cov["distinct_nontrivial"] += distinct
    part = {"schedules": len(cases), "distinct_traces": distinct, "oracle_failures": len(real)}
    if real:
        c, o = min(real, key=lambda x: len(x[0]))
        rep.violation(name + "-oracle", {"kind": "property-violated-on-implementation", "case": c, "verdict": o.split("|")[0].strip(),
                                         "trace": o.split("|", 1)[1][:3000] if "|" in o else o, "failures": len(real)})
    if model_ok:
        k, nsteps, bad, skipped = tsetreplay.replay(cases, outs)
        part.update({"traces_replayed": k, "model_steps": nsteps, "disagreements": len(bad), "traces_not_mapped": len(skipped)})
        rep.cov["traces_validated_against_impl"] += k
        if (bad or skipped) and not real:
            b = min(bad, key=lambda x: len(x["case"])) if bad else {"case": skipped[0]["case"], "why": "trace not mapped: " + skipped[0]["why"]}
            d = {"kind": "broken-correspondence", "what": "a trace of the real util/task_set.rs is not a run of TaskSetConc.v (for which 'no wake-up is lost' is proved)",
                 "disagreements": len(bad), "not_mapped": len(skipped)}
            d.update(b)
            rep.violation(name + "-model-replay", d, no_input=True)
    rep.cov.setdefault("parts", {})[name] = part
