"""C05 — model isolation."""
import vlib, taskgen, simgen, oracles
from props import taskprops, simprops

HARNESS = ("atomh", "simh")
TRUSTED = ["executor level = C13's model and exploration (poll exclusivity); model level = Sim.v (a busy task cannot start a message; only the owner consumes its mailbox); that a model and its receiver are owned by exactly one task is read off simulation::add_model (modelling assumption)",
           "steal / re-schedule paths of the multi-threaded executor are exercised on 2..16 threads, not modelled"]
ASSUMPTIONS = []


def tie(rep, tier, rng, model_ok):
    q = tier == "quick"
    cases = taskgen.enum_shapes(4 if q else 6) + taskgen.gen(rng, 2500 if q else 50000)
    taskprops.run_tasks(rep, "task-schedules", cases, relevant=("POLL-OVERLAP", "POLL-AFTER-END", "PANIC", "STUCK"), model_ok=model_ok)
    b = [simgen.gen_net(rng) for _ in range(200 if q else 5000)]
    simprops.run(rep, "C05", model_ok, [("handlers-on-threads", b, (2, 4, 8, 16), (oracles.o_harness, oracles.o_exactly_once), lambda c, o: True)],
                 "task level: concurrent wakers/runner/canceller schedules on the verbatim task.rs, oracle = at most one thread inside poll, no poll after the end; model level: message-passing benches on 2..16 worker threads must equal Sim.v, in which a model's handlers are sequential by construction")


def replay(rep, path, model_ok):
    import json
    r = json.load(open(path)); print(r.get("case"))
