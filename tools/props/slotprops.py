"""The one-shot reply slot util/slot.rs (coq/Model/Slot.v): translator T6, model search, scheduled exploration of the verbatim source."""
import vlib

TRUSTED = ["translator T6 tools/gen_slot.py: the constants CLOSED / POPULATED and the mask written by SlotWriter::write are taken from util/slot.rs on every run after the four functions (write, try_read, the two drop handlers) have been compared with the shape Slot.v was written for (anything else is refused); sequential consistency (the Release / Acquire pairs of slot.rs are not given a semantics)",
           "the verbatim slot.rs is explored under the deterministic scheduler (atomh, slotscen.rs) with a contract oracle (payload dropped exactly once, allocation freed exactly once and never touched afterwards, value read at most once); the model is not replayed step by step against those traces"]


def gen(rng, n):
    cases = []
    for _ in range(n):
        sch = []
        while len(sch) < rng.randint(5, 60):
            sch += [rng.randrange(2)] * rng.choice([1, 1, 2, 3, 8])
        cases.append("slt %s %d S %s" % (rng.choice("wwd"), rng.randint(0, 3), " ".join(map(str, sch))))
    return cases


def run(rep, tier, rng):
    import gen_slot
    part = {"translator": "ok"}
    try:
        _, k = gen_slot.generate()
        part["constants_generated"] = {"closed": k[0], "populated": k[1], "write_mask": k[2]}
    except gen_slot.Refuse as e:
        part["translator"] = "refused: %s" % e
        rep.cov.setdefault("parts", {})["slot-model"] = part
        raise vlib.BrokenTie("translator gen_slot.py refused the current util/slot.rs", str(e))
    if vlib.RUNNER_OK:
        o = vlib.run_model(["slotsearch"], shards=1)[0]
        part["search"] = o.split(" | ")[0]
        if o.startswith("FOUND"):
            rep.violation("slot-model-execution", {
                "kind": "property-violated-on-model-generated-from-source",
                "what": "in the slot model (coq/Model/Slot.v) with the constants generated from the current util/slot.rs a reachable state violates the contract: an access after free, a double free, a value dropped or moved out twice, or - once both handles are gone - an allocation that is still there or a written value that was neither read nor dropped (a leaked reply)",
                "schedule": o.split(" | ")[1], "constants_generated": part["constants_generated"],
                "replay_cmd": "echo slotsearch | .build/ocaml/modelrun",
                "theorems_broken": "c19_slot_source_is_proved_program / c19_slot_released_exactly_once"})
        elif not o.startswith("NONE"):
            raise vlib.BrokenTie("slotsearch failed", o[:300])
    cases = gen(rng, 3000 if tier == "quick" else 60000)
    outs = vlib.run_lines(vlib.ATOMH, ["seq"], cases)
    bad = [(c, o) for c, o in zip(cases, outs) if not o.startswith("OK")]
    rep.cov["evaluations"] += len(cases)
    part["schedules_on_verbatim_source"] = len(cases)
    part["distinct_read_outcomes"] = len(set(o.split(" | ")[1].split()[0] for o in outs if " | " in o))
    part["oracle_failures"] = len(bad)
    rep.cov.setdefault("parts", {})["slot-model"] = part
    if bad:
        c, o = min(bad, key=lambda t: len(t[0]))
        rep.violation("slot-oracle", {"kind": "property-violated-on-implementation", "case": c, "observed": o, "failures": len(bad),
                                      "why": "on the verbatim util/slot.rs under the deterministic scheduler: " + o.split(" | ")[0]})
