"""C10 — periodic actions fire at t0 + k*p, independent of the step partition."""
import simgen, simcase, simcheck, oracles, vlib
from props import simprops

HARNESS = ("simh",)
TRUSTED = ["the trace-level progression is the composition of c10_reinsert (pulled key + period), c10_nothing_due_left (no skipped occurrence), c10_only_live_heads_fire (nothing spurious); the composition is checked by correspondence, by the driver-event oracle and by cross-partition comparison on the implementation"]
ASSUMPTIONS = []
ORACLES = (oracles.o_harness, oracles.o_driver_events, oracles.o_time, oracles.o_model_periodic)


def fired(obs):
    out = []
    for o in obs:
        for e in o[2]:
            f = e.split(":")
            if f[0] == "H":
                out.append((int(f[2]), int(f[3]), int(f[4])))
    return out


def tie(rep, tier, rng, model_ok):
    q = tier == "quick"
    n = 150 if q else 4000
    groups, cases = [], []
    for _ in range(n):
        m, setup, cancels, horizon = simgen.gen_periodic(rng)
        g = []
        for kind in ("big", "unit", "mixed", "mixed"):
            cmds = list(setup) + simgen.partition_cmds(rng, horizon, cancels, kind)
            g.append(len(cases))
            cases.append({"models": [m], "sinks": [], "mode": "seq", "tags": {"periodic", "ss-oracle"}, "t0": 0, "clock": [], "cmds": cmds,
                          "sources": [[("all", 0, ("m", 0, k))] for k in range(4)]})
        groups.append(g)
    for _ in range(n // 3):
        m, setup, series, horizon = simgen.gen_periodic_model(rng)
        g = []
        for kind in ("big", "unit", "mixed"):
            cmds = list(setup) + simgen.partition_cmds(rng, horizon, [], kind)
            g.append(len(cases))
            cases.append({"models": [m], "sinks": [], "mode": "seq", "tags": {"periodic", "model-periodic"}, "t0": 0, "clock": [], "cmds": cmds,
                          "sources": [], "meta": {"series": series}})
        groups.append(g)
    dis, orc, lm, mo, res = simcheck.compare_cases(rep, "partitions", cases, model_ok, oracles=ORACLES,
                                                   thread_counts=(1, 3) if q else (1, 2, 4, 8),
                                                   nontrivial=lambda c, o: len(fired(o)) >= 4)
    simcheck.report(rep, "partitions", cases, dis, orc, lm, mo, res)
    # cross-partition agreement on the implementation itself
    bad = 0
    for g in groups:
        fs = []
        for i in g:
            o = simcase.parse_out(res[1][i])
            fs.append(fired(o) if o else None)
        if any(f != fs[0] for f in fs):
            bad += 1
            if bad == 1:
                rep.violation("partition-dependence", {"kind": "property-violated-on-implementation",
                              "why": "the same periodic bench fires different occurrences under different step/step_until partitions",
                              "cases": [lm[i] for i in g], "fired": [str(f)[:400] for f in fs]})
    rep.cov["parts"]["partitions"]["groups"] = len(groups)
    rep.cov["parts"]["partitions"]["partition_dependent_groups"] = bad
    b = [simgen.gen_sched(rng) for _ in range(150 if q else 4000)]
    # "... until it is cancelled": a keyed periodic series cancelled by an earlier event of the same model at the time of
    # one of its occurrences (no occurrence from that time on), by the driver between steps, or after firing
    kc = [c for c in (simgen.gen_cancel(rng) for _ in range(300 if q else 6000)) if any(
        op[0] == "sch" and op[5] is not None for h in c["models"][0]["handlers"] for op in h)]
    simprops.run(rep, "C10", model_ok, [("sched-1thread", b, (1,), ORACLES, lambda c, o: "periodic" in c.get("tags", ())),
                                        ("periodic-cancelled-in-the-step", kc, (1, 3), ORACLES + (oracles.o_handler_cancel,), lambda c, o: True)],
                 "1-4 periodic series, model-input events and EventSource events scheduled by the driver, or 1-2 series armed by the model on itself (oracle: every occurrence first + k*period up to the time reached has run, once, when the stepping call returns) (periods 1,2,3,4,6,10 ns; first deadlines 1..12) with coincidences and cancel points, horizon 15..40 cut into 4 partitions per bench (one step_until, unit steps, two random mixes); all partitions must produce the same (input, payload, time) firing sequence, equal to the model's; + general scheduling benches. non-trivial = >=4 occurrences fired")


def replay(rep, path, model_ok):
    simprops.replay(rep, path, model_ok)
