"""C17 — event sinks."""
import vlib
from props import opseq

HARNESS = ("simh",)
TRUSTED = ["std VecDeque/Mutex/AtomicBool trusted; EventSlot's try_lock drop-on-contention under concurrent writers is outside the statement",
           "the real EventBuffer/EventSlot are driven through the public API (EventSink::writer, Iterator::next, EventSinkStream::{open,close})"]
ASSUMPTIONS = ["capacity >= 1; one reader; writes are issued one at a time"]


def ref_run(line):
    w = line.split()
    out = []
    if w[0] == "ebuf":
        cap, is_open, ops = int(w[1]), w[2] == "1", w[3:]
        buf = []
        for op in ops:
            f = op.split(",")
            if f[0] == "w":
                if is_open:
                    buf.append(int(f[1]))
                    if len(buf) > cap: buf = buf[-cap:]
                out.append("n")
            elif f[0] == "r":
                out.append("s,%d" % buf.pop(0) if buf else "n")
            elif f[0] == "o": is_open = True; out.append("n")
            elif f[0] == "c": is_open = False; out.append("n")
    else:
        is_open, ops = w[1] == "1", w[2:]
        slot = None
        for op in ops:
            f = op.split(",")
            if f[0] == "w":
                if is_open: slot = int(f[1])
                out.append("n")
            elif f[0] == "r":
                out.append("n" if slot is None else "s,%d" % slot); slot = None
            elif f[0] == "o": is_open = True; out.append("n")
            elif f[0] == "c": is_open = False; out.append("n")
    return " ".join(out)


def nontrivial(line):
    w = line.split()
    ops = w[3:] if w[0] == "ebuf" else w[2:]
    nw = sum(1 for o in ops if o.startswith("w,"))
    return nw >= 2 and "r" in ops


def gen(rng, n, maxlen):
    out = []
    for _ in range(n):
        L = rng.randint(1, maxlen)
        ops, v = [], 0
        pw = rng.choice([0.4, 0.6, 0.8])
        for _ in range(L):
            r = rng.random()
            if r < pw: v += 1; ops.append("w,%d" % v)
            elif r < pw + (1 - pw) * 0.7: ops.append("r")
            elif r < pw + (1 - pw) * 0.85: ops.append("c")
            else: ops.append("o")
        if rng.random() < 0.7:
            out.append("ebuf %d %d %s" % (rng.choice([1, 1, 2, 3, 4, 5, 7, 8, 16]), rng.random() < 0.85, " ".join(ops)))
        else:
            out.append("eslot %d %s" % (rng.random() < 0.85, " ".join(ops)))
    return [o.replace("True", "1").replace("False", "0") for o in out]


def gen_exhaustive(length):
    out = []
    alpha = ["w", "r", "o", "c"]
    def rec(prefix, v):
        if len(prefix) == length:
            for cap in (1, 2, 3):
                out.append("ebuf %d 1 %s" % (cap, " ".join(prefix)))
            out.append("eslot 1 " + " ".join(prefix)); return
        rec(prefix + ["w,%d" % (v + 1)], v + 1)
        for a in alpha[1:]:
            rec(prefix + [a], v)
    rec([], 0)
    return out


def tie(rep, tier, rng, model_ok):
    quick = tier == "quick"
    cases = opseq.load_corpus("C17") + gen_exhaustive(6 if quick else 8) + gen(rng, 2000 if quick else 40000, 40 if quick else 300)
    opseq.check(rep, "sinks", cases, vlib.SIMH, ["seq"], ref_run, nontrivial, model_ok, (lambda c: 3 if c.startswith("ebuf") else 2), exhaustive=True,
                rule="all write/read/open/close sequences of length %d on EventBuffer(cap 1..3) and EventSlot + random sequences (cap 1..16, overflow bursts); non-trivial = >=2 writes and a read" % (6 if quick else 8))
    rep.cov["exhaustive"] = True


def replay(rep, path, model_ok):
    import json
    r = json.load(open(path))
    case = r.get("case")
    if not case:
        print("replay file names no concrete case:", r.get("what")); return
    got = vlib.run_lines(vlib.SIMH, ["seq"], [case], shards=1)[0]
    print("case:      ", case); print("observed:  ", got); print("expected:  ", ref_run(case))
    if got != ref_run(case):
        rep.violation("replay", {"kind": "property-violated-on-implementation", "case": case, "observed": got, "expected_by_property": ref_run(case)})
