"""C15 — time reads are never torn and never go backwards."""
import vlib
from props import opseq

HARNESS = ("atomh",)
TRUSTED = ["memory model: Model/WMem.v is a view-based operational semantics of release/acquire + relaxed accesses and fences in the style of ORC11 / the promise-free promising semantics (RC11 without load buffering); stores append to the modification order (exact for single-writer locations); no same-thread release sequences (the weaker reading); SeqCst/AcqRel are outside the fragment (the translator refuses them); that this machine captures the behaviours of the Rust/C++ memory model on the target hardware is assumed, not proved",
           "translator T2 tools/gen_synccell.py: SyncCell::write, SyncCellReader::try_read and TearableAtomicTime::tearable_load/store are translated statement by statement into gen/SyncCellProg.v on every run (unknown statements are refused); the theorems c15_wm_* are stated on the generated programs; the sequence of memory orderings the compiled code actually executes (recorded under the deterministic scheduler) is compared with the generated programs on every run",
           "sequence-number wrap-around (2^63 writes) excluded; the search for a failing weak-memory execution (ocaml/driver.ml wm_search) is a bounded exploration used only to find a replay, never as evidence that the property holds",
           "TearableAtomicTime of time/monotonic_time.rs uses std atomics and is re-implemented in the harness over instrumented atomics; tools/gen_consts.py checks its load/store shape in the source on every run",
           "u64/u32 halves; MonotonicTime::new(..).unwrap() range checks not modelled"]
ASSUMPTIONS = ["one writer (the simulation thread), any number of readers"]

W_EXPECT = ["load-rlx", "store-rlx", "fence-rel", "store-rlx", "store-rlx", "store-rel"]
R_EXPECT_OK = ["load-acq", "load-rlx", "load-rlx", "fence-acq", "load-rlx"]


def gen_programs():
    """the two programs the translator derives from the current source, as driver tokens, and the
    sequences of orderings they imply (which the executed code must show)"""
    import gen_synccell
    try:
        w, r = gen_synccell.generate()
    except gen_synccell.Refuse as e:
        raise vlib.BrokenTie("translator gen_synccell.py refused the current source", str(e))
    LOC = {"LSeq": "Seq", "LSec": "Sec", "LNan": "Nan"}

    def tok(i):
        f = i.replace("(", " ").replace(")", " ").split()
        if f[0] == "Ld":
            return "Ld,%s,%s,%s" % (LOC[f[1]], f[2], f[3])
        if f[0] == "St":
            e = {"EArgA": "A", "EArgB": "B"}.get(f[3]) or "%s+%s" % (f[4], f[5])
            return "St,%s,%s,%s" % (LOC[f[1]], f[2], e)
        if f[0] == "Fn":
            return "Fn," + f[1]
        if f[0] == "FailIfOdd":
            return "Odd," + f[1]
        if f[0] == "RetIfEq":
            return "Ret," + ",".join(f[1:5])
        raise vlib.BrokenTie("gen_synccell produced an unknown instruction", i)

    def ords(p):
        out = []
        for i in p:
            f = i.split()
            if f[0] in ("Ld", "St"):
                out.append(("load-" if f[0] == "Ld" else "store-") + f[2].lower())
            elif f[0] == "Fn":
                out.append("fence-" + f[1].lower())
        return out
    return [tok(i) for i in w], [tok(i) for i in r], ords(w), ords(r)


def wm_search(rep, wt, rt, tier, report_found):
    """bounded exploration of the weak-memory machine on the GENERATED programs, looking for a torn
    or backward read"""
    q = tier == "quick"
    cfgs = [("I 1 10 V 2 20 N 1", 14, 2), ("I 1 10 V 2 20 3 30 N 1", 22 if q else 28, 3), ("I 1 10 V 2 20 N 2", 16 if q else 21, 2)]
    if not q:
        cfgs.append(("I 1 10 V 2 20 3 30 N 2", 24, 3))
    # the exploration is cut at a fixed number of states (it is a search for a replay, not evidence)
    lines = ["wmsearch W %s R %s %s D %d C %d L %d" % (" ".join(wt), " ".join(rt), c, d, mc, 300000 if q else 1500000) for c, d, mc in cfgs]
    outs = vlib.run_model(lines, shards=min(len(lines), 4))
    res = []
    for l, o in zip(lines, outs):
        res.append({"config": l.split(" I ")[1], "result": o[:400]})
        if o.startswith("FOUND") and report_found:
            f = [x.strip() for x in o.split("|")]
            rep.violation("weak-memory-execution", {
                "kind": "property-violated-on-the-model-of-the-current-source",
                "what": "under the release/acquire memory model (coq/Model/WMem.v) the programs generated from the current util/sync_cell.rs + time/monotonic_time.rs return a time the cell never held, or an older time after a newer one",
                "writer_program": wt, "reader_program": rt, "config": l.split(" I ")[1],
                "schedule_thread_choice": f[1], "reader_outputs": f[2], "values_the_cell_held": f[3],
                "replay": "echo '%s' | .build/ocaml/modelrun   (then: wm ... S <schedule>)" % l,
                "note": "a weak-memory execution: x86 hardware and the SC scheduler of the harness cannot exhibit it; loom (cfg nexosim_loom) or a weakly ordered CPU can"})
            break
        if not (o.startswith("NONE") or o.startswith("FOUND")):
            raise vlib.BrokenTie("model runner failed on wmsearch", o[:400])
    rep.cov.setdefault("parts", {})["weak-memory-search"] = res
    return any(r["result"].startswith("FOUND") for r in res)


def gen(rng, n):
    out = []
    for _ in range(n):
        nr = rng.randint(1, 3)
        k = rng.randint(1, 3)
        attempts = rng.randint(1, 4)
        vals = [(rng.choice([1, 2, 3, 7]), rng.choice([10, 20, 30])) for _ in range(k)]
        sched = [rng.randrange(nr + 1) for _ in range(rng.randint(8, 70))]
        out.append("sl %d %d 1 10 V %d %s S %s" % (nr, attempts, k, " ".join("%d %d" % v for v in vals), " ".join(map(str, sched))))
    return out


def check_orderings(ords, W_EXPECT=W_EXPECT, R_EXPECT_OK=R_EXPECT_OK):
    w, r = [x.split(",") if x.strip() else [] for x in ords.split(" ; ")]
    nw, nr = len(W_EXPECT), len(R_EXPECT_OK)
    for i in range(0, len(w), nw):
        if w[i:i + nw] != W_EXPECT[:len(w[i:i + nw])]:
            return "writer orderings %s, expected repetitions of %s" % (w[i:i + nw], W_EXPECT)
    i = 0
    while i < len(r):
        if r[i] != R_EXPECT_OK[0]:
            return "reader orderings: %s at %d, expected %s" % (r[i], i, R_EXPECT_OK[0])
        if r[i + 1:i + nr] == R_EXPECT_OK[1:]:
            i += nr
        elif i + 1 <= len(r) and (i + 1 == len(r) or (r[i + 1] == R_EXPECT_OK[0] and R_EXPECT_OK[1:2] != R_EXPECT_OK[0:1])):
            i += 1      # odd sequence number: immediate Err
        elif r[i + 1:] == R_EXPECT_OK[1:1 + len(r[i + 1:])]:
            break       # truncated by the step budget / end of run
        else:
            return "reader orderings %s, expected %s" % (r[i:i + nr], R_EXPECT_OK)
    return None


def tie(rep, tier, rng, model_ok):
    q = tier == "quick"
    # when the translator refuses the current source the theorems no longer apply: the exploration of the verbatim
    # sync_cell.rs under the deterministic scheduler is still run, judged by the oracle alone, as the search for a
    # concrete torn / backward read; the broken tie is reported afterwards if the search finds nothing
    tie_problem = None
    try:
        wt, rt, w_ords, r_ords = gen_programs()
    except vlib.BrokenTie as e:
        tie_problem, wt, rt, w_ords, r_ords = e, None, None, None, None
        model_ok = False
    found = False
    if vlib.RUNNER_OK and tie_problem is None:
        # on an unbroken proof this can find nothing (c15_wm_not_torn); when the proof obligation
        # "generated = proved program" is broken it is the search for a failing input
        found = wm_search(rep, wt, rt, tier, report_found=True)
    cases = opseq.load_corpus("C15") + gen(rng, 3000 if q else 60000)
    outs = vlib.run_lines(vlib.ATOMH, ["seq"], cases)
    parsed, model_lines = [], []
    for c, o in zip(cases, outs):
        f = [x.strip() for x in o.split("|")]
        parsed.append(f)
        w = c.split()
        spos = w.index("S")
        # the model is run on the decisions the scheduler actually took
        model_lines.append(" ".join(["sl", w[1]] + w[3:spos] + ["S"] + (f[1].split() if len(f) > 1 else [])))
    mouts = vlib.run_model(model_lines) if model_ok else [None] * len(cases)
    bad_oracle, bad_model, bad_ord = [], [], []
    distinct = set()
    for c, f, m in zip(cases, parsed, mouts):
        if len(f) < 4:
            bad_oracle.append((c, "no output: %r" % f)); continue
        distinct.add(f[1] + "|" + f[2])
        if f[0] != "OK":
            bad_oracle.append((c, f[0]))
        if m is not None and m.strip() != f[2].strip():
            bad_model.append((c, f[2], m))
        e = check_orderings(f[3], w_ords, r_ords) if tie_problem is None else None
        if e:
            bad_ord.append((c, e))
    nontriv = sum(1 for f in parsed if len(f) > 2 and f[2].replace(";", "").strip())
    rep.cov["evaluations"] += len(cases)
    rep.cov["distinct_nontrivial"] += len(distinct)
    rep.cov["traces_validated_against_impl"] += len(cases) if model_ok else 0
    rep.cov.setdefault("parts", {})["seqlock-schedules"] = ({"schedules": len(cases), "distinct": len(distinct), "with_successful_reads": nontriv,
                                             "oracle_failures": len(bad_oracle), "model_disagreements": len(bad_model), "ordering_mismatches": len(bad_ord)})
    rep.cov["rule"] = "1 writer x 1-3 writes, 1-3 readers x 1-4 try_read attempts, random schedules at atomic-operation granularity on the verbatim sync_cell.rs; the model is run on the decisions actually taken and must return the same values per reader; distinct = distinct (decisions, outputs)"
    rep.cov["samples"] = [{"case": cases[0], "impl": outs[0][:300], "model": mouts[0]}]
    if bad_oracle:
        c, v = bad_oracle[0]
        rep.violation("seqlock-oracle", {"kind": "property-violated-on-implementation", "case": c, "verdict": v, "failures": len(bad_oracle)})
        if tie_problem is not None:
            return
    if tie_problem is not None:
        raise tie_problem
    elif bad_oracle:
        pass
    elif bad_model or bad_ord:
        what = bad_model[0] if bad_model else bad_ord[0]
        rep.violation("seqlock-correspondence", {"kind": "broken-correspondence", "case": what[0], "detail": repr(what[1:]),
                                                 "what": "SeqLock.v and sync_cell.rs differ (values returned under the same schedule, or the memory orderings passed by the code differ from the expected sequence); under sequentially consistent schedules no torn or backward read was observed",
                                                 "value_disagreements": len(bad_model), "ordering_mismatches": len(bad_ord)}, no_input=True)


def replay(rep, path, model_ok):
    import json
    r = json.load(open(path))
    if "schedule_thread_choice" in r:
        cfg = r["config"].split(" D ")[0]
        line = "wm W %s R %s I %s S %s" % (" ".join(r["writer_program"]), " ".join(r["reader_program"]), cfg, r["schedule_thread_choice"])
        out = vlib.run_model([line], shards=1)[0]
        print("weak-memory execution of the recorded programs:", line)
        print("reader outputs | values the cell held:", out)
        wt, rt, _, _ = gen_programs()
        print("programs generated from the current source:", wt, rt)
        outs, hist = [x.strip() for x in out.split("|")]
        held = hist.split()
        torn = [v for v in outs.replace(";", " ").split() if v not in held]
        if torn and wt == r["writer_program"] and rt == r["reader_program"]:
            rep.violation("replay", {"kind": "property-violated-on-the-model-of-the-current-source", "torn_values": torn, "line": line})
        return
    print("case:", r.get("case")); print("impl:", vlib.run_lines(vlib.ATOMH, ["seq"], [r["case"]], shards=1)[0][:1500])
