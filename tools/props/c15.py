"""C15 — time reads are never torn and never go backwards."""
import vlib
from props import opseq

HARNESS = ("atomh",)
TRUSTED = ["PARTIAL: proved for sequentially consistent interleavings only. The Release/Acquire fences and orderings of sync_cell.rs are tied syntactically (the Ordering argument of every atomic operation of the real code is recorded under the deterministic scheduler and compared with the expected sequence); no weak-memory (C11) semantics is modelled (WMem.v of the design was not built), so a change of ordering is reported as a broken correspondence with no-failing-input-found",
           "TearableAtomicTime of time/monotonic_time.rs uses std atomics and is re-implemented in the harness over instrumented atomics; tools/gen_consts.py checks its load/store shape in the source on every run",
           "u64/u32 halves; MonotonicTime::new(..).unwrap() range checks not modelled"]
ASSUMPTIONS = ["one writer (the simulation thread), any number of readers"]

W_EXPECT = ["load-rlx", "store-rlx", "fence-rel", "store-rlx", "store-rlx", "store-rel"]
R_EXPECT_OK = ["load-acq", "load-rlx", "load-rlx", "fence-acq", "load-rlx"]


def gen(rng, n):
    out = []
    for _ in range(n):
        nr = rng.randint(1, 3)
        k = rng.randint(1, 3)
        attempts = rng.randint(1, 4)
        vals = [(rng.choice([1, 2, 3, 7]), rng.choice([10, 20, 30])) for _ in range(k)]
        sched = [rng.randrange(nr + 1) for _ in range(rng.randint(8, 70))]
        out.append("sl %d %d 1 10 V %d %s S %s" % (nr, attempts, k, " ".join("%d %d" % v for v in vals), " ".join(map(str, sched))))
    return out


def check_orderings(ords):
    w, r = [x.split(",") if x.strip() else [] for x in ords.split(" ; ")]
    for i in range(0, len(w), 6):
        if w[i:i + 6] != W_EXPECT[:len(w[i:i + 6])]:
            return "writer orderings %s, expected repetitions of %s" % (w[i:i + 6], W_EXPECT)
    i = 0
    while i < len(r):
        if r[i] != "load-acq":
            return "reader orderings: %s at %d, expected load-acq" % (r[i], i)
        if r[i + 1:i + 5] == R_EXPECT_OK[1:]:
            i += 5
        elif i + 1 <= len(r) and (i + 1 == len(r) or r[i + 1] == "load-acq"):
            i += 1      # odd sequence number: immediate Err
        elif r[i + 1:] == R_EXPECT_OK[1:1 + len(r[i + 1:])]:
            break       # truncated by the step budget / end of run
        else:
            return "reader orderings %s, expected %s" % (r[i:i + 5], R_EXPECT_OK)
    return None


def tie(rep, tier, rng, model_ok):
    q = tier == "quick"
    cases = opseq.load_corpus("C15") + gen(rng, 3000 if q else 60000)
    outs = vlib.run_lines(vlib.ATOMH, ["seq"], cases)
    parsed, model_lines = [], []
    for c, o in zip(cases, outs):
        f = [x.strip() for x in o.split("|")]
        parsed.append(f)
        w = c.split()
        spos = w.index("S")
        # the model is run on the decisions the scheduler actually took
        model_lines.append(" ".join(["sl", w[1]] + w[3:spos] + ["S"] + (f[1].split() if len(f) > 1 else [])))
    mouts = vlib.run_model(model_lines) if model_ok else [None] * len(cases)
    bad_oracle, bad_model, bad_ord = [], [], []
    distinct = set()
    for c, f, m in zip(cases, parsed, mouts):
        if len(f) < 4:
            bad_oracle.append((c, "no output: %r" % f)); continue
        distinct.add(f[1] + "|" + f[2])
        if f[0] != "OK":
            bad_oracle.append((c, f[0]))
        if m is not None and m.strip() != f[2].strip():
            bad_model.append((c, f[2], m))
        e = check_orderings(f[3])
        if e:
            bad_ord.append((c, e))
    nontriv = sum(1 for f in parsed if len(f) > 2 and f[2].replace(";", "").strip())
    rep.cov["evaluations"] += len(cases)
    rep.cov["distinct_nontrivial"] += len(distinct)
    rep.cov["traces_validated_against_impl"] += len(cases) if model_ok else 0
    rep.cov["parts"] = {"seqlock-schedules": {"schedules": len(cases), "distinct": len(distinct), "with_successful_reads": nontriv,
                                             "oracle_failures": len(bad_oracle), "model_disagreements": len(bad_model), "ordering_mismatches": len(bad_ord)}}
    rep.cov["rule"] = "1 writer x 1-3 writes, 1-3 readers x 1-4 try_read attempts, random schedules at atomic-operation granularity on the verbatim sync_cell.rs; the model is run on the decisions actually taken and must return the same values per reader; distinct = distinct (decisions, outputs)"
    rep.cov["samples"] = [{"case": cases[0], "impl": outs[0][:300], "model": mouts[0]}]
    if bad_oracle:
        c, v = bad_oracle[0]
        rep.violation("seqlock-oracle", {"kind": "property-violated-on-implementation", "case": c, "verdict": v, "failures": len(bad_oracle)})
    elif bad_model or bad_ord:
        what = bad_model[0] if bad_model else bad_ord[0]
        rep.violation("seqlock-correspondence", {"kind": "broken-correspondence", "case": what[0], "detail": repr(what[1:]),
                                                 "what": "SeqLock.v and sync_cell.rs differ (values returned under the same schedule, or the memory orderings passed by the code differ from the expected sequence); under sequentially consistent schedules no torn or backward read was observed",
                                                 "value_disagreements": len(bad_model), "ordering_mismatches": len(bad_ord)}, no_input=True)


def replay(rep, path, model_ok):
    import json
    r = json.load(open(path))
    print("case:", r.get("case")); print("impl:", vlib.run_lines(vlib.ATOMH, ["seq"], [r["case"]], shards=1)[0][:1500])
