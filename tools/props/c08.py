"""C08 — scheduling requests are validated (threaded race part: see level note)."""
import simgen, oracles
from props import simprops

HARNESS = ("simh",)
TRUSTED = ["std::sync::Mutex is trusted to be a mutex; the interleaving of Scheduler handles used from other threads with step() is covered by the model only at lock granularity (sched_request is atomic; c08_run_keeps_invariant holds for requests arriving between any two steps of a run)",
           "termination of the stepping loop is claimed through the RHang-free hypothesis plus the refutation/fix witnesses; no general fuel bound is proved"]
ASSUMPTIONS = ["Durations are unsigned: a period is >= 0"]
ORACLES = (oracles.o_harness, oracles.o_time, oracles.o_driver_events, oracles.o_terminated)


def nontrivial(c, mobs):
    codes = set(o[0] for o in mobs if o[0].startswith("sched:")) | set(e for o in mobs for e in o[2] if e.startswith("X:"))
    return len(codes) >= 2


def tie(rep, tier, rng, model_ok):
    q = tier == "quick"
    a = simprops.corpus_cases("C08") + [simgen.gen_req(rng) for _ in range(500 if q else 15000)]
    b = [simgen.gen_sched(rng) for _ in range(200 if q else 5000)]
    simprops.run(rep, "C08", model_ok,
                 [("requests", a, (1, 3) if q else (1, 2, 4, 8), (oracles.o_harness, oracles.o_time, oracles.o_terminated), nontrivial),
                  ("sched-1thread", b, (1,), ORACLES, nontrivial)],
                 "requests: past/present/future x absolute/relative deadlines x zero/non-zero periods x all request kinds (Scheduler::schedule_*, Context::schedule_*, EventSource actions via Scheduler::schedule) from driver and handlers; every stepping call is watch-dogged (a hang is an observation). non-trivial = at least two different request outcomes")


def replay(rep, path, model_ok):
    simprops.replay(rep, path, model_ok)
