"""C08 — scheduling requests are validated (threaded race part: see level note)."""
import simgen, oracles
from props import simprops

HARNESS = ("simh",)
TRUSTED = ["std::sync::Mutex is trusted to be a mutex; the interleaving of Scheduler handles used from other threads with step() is covered by the model only at lock granularity (sched_request is atomic; c08_run_keeps_invariant holds for requests arriving between any two steps of a run)",
           "termination of the stepping loop is claimed through the RHang-free hypothesis plus the refutation/fix witnesses; no general fuel bound is proved"]
ASSUMPTIONS = ["Durations are unsigned: a period is >= 0"]
ORACLES = (oracles.o_harness, oracles.o_time, oracles.o_driver_events, oracles.o_terminated)


def nontrivial(c, mobs):
    codes = set(o[0] for o in mobs if o[0].startswith("sched:")) | set(e for o in mobs for e in o[2] if e.startswith("X:"))
    return len(codes) >= 2


def tie(rep, tier, rng, model_ok):
    q = tier == "quick"
    rep.cov.setdefault("parts", {})
    a = simprops.corpus_cases("C08") + [simgen.gen_req(rng) for _ in range(500 if q else 15000)]
    b = [simgen.gen_sched(rng) for _ in range(200 if q else 5000)]
    # a request made through a Scheduler handle while a step waits in Clock::synchronize (scripted clock answer -2):
    # it must be validated against the time of the step in progress
    p = []
    for _ in range(120 if q else 3000):
        c = simgen.gen_sched(rng)
        if not c.get("clock"):
            c["clock"] = [None] * 40
        c["clock"] = [(-2 if (x is None and rng.random() < 0.5) else x) for x in c["clock"]]
        c["tags"].add("clock")
        p.append(c)
    simprops.run(rep, "C08", model_ok,
                 [("requests", a, (1, 3) if q else (1, 2, 4, 8), (oracles.o_harness, oracles.o_time, oracles.o_terminated), nontrivial),
                  ("sched-1thread", b, (1,), ORACLES, nontrivial),
                  ("request-during-clock-synchronisation", p, (1, 2), ORACLES + (oracles.o_clock_probe,), lambda c, o: True)],
                 "threaded: Scheduler::schedule_*event called from a second thread, parked inside a user-defined Deadline::into_time while the main thread runs step(); the outcome must be one of the two linearisations of Sim.v. requests: past/present/future x absolute/relative deadlines x zero/non-zero periods x all request kinds (Scheduler::schedule_*, Context::schedule_*, EventSource actions via Scheduler::schedule) from driver and handlers; every stepping call is watch-dogged (a hang is an observation). non-trivial = at least two different request outcomes")
    race_part(rep, rng, model_ok, 24 if q else 400)


def race_part(rep, rng, model_ok, n):
    """Scheduling requests issued from another thread while the main thread steps.  The request is
    parked inside Deadline::into_time (a user-defined deadline), which the scheduler must evaluate -
    together with its read of the current time - under the queue lock.  The observed outcome
    (request answer, step result, time, handlers) must equal one of the two linearisations of the
    model: request before the step, or step before the request."""
    import copy, vlib, simcase, simcheck
    cases, variants = [], []
    for _ in range(n):
        kind = rng.randrange(4)
        t1 = rng.choice([50, 60, 100])
        tr = rng.choice([10, 20, 30, t1, t1 + 10])
        m = {"cap": rng.choice([2, 8]), "handlers": [[], []], "outs": []}
        pre = [("se", ("a", t1), 0, 0, 7, None, None)]
        if rng.random() < 0.3:
            pre = [("se", ("a", 5), 0, 1, 6, None, None), ("st",)] + pre
        post = [("st",), ("st",)]
        base = {"models": [m], "sinks": [], "mode": "seq", "tags": {"race"}, "t0": 0, "clock": [], "sources": []}
        c = dict(base); c["cmds"] = pre + [("rc", kind, tr, 0, 1, 8)] + post
        per = 1000 if kind >= 2 else None
        slot = 5 if kind in (1, 3) else None
        se = ("se", ("a", tr), 0, 1, 8, slot, per)
        a = dict(base); a["cmds"] = pre + [se, ("st",)] + post
        b = dict(base); b["cmds"] = pre + [("st",), se] + post
        cases.append(c); variants.append((len(pre), a, b))
    lines = [simcase.render(c, bugs=simcheck.current_bugs()) for c in cases]
    outs = simcheck.run_impl(lines)
    mlines = []
    for (_, a, b) in variants:
        mlines += [simcase.render(a, bugs=simcheck.current_bugs()), simcase.render(b, bugs=simcheck.current_bugs())]
    mouts = vlib.run_model(mlines) if model_ok else None
    bad = []
    for k, (c, o) in enumerate(zip(cases, outs)):
        iobs = simcase.parse_out(o)
        if iobs is None:
            bad.append((k, "no observations: %s" % o[:200])); continue
        e = oracles.o_time(dict(c, cmds=[x if x[0] != "rc" else ("st",) for x in c["cmds"]]), iobs)
        if e:
            bad.append((k, e)); continue
        if mouts is None:
            continue
        npre, a, b = variants[k]
        ok = False
        for j, tag in ((0, "A"), (1, "B")):
            mobs = simcase.parse_out(mouts[2 * k + j])
            if mobs is None:
                continue
            # merge the two model commands that stand for the race
            i0 = npre + 1
            x, y = mobs[i0], mobs[i0 + 1]
            (sched, step) = (x, y) if tag == "A" else (y, x)
            merged = ("race:%s:%s" % (sched[0].split(":")[1], step[0]), y[1], step[2])
            mm = mobs[:i0] + [merged] + mobs[i0 + 2:]
            if simcase.canon(iobs, "seq") == simcase.canon(mm, "seq"):
                ok = True
        if not ok:
            bad.append((k, "the outcome matches neither linearisation (request before the step / step before the request)"))
    rep.cov["evaluations"] += len(cases)
    rep.cov["parts"]["threaded-requests"] = {"cases": len(cases), "failures": len(bad)}
    rep.cov["samples"].append({"case": lines[0], "impl": outs[0][:300]})
    if bad:
        k, why = bad[0]
        rep.violation("threaded-requests", {"kind": "property-violated-on-implementation", "why": why, "case": lines[k], "observed": outs[k][:1500],
                                            "model_request_first": mouts[2 * k] if mouts else None, "model_step_first": mouts[2 * k + 1] if mouts else None,
                                            "failures": len(bad)})


def replay(rep, path, model_ok):
    simprops.replay(rep, path, model_ok)
