"""C19 — dropping a simulation."""
import vlib, taskgen, simgen, simcase, simcheck, oracles
from props import taskprops, simprops, slotprops

HARNESS = ("atomh", "simh")
TRUSTED = ["PARTIAL: task level only in Coq (C13's invariant: cancel racing with wakers/runner releases the future and the memory exactly once, no leak). The executor-level drop (ExecDrop of the design: every model, queued message and pending future released once, nothing runs afterwards) is NOT modelled; it is observed: the harness drops the Simulation at the end of every bench (idle, deadlocked, failed, with pending scheduler actions, blocked senders, pending queries, sub-models) and counts model drops and post-drop handler entries",
           "a nested simulation built, run and dropped inside a handler is skipped by the model (it must have no effect on the enclosing simulation): only the harness executes it", "joining of worker threads is observed through the drop returning (watchdog), undelivered messages are plain integers (no drop counters)"]
TRUSTED = TRUSTED + slotprops.TRUSTED
ASSUMPTIONS = []


def o_drop(case, line):
    d = simcase.parse_drop(line)
    if d is None:
        return None
    n, after, leak = d
    models = case["models"]
    def added(i):
        cur = i
        while cur is not None:
            if models[cur].get("place", 0) != 0:
                return False
            cur = models[cur].get("parent")
        return True
    exp = sum(1 for i in range(len(models)) if added(i))
    nm = simcase.parse_nested(line)
    if nm is not None and (nm[0] != nm[1] or nm[2] != nm[3]):
        return "nested simulations built inside handlers: %d models made, %d dropped; %d simulations, %d handler runs" % nm
    if n != exp:
        return "after dropping the simulation %d models had been dropped, %d belong to it" % (n, exp)
    if after:
        return "model code ran after the simulation was dropped: %s" % after[:5]
    return None


def tie(rep, tier, rng, model_ok):
    q = tier == "quick"
    slotprops.run(rep, tier, rng)
    cases = taskgen.gen(rng, 2500 if q else 50000)
    cases = [c for c in cases if "cancel" in c or "dropr" in c or "droptok" in c]
    taskprops.run_tasks(rep, "task-cancel-schedules", cases, model_ok=model_ok)
    n = 120 if q else 3000
    benches = [simgen.gen_fault(rng) for _ in range(n)] + [simgen.gen_deadlock(rng) for _ in range(n)] + \
              [simgen.gen_net(rng, hier=True) for _ in range(n)] + [simgen.gen_sched(rng) for _ in range(n)] + \
              [simgen.gen_nested(rng) for _ in range(n)] + [simgen.gen_reply_unread(rng) for _ in range(max(20, n // 4))]
    # a failed step with another worker still busy, then the drop (multi-threaded executor only)
    busy = [simgen.gen_fail_while_busy(rng) for _ in range(12 if q else 120)]
    d2, o2, lm2, mo2, res2 = simcheck.compare_cases(rep, "drop-after-failure-with-a-busy-worker", busy, model_ok, thread_counts=(2, 4),
                                                    oracles=(oracles.o_harness,), nontrivial=lambda c, o: True)
    simcheck.report(rep, "drop-after-failure-with-a-busy-worker", busy, d2, o2, lm2, mo2, res2)
    for th, outs in res2.items():
        for c, line in zip(busy, outs):
            e = o_drop(c, line)
            if e:
                rep.violation("drop-oracle-busy", {"kind": "property-violated-on-implementation", "threads": th, "why": e,
                                                   "case": simcase.render(c, bugs=simcheck.current_bugs(), threads=th), "observed": line[:1500]})
                break
    dis, orc, lm, mo, res = simcheck.compare_cases(rep, "drop-after-bench", benches, model_ok, thread_counts=(1, 4) if q else (1, 2, 4, 16),
                                                   oracles=(oracles.o_harness,), nontrivial=lambda c, o: True)
    simcheck.report(rep, "drop-after-bench", benches, dis, orc, lm, mo, res)
    bad = []
    for th, outs in res.items():
        for c, line in zip(benches, outs):
            e = o_drop(c, line)
            if e:
                bad.append((th, c, e, line))
    # leaks: live heap bytes after the drop vs before the bench.  A first non-zero delta can be a one-off
    # (thread-local / lazy initialisation in that runner process), so a suspicious case is re-run three
    # times in one fresh process and counts only if the last two runs still leave bytes behind.
    suspects = []
    for th, outs in res.items():
        for c, line in zip(benches, outs):
            d = simcase.parse_drop(line)
            if d and d[2] is not None and d[2] > 0:
                suspects.append((th, c))
    leaks = []
    for th, c in suspects[:60]:
        line = simcase.render(c, bugs=simcheck.current_bugs(), threads=th)
        outs3 = vlib.run_lines(vlib.SIMH, ["bench"], [line, line, line], shards=1)
        ds = [simcase.parse_drop(o) for o in outs3]
        if all(d and d[2] is not None and d[2] > 0 for d in ds[1:]):
            leaks.append((th, c, [d[2] for d in ds], outs3[2]))
    rep.cov["parts"]["drop-after-bench"]["leak_suspects"] = len(suspects)
    rep.cov["parts"]["drop-after-bench"]["leaks_confirmed"] = len(leaks)
    if leaks:
        th, c, ds, line = leaks[0]
        rep.violation("drop-leak", {"kind": "property-violated-on-implementation", "threads": th,
                                    "why": "dropping the simulation leaves %s bytes allocated (three consecutive runs of the same bench in one process)" % ds,
                                    "case": simcase.render(c, bugs=simcheck.current_bugs(), threads=th), "observed": line[:1500], "confirmed": len(leaks)})
    rep.cov["parts"]["drop-after-bench"]["drop_oracle_failures"] = len(bad)
    if bad:
        th, c, e, line = bad[0]
        rep.violation("drop-oracle", {"kind": "property-violated-on-implementation", "threads": th, "why": e,
                                      "case": simcase.render(c, bugs=simcheck.current_bugs(), threads=th), "observed": line[:2000]})
    rep.cov["rule"] = "task level: cancel / drop-runnable / drop-token racing with wakers and a runner on the verbatim task.rs (oracle: future and memory released exactly once, no access after free); simulation level: the Simulation is dropped at the end of fault, deadlock, hierarchy and scheduling benches (pending actions, blocked senders, pending queries; handlers that build, run and drop a nested simulation on 1..3 threads; process_query whose reply is produced but left unread because the run fails afterwards) on 1..16 threads: every added model dropped exactly once, no model code afterwards, the drop returns"


def replay(rep, path, model_ok):
    import json
    r = json.load(open(path)); print(r.get("case"))
