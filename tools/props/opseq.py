"""Generic correspondence check of kind T2.1: operation sequences applied to the real
container and to the extracted model; every return value is compared; a direct oracle
(reference written from the property text, independent of the Coq model) judges the
implementation's output on its own."""
import os, json
import vlib


def load_corpus(pid):
    d = os.path.join(vlib.VERIF, "corpus", pid)
    out = []
    if os.path.isdir(d):
        for fn in sorted(os.listdir(d)):
            if fn.endswith(".case"):
                for line in open(os.path.join(d, fn)):
                    line = line.strip()
                    if line and not line.startswith("#"):
                        out.append(line)
    return out


def check(rep, name, cases, impl_bin, impl_args, oracle, nontrivial, model_ok, head_tokens, exhaustive=False, rule=""):
    """cases: list of case lines.  oracle(case_line) -> expected output line (string).
    head_tokens: number of leading tokens (kind + parameters) that are not ops."""
    impl = vlib.run_lines(impl_bin, impl_args, cases)
    model = vlib.run_model(cases) if model_ok else [None] * len(cases)
    distinct, nontriv = set(), 0
    dis_model, dis_oracle = [], []
    for c, i, m in zip(cases, impl, model):
        if c not in distinct:
            distinct.add(c)
            if nontrivial(c):
                nontriv += 1
        exp = oracle(c)
        if i != exp:
            dis_oracle.append((c, i, exp))
        if m is not None and i != m:
            dis_model.append((c, i, m))
    rep.cov["evaluations"] += len(cases)
    rep.cov["distinct_nontrivial"] += nontriv
    rep.cov["traces_validated_against_impl"] += len(cases) if model_ok else 0
    rep.cov.setdefault("parts", {})[name] = {"cases": len(cases), "distinct": len(distinct), "nontrivial": nontriv,
                                           "model_disagreements": len(dis_model), "oracle_failures": len(dis_oracle),
                                           "exhaustive": exhaustive}
    if rule:
        rep.cov["rule"] = (rep.cov["rule"] + " | " if rep.cov["rule"] else "") + rule
    if len(rep.cov["samples"]) < 6:
        nt = [(c, i) for c, i in zip(cases, impl) if nontrivial(c)] or list(zip(cases, impl))
        for c, i in nt[:: max(1, len(nt) // 3)][:3]:
            rep.cov["samples"].append({"case": c, "impl": i})
    rep.cov["disagreements_checked"] += len(dis_model) + len(dis_oracle)

    def fails_oracle(head, toks):
        line = " ".join(head + toks)
        o = vlib.run_lines(impl_bin, impl_args, [line], shards=1)[0]
        return o != oracle(line)

    def fails_model(head, toks):
        line = " ".join(head + toks)
        o = vlib.run_lines(impl_bin, impl_args, [line], shards=1)[0]
        m = vlib.run_model([line], shards=1)[0]
        return o != m

    if dis_oracle:
        c, i, exp = min(dis_oracle, key=lambda x: len(x[0]))
        w = c.split()
        ht = head_tokens(c) if callable(head_tokens) else head_tokens
        toks = vlib.shrink_tokens(w[:ht], w[ht:], fails_oracle)
        line = " ".join(w[:ht] + toks)
        got = vlib.run_lines(impl_bin, impl_args, [line], shards=1)[0]
        rep.violation(name + "-oracle", {"kind": "property-violated-on-implementation", "case": line,
                                         "observed": got, "expected_by_property": oracle(line),
                                         "unshrunk_case": c, "failures": len(dis_oracle)})
    elif dis_model:
        c, i, m = min(dis_model, key=lambda x: len(x[0]))
        w = c.split()
        ht = head_tokens(c) if callable(head_tokens) else head_tokens
        toks = vlib.shrink_tokens(w[:ht], w[ht:], fails_model)
        line = " ".join(w[:ht] + toks)
        rep.violation(name + "-correspondence", {"kind": "broken-correspondence",
                                                 "what": "model and implementation differ; the direct oracle accepts the implementation's output on every case explored",
                                                 "case": line, "implementation": vlib.run_lines(impl_bin, impl_args, [line], shards=1)[0],
                                                 "model": vlib.run_model([line], shards=1)[0], "disagreements": len(dis_model)},
                      no_input=True)
