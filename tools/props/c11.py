"""C11 — failure classification and termination."""
import simgen, oracles, simcheck
from props import simprops, strprops

HARNESS = ("simh",)
LEVEL = "proof"
TRUSTED = ["wall-clock Timeout is outside the model (Sim.v has no wall clock): it is produced on the implementation only (family `timeouts`: set_timeout(1 s), a handler sleeping 5 s, on both executors) and judged by a direct oracle - the failing call returns Timeout, every later running call Terminated, no model code, no time change; what an abandoned single-threaded worker does after a timeout is not observed",
           "panic payloads are integers carried by a harness type; attribution uses the model names m<i>"]
TRUSTED = TRUSTED + strprops.TRUSTED
ASSUMPTIONS = ["one fault per case"]
ORACLES = (oracles.o_harness, oracles.o_terminated, oracles.o_time, oracles.o_attribution, oracles.o_nonfatal, oracles.o_norecip_query)


def nontrivial(c, mobs):
    return any(o[0].split(":")[0] in oracles.FATAL + ("invdl", "badq") for o in mobs)


def tie(rep, tier, rng, model_ok):
    q = tier == "quick"
    strprops.run(rep, tier)
    timeouts(rep, tier, rng)
    cases = simprops.corpus_cases("C11") + [simgen.gen_fault(rng) for _ in range(400 if q else 3000)]
    if not q:
        cases += simgen.enum_faults()
        rep.cov["exhaustive"] = True
    b = [simgen.gen_sched(rng) for _ in range(150 if q else 3000)]
    npn = [simgen.gen_nested_panic(rng) for _ in range(150 if q else 2000)]
    pif = [simgen.gen_panic_inflight(rng) for _ in range(200 if q else 3000)]
    nrb = [simgen.gen_norecip_broadcast(rng) for _ in range(150 if q else 3000)]
    simprops.run(rep, "C11", model_ok,
                 [("faults", cases, (1, 4), ORACLES, nontrivial),
                  ("sched-clock", b, (1,), ORACLES + (oracles.o_clock,), nontrivial),
                  ("panic-after-nested-simulation", npn, (1, 2), ORACLES, nontrivial),
                  ("failure-with-messages-in-flight", pif, (1, 2, 4), ORACLES + (oracles.o_inflight_failure,), nontrivial),
                  ("no-recipient-in-a-blocked-broadcast", nrb, (1, 2, 4), ORACLES + (oracles.o_norecip_broadcast,), nontrivial)],
                 "no-recipient-in-a-blocked-broadcast: a port feeding a dropped mailbox and 1-3 live models whose capacity-1..2 mailboxes were filled just before: the broadcast cannot complete at its first poll and the verdict must still be NoRecipient naming the sender. failure-with-messages-in-flight: a handler sends to 1-3 live models and then panics or sends to a dropped mailbox: the verdict must be Panic / NoRecipient of that model whatever is still queued. panic-after-nested-simulation: a handler runs a nested simulation (1-2 threads; its model may panic, the error being handled) and then panics itself: the enclosing run must return Panic naming the enclosing model, not propagate the panic. faults: each fault kind (panic, NoRecipient from a model / from a source action, OutOfSync, MessageLoss, Deadlock by query loop-back, InvalidDeadline, BadQuery, scheduling errors) injected after an optional prefix, with empty and non-empty scheduler queue, followed by 1-3 further calls from {step, step_until, process_event, process_query, process}; 1 and 4 threads; thorough tier enumerates every fault x every tail of <=2 calls. non-trivial = a fatal or non-fatal error occurs")


def timeouts(rep, tier, rng):
    q = tier == "quick"
    cases = [simgen.gen_timeout(rng) for _ in range(8 if q else 48)]
    dis, orc, lm, mo, res = simcheck.compare_cases(rep, "timeouts", cases, False, oracles=(oracles.o_timeout,), thread_counts=(1, 3), shards=16,
                                                   rule="timeouts: set_timeout(1 s), one handler sleeping 5 s run by process_event or by a step, preceded by quick calls and followed by 2-4 running calls, on the single-threaded executor and on 3 workers: Timeout, then Terminated without model code or time change (implementation only)")
    simcheck.report(rep, "timeouts", cases, dis, orc, lm, mo, res)


def replay(rep, path, model_ok):
    import json
    if strprops.replay(json.load(open(path))):
        return
    simprops.replay(rep, path, model_ok)
