"""C20 — priority queues."""
import itertools
import vlib
from props import opseq

HARNESS = ("atomh",)
TRUSTED = ["std::collections::BinaryHeap is not modelled beyond 'pop/peek return a maximum of Ord' (PQ.v models Item::cmp and the epoch counter)",
           "epoch overflow (u64::MAX inserts) excluded",
           "mirror: harness/atomh compiles verbatim copies of util/priority_queue.rs and util/indexed_priority_queue.rs from /repo's working tree on every run"]
ASSUMPTIONS = ["keys are (i64 time, usize origin) pairs as in SchedulerQueue; values are opaque"]


def ref_run(line):
    """Reference written from the property text: entries in insertion order; pull/peek select the first
    entry among those with the least key; extract removes exactly the entry the key was issued for."""
    w = line.split()
    kind, ops = w[0], w[1:]
    ents = []      # [id, key, val] in insertion order
    issued = 0
    out = []
    def fmt(e): return "s,%d,%d,%d" % (e[1][0], e[1][1], e[2])
    def minidx():
        best = None
        for i, e in enumerate(ents):
            if best is None or e[1] < ents[best][1]:
                best = i
        return best
    for op in ops:
        f = op.split(",")
        if f[0] == "i":
            ents.append([issued, (int(f[1]), int(f[2])), int(f[3])]); issued += 1
            out.append("u")
        elif f[0] == "p":
            b = minidx()
            out.append("n" if b is None else fmt(ents.pop(b)))
        elif f[0] == "k":
            b = minidx()
            out.append("n" if b is None else fmt(ents[b]))
        elif f[0] == "K":
            b = minidx()
            out.append("n" if b is None else "s,%d,%d" % ents[b][1])
        elif f[0] == "x":
            n = int(f[1]); hit = None
            for i, e in enumerate(ents):
                if e[0] == n: hit = i
            out.append("n" if hit is None else fmt(ents.pop(hit)))
        elif f[0] == "l":
            out.append("l,%d" % len(ents))
    return " ".join(out)


def nontrivial(line):
    ops = line.split()[1:]
    keys = [tuple(o.split(",")[1:3]) for o in ops if o.startswith("i,")]
    return len(keys) != len(set(keys)) and any(o in ("p",) or o.startswith("x,") for o in ops)


def gen_random(rng, kind, n, maxlen):
    out = []
    for _ in range(n):
        L = rng.randint(1, maxlen)
        ops, issued, v = [], 0, 0
        nk = rng.choice([1, 2, 3, 5])
        for _ in range(L):
            r = rng.random()
            if r < 0.5:
                v += 1
                ops.append("i,%d,%d,%d" % (rng.randint(1, nk), rng.randint(0, 1), v)); issued += 1
            elif r < 0.75:
                ops.append("p")
            elif r < 0.85:
                ops.append("k")
            elif kind == "ipq":
                rr = rng.random()
                if rr < 0.6 and issued:
                    ops.append("x,%d" % rng.randrange(issued))
                elif rr < 0.8:
                    ops.append("K")
                else:
                    ops.append("l")
            else:
                ops.append("k")
        out.append(kind + " " + " ".join(ops))
    return out


def gen_exhaustive(kind, length):
    """All sequences of the given length over a 3-key alphabet (one origin), pull, peek and,
    for ipq, extract of every key index issued so far (live or stale)."""
    out = []
    def rec(prefix, issued, v):
        if len(prefix) == length:
            out.append(kind + " " + " ".join(prefix)); return
        for t in (1, 2, 3):
            rec(prefix + ["i,%d,0,%d" % (t, v + 1)], issued + 1, v + 1)
        rec(prefix + ["p"], issued, v)
        if kind == "pq":
            rec(prefix + ["k"], issued, v)
        else:
            for n in range(issued):
                rec(prefix + ["x,%d" % n], issued, v)
    rec([], 0, 0)
    return out


def tie(rep, tier, rng, model_ok):
    corpus = opseq.load_corpus("C20")
    quick = tier == "quick"
    pq_cases = [c for c in corpus if c.startswith("pq ")] + gen_exhaustive("pq", 5 if quick else 7) + \
        gen_random(rng, "pq", 1500 if quick else 20000, 60 if quick else 400)
    opseq.check(rep, "pq", pq_cases, vlib.ATOMH, ["seq"], ref_run, nontrivial, model_ok, 1, exhaustive=True,
                rule="pq: all insert/pull/peek sequences of length %d over 3 keys + random sequences (<=5 keys x 2 origins, unique values); non-trivial = has equal keys and a pull" % (5 if quick else 7))
    ipq_model_ok = model_ok and IPQ_MODEL
    ipq_cases = [c for c in corpus if c.startswith("ipq ")] + gen_exhaustive("ipq", 5 if quick else 6) + \
        gen_random(rng, "ipq", 1500 if quick else 20000, 60 if quick else 400) + stale_key_cases(rng, 200 if quick else 3000)
    opseq.check(rep, "ipq", ipq_cases, vlib.ATOMH, ["seq"], ref_run, nontrivial, ipq_model_ok, 1, exhaustive=True,
                rule="ipq: all insert/pull/extract sequences of length %d (extract ranges over every key issued so far) + random + stale-key-reuse scenarios" % (5 if quick else 6))
    rep.cov["exhaustive"] = True


IPQ_MODEL = True


def stale_key_cases(rng, n):
    """extract a key, insert until its slot is recycled, extract the stale key again."""
    out = []
    for _ in range(n):
        ops, v = [], 0
        k = rng.randint(1, 6)
        for _ in range(k):
            v += 1; ops.append("i,%d,0,%d" % (rng.randint(1, 3), v))
        victim = rng.randrange(k)
        ops.append("x,%d" % victim if rng.random() < 0.6 else "p")
        for _ in range(rng.randint(1, 4)):
            v += 1; ops.append("i,%d,0,%d" % (rng.randint(1, 3), v))
        ops.append("x,%d" % victim)
        for n2 in range(k):
            if rng.random() < 0.5: ops.append("x,%d" % n2)
        ops += ["p"] * rng.randint(0, 8) + ["l"]
        out.append("ipq " + " ".join(ops))
    return out


def replay(rep, path, model_ok):
    import json
    r = json.load(open(path))
    case = r.get("case")
    if not case:
        print("replay file names no concrete case:", r.get("what")); return
    got = vlib.run_lines(vlib.ATOMH, ["seq"], [case], shards=1)[0]
    print("case:      ", case); print("observed:  ", got); print("expected:  ", ref_run(case))
    if model_ok: print("model:     ", vlib.run_model([case], shards=1)[0])
    if got != ref_run(case):
        rep.violation("replay", {"kind": "property-violated-on-implementation", "case": case, "observed": got, "expected_by_property": ref_run(case)})
