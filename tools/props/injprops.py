"""executor/mt_executor/injector.rs (verbatim mirror in atomh) against coq/Model/Injector.v."""
import vlib

TRUSTED = ["injector.rs is exercised sequentially (every method holds the mutex for its whole body; the is_empty flag is only a hint under weak memory, which Pool.v does not model); Pool.v abstracts the injector to a counter whose emptiness test is exact - Proofs/InjectorProofs.v proves that of Injector.v (inj_flag_exact) and this correspondence ties Injector.v to the code"]


def gen(rng, n):
    cases = []
    for _ in range(n):
        cap = rng.choice([1, 2, 2, 3, 4, 128])
        ops, v = [], 0
        for _ in range(rng.randint(1, 40)):
            r = rng.random()
            if r < 0.4:
                v += 1; ops.append("i%d" % v)
            elif r < 0.55:
                k = rng.randint(1, min(cap, 5))
                vs = []
                for _ in range(k):
                    v += 1; vs.append(str(v))
                ops.append("b" + ".".join(vs))
            elif r < 0.85:
                ops.append("p")
            else:
                ops.append("e")
        cases.append("inj %d %s" % (cap, " ".join(ops)))
    return cases


def oracle(case, out):
    """direct: nothing lost or duplicated, is_empty exact, a popped bucket is non-empty and within capacity"""
    w = case.split()
    cap = int(w[1]) if int(w[1]) in (1, 2, 3, 4) else 128
    stored = []
    res = out.split()
    if len(res) != len(w) - 2:
        return "no output: %r" % out[:100]
    for o, r in zip(w[2:], res):
        if o[0] == "i":
            stored.append(int(o[1:]))
        elif o[0] == "b":
            stored += [int(x) for x in o[1:].split(".")]
        elif o == "p":
            if r == "-":
                if stored:
                    return "pop_bucket returned None while %d tasks are stored" % len(stored)
            else:
                b = [int(x) for x in r.strip("[]").split(".") if x]
                if not b or len(b) > cap:
                    return "popped bucket of size %d (capacity %d)" % (len(b), cap)
                for x in b:
                    if x not in stored:
                        return "popped task %d that is not stored" % x
                    stored.remove(x)
        elif o == "e":
            if (r == "1") != (not stored):
                return "is_empty() = %s while %d tasks are stored" % (r, len(stored))
    return None


def run(rep, tier, rng, model_ok):
    cases = gen(rng, 1500 if tier == "quick" else 40000)
    outs = vlib.run_lines(vlib.ATOMH, ["seq"], cases)
    mouts = vlib.run_model(cases) if model_ok else [None] * len(cases)
    bad_o, bad_m = [], []
    for c, o, m in zip(cases, outs, mouts):
        e = oracle(c, o)
        if e:
            bad_o.append((c, e, o))
        if m is not None and m.strip() != o.strip():
            bad_m.append((c, o, m))
    rep.cov["evaluations"] += len(cases)
    rep.cov["traces_validated_against_impl"] += len(cases) if model_ok else 0
    rep.cov.setdefault("parts", {})["injector-opseq"] = {"sequences": len(cases), "oracle_failures": len(bad_o), "model_disagreements": len(bad_m),
                                                         "ops": sum(len(c.split()) - 2 for c in cases)}
    if bad_o:
        c, e, o = min(bad_o, key=lambda x: len(x[0]))
        rep.violation("injector-oracle", {"kind": "property-violated-on-implementation", "case": c, "why": e, "observed": o, "failures": len(bad_o)})
    elif bad_m:
        c, o, m = min(bad_m, key=lambda x: len(x[0]))
        rep.violation("injector-correspondence", {"kind": "broken-correspondence", "case": c, "observed": o, "model": m, "disagreements": len(bad_m),
                                                   "what": "Injector.v and injector.rs differ on an operation sequence although the direct oracle (conservation, exact is_empty) holds"}, no_input=True)
