"""The pool protocol (coq/Model/Pool.v): translator T3 + search for a failing schedule (C04, C06)."""
import vlib

TRUSTED = ["translator T3 tools/gen_pool.py: the barrier of run_local_worker (what a worker does before try_set_worker_inactive and in each of its three outcomes) is translated statement by statement into gen/PoolProg.v on every run (unknown statements are refused), together with the order of the protocol calls in the rest of run_local_worker, schedule_task, Executor::run and the PoolManager methods; the remaining steps of Pool.v (search, steal, schedule_task, activate_worker, run) are hand-written against that call order and documented over-approximations (see the header of Pool.v); sequentially consistent interleaving - the memory orderings of active_workers / msg_count are argued in DESIGN, not proved",
           "Pool.v abstracts tasks to a count, the st3 queues and the injector to counters, parking::Parker to a token; abort / timeout / panic paths and Executor::new are not modelled"]


def run(rep, tier, pid):
    """-> True when a failing schedule of the model generated from the current source was found"""
    import gen_pool
    part = {"translator": "ok"}
    try:
        _, (pre, b1, b2, b3) = gen_pool.generate()
        part["barrier_generated"] = {"pre": pre, "inactive": b1, "last_empty": b2, "last_busy": b3}
    except gen_pool.Refuse as e:
        part["translator"] = "refused: %s" % e
        rep.cov.setdefault("parts", {})["pool-model"] = part
        raise vlib.BrokenTie("translator gen_pool.py refused the current executor/mt_executor.rs", str(e))
    found = False
    if vlib.RUNNER_OK:
        cfgs = [(2, 400000)] if tier == "quick" else [(2, 3000000), (3, 3000000)]
        lines = ["poolsearch gen %d L %d" % c for c in cfgs]
        outs = vlib.run_model(lines, shards=len(lines))
        part["search"] = [{"workers": c[0], "state_limit": c[1], "result": o.split(" | ")[0]} for c, o in zip(cfgs, outs)]
        for c, o in zip(cfgs, outs):
            if o.startswith("FOUND"):
                f = o.split(" | ")
                rep.violation("pool-model-execution", {
                    "kind": "property-violated-on-model-generated-from-source",
                    "what": "in the pool model (coq/Model/Pool.v) instantiated with the barrier generated from the current executor/mt_executor.rs, Executor::run reads a message count different from sent-minus-received, returns with tasks left, or the assertion of try_set_worker_inactive fails",
                    "workers": c[0], "schedule": f[1], "final_state": f[2],
                    "barrier_generated": part["barrier_generated"],
                    "replay_cmd": "echo 'poolsearch gen %d L %d' | .build/ocaml/modelrun" % c,
                    "theorems_broken": "c04_pool_source_is_proved_program / c06_pool_count_read_is_exact"})
                found = True
                break
            if not o.startswith("NONE"):
                raise vlib.BrokenTie("poolsearch failed", o[:500])
    rep.cov.setdefault("parts", {})["pool-model"] = part
    return found


def replay(r):
    """-> True when the replay file is a pool-model schedule (re-runs the search on the current source)"""
    if r.get("kind") != "property-violated-on-model-generated-from-source":
        return False
    import gen_pool
    print("recorded schedule:", r.get("schedule")); print("recorded final state:", r.get("final_state"))
    try:
        _, b = gen_pool.generate()
        print("barrier generated from the current source:", b)
    except gen_pool.Refuse as e:
        print("translator refuses the current source:", e); return True
    print("search on the current source:", vlib.run_model(["poolsearch gen %d L 3000000" % r.get("workers", 2)], shards=1)[0])
    return True
