"""Shared tie() for the properties decided on the Sim.v model."""
import vlib, simcase, simgen, simcheck, oracles
from props import opseq


def corpus_cases(pid):
    """corpus files hold python-literal case dicts, one per line"""
    import ast, os
    d = os.path.join(vlib.VERIF, "corpus", pid)
    out = []
    if os.path.isdir(d):
        for fn in sorted(os.listdir(d)):
            if fn.endswith(".pycase"):
                for line in open(os.path.join(d, fn)):
                    line = line.strip()
                    if line and not line.startswith("#"):
                        c = ast.literal_eval(line)
                        c["tags"] = set(c.get("tags", []))
                        out.append(c)
    return out


def run(rep, pid, model_ok, parts, rule):
    """parts: list of (name, cases, thread_counts, oracle tuple, nontrivial fn)"""
    for name, cases, threads, orcs, nontriv in parts:
        dis, orc, lm, mo, res = simcheck.compare_cases(rep, name, cases, model_ok, oracles=orcs, thread_counts=threads,
                                                       nontrivial=nontriv, rule="")
        simcheck.report(rep, name, cases, dis, orc, lm, mo, res)
    rep.cov["rule"] = rule


def replay(rep, path, model_ok, orcs=oracles.ALL_SCHED):
    import json
    r = json.load(open(path))
    line = r.get("case")
    if not line:
        print("replay file names no concrete case:", r.get("what")); return
    th = r.get("threads", 1)
    out = simcheck.run_impl([line])[0]
    print("case:           ", line); print("implementation: ", out)
    if model_ok:
        print("model:          ", vlib.run_model([line], shards=1)[0])
