"""C18 — clock synchronisation gates every time step."""
import simgen, oracles
from props import simprops, c08

HARNESS = ("simh",)
TRUSTED = ["the Clock is a scripted recording clock (no wall-clock time); real clocks (SystemClock, AutoSystemClock) are not exercised"]
ASSUMPTIONS = []
ORACLES = (oracles.o_harness, oracles.o_clock, oracles.o_time, oracles.o_terminated)


def gen(rng):
    c = simgen.gen_sched(rng)
    if "clock" not in c["tags"]:
        c["tol"] = rng.choice([None, 5, 50])
        c["clock"] = [rng.choice([None, None, 3, 60]) for _ in range(60)]
        c["tags"].add("clock")
    return c


def nontrivial(c, mobs):
    ks = sum(1 for o in mobs for e in o[2] if e.startswith("K:"))
    return ks >= 3


def tie(rep, tier, rng, model_ok):
    q = tier == "quick"
    a = simprops.corpus_cases("C18") + [gen(rng) for _ in range(500 if q else 15000)]
    b = [simgen.gen_multi(rng) for _ in range(100 if q else 3000)]
    for c in b:
        c["tol"] = 5
        c["clock"] = [rng.choice([None, None, None, 3, 60]) for _ in range(40)]
    # several origins (the global scheduler with >= 2 actions, and models) due at the same time: one synchronize per time
    mo = [simgen.gen_multi_origin(rng) for _ in range(150 if q else 3000)]
    simprops.run(rep, "C18", model_ok,
                 [("clock", a, (1,), ORACLES, nontrivial), ("clock-multi", b, (1, 4), ORACLES, nontrivial),
                  ("clock-multi-origin", mo, (1, 2), ORACLES, lambda c, o: True)],
                 "multi-origin: the global scheduler (several actions) and one or two models have actions due at the same time: synchronize must be called once for that time, before any of them. scripted clock answers Synchronized / OutOfSync(3|60) at arbitrary call indices, tolerance none/5/50, random step/step_until partitions over self-scheduling and multi-model benches; the global log interleaves clock calls with handler entries. non-trivial = >=3 clock calls")
    # requests made through a Scheduler handle on another thread while the main thread steps (shared with C08/C01): the
    # clock calls of the observed run must be those of one of the two linearisations - never a time smaller than the last
    rep.cov.setdefault("parts", {})
    c08.race_part(rep, rng, model_ok, 40 if q else 400)


def replay(rep, path, model_ok):
    simprops.replay(rep, path, model_ok)
