"""C16 — initialisation."""
import simgen, oracles
from props import simprops

HARNESS = ("simh",)
TRUSTED = ["step-level theorems (first start = init, init before any handler entry, no other step logs an init); the trace-level 'exactly once, during SimInit::init' is decided by the oracle on the implementation and by comparison with Sim.v",
           "names are compared as ancestor paths (m<i> components, <unknown> for empty names)"]
ASSUMPTIONS = []
ORACLES = (oracles.o_harness, oracles.o_init, oracles.o_exactly_once)


def gen(rng):
    c = simgen.gen_net(rng, hier=True)
    # every model gets an init script that talks to other models (events and queries)
    n = len(c["models"])
    for i, m in enumerate(c["models"]):
        if m["outs"] and rng.random() < 0.8:
            m["init"] = [("snd", rng.randrange(len(m["outs"])), ("c", 60 + i))]
            if m["reqs"] and rng.random() < 0.5:
                m["init"].append(("qry", 0, ("c", 70 + i)))
    return c


def nontrivial(c, mobs):
    return sum(1 for m in c["models"] if m.get("parent") is not None) >= 1 and any(m.get("init") for m in c["models"])


def tie(rep, tier, rng, model_ok):
    q = tier == "quick"
    a = simprops.corpus_cases("C16") + [gen(rng) for _ in range(400 if q else 10000)]
    f = [simgen.gen_fault(rng, rng.choice(["panic", "norecip_model", "dead_query"])) for _ in range(200 if q else 3000)]
    # more models than one injector bucket of the multi-threaded executor holds (128): every one must be initialised
    w = [simgen.gen_wide(rng) for _ in range(4 if q else 40)]
    # deadlocks in which a SUB-model holds unprocessed messages: the report must name it parent.child
    ds = []
    while len(ds) < (120 if q else 2500):
        c = simgen.gen_deadlock(rng)
        if any(m.get("parent") is not None for m in c["models"]):
            ds.append(c)
    simprops.run(rep, "C16", model_ok,
                 [("wide", w, (1, 2, 4), ORACLES, lambda c, o: True),
                  ("hierarchies", a, (1, 4) if q else (1, 2, 4, 8, 16), ORACLES, nontrivial),
                  ("names-in-reports", f, (1, 4), (oracles.o_harness, oracles.o_attribution, oracles.o_init), lambda c, o: len(c["models"]) > 2),
                  ("deadlocked-sub-models", ds, (1, 4), (oracles.o_harness, oracles.o_deadlock_report, oracles.o_init),
                   lambda c, o: any(x[0].split(":")[0] == "dead" for x in o))],
                 "wide: 129..300 models (more than one 128-task injector bucket), each must be initialised once. hierarchies of depth 0..3 (sub-models added in ProtoModel::build, some unnamed), init scripts sending events/queries to other models (including not-yet-initialised ones), mailboxes of capacity 1..16; oracle: one init per added model, inside SimInit::init, before any of its handlers, Context::name() = parent.child. non-trivial = has a sub-model and an init script")


def replay(rep, path, model_ok):
    simprops.replay(rep, path, model_ok)
