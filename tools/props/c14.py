"""C14 — query replies; shared connection lists."""
import vlib, simgen, oracles
from props import opseq, simprops, bsprops

HARNESS = ("atomh", "simh")
TRUSTED = ["Broadcast.v models QueryBroadcaster::broadcast / BroadcasterInner::futures / BroadcastFuture::{new,poll,drop} / the lazily consumed reply iterator over an ABSTRACT task set (scheduled list, iterator being consumed, notification countdown) and wake sink (one registered waker consumed by a notification), driven sequentially: completions, failures and spurious wake-ups arrive between polls and - through scripts - inside the polls of other sub-futures; it is tied to the code by running the verbatim broadcaster.rs with the real util/task_set.rs and diatomic-waker on the same scripted scenarios (harness/atomh bscen.rs); the lock-free implementation of TaskSet is modelled separately (TaskSetConc.v: every shared access of wake_by_ref / take_scheduled / the iterator and its drop as one step, sequentially consistent interleavings) with its own invariant proof ('no completed wake-up is lost', 'the iterator never meets SLEEPING') and tied to the verbatim task_set.rs by step-by-step replay of explored traces (tools/tsetreplay.py); the two models are not composed formally (Broadcast.v assumes the abstract task set), the countdown law of the concurrent task set is proved step-wise (c14_taskset_countdown, c14_taskset_armed_push_notifies)",
           "multishot / diatomic_waker trusted",
           "connect() on one clone concurrently with send() on another is covered by the CachedRw theorems (sequential interleaving of whole operations) and by op sequences on the verbatim cached_rw_lock.rs; the bench DSL connects all ports before the simulation starts"]
ASSUMPTIONS = []


def crw_ref(line):
    ops = line.split()[1:]
    shared, clones, out = [], [([], 0)], []
    epoch = 0
    for op in ops:
        f = op.split(","); i = int(f[1])
        if i >= len(clones): out.append("-"); continue
        if f[0] == "c": clones.append((list(clones[i][0]), clones[i][1])); out.append("-")
        elif f[0] == "w": shared = shared + [int(f[2])]; epoch += 1; out.append("-")
        else:
            v, e = clones[i]
            if e != epoch: v, e = list(shared), epoch
            if f[0] == "s": v = v + [int(f[2])]
            clones[i] = (v, e)
            out.append(".".join(map(str, v)) if v else "-")
    return " ".join(out)


def gen_crw(rng, n):
    out = []
    for _ in range(n):
        ops, nc, x = [], 1, 0
        for _ in range(rng.randint(2, 25)):
            r = rng.random(); i = rng.randrange(nc + (1 if rng.random() < 0.05 else 0))
            if r < 0.2 and nc < 5: ops.append("c,%d" % min(i, nc - 1)); nc += 1
            elif r < 0.5: x += 1; ops.append("w,%d,%d" % (i, x))
            elif r < 0.8: x += 1; ops.append("s,%d,%d" % (i, x))
            else: ops.append("r,%d" % i)
        out.append("crw " + " ".join(ops))
    return out


def tie(rep, tier, rng, model_ok):
    q = tier == "quick"
    crw = opseq.load_corpus("C14") + gen_crw(rng, 2000 if q else 40000)
    opseq.check(rep, "cached-rw-lock", crw, vlib.ATOMH, ["seq"], crw_ref, lambda l: l.count("w,") >= 1 and l.count("c,") >= 1, model_ok, 1,
                rule="op sequences (clone / write / write_scratchpad / read over up to 5 clones) on the verbatim cached_rw_lock.rs vs CachedRw.v")
    bsprops.run(rep, "broadcast-scenarios", rng, 3000 if q else 80000, model_ok)
    bsprops.run_taskset(rep, "taskset-schedules", rng, 2500 if q else 60000, model_ok)
    a = [simgen.gen_query(rng) for _ in range(400 if q else 10000)]
    b = [simgen.gen_net(rng) for _ in range(150 if q else 4000)]
    simprops.run(rep, "C14", model_ok,
                 [("queries", a, (1, 4) if q else (1, 2, 3, 4, 8, 16), (oracles.o_harness, oracles.o_query_replies, oracles.o_exactly_once),
                   lambda c, o: any(e.startswith("Y:") and "," in e for ob in o for e in ob[2])),
                  ("net", b, (1, 3), (oracles.o_harness, oracles.o_query_replies), lambda c, o: True)],
                 rep.cov["rule"] + " | queries: a requester with 0..6 connections to 1-3 replier models (arbitrary subsets filtered out, request/reply maps, nested queries), replier mailboxes of capacity 1-2; multiset comparison with Sim.v on several thread counts + reply oracle. non-trivial = a query with >= 2 replies")


def replay(rep, path, model_ok):
    simprops.replay(rep, path, model_ok)
