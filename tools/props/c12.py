"""C12 — mailbox queue."""
import vlib, simgen, oracles
from props import opseq, chanprops, simprops

HARNESS = ("atomh", "simh")
TRUSTED = ["Queue.v models positions/stamps as linear counters; the bit encoding of queue.rs (lap | closed flag | index, next_queue_pos, the carry flag of len) is abstracted by a strictly monotone re-encoding and exercised by the correspondence over several laps and capacities 1,2,3,4,5,7,8,16",
           "concurrent part: QueueConc.v models every shared-memory access of Queue::push, Queue::pop and the drop of the MessageBorrow as one step (any number of producers, one consumer, close at any time, spurious failure of compare_exchange_weak), under SEQUENTIALLY CONSISTENT interleaving: the Release/Acquire orderings of the stamp accesses are recorded, not given a weak-memory semantics (the message hand-over through the cell relies on them); the invariant and its consequences (c12_conc_*) are proved for every interleaving; the model is tied to the code by replaying every explored trace of the verbatim queue.rs under the deterministic scheduler step by step in the extracted model (positions, closed flag, stamps after every access; outcomes and delivered values at the end; tools/queuereplay.py), and the same traces are judged by an oracle written from the property text",
           "resumption of a waiting sender / receiver (channel.rs over async_event::Event and DiatomicWaker): proved on Chan.v for the programs translated from the current channel.rs (c12_waiting_sender_is_resumed, c12_waiting_receiver_is_resumed); on the real code it is exercised by benches whose senders block on mailboxes of capacity 1..4, on several threads with seeded delays at the channel's hook points (a lost wake-up shows as a hang, a deadlock report or a missing invocation)"]
TRUSTED = TRUSTED + chanprops.TRUSTED
ASSUMPTIONS = ["one consumer; at most one outstanding borrow"]


def ref_run(line):
    w = line.split()
    cap, ops = int(w[1]), w[2:]
    items, held, closed, out = [], False, False, []
    for op in ops:
        f = op.split(",")
        if f[0] == "u":
            if closed: out.append("closed")
            elif len(items) + (1 if held else 0) < cap: items.append(int(f[1])); out.append("ok")
            else: out.append("full")
        elif f[0] in ("o", "h"):
            if held: out.append("busy")
            elif items:
                out.append("v,%d" % items.pop(0))
                if f[0] == "h": held = True
            else: out.append("closed" if closed else "empty")
        elif f[0] == "r":
            out.append("rel" if held else "none"); held = False
        elif f[0] == "c": closed = True; out.append("-")
        elif f[0] == "l": out.append("l,%d" % len(items))
        elif f[0] == "z": out.append("z,%d" % (1 if closed else 0))
    return " ".join(out)


def nontrivial(line):
    ops = line.split()[2:]
    return sum(1 for o in ops if o.startswith("u,")) >= 3 and any(o in ("o", "h") for o in ops)


def gen_seq(rng, n, maxlen):
    out = []
    for _ in range(n):
        cap = rng.choice([1, 1, 2, 3, 4, 5, 7, 8, 16])
        L = rng.randint(1, maxlen)
        ops, v = [], 0
        pw = rng.choice([0.45, 0.55, 0.7])
        for _ in range(L):
            r = rng.random()
            if r < pw: v += 1; ops.append("u,%d" % v)
            elif r < pw + 0.25: ops.append("o")
            elif r < pw + 0.32: ops.append("h")
            elif r < pw + 0.40: ops.append("r")
            elif r < pw + 0.45: ops.append("l")
            elif r < pw + 0.47: ops.append("c")
            else: ops.append(rng.choice(["z", "l", "o"]))
        out.append("q %d %s" % (cap, " ".join(ops)))
    return out


def gen_exh(length):
    out = []
    alpha = ["u", "o", "h", "r", "c", "l"]
    def rec(prefix, v):
        if len(prefix) == length:
            for cap in (1, 2, 3):
                out.append("q %d %s" % (cap, " ".join(prefix))); return
        rec(prefix + ["u,%d" % (v + 1)], v + 1)
        for a in alpha[1:]:
            rec(prefix + [a], v)
    rec([], 0)
    return out


def gen_conc(rng, n):
    out = []
    for _ in range(n):
        cap = rng.choice([1, 2, 3, 4])
        nprod = rng.randint(1, 3)
        per = rng.randint(1, 3)
        npops = rng.randint(1, nprod * per + 1)
        close_by = rng.choice([-1, -1, -1, 0, nprod])
        sched = [rng.randrange(nprod + 1) for _ in range(rng.randint(10, 80))]
        out.append("qc %d %d %d %d %d S %s" % (cap, nprod, per, npops, close_by, " ".join(map(str, sched))))
    return out


def bench_nontrivial(c, mobs):
    return sum(1 for o in mobs for e in o[2] if e[0] in "HP") >= 4


def small_caps(c):
    for m in c["models"]:
        m["cap"] = min(m["cap"], 1 + (len(m["handlers"][0]) % 2))
    return c


def tie(rep, tier, rng, model_ok):
    q = tier == "quick"
    chanprops.run(rep, tier, rng)
    dl = tuple("%dd%dp%du%d" % (t, rng.randrange(1, 10**6), pm, us) for t, pm, us in ((4, 400, 100), (2, 500, 50), (3, 300, 150)))
    d = [small_caps(simgen.gen_net(rng)) for _ in range(120 if q else 3000)]
    simprops.run(rep, "C12", model_ok,
                 [("mailbox-wakeups-delayed", d, dl, (oracles.o_harness, oracles.o_exactly_once), bench_nontrivial)],
                 "blocked senders and a sleeping receiver on the real channel.rs: message-passing benches with mailbox capacities 1..2 and bursts of up to 3x capacity on 2-4 worker threads with seeded delays at the hook points of channel.rs; every accepted message must be processed (closure oracle) and the outcome must equal Sim.v's")
    seq = opseq.load_corpus("C12") + gen_exh(5 if q else 7) + gen_seq(rng, 2000 if q else 40000, 60 if q else 400)
    opseq.check(rep, "queue-seq", seq, vlib.ATOMH, ["seq"], ref_run, nontrivial, model_ok, 2, exhaustive=True,
                rule="sequential: all op sequences of length %d on capacities 1..3 + random sequences on capacities 1..16 over many laps (push, pop, pop-and-hold, release, close, len, is_closed)" % (5 if q else 7))
    conc = gen_conc(rng, 3000 if q else 60000)
    outs = vlib.run_lines(vlib.ATOMH, ["seq"], conc)
    bad = [(c, o) for c, o in zip(conc, outs) if not o.startswith("OK |")]
    budget = sum(1 for c, o in bad if o.startswith("BUDGET"))
    real = [(c, o) for c, o in bad if not o.startswith("BUDGET")]
    distinct = len(set(o.split("|", 1)[1] for o in outs if "|" in o))
    rep.cov["evaluations"] += len(conc)
    rep.cov["distinct_nontrivial"] += distinct
    rep.cov["parts"]["queue-concurrent-schedules"] = {"schedules": len(conc), "distinct_traces": distinct, "oracle_failures": len(real),
                                                     "step_budget_exceeded": budget, "orderings_seen": sorted(set(t.split()[2] for o in outs[:200] if "|" in o for t in o.split("|", 1)[1].split(" ; ") if len(t.split()) > 3 and t.split()[1] not in ("ghost",)))[:8]}
    if model_ok:
        import queuereplay
        n, nsteps, rbad, skipped = queuereplay.replay(conc, outs)
        rep.cov["parts"]["queue-concurrent-model-replay"] = {"traces_replayed": n, "model_steps": nsteps, "disagreements": len(rbad),
                                                           "traces_not_mapped": len(skipped), "not_mapped_sample": skipped[:2]}
        rep.cov["traces_validated_against_impl"] += n
        if (rbad or skipped) and not real:
            b = min(rbad, key=lambda x: len(x["case"])) if rbad else {"case": skipped[0]["case"], "why": "trace not mapped: " + skipped[0]["why"]}
            d = {"kind": "broken-correspondence", "what": "a trace of the real channel/queue.rs is not a run of QueueConc.v (the theorems c12_conc_* are about QueueConc.v)",
                 "disagreements": len(rbad), "not_mapped": len(skipped)}
            d.update(b)
            rep.violation("queue-concurrent-model-replay", d, no_input=True)
    rep.cov["rule"] += " | concurrent: 1-3 producers x 1-3 pushes, a consumer, optional close, capacities 1..4, random schedules at atomic-operation granularity on the verbatim queue.rs; non-trivial = distinct traces"
    rep.cov["samples"].append({"case": conc[0], "impl": outs[0][:300]})
    if real:
        c, o = min(real, key=lambda x: len(x[0]))
        rep.violation("queue-concurrent-oracle", {"kind": "property-violated-on-implementation", "case": c, "verdict": o.split("|")[0].strip(),
                                                  "trace": o.split("|", 1)[1][:3000] if "|" in o else o, "failures": len(real)})


def replay(rep, path, model_ok):
    import json
    r = json.load(open(path))
    if chanprops.replay(r):
        return
    if str(r.get("case", "")).startswith("sim "):
        simprops.replay(rep, path, model_ok); return
    case = r.get("case")
    if not case:
        print("no concrete case:", r.get("what")); return
    print("case:", case); print("impl:", vlib.run_lines(vlib.ATOMH, ["seq"], [case], shards=1)[0][:2000])
