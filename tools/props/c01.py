"""C01 — chronological execution."""
import simgen, oracles
from props import simprops, c08

HARNESS = ("simh",)
TRUSTED = ["tai_time arithmetic and its overflow panics are outside the model (times are mathematical integers, generated magnitudes < 2^61 ns)",
           "multi-threaded runs are compared through the multiset of named handler invocations per command (the log order of racing tasks is schedule-dependent)",
           "c01_step/c01_command carry the hypothesis r <> RHang: termination of the stepping loop (fuel) is not proved here (see C08)"]
ASSUMPTIONS = ["bench DSL of tools/simcase.py; Sim.v bug switches = findings still open in known_findings.json"]
ORACLES = (oracles.o_harness, oracles.o_time, oracles.o_driver_events, oracles.o_clock)


def nontrivial(c, mobs):
    fired = sum(1 for o in mobs for e in o[2] if e.startswith("H:"))
    return fired >= 2 and any(cm[0] in ("st", "su") for cm in c["cmds"])


def tie(rep, tier, rng, model_ok):
    q = tier == "quick"
    a = simprops.corpus_cases("C01") + [simgen.gen_sched(rng) for _ in range(400 if q else 12000)]
    b = [simgen.gen_multi(rng) for _ in range(150 if q else 4000)]
    # a second user of the Scheduler handle acting while a step waits for the clock (answer -2 of the
    # scripted clock = "Synchronized" + a probe request at the step's own deadline)
    p = []
    for _ in range(150 if q else 4000):
        c = simgen.gen_sched(rng)
        if not c.get("clock"):
            c["clock"] = [None] * 40
        c["clock"] = [(-2 if (x is None and rng.random() < 0.5) else x) for x in c["clock"]]
        c["tags"].add("clock")
        p.append(c)
    simprops.run(rep, "C01", model_ok,
                 [("sched-1thread", a, (1,), ORACLES, nontrivial),
                  ("clock-probe", p, (1, 2), ORACLES + (oracles.o_clock_probe,), nontrivial),
                  ("multi-model", b, (1, 4) if q else (1, 2, 3, 4, 8, 16), (oracles.o_harness, oracles.o_time, oracles.o_clock), nontrivial)],
                 "sched: one self-scheduling model, driver schedules one-shot/keyed/periodic events on a 10-ns lattice (ties frequent), step/step_until on and around deadlines, cancellations, scripted clock; exact log comparison. clock-probe: the scripted clock, holding a Scheduler handle, requests an event at the deadline of the step in progress from inside Clock::synchronize (must be refused; the model sees a plain Synchronized answer). multi: 2-4 models in a DAG with small mailboxes, multiset comparison on several thread counts. non-trivial = >=2 handlers fired and a stepping command")
    # requests made through a Scheduler handle on another thread while the main thread steps (shared with C08): an
    # accepted request must lie strictly after the time the step has reached - 'all pending actions are later than now'
    rep.cov.setdefault("parts", {})
    c08.race_part(rep, rng, model_ok, 40 if q else 400)


def replay(rep, path, model_ok):
    simprops.replay(rep, path, model_ok)
