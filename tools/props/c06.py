"""C06 — deadlock / message-loss reports."""
import simgen, oracles
from props import simprops, poolprops, strprops

HARNESS = ("simh",)
TRUSTED = ["the idle/park hand-off of the multi-threaded executor and the folding of per-thread message counters: modelled in Pool.v (see C04/C06 theorems there) and exercised on 2..16 threads with and without seeded delays at the protocol points (hooks nexosim::verif); a delayed run is timing-dependent, so a replay of such a case may need several attempts",
           "deadlock benches are deterministic (query loop-backs, self-saturation from one handler); schedule-dependent saturation cycles are not generated"]
TRUSTED = TRUSTED + poolprops.TRUSTED + strprops.TRUSTED
ASSUMPTIONS = ["observer registration order = model ids (hierarchies are laid out in pre-order)"]
ORACLES = (oracles.o_harness, oracles.o_deadlock_report, oracles.o_exactly_once, oracles.o_terminated)


def nontrivial(c, mobs):
    return any(o[0].split(":")[0] in ("dead", "loss") for o in mobs)


def tie(rep, tier, rng, model_ok):
    q = tier == "quick"
    poolprops.run(rep, tier, "C06")
    strprops.run(rep, tier)
    a = simprops.corpus_cases("C06") + [simgen.gen_deadlock(rng) for _ in range(400 if q else 8000)]
    b = [simgen.gen_net(rng, hier=True) for _ in range(150 if q else 4000)]
    # seeded delays at the executor's protocol points (hooks nexosim::verif, cfg nexosim_verif): the
    # hand-off between the last workers going inactive and the main thread reading the message count
    dl = tuple("%dd%dp%du%d" % (t, rng.randrange(1, 10**6), pm, us) for t, pm, us in
               ((4, 300, 200), (2, 500, 100), (8, 200, 300), (3, 400, 50)))
    c = [simgen.gen_net(rng, hier=True) for _ in range(200 if q else 3000)]
    d = [simgen.gen_deadlock(rng) for _ in range(100 if q else 2000)]
    # handlers that build, run and drop a nested simulation (whose model may panic: the error is handled by
    # the handler) while messages of the enclosing simulation are in flight: the enclosing count must be unaffected
    e = [simgen.gen_nested(rng) for _ in range(200 if q else 3000)]
    simprops.run(rep, "C06", model_ok,
                 [("deadlocks", a, (1, 4) if q else (1, 2, 4, 8, 16), ORACLES, nontrivial),
                  ("no-false-report", b, (1, 4), ORACLES, lambda c, o: True),
                  ("no-false-report-delayed", c, dl, ORACLES, lambda c, o: True),
                  ("deadlocks-delayed", d, dl[:2], ORACLES, nontrivial),
                  ("no-false-report-nested", e, (1, 2, 4), ORACLES, lambda c, o: True)],
                 "query loop-backs (direct, transitive, inside sub-models with named/unnamed parents), a handler that over-fills its own mailbox, orphan mailboxes (events and queries), capacities 1..3; exact comparison of the verdict (names, counts) with Sim.v + accounting oracle; message-passing benches with hierarchies must never be reported deadlocked/lossy, also when handlers run nested simulations (1-3 threads) whose model may panic, and with seeded delays (yield/sleep up to 300 us with probability 0.2-0.5) at every protocol point of the multi-threaded executor. non-trivial = a Deadlock or MessageLoss verdict occurs")


def replay(rep, path, model_ok):
    import json
    if strprops.replay(json.load(open(path))) or poolprops.replay(json.load(open(path))):
        return
    simprops.replay(rep, path, model_ok)
