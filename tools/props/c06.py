"""C06 — deadlock / message-loss reports."""
import simgen, oracles
from props import simprops

HARNESS = ("simh",)
TRUSTED = ["the idle/park hand-off window of the multi-threaded executor and the folding of per-thread message counters are not modelled (exercised on 2..16 threads only)",
           "deadlock benches are deterministic (query loop-backs, self-saturation from one handler); schedule-dependent saturation cycles are not generated"]
ASSUMPTIONS = ["observer registration order = model ids (hierarchies are laid out in pre-order)"]
ORACLES = (oracles.o_harness, oracles.o_deadlock_report, oracles.o_exactly_once, oracles.o_terminated)


def nontrivial(c, mobs):
    return any(o[0].split(":")[0] in ("dead", "loss") for o in mobs)


def tie(rep, tier, rng, model_ok):
    q = tier == "quick"
    a = simprops.corpus_cases("C06") + [simgen.gen_deadlock(rng) for _ in range(400 if q else 8000)]
    b = [simgen.gen_net(rng, hier=True) for _ in range(150 if q else 4000)]
    simprops.run(rep, "C06", model_ok,
                 [("deadlocks", a, (1, 4) if q else (1, 2, 4, 8, 16), ORACLES, nontrivial),
                  ("no-false-report", b, (1, 4), ORACLES, lambda c, o: True)],
                 "query loop-backs (direct, transitive, inside sub-models with named/unnamed parents), a handler that over-fills its own mailbox, orphan mailboxes (events and queries), capacities 1..3; exact comparison of the verdict (names, counts) with Sim.v + accounting oracle; message-passing benches with hierarchies must never be reported deadlocked/lossy. non-trivial = a Deadlock or MessageLoss verdict occurs")


def replay(rep, path, model_ok):
    simprops.replay(rep, path, model_ok)
