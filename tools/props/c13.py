"""C13 — task lifecycle."""
import vlib, taskgen
from props import taskprops

HARNESS = ("atomh",)
TRUSTED = ["TaskSM.v is a COARSE model: each handle operation is its read-modify-write plus the dependent release effects in one atomic step (Runnable::run and the idle-cancel path are split at every read-modify-write); it is tied to the code by (i) the layout lemmas over gen/Consts.v (constants and initial state words regenerated from executor/task.rs on every run) and (ii) the oracle-judged exploration of the verbatim source under the deterministic scheduler and (iii) translation validation: every explored trace of the real code is mapped to TaskSM operations (one per read-modify-write of the state word; the operation is chosen from the control context, not from the value written) and replayed in the extracted model, which must be enabled at every step, reproduce every state word the code wrote, and end with the same counts of future drops, output drops and deallocations (tools/taskreplay.py)",
           "sequential consistency only: Release/Acquire choices are recorded, not given a semantics; counter saturation (REF_CRITICAL / WAKE_CRITICAL) excluded",
           "the preservation lemmas (Proofs/TaskOps) are closed by case analysis on the finite part of the state + lia (ZifyBool); they take several minutes of CPU to re-check"]
ASSUMPTIONS = ["one task; any number of wakers/threads in the model; 2-3 threads in the exploration"]


def tie(rep, tier, rng, model_ok):
    q = tier == "quick"
    cases = taskgen.enum_shapes(5 if q else 7) + taskgen.gen(rng, 4000 if q else 80000)
    taskprops.run_tasks(rep, "task-schedules", cases, model_ok=model_ok)
    if model_ok:
        taskprops.model_exploration(rep, rng, 20000 if q else 200000)
    rep.cov["rule"] = "handle-operation scripts for 2-3 threads (run, drop runnable, wake by value / by reference, clone, drop waker, cancel, drop token, promise poll/drop) over scripted futures (pending, self-wake, self-cancel, ready, panic, wake-on-drop), spawn and spawn_and_forget; every schedule prefix of length <= %d on the 8 scenario shapes of the repository's loom tests + random schedules; oracle: poll exclusivity, no poll after end, a wake leads to another poll, future/output/memory released exactly once, no access after free. distinct = distinct traces" % (5 if q else 7)
    rep.cov["exhaustive"] = False


def replay(rep, path, model_ok):
    import json
    r = json.load(open(path))
    print("case:", r.get("case")); print("impl:", vlib.run_lines(vlib.ATOMH, ["seq"], [r["case"]], shards=1)[0][:2500])
