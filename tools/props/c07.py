"""C07 — same-time events from one origin keep scheduling order."""
import simgen, oracles
from props import simprops, sqfprops

HARNESS = ("simh", "atomh")
TRUSTED = ["the end-to-end order statement is the composition of c07_queue_stable, c07_insert_last, c07_task_sequential, c07_mailbox_fifo (each proved for all inputs); the composition over whole traces is checked by exact log comparison with Sim.v and by the direct oracle, not by a single Coq trace theorem",
           "on multi-threaded runs the order is decided by the direct oracle on observed logs"]
TRUSTED = TRUSTED + sqfprops.TRUSTED
ASSUMPTIONS = []
ORACLES = (oracles.o_harness, oracles.o_driver_events, oracles.o_time)


def nontrivial(c, mobs):
    # some step fired >= 3 handlers at one time
    for o in mobs:
        ts = [e.split(":")[-1] for e in o[2] if e.startswith("H:")]
        if any(ts.count(t) >= 3 for t in set(ts)):
            return True
    return False


def tie(rep, tier, rng, model_ok):
    q = tier == "quick"
    sqfprops.run(rep, tier, rng, model_ok)
    a = simprops.corpus_cases("C07") + [simgen.gen_burst(rng) for _ in range(500 if q else 15000)]
    b = [simgen.gen_sched(rng) for _ in range(150 if q else 4000)]
    c = [simgen.gen_multi_origin(rng) for _ in range(300 if q else 8000)]
    d = [simgen.gen_cancel_same_time(rng) for _ in range(200 if q else 5000)]
    e = [simgen.gen_periodic_rearm(rng) for _ in range(150 if q else 4000)]
    simprops.run(rep, "C07", model_ok,
                 [("bursts", a, (1, 4) if q else (1, 2, 3, 4, 8, 16), ORACLES, nontrivial),
                  ("multi-origin", c, (1, 2, 4) if q else (1, 2, 3, 4, 8, 16), ORACLES + (oracles.o_burst_order, oracles.o_clock), lambda cs, o: True),
                  ("same-time-groups", d, (1, 4) if q else (1, 2, 4, 8, 16), ORACLES, nontrivial),
                  ("periodic-rearm", e, (1, 3), ORACLES + (oracles.o_rearm_order,), lambda cs, o: True),
                  ("sched-1thread", b, (1,), ORACLES, nontrivial)],
                 "bursts of 2-8 same-deadline events per origin (driver, and one handler invocation) to a mailbox of capacity 1..3 (the group task blocks) or 16, one-shot/keyed/periodic mixed, other deadlines interleaved; exact log comparison on every thread count (one origin per time, so the order is schedule-independent) + order oracle; multi-origin: the global scheduler and one or two models all have events due at the same time for the same targets (multiset comparison + per-origin order oracles); periodic-rearm: a series armed by a model on itself whose every occurrence schedules a one-shot due exactly at the next occurrence: the occurrence (re-armed first) must run first; same-time groups of 3-7 driver actions mixing model-input and EventSource events. non-trivial = >=3 handlers at one time")


def replay(rep, path, model_ok):
    import json
    if sqfprops.replay(json.load(open(path))):
        return
    simprops.replay(rep, path, model_ok)
