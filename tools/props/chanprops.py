"""The blocking protocol of channel.rs (coq/Model/Chan.v): translator T4 + search for a lost wake-up (C03, C04)."""
import vlib

TRUSTED = ["translator T4 tools/gen_chan.py: what Receiver::recv does between a successful pop and the execution of the message and what Sender::send does after a successful push are translated statement by statement into gen/ChanProg.v on every run (unknown statements are refused, a conditional notify_one becomes 'may or may not notify'); the two wait_until predicates are compared with the shape Chan.v assumes",
           "Chan.v assumes that the external crates async-event 0.2.1 (wait_until = remove own notifier / predicate / insert / predicate / cancel-or-forward; notify_one = wake one member of the wait set) and diatomic-waker 0.2.3 (register / notify) behave as modelled there: their sources were read, not verified; for both the assumption is exercised by oracle-judged schedules on the verbatim crate sources (mirrored into atomh over instrumented primitives; parts async-event-schedules: no sender is left pending and unwoken in front of a free slot, and diatomic-waker-schedules: the consumer is never left pending and unwoken in front of an available item), not by a trace replay; the queue is abstracted to two counters (QueueConc.v proves the queue itself); closing a channel is not modelled; sequential consistency"]


def gen_aes(rng, n):
    """scenarios on the verbatim async-event Event used as channel.rs uses it (harness/atomh/src/aescen.rs)"""
    cases = []
    for _ in range(n):
        cap = rng.choice([1, 2, 2, 3]); ns = rng.choice([2, 3, 3]); sends = rng.choice([1, 2]); pops = rng.randint(1, ns * sends)
        sch = []
        while len(sch) < rng.randint(60, 400):
            sch += [rng.randrange(ns + 1)] * rng.choice([1, 1, 2, 5, 12, 30])
        cases.append("aes %d %d %d %d 1 S %s" % (cap, ns, sends, pops, " ".join(map(str, sch))))
    return cases


def run_aes(rep, tier, rng):
    cases = gen_aes(rng, 2000 if tier == "quick" else 40000)
    outs = vlib.run_lines(vlib.ATOMH, ["seq"], cases)
    bad = [(c, o) for c, o in zip(cases, outs) if not o.startswith("OK")]
    blocked = sum(1 for o in outs if "pending=[]" not in o)
    rep.cov["evaluations"] += len(cases)
    rep.cov.setdefault("parts", {})["async-event-schedules"] = {"schedules": len(cases), "with_a_sender_left_pending": blocked, "oracle_failures": len(bad)}
    if bad:
        c, o = min(bad, key=lambda t: len(t[0]))
        rep.violation("async-event-oracle", {"kind": "property-violated-on-implementation", "case": c, "observed": o, "failures": len(bad),
                                             "why": "on the verbatim async-event crate (the version pinned by /repo/Cargo.lock) driven as channel.rs drives it (wait_until a slot can be taken; free a slot, then notify_one), a sender stays pending without having been woken although a slot is free: Chan.v's model of the primitive does not hold"})


def gen_dws(rng, n):
    """scenarios on the verbatim diatomic-waker DiatomicWaker used as channel.rs uses it for the receiver (dwscen.rs)"""
    cases = []
    for _ in range(n):
        np_ = rng.choice([1, 2, 3]); items = rng.choice([1, 2, 3]); pops = rng.randint(1, np_ * items + 1)
        sch = []
        while len(sch) < rng.randint(30, 300):
            sch += [rng.randrange(np_ + 1)] * rng.choice([1, 1, 2, 4, 10])
        cases.append("dws %d %d %d 1 S %s" % (np_, items, pops, " ".join(map(str, sch))))
    return cases


def run_dws(rep, tier, rng):
    cases = gen_dws(rng, 2000 if tier == "quick" else 40000)
    outs = vlib.run_lines(vlib.ATOMH, ["seq"], cases)
    bad = [(c, o) for c, o in zip(cases, outs) if not o.startswith("OK")]
    rep.cov["evaluations"] += len(cases)
    rep.cov.setdefault("parts", {})["diatomic-waker-schedules"] = {"schedules": len(cases), "with_the_consumer_left_pending": sum(1 for o in outs if "pending=1" in o), "oracle_failures": len(bad)}
    if bad:
        c, o = min(bad, key=lambda t: len(t[0]))
        rep.violation("diatomic-waker-oracle", {"kind": "property-violated-on-implementation", "case": c, "observed": o, "failures": len(bad),
                                                "why": "on the verbatim diatomic-waker crate (the version pinned by /repo/Cargo.lock) driven as channel.rs drives it (make an item available, then notify; the consumer wait_until's an item), the consumer stays pending without having been woken although an item is available: Chan.v's model of the primitive does not hold"})


def run(rep, tier, rng=None):
    import gen_chan
    if rng is not None:
        run_aes(rep, tier, rng)
        run_dws(rep, tier, rng)
    part = {"translator": "ok"}
    try:
        _, (r, s) = gen_chan.generate()
        part["programs_generated"] = {"recv": r, "send": s}
    except gen_chan.Refuse as e:
        part["translator"] = "refused: %s" % e
        rep.cov.setdefault("parts", {})["channel-model"] = part
        raise vlib.BrokenTie("translator gen_chan.py refused the current channel.rs", str(e))
    found = False
    if vlib.RUNNER_OK:
        cfgs = [(1, 2, 300000), (2, 2, 600000)] if tier == "quick" else [(1, 2, 3000000), (2, 2, 3000000), (2, 3, 4000000), (1, 3, 4000000)]
        lines = ["chansearch gen %d %d L %d" % c for c in cfgs]
        outs = vlib.run_model(lines, shards=len(lines))
        part["search"] = [{"capacity": c[0], "senders": c[1], "state_limit": c[2], "result": o.split(" | ")[0]} for c, o in zip(cfgs, outs)]
        for c, o in zip(cfgs, outs):
            if o.startswith("FOUND"):
                f = o.split(" | ")
                rep.violation("channel-model-execution", {
                    "kind": "property-violated-on-model-generated-from-source",
                    "what": "in the channel model (coq/Model/Chan.v) instantiated with the programs generated from the current channel.rs a wake-up is lost: a sender stays asleep in front of a free slot, or the receiver in front of a queued message, and nobody is left to wake it (a message accepted by send is then never delivered although the call returns Ok, or the step never ends)",
                    "capacity": c[0], "senders": c[1], "schedule": f[1], "final_state": f[2],
                    "programs_generated": part["programs_generated"],
                    "note": ("the source notifies a sender under a condition the translator does not interpret (RNotifyMaybe = it may or may not notify): this schedule is a failing execution of that over-approximation, the checks on the real code decide whether the condition can actually skip a needed notification" if "RNotifyMaybe" in r else ""),
                    "replay_cmd": "echo 'chansearch gen %d %d L %d' | .build/ocaml/modelrun" % c,
                    "theorems_broken": "c03_chan_source_is_proved_program / c03_chan_sender_sleeps_only_when_full"})
                found = True
                break
            if not o.startswith("NONE"):
                raise vlib.BrokenTie("chansearch failed", o[:500])
    rep.cov.setdefault("parts", {})["channel-model"] = part
    return found


def replay(r):
    if r.get("kind") != "property-violated-on-model-generated-from-source" or "capacity" not in r:
        return False
    import gen_chan
    print("recorded schedule:", r.get("schedule")); print("recorded final state:", r.get("final_state"))
    try:
        _, p = gen_chan.generate()
        print("programs generated from the current source:", p)
    except gen_chan.Refuse as e:
        print("translator refuses the current source:", e); return True
    print("search on the current source:", vlib.run_model(["chansearch gen %d %d L 3000000" % (r["capacity"], r["senders"])], shards=1)[0])
    return True
