"""C09 — cancellation."""
import simgen, oracles
from props import simprops

HARNESS = ("simh",)
TRUSTED = ["c09 theorems are per-mechanism (queue-side check in the critical section, handler-side check at dequeue, flag locality); the trace-level characterisation 'handler runs iff not cancelled before ...' is checked by exact comparison with Sim.v and the driver-event oracle",
           "process(action) on an already-cancelled source action executes it (the code ignores the key there): the property speaks of scheduled actions; recorded as an observation"]
ASSUMPTIONS = []
ORACLES = (oracles.o_harness, oracles.o_driver_events, oracles.o_time, oracles.o_handler_cancel)


def nontrivial(c, mobs):
    return any(cm[0] in ("cn", "ca") for cm in c["cmds"]) or "cancel" in c.get("tags", ())


def tie(rep, tier, rng, model_ok):
    q = tier == "quick"
    a = simprops.corpus_cases("C09") + [simgen.gen_cancel(rng) for _ in range(500 if q else 15000)]
    b = [simgen.gen_sched(rng) for _ in range(250 if q else 6000)]
    c = [simgen.gen_cancel_same_time(rng) for _ in range(400 if q else 10000)]
    simprops.run(rep, "C09", model_ok,
                 [("cancel", a, (1, 4) if q else (1, 2, 4, 8, 16), ORACLES, nontrivial),
                  ("cancel-same-time", c, (1, 4) if q else (1, 2, 4, 8, 16), ORACLES, nontrivial),
                  ("sched-1thread", b, (1,), ORACLES, nontrivial)],
                 "keyed one-shot/periodic events; cancel before the due step (driver), by an earlier same-time event of the same model and origin (handler, before and after the victim in scheduling order), after firing, one of many same-deadline events, with step and step_until; 3-7 driver actions due at one time mixing model-input events and EventSource events (keyed, periodic), the cancelled ones at any position of the group; exact log comparison + driver-event oracle (cancelled never fires, others unaffected). non-trivial = a cancel occurs")


def replay(rep, path, model_ok):
    simprops.replay(rep, path, model_ok)
