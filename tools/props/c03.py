"""C03 — exactly-once delivery."""
import vlib, simgen, oracles
from props import simprops, opseq, c14, chanprops

HARNESS = ("simh", "atomh")
TRUSTED = ["per-mechanism theorems (deliveries of a send, enqueue once, consume once, sender waits, counter = queued messages); the trace-level multiset equality sent = processed is decided on the implementation by the closure oracle and on the model by correspondence",
           "MessageFnOnce (FnOnce taken once) is covered behaviourally only",
           "'every connected recipient': the bench DSL connects all ports before the simulation starts; connections added later through a clone of a port (util/cached_rw_lock.rs) are covered by the CachedRw theorems (C14) and by op sequences on the verbatim cached_rw_lock.rs run here as well"]
TRUSTED = TRUSTED + chanprops.TRUSTED
ASSUMPTIONS = ["benches of this family do not schedule from handlers, so the oracle's accounting is exact"]
ORACLES = (oracles.o_harness, oracles.o_exactly_once, oracles.o_sink_closure, oracles.o_time)


def nontrivial(c, mobs):
    return sum(1 for o in mobs for e in o[2] if e[0] in "HP") >= 4


def tie(rep, tier, rng, model_ok):
    q = tier == "quick"
    chanprops.run(rep, tier, rng)
    crw = c14.gen_crw(rng, 1500 if q else 30000)
    opseq.check(rep, "connection-list", crw, vlib.ATOMH, ["seq"], c14.crw_ref, lambda l: l.count("w,") >= 1 and l.count("c,") >= 1, model_ok, 1,
                rule="connection lists of port clones: op sequences (clone / connect / send over up to 5 clones) on the verbatim cached_rw_lock.rs vs CachedRw.v")
    a = simprops.corpus_cases("C03") + [simgen.gen_net(rng, hier=(i % 3 == 0)) for i in range(400 if q else 12000)]
    dl = tuple("%dd%dp%du%d" % (t, rng.randrange(1, 10**6), pm, us) for t, pm, us in ((4, 300, 100), (2, 400, 50)))
    d = [simgen.gen_net(rng) for _ in range(150 if q else 3000)]
    simprops.run(rep, "C03", model_ok,
                 [("net", a, (1, 2, 4) if q else (1, 2, 3, 4, 8, 16), ORACLES, nontrivial),
                  ("net-delayed", d, dl, ORACLES, nontrivial)],
                 rep.cov["rule"] + " | 2-5 models, DAG of plain/map/filter_map connections to models and a sink, queries, bursts of 1..3x capacity same-time events into mailboxes of capacity 1..16 (senders block), sources, process_event/process_query; multiset comparison with Sim.v on several thread counts + closure oracle (processed = sent, per accepting connection). non-trivial = >=4 invocations")


def replay(rep, path, model_ok):
    import json
    if chanprops.replay(json.load(open(path))):
        return
    simprops.replay(rep, path, model_ok)
