"""C02 — causal message ordering."""
import simgen, oracles
from props import simprops

HARNESS = ("simh",)
TRUSTED = ["PARTIAL: per-step facts are proved (mailboxes only lose their head and gain at the tail, program order of port operations, enqueue needs room) plus a computed instance of the documented triangle under all short schedules; the trace-level happens-before theorem (ghost causal pasts) of the design is not mechanised",
           "on the implementation the order is decided by the triangle oracle on observed logs (1..16 threads); atomicity of mailbox operations on real threads rests on C12 (sequential proof + scheduled exploration)"]
ASSUMPTIONS = []
ORACLES = (oracles.o_harness, oracles.o_triangle, oracles.o_exactly_once)


def tie(rep, tier, rng, model_ok):
    q = tier == "quick"
    a = simprops.corpus_cases("C02") + [simgen.gen_triangle(rng) for _ in range(500 if q else 15000)]
    b = [simgen.gen_net(rng) for _ in range(150 if q else 4000)]
    simprops.run(rep, "C02", model_ok,
                 [("triangles", a, (1, 2, 4, 8) if q else (1, 2, 3, 4, 8, 16), ORACLES, lambda c, o: len(c["meta"]["roots"]) >= 2),
                  ("net", b, (1, 4), (oracles.o_harness, oracles.o_exactly_once), lambda c, o: True)],
                 "the A->B, A->C->B triangle (optionally with a relay D), 1-5 roots, mailbox capacities 1..3 so that senders suspend, roots from one sequential task or successive process_event calls; multiset comparison with Sim.v + causal-order oracle at B on 1..16 threads. non-trivial = >= 2 roots")


def replay(rep, path, model_ok):
    simprops.replay(rep, path, model_ok)
