"""SeqFuture::poll (util/seq_futures.rs, coq/Model/SeqFut.v): translator T7, search for a failing list of
sub-futures, and correspondence of the model's loop semantics with the verbatim source on scripted sub-futures."""
import vlib

TRUSTED = ["translator T7 tools/gen_seqfut.py: the loop body of SeqFuture::poll is translated statement by statement into gen/SeqFutProg.v on every run; the loop shape (`while inner[idx].poll().is_ready() { body } Pending`), `new` and `push` are compared textually (anything else is refused); a sub-future is abstracted to its number of Pending answers - the model's interpretation of the loop is tied to the code by running the verbatim seq_futures.rs on scripted sub-futures (part seqfuture-opseq)"]


def gen(rng, n):
    out = []
    for _ in range(n):
        ks = [rng.choice([0, 0, 1, 1, 2, 3, 5]) for _ in range(rng.randint(1, 9))]
        out.append("sqf " + " ".join(map(str, ks)))
    return out


def expected(line):
    ks = [int(x) for x in line.split()[1:]]
    tr = []
    for i, k in enumerate(ks):
        tr += [str(i)] * (k + 1)
    return "1 0 %s 0 0" % ".".join(tr)


def run(rep, tier, rng, model_ok):
    import gen_seqfut
    part = {"translator": "ok"}
    try:
        _, ops = gen_seqfut.generate()
        part["body_generated"] = ops
    except gen_seqfut.Refuse as e:
        part["translator"] = "refused: %s" % e
        ops = None
    # the verbatim source on scripted sub-futures: judged by the specification, compared with the model
    cases = ["sqf %d" % k for k in range(4)] + ["sqf %d %d" % (a, b) for a in range(3) for b in range(3)] + gen(rng, 400 if tier == "quick" else 20000)
    outs = vlib.run_lines(vlib.ATOMH, ["seq"], cases)
    bad_o = [(c, o) for c, o in zip(cases, outs) if o.strip() != expected(c)]
    bad_m = []
    if model_ok and ops is not None:
        mouts = vlib.run_model(cases)
        bad_m = [(c, o, m) for c, o, m in zip(cases, outs, mouts) if m is not None and m.strip() != o.strip()]
    part["opseq"] = {"cases": len(cases), "oracle_failures": len(bad_o), "model_disagreements": len(bad_m),
                     "sub_futures": sum(len(c.split()) - 1 for c in cases)}
    rep.cov["evaluations"] += len(cases)
    rep.cov["traces_validated_against_impl"] += len(cases) if (model_ok and ops is not None) else 0
    rep.cov.setdefault("parts", {})["seqfuture-opseq"] = part
    if bad_o:
        c, o = min(bad_o, key=lambda x: len(x[0]))
        rep.violation("seqfuture-oracle", {
            "kind": "property-violated-on-implementation", "case": c,
            "why": "the verbatim SeqFuture does not poll its sub-futures in order, each until Ready and never again, completing with the last one (fields: ready, ready-too-early, sub-polls, polled-after-Ready, out-of-bounds panic)",
            "observed": o, "expected": expected(c), "failures": len(bad_o)})
        return
    if ops is None:
        raise vlib.BrokenTie("translator gen_seqfut.py refused the current util/seq_futures.rs", part["translator"])
    if vlib.RUNNER_OK:
        o = vlib.run_model(["seqfut"], shards=1)[0]
        part["search"] = o
        if o.startswith("FOUND"):
            rep.violation("seqfuture-model-execution", {
                "kind": "property-violated-on-model-generated-from-source",
                "what": "SeqFuture::poll with the loop body generated from the current seq_futures.rs violates its specification (coq/Model/SeqFut.v, sq_check) on this list of sub-futures (number of Pending answers of each)",
                "input": o[6:], "body_generated": ops, "replay_cmd": "echo seqfut | .build/ocaml/modelrun",
                "theorems_broken": "c07_seqfuture_source_is_proved_program / c07_seqfuture_polls_in_order_each_to_completion"})
        elif not o.startswith("NONE"):
            raise vlib.BrokenTie("seqfut search failed", o[:300])
    if bad_m:
        c, o, m = min(bad_m, key=lambda x: len(x[0]))
        rep.violation("seqfuture-correspondence", {"kind": "broken-correspondence", "what": "SeqFut.v (with the generated body) and the verbatim seq_futures.rs differ on scripted sub-futures",
                                                   "case": c, "implementation": o, "model": m, "disagreements": len(bad_m)}, no_input=True)


def replay(r):
    c = str(r.get("case", ""))
    if c.startswith("sqf "):
        print("case:", c); print("impl: ", vlib.run_lines(vlib.ATOMH, ["seq"], [c], shards=1)[0]); print("model:", vlib.run_model([c], shards=1)[0])
        return True
    if r.get("kind") == "property-violated-on-model-generated-from-source" and "body_generated" in r:
        print("recorded input:", r.get("input")); print("search on the current source:", vlib.run_model(["seqfut"], shards=1)[0])
        return True
    return False
