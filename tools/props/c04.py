"""C04 — run-to-quiescence; same outcome on any executor."""
import simgen, oracles
from props import simprops, poolprops, injprops, chanprops, confprops, bsprops

HARNESS = ("simh", "atomh")
TRUSTED = ["the work-stealing / parking protocol of the multi-threaded executor (pool_manager.rs, mt_executor.rs, injector.rs, st3, parking) is NOT modelled: it is exercised only through real runs on 2..16 threads whose outcome must equal the model's; seeded delays (yield / sleep up to 300 us) at 15 protocol points of mt_executor.rs and pool_manager.rs (hooks nexosim::verif, cfg nexosim_verif) perturb the parking / idle hand-off in the delayed-executors part; the barrier protocol itself is modelled in Pool.v"]
TRUSTED = TRUSTED + poolprops.TRUSTED + injprops.TRUSTED + chanprops.TRUSTED + confprops.TRUSTED
ASSUMPTIONS = ["handlers await only port operations; DAG topologies (no schedule-dependent stall)"]
ORACLES = (oracles.o_harness, oracles.o_exactly_once, oracles.o_sink_closure, oracles.o_time)


def nontrivial(c, mobs):
    return sum(1 for o in mobs for e in o[2] if e[0] in "HP") >= 4


def tie(rep, tier, rng, model_ok):
    q = tier == "quick"
    poolprops.run(rep, tier, "C04")
    injprops.run(rep, tier, rng, model_ok)
    chanprops.run(rep, tier)
    confprops.run(rep, tier, rng, model_ok)
    # the wake-up protocol of a broadcast's sub-tasks (util/task_set.rs): a lost notification leaves a handler half-way with Ok
    bsprops.run_taskset(rep, "taskset-schedules", rng, 1200 if q else 30000, model_ok)
    a = simprops.corpus_cases("C04") + [simgen.gen_net(rng) for _ in range(250 if q else 6000)]
    b = [simgen.gen_multi(rng) for _ in range(150 if q else 4000)]
    w = [simgen.gen_wide(rng) for _ in range(6 if q else 60)]
    threads = (1, 2, 3, 4, 8, 16)
    dl = tuple("%dd%dp%du%d" % (t, rng.randrange(1, 10**6), pm, us) for t, pm, us in
               ((4, 300, 200), (2, 500, 100), (7, 200, 300)))
    dcases = [simgen.gen_net(rng) for _ in range(150 if q else 3000)] + [simgen.gen_multi(rng) for _ in range(60 if q else 1000)]
    simprops.run(rep, "C04", model_ok,
                 [("net-all-executors", a, threads, ORACLES, nontrivial),
                  ("multi-all-executors", b, threads, (oracles.o_harness, oracles.o_time), nontrivial),
                  ("wide-all-executors", w, (1, 2, 4, 7), ORACLES, nontrivial),
                  ("delayed-executors", dcases, dl, (oracles.o_harness, oracles.o_time), nontrivial)],
                 "the same bench/commands on the single-threaded executor and on 2,3,4,8,16 worker threads; every run's per-command multiset of handler invocations, results, times and sink contents must equal the model's reference run; oracle: when a call returns Ok every sent message has been processed. wide = 129..300 models with one event each due at the same time (more than one 128-task injector bucket). non-trivial = >=4 invocations")


def replay(rep, path, model_ok):
    import json
    if chanprops.replay(json.load(open(path))) or poolprops.replay(json.load(open(path))) or confprops.replay(json.load(open(path))):
        return
    simprops.replay(rep, path, model_ok)
