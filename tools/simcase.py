"""Bench DSL shared by the Coq model (ocaml/driver.ml) and the implementation harness
(harness/simh/src/bench.rs): data model, serialisation, output parsing, comparison.

Grammar of a case (one line, whitespace separated tokens; -1 = none):
  sim <threads> <fuel> <t0> <tol|-1> <bugF1> <bugF2> <bugF3> <bugF4>
   M <n> MODEL*   S <n> (<0 buf|1 slot> <cap>)*   E <n> (<nc> CONN*)*   K <n> <lag|-1>*
   I <nch> <choice>*   C <n> (CMD <nch> <choice>*)*
  MODEL  := <cap> <place 0 added|1 orphan|2 dropped> <parent|-1> <named> SCRIPT H <k> SCRIPT* R <r> (SCRIPT <c>)*
            O <p> (<nc> CONN*)* Q <q> (<nq> QCONN*)*
  SCRIPT := <nops> OP*
  OP     := snd <port> EXPR | qry <port> EXPR | sch DL <input> EXPR <slot|-1> <period|-1> | can <slot> | pan <code>
            | nst <threads> <k> | nsp <threads> <k>   (harness only: nested simulation, nsp = its model panics; skipped by the model)
  EXPR   := in | c <n> | ip <n>          DL := a <t> | r <d>
  CONN   := KEEP <add> (m <model> <input> | s <sink>)      KEEP := all | even | lt <c>
  QCONN  := KEEP <add> <model> <replier> <radd>
  CMD    := se DL <m> <input> <v> <slot|-1> <period|-1> | ss DL <src> <v> <slot|-1> <period|-1> | cn <slot>
          | ca <slot> (into_auto + drop) | ck <a> <b> (slot b := clone of the key of slot a; the model resolves the alias)
          | st | su DL | pe <m> <input> <v> | pq <m> <rep> <v> | ps <src> <v> | rs <sink> | so <sink> <0|1>
"""
import random


def opt(x):
    return "-1" if x is None else str(x)


def r_keep(k):
    return k if isinstance(k, str) else "lt %d" % k[1]


def r_conn(c):
    k, add, tgt = c
    t = "m %d %d" % (tgt[1], tgt[2]) if tgt[0] == "m" else "s %d" % tgt[1]
    return "%s %d %s" % (r_keep(k), add, t)


def r_qconn(q):
    k, add, m, rep, radd = q
    return "%s %d %d %d %d" % (r_keep(k), add, m, rep, radd)


def r_expr(e):
    return e if e == "in" else "%s %d" % e


def r_dl(d):
    return "%s %d" % d


def r_op(o):
    if o[0] in ("snd", "qry"):
        return "%s %d %s" % (o[0], o[1], r_expr(o[2]))
    if o[0] == "sch":
        return "sch %s %d %s %s %s" % (r_dl(o[1]), o[2], r_expr(o[3]), opt(o[4]), opt(o[5]))
    if o[0] == "slp":
        return "slp %d" % o[1]
    if o[0] == "cau":
        return "cau %d" % o[1]
    if o[0] in ("nst", "nsp"):
        return "%s %d %d" % (o[0], o[1], o[2])
    return "%s %d" % (o[0], o[1])


def r_script(s):
    return " ".join([str(len(s))] + [r_op(o) for o in s])


def r_model(m):
    out = [str(m["cap"]), str(m.get("place", 0)), opt(m.get("parent")), str(1 if m.get("named", True) else 0),
           r_script(m.get("init", []))]
    hs = m.get("handlers", [])
    out += ["H", str(len(hs))] + [r_script(h) for h in hs]
    rs = m.get("repliers", [])
    out += ["R", str(len(rs))] + ["%s %d" % (r_script(s), c) for s, c in rs]
    os_ = m.get("outs", [])
    out += ["O", str(len(os_))] + [" ".join([str(len(cs))] + [r_conn(c) for c in cs]) for cs in os_]
    qs = m.get("reqs", [])
    out += ["Q", str(len(qs))] + [" ".join([str(len(cs))] + [r_qconn(c) for c in cs]) for cs in qs]
    return " ".join(out)


def r_cmd(c):
    k = c[0]
    if k == "se":
        return "se %s %d %d %d %s %s" % (r_dl(c[1]), c[2], c[3], c[4], opt(c[5]), opt(c[6]))
    if k == "ss":
        return "ss %s %d %d %s %s" % (r_dl(c[1]), c[2], c[3], opt(c[4]), opt(c[5]))
    if k == "su":
        return "su %s" % r_dl(c[1])
    if k == "st":
        return "st"
    if k == "rc":
        return "rc %d %d %d %d %d" % (c[1], c[2], c[3], c[4], c[5])
    return " ".join([k] + [str(x) for x in c[1:]])


def render(case, bugs=(0, 0, 0, 0), threads=None, choices=None):
    """choices: None, or (init_choices, [per-command choices])"""
    th = threads if threads is not None else case.get("threads", 1)
    out = ["sim", str(th), str(case.get("fuel", 20000)), str(case.get("t0", 0)), opt(case.get("tol"))]
    out += [str(int(b)) for b in bugs]
    ms = case["models"]
    out += ["M", str(len(ms))] + [r_model(m) for m in ms]
    sk = case.get("sinks", [])
    out += ["S", str(len(sk))] + ["%d %d" % (0 if k == "buf" else 1, c) for k, c in sk]
    src = case.get("sources", [])
    out += ["E", str(len(src))] + [" ".join([str(len(cs))] + [r_conn(c) for c in cs]) for cs in src]
    ck = case.get("clock", [])
    out += ["K", str(len(ck))] + [opt(a) for a in ck]
    ich, cch = choices if choices else ([], [[] for _ in case["cmds"]])
    out += ["I", str(len(ich))] + [str(x) for x in ich]
    out += ["C", str(len(case["cmds"]))]
    for c, ch in zip(case["cmds"], cch):
        out.append(r_cmd(c))
        out += [str(len(ch))] + [str(x) for x in ch]
    return " ".join(out)


# ------------------------------------------------------------------ outputs

def parse_out(line):
    """-> list of (res, time, [entries]) or None when the line is not an observation list."""
    try:
        return _parse_out(line)
    except Exception:
        return None


def _parse_out(line):
    if line is None or line.startswith(("ERR", "HANG", "HARNESS", "NO-OUTPUT", "PANIC")):
        return None
    line = line.split(" || ")[0]
    obs = []
    for part in line.split(" | "):
        part = part.strip()
        if part == "noinit":
            obs.append(("noinit", None, []))
            continue
        res, rest = part.split(" ", 1)
        at, rest = rest.split(" ", 1)
        lb, rb = rest.index("["), rest.rindex("]")
        ents = rest[lb + 1:rb].split()
        obs.append((res, int(at[1:]), ents))
    return obs


FATAL = ("dead", "loss", "norecip", "panic", "oos", "timeout", "hang", "term")


def canon(obs, mode, drop=("T", "N", "Z")):
    """Canonical form for comparison.  mode 'seq': the ordered log; 'multiset': sorted log per
    command; for a command that fails with a schedule-dependent cut (panic / no recipient) only the
    result is kept."""
    out = []
    for res, t, ents in obs:
        ents = [e for e in ents if e.split(":")[0] not in drop]
        kind = res.split(":")[0]
        if kind in ("panic", "norecip"):
            ents = ["*"]
        elif mode == "multiset":
            ents = sorted(ents)
            if kind == "sink":
                res = "sink:" + ",".join(sorted(res[5:].split(",")))
        out.append((res, t, tuple(ents)))
        if kind in ("hang",):
            break
    return out


def first_diff(a, b):
    for i, (x, y) in enumerate(zip(a, b)):
        if x != y:
            return i, x, y
    if len(a) != len(b):
        return min(len(a), len(b)), None, None
    return None


def parse_drop(line):
    """-> (number of model drops after the simulation was dropped, log entries produced after the drop)"""
    if line is None or " || D:" not in line:
        return None
    x = line.split(" || D:")[1]
    leak = None
    if " A:" in x:
        x, a = x.rsplit(" A:", 1)
        leak = int(a)
    if " N:" in x:
        x = x.rsplit(" N:", 1)[0]
    n, rest = x.split(":", 1)
    return int(n), rest.strip("[]").split(), leak


def parse_nested(line):
    """-> (models made, models dropped, nested simulations, nested handler runs) or None"""
    if line is None or " || D:" not in line or " N:" not in line:
        return None
    x = line.split(" || D:")[1].rsplit(" N:", 1)[1].split(" ")[0]
    return tuple(int(v) for v in x.split(":"))
