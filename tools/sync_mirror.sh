#!/bin/bash
# Refreshes the verbatim mirror of the lock-free / container sources of
# /repo (current working tree) inside the atomh harness crate.
set -e
SRC=/repo/nexosim/src
DST=/verif/harness/atomh/src
mkdir -p $DST/util $DST/channel $DST/executor/task $DST/executor/mt_executor $DST/ports/output
sync_one() { # copy only when different so that cargo does not rebuild needlessly
  if ! cmp -s "$1" "$2"; then cp "$1" "$2"; fi
}
for f in util/priority_queue.rs util/indexed_priority_queue.rs util/sync_cell.rs util/task_set.rs \
         util/cached_rw_lock.rs util/slot.rs util/seq_futures.rs channel/queue.rs executor/task.rs executor/task/cancel_token.rs \
         executor/task/promise.rs executor/task/runnable.rs executor/task/util.rs \
         executor/mt_executor/injector.rs; do
  sync_one $SRC/$f $DST/$f
done
sync_one $SRC/ports/output/broadcaster.rs $DST/ports/output/broadcaster.rs
python3 /verif/tools/extract_sender.py $DST/ports/output/sender.rs

# async-event (external crate used by channel.rs): the version pinned by /repo/Cargo.lock, verbatim from the cargo registry
AEV=$(grep -A1 'name = "async-event"' /repo/Cargo.lock | grep version | sed 's/.*"\(.*\)"/\1/')
AESRC=$(ls -d $HOME/.cargo/registry/src/*/async-event-$AEV/src 2>/dev/null | head -1)
mkdir -p $DST/async_event
if [ -n "$AESRC" ]; then sync_one $AESRC/lib.rs $DST/async_event/mod.rs; fi

# diatomic-waker (external crate used by channel.rs for the receiver): the version pinned by /repo/Cargo.lock, from the cargo
# registry; the only rewrite is the crate-root path (crate:: -> crate::diatomic::), needed because it becomes a module here
DWV=$(grep -A1 'name = "diatomic-waker"' /repo/Cargo.lock | grep version | sed 's/.*"\(.*\)"/\1/')
DWSRC=$(ls -d $HOME/.cargo/registry/src/*/diatomic-waker-$DWV/src 2>/dev/null | head -1)
mkdir -p $DST/diatomic
if [ -n "$DWSRC" ]; then
  for f in waker.rs borrowed_waker.rs arc_waker.rs; do
    sed -e 's/crate::/crate::diatomic::/g' $DWSRC/$f > /tmp/dw_$f.tmp
    sync_one /tmp/dw_$f.tmp $DST/diatomic/$f; rm -f /tmp/dw_$f.tmp
  done
fi
