#!/usr/bin/env python3
"""Translator T2: util/sync_cell.rs (SyncCell::write, SyncCellReader::try_read) and
time/monotonic_time.rs (TearableAtomicTime::tearable_load / tearable_store) -> the two instruction
lists of coq/gen/SyncCellProg.v in the instruction set of coq/Model/WMem.v.

Every statement of the two function bodies must be recognised (an unknown statement is refused,
not skipped); the memory orderings and the ORDER of the atomic operations and fences are taken
from the source.  usage: gen_synccell.py <out.v> [--print]"""
import os, re, sys

SRC = os.environ.get("NEXOSIM_SRC", "/repo/nexosim/src")
ORD = {"Relaxed": "Rlx", "Acquire": "Acq", "Release": "Rel"}


class Refuse(Exception):
    pass


def strip_comments(t):
    t = re.sub(r"/\*.*?\*/", " ", t, flags=re.S)
    return re.sub(r"//[^\n]*", " ", t)


def fn_body(text, sig_re, what):
    m = re.search(sig_re, text)
    if not m:
        raise Refuse("%s not found" % what)
    i = text.index("{", m.end() - 1)
    depth, j = 0, i
    while j < len(text):
        if text[j] == "{":
            depth += 1
        elif text[j] == "}":
            depth -= 1
            if depth == 0:
                return text[i + 1:j]
        j += 1
    raise Refuse("%s: unbalanced braces" % what)


def ordering(o, what):
    if o not in ORD:
        raise Refuse("%s: ordering %s is outside the modelled fragment (Relaxed/Acquire/Release)" % (what, o))
    return ORD[o]


def tearable(mt):
    lb = fn_body(mt, r"fn\s+tearable_load\s*\(\s*&self\s*\)[^{]*\{", "tearable_load")
    sb = fn_body(mt, r"fn\s+tearable_store\s*\(\s*&self\s*,[^{]*\{", "tearable_store")
    loads = re.findall(r"self\s*\.\s*(\w+)\s*\.\s*load\s*\(\s*Ordering::(\w+)\s*\)", lb)
    stores = re.findall(r"self\s*\.\s*(\w+)\s*\.\s*store\s*\(\s*value\s*\.\s*(\w+)\s*\(\s*\)\s*,\s*Ordering::(\w+)\s*\)", sb)
    if sorted(f for f, _ in loads) != ["nanos", "secs"] or sorted(f for f, _, _ in stores) != ["nanos", "secs"]:
        raise Refuse("monotonic_time.rs: tearable_load/tearable_store do not access exactly secs and nanos: %r %r" % (loads, stores))
    if re.search(r"\b(fence|compare_exchange|swap|fetch_)\w*", lb + sb):
        raise Refuse("monotonic_time.rs: unexpected atomic operation in tearable_load/tearable_store")
    for f, g, _ in stores:
        if (f, g) not in (("secs", "as_secs"), ("nanos", "subsec_nanos")):
            raise Refuse("monotonic_time.rs: store of %s takes %s()" % (f, g))
    # nothing but these statements: a store under a condition, an extra statement, a different constructor are refused
    sb_n = "".join(sb.split())
    want_s = "".join("self.%s.store(value.%s(),Ordering::%s);" % (f, g, o) for f, g, o in stores)
    if sb_n != want_s:
        raise Refuse("monotonic_time.rs: tearable_store is not exactly two unconditional field stores: %r" % sb_n[:200])
    lb_n = "".join(lb.split())
    want_l = "MonotonicTime::new(" + ",".join("self.%s.load(Ordering::%s)" % (f, o) for f, o in loads)
    if not (lb_n == want_l + ",).unwrap()" or lb_n == want_l + ").unwrap()"):
        raise Refuse("monotonic_time.rs: tearable_load is not MonotonicTime::new(<two field loads>).unwrap(): %r" % lb_n[:200])
    L = {"secs": "LSec", "nanos": "LNan"}
    R = {"secs": "R1", "nanos": "R2"}
    E = {"secs": "EArgA", "nanos": "EArgB"}
    ld = ["Ld %s %s %s" % (L[f], ordering(o, "tearable_load"), R[f]) for f, o in loads]
    st = ["St %s %s %s" % (L[f], ordering(o, "tearable_store"), E[f]) for f, _, o in stores]
    return ld, st


def translate(body, tl, ts, what):
    """statement-by-statement; returns the instruction list"""
    out, regs = [], {}
    pos = 0
    WS = r"\s*"
    pats = [
        ("ldseq", re.compile(r"let\s+(\w+)\s*=\s*self\s*\.\s*inner\s*\.\s*sequence\s*\.\s*load\s*\(\s*Ordering::(\w+)\s*\)\s*;")),
        ("stseq", re.compile(r"self\s*\.\s*inner\s*\.\s*sequence\s*\.\s*store\s*\(\s*(\w+)\s*\.\s*wrapping_add\s*\(\s*(\d+)\s*\)\s*,\s*Ordering::(\w+)\s*,?\s*\)\s*;")),
        ("fence", re.compile(r"atomic::fence\s*\(\s*Ordering::(\w+)\s*\)\s*;")),
        ("tstore", re.compile(r"self\s*\.\s*inner\s*\.\s*tearable\s*\.\s*tearable_store\s*\(\s*value\s*\)\s*;")),
        ("tload", re.compile(r"let\s+value\s*=\s*self\s*\.\s*inner\s*\.\s*tearable\s*\.\s*tearable_load\s*\(\s*\)\s*;")),
        ("odd", re.compile(r"if\s+(\w+)\s*&\s*1\s*!=\s*0\s*\{\s*return\s+Err\s*\(\s*SyncCellReadError\s*\{\s*\}\s*\)\s*;\s*\}")),
        ("ret", re.compile(r"if\s+(\w+)\s*==\s*(\w+)\s*\{\s*Ok\s*\(\s*value\s*\)\s*\}\s*else\s*\{\s*Err\s*\(\s*SyncCellReadError\s*\{\s*\}\s*\)\s*\}")),
    ]
    nseq = 0
    while True:
        m = re.compile(WS).match(body, pos)
        pos = m.end()
        if pos >= len(body):
            break
        for name, p in pats:
            m = p.match(body, pos)
            if m:
                break
        else:
            raise Refuse("%s: statement not recognised: %r" % (what, body[pos:pos + 80]))
        pos = m.end()
        if name == "ldseq":
            r = "R0" if nseq == 0 else "R3"
            if nseq > 1:
                raise Refuse("%s: more than two loads of the sequence number" % what)
            nseq += 1
            regs[m.group(1)] = r
            out.append("Ld LSeq %s %s" % (ordering(m.group(2), what), r))
        elif name == "stseq":
            if m.group(1) not in regs:
                raise Refuse("%s: store of an unknown variable %s" % (what, m.group(1)))
            out.append("St LSeq %s (EReg %s %s)" % (ordering(m.group(3), what), regs[m.group(1)], m.group(2)))
        elif name == "fence":
            out.append("Fn %s" % ordering(m.group(1), what))
        elif name == "tstore":
            out += ts
        elif name == "tload":
            out += tl
        elif name == "odd":
            if m.group(1) not in regs:
                raise Refuse("%s: test of an unknown variable" % what)
            out.append("FailIfOdd %s" % regs[m.group(1)])
        elif name == "ret":
            a, b = m.group(1), m.group(2)
            if a not in regs or b not in regs:
                raise Refuse("%s: comparison of unknown variables" % what)
            # RetIfEq r1 r2: the result is validated against r1's load; normalise so that r1 is the FIRST load
            r1, r2 = sorted([regs[a], regs[b]])
            out.append("RetIfEq %s %s R1 R2" % (r1, r2))
    return out


def generate():
    sc = strip_comments(open(os.path.join(SRC, "util/sync_cell.rs")).read())
    # cut the test module off
    k = sc.find("#[cfg(all(test")
    if k >= 0:
        sc = sc[:k]
    mt = strip_comments(open(os.path.join(SRC, "time/monotonic_time.rs")).read())
    tl, ts = tearable(mt)
    wbody = fn_body(sc, r"pub\(crate\)\s+fn\s+write\s*\(\s*&self\s*,\s*value\s*:\s*T::Value\s*\)\s*\{", "SyncCell::write")
    rbody = fn_body(sc, r"pub\(crate\)\s+fn\s+try_read\s*\(\s*&self\s*\)\s*->\s*Result<[^{]*\{", "SyncCellReader::try_read")
    w = translate(wbody, tl, ts, "SyncCell::write")
    r = translate(rbody, tl, ts, "SyncCellReader::try_read")
    if any(x.startswith("St ") for x in r):
        raise Refuse("try_read stores to shared memory: outside the model (single-writer locations)")
    # read() must be a retry loop around try_read
    rd = fn_body(sc[sc.index("impl<T: TearableAtomic> SyncCellReader<T>"):], r"pub\(crate\)\s+fn\s+read\s*\(\s*&self\s*\)\s*->\s*T::Value\s*\{", "SyncCellReader::read")
    if not re.fullmatch(r"\s*loop\s*\{\s*if\s+let\s+Ok\s*\(\s*value\s*\)\s*=\s*self\s*\.\s*try_read\s*\(\s*\)\s*\{\s*return\s+value\s*;\s*\}\s*\}\s*", rd):
        raise Refuse("SyncCellReader::read is not the retry loop around try_read: %r" % rd[:120])
    return w, r


def render(w, r):
    return ("(* GENERATED by tools/gen_synccell.py from %s/util/sync_cell.rs and time/monotonic_time.rs -- do not edit. *)\n"
            "Require Import NX.Base.Prelude NX.Model.WMem.\n\n"
            "(* SyncCell::write (with TearableAtomicTime::tearable_store inlined) *)\n"
            "Definition wprog_gen : list instr :=\n  [%s].\n\n"
            "(* SyncCellReader::try_read (with TearableAtomicTime::tearable_load inlined); SyncCellReader::read retries it *)\n"
            "Definition rprog_gen : list instr :=\n  [%s].\n") % (SRC, ";\n   ".join(w), ";\n   ".join(r))


def main():
    out = sys.argv[1]
    try:
        w, r = generate()
    except Refuse as e:
        print("REFUSED: %s" % e)
        sys.exit(3)
    text = render(w, r)
    os.makedirs(os.path.dirname(out), exist_ok=True)
    old = open(out).read() if os.path.exists(out) else None
    if old != text:
        open(out, "w").write(text)
    if "--print" in sys.argv:
        print(text)
    print("ok: %d + %d instructions" % (len(w), len(r)))


if __name__ == "__main__":
    main()
