#!/bin/bash
# runs every registered check (quick tier unless $1 = thorough) on the current tree and prints a summary
cd /verif
tier=${1:-quick}
for i in 01 02 03 04 05 06 07 08 09 10 11 12 13 14 15 16 17 18 19 20; do
  s=$(date +%s)
  out=$(timeout 7200 ./check C$i --tier $tier 2>&1 | grep -E "^VIOLATION|^KNOWN" | tr '\n' ';')
  rc=$?
  e=$(( $(date +%s) - s ))
  echo "C$i ${e}s ${out:-ok}"
done
