"""Correspondence of kind T2.2: the same bench/commands on the real Simulation (harness simh,
1..N worker threads) and on the extracted Coq model (Sim.v); plus hooks for direct oracles."""
import json, os
import vlib, simcase


def current_bugs():
    """bug switches of the model = findings recorded as still present (status 'known')."""
    flags = {"F1": 0, "F2": 0, "F3": 0, "F4": 0}
    for f in vlib.known_findings():
        if f.get("status") == "known" and f.get("id") in flags:
            flags[f["id"]] = 1
    return (flags["F1"], flags["F2"], flags["F3"], flags["F4"])


def run_impl(lines, timeout_ms=15000, shards=None):
    """Runs sim cases on the implementation; a hang ends the runner process, which is restarted on
    the remaining cases."""
    res = [None] * len(lines)
    shards = min(vlib.NPROC, max(1, len(lines) // 40)) if shards is None else max(1, min(vlib.NPROC, shards, len(lines)))
    import subprocess, threading
    def work(idx):
        todo = list(idx)
        restarts = 0
        while todo:
            if restarts > 1:
                # hangs / crashes pile up (e.g. every multi-threaded bench hangs): the first ones are
                # the observation, the rest of this shard is not run
                for i in todo:
                    res[i] = "NO-OUTPUT not run after repeated hangs or crashes of the runner"
                break
            p = subprocess.Popen([vlib.SIMH, "bench", str(timeout_ms)], stdin=subprocess.PIPE, stdout=subprocess.PIPE,
                                 stderr=subprocess.DEVNULL, text=True)
            try:
                o, _ = p.communicate("\n".join(lines[i] for i in todo) + "\n", timeout=600)
            except subprocess.TimeoutExpired:
                p.kill(); o = ""
            outs = [x for x in o.split("\n") if x != ""]
            for i, x in zip(todo, outs):
                res[i] = x
            done = len(outs)
            if done >= len(todo):
                break
            if done == 0 or not outs[-1].startswith("HANG"):
                # the runner died without reporting: blame the next case
                res[todo[done]] = "CRASH"
                done += 1
            restarts += 1
            todo = todo[done:]
    ths = [threading.Thread(target=work, args=(list(range(s, len(lines), shards)),)) for s in range(shards)]
    for t in ths: t.start()
    for t in ths: t.join()
    return res


def mask_overflow(case, obs):
    """In multiset mode the order in which several models write to one sink is schedule-dependent; once an
    EventBuffer has overflowed, WHICH events it still holds depends on that order: such a read is only compared
    by its length (C17 covers the eviction rule itself, on op sequences)."""
    if obs is None or case.get("mode", "multiset") != "multiset":
        return obs
    out = list(obs)
    for j, c in enumerate(case["cmds"]):
        if c[0] == "rs" and j + 1 < len(out):
            res, t, es = out[j + 1]
            if res.startswith("sink:"):
                sk = case.get("sinks", [])
                cap = sk[c[1]][1] if c[1] < len(sk) and sk[c[1]][0] == "buf" else None
                n = len([x for x in res[5:].split(",") if x])
                if cap is not None and n >= cap:
                    out[j + 1] = ("sink:overflowed(%d)" % n, t, es)
    return out


def compare_cases(rep, name, cases, model_ok, oracles=(), thread_counts=(1,), rule="", nontrivial=lambda c, o: True,
                  bugs=None, sample_filter=None, shards=None):
    """cases: list of dicts.  oracles: functions (case, impl_obs) -> None | failure description."""
    bugs = current_bugs() if bugs is None else bugs
    lines_model = [simcase.render(c, bugs=bugs) for c in cases]
    mouts = vlib.run_model(lines_model) if model_ok else [None] * len(cases)
    results = {}
    for th in thread_counts:
        lines = [simcase.render(c, bugs=bugs, threads=th) for c in cases]
        results[th] = run_impl(lines, shards=shards)
    stats = {"cases": len(cases), "threads": list(thread_counts), "model_disagreements": 0, "oracle_failures": 0,
             "unparsable": 0, "nontrivial": 0, "by_result": {}, "cmd_kinds": {}}
    dis, orc = [], []
    seen = set()
    for ci, c in enumerate(cases):
        mobs = mask_overflow(c, simcase.parse_out(mouts[ci])) if mouts[ci] is not None else None
        if model_ok and mobs is None:
            dis.append((ci, 1, "model-output", mouts[ci])); continue
        for th in thread_counts:
            iline = results[th][ci]
            iobs = mask_overflow(c, simcase.parse_out(iline))
            if iobs is None:
                # hang / crash of the implementation: compare with the model's verdict
                if mobs is not None and any(o[0] == "hang" for o in mobs) and iline == "HANG":
                    continue
                stats["unparsable"] += 1
                orc.append((ci, th, "implementation did not return observations", iline))
                continue
            for o in iobs:
                k = o[0].split(":")[0]
                stats["by_result"][k] = stats["by_result"].get(k, 0) + 1
            for f in oracles:
                r = f(c, iobs)
                if r:
                    orc.append((ci, th, r, iline)); break
            if mobs is not None:
                a = simcase.canon(iobs, c.get("mode", "multiset"))
                b = simcase.canon(mobs, c.get("mode", "multiset"))
                d = simcase.first_diff(a, b)
                if d is not None:
                    dis.append((ci, th, d, iline))
        key = lines_model[ci]
        if key not in seen:
            seen.add(key)
            if mobs is not None and nontrivial(c, mobs):
                stats["nontrivial"] += 1
        for cm in c["cmds"]:
            stats["cmd_kinds"][cm[0]] = stats["cmd_kinds"].get(cm[0], 0) + 1
    stats["model_disagreements"], stats["oracle_failures"] = len(dis), len(orc)
    rep.cov["evaluations"] += len(cases) * len(thread_counts)
    rep.cov["distinct_nontrivial"] += stats["nontrivial"]
    rep.cov["traces_validated_against_impl"] += (len(cases) * len(thread_counts)) if model_ok else 0
    rep.cov["disagreements_checked"] += len(dis) + len(orc)
    rep.cov.setdefault("parts", {})[name] = stats
    if rule:
        rep.cov["rule"] = (rep.cov["rule"] + " | " if rep.cov["rule"] else "") + rule
    if len(rep.cov["samples"]) < 4 and cases:
        pick = [i for i, c in enumerate(cases) if sample_filter is None or sample_filter(c)][:2] or [0]
        for i in pick:
            rep.cov["samples"].append({"case": lines_model[i], "impl_1thread": results[thread_counts[0]][i]})
    return dis, orc, lines_model, mouts, results


def report(rep, name, cases, dis, orc, lines_model, mouts, results, shrink=None):
    """Turns disagreements / oracle failures into VIOLATION records."""
    if orc:
        ci, th, why, iline = orc[0]
        rep.violation(name + "-oracle", {"kind": "property-violated-on-implementation", "threads": th, "why": why,
                                         "case": simcase.render(cases[ci], bugs=current_bugs(), threads=th),
                                         "observed": iline, "model": mouts[ci], "failures": len(orc)})
    elif dis:
        ci, th, d, iline = dis[0]
        rep.violation(name + "-correspondence", {"kind": "broken-correspondence", "threads": th,
                                                 "what": "model (Sim.v) and implementation differ on a bench; no direct oracle of this property rejects the implementation's trace",
                                                 "first_difference(cmd index, impl, model)": repr(d),
                                                 "case": simcase.render(cases[ci], bugs=current_bugs(), threads=th),
                                                 "implementation": iline, "model": mouts[ci],
                                                 "disagreements": len(dis)}, no_input=True)
