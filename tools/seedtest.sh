#!/bin/bash
# usage: seedtest.sh <patch.diff> <Cxx> [more Cxx...]  -- applies a seeded change to /repo, runs the checks, undoes it.
# The evidence files of the checks are saved before and restored afterwards: what is committed under evidence/ must
# always come from a run on the unchanged tree (the replay files of the seeded run stay under evidence/replays/).
p=$1; shift
mkdir -p /tmp/seed_evidence_save
for c in "$@"; do cp /verif/evidence/$c.json /tmp/seed_evidence_save/$c.json 2>/dev/null; done
cd /repo && git apply "$p" || { echo "patch does not apply"; exit 2; }
for c in "$@"; do
  ( cd /verif && timeout 3000 ./check $c --tier quick; echo "exit=$?" ) 2>&1 | tail -5
done
git -C /repo checkout -- . ; git -C /repo status --short | head
for c in "$@"; do cp /tmp/seed_evidence_save/$c.json /verif/evidence/$c.json 2>/dev/null; done
# the generated Coq inputs are regenerated from the restored source
cd /verif && python3 tools/gen_consts.py coq/gen/Consts.v > /dev/null 2>&1; python3 tools/gen_synccell.py coq/gen/SyncCellProg.v > /dev/null 2>&1
python3 tools/gen_pool.py coq/gen/PoolProg.v > /dev/null 2>&1; python3 tools/gen_chan.py coq/gen/ChanProg.v > /dev/null 2>&1
python3 tools/gen_strun.py coq/gen/StRunProg.v > /dev/null 2>&1; python3 tools/gen_slot.py coq/gen/SlotProg.v > /dev/null 2>&1
python3 tools/gen_seqfut.py coq/gen/SeqFutProg.v > /dev/null 2>&1
exit 0
