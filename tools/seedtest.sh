#!/bin/bash
# usage: seedtest.sh <patch.diff> <Cxx> [more Cxx...]  -- applies a seeded change to /repo, runs the checks, undoes it.
p=$1; shift
cd /repo && git apply "$p" || { echo "patch does not apply"; exit 2; }
for c in "$@"; do
  ( cd /verif && timeout 3000 ./check $c --tier quick; echo "exit=$?" ) 2>&1 | tail -5
done
git -C /repo checkout -- . ; git -C /repo status --short | head
