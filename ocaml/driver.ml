(* Line-oriented runner for the extracted models.
   stdin: one case per line "<kind> <args...>"; stdout: one result line per case. *)
open Nxmodel

(* ---- conversions between OCaml ints and the Coq number types ---- *)
let rec pos_of_int (i : int) : positive =
  if i = 1 then XH
  else if i land 1 = 0 then XO (pos_of_int (i lsr 1))
  else XI (pos_of_int (i lsr 1))
let n_of_int i = if i = 0 then N0 else Npos (pos_of_int i)
let z_of_int i = if i = 0 then Z0 else if i > 0 then Zpos (pos_of_int i) else Zneg (pos_of_int (-i))
let rec int_of_pos = function
  | XH -> 1 | XO p -> 2 * int_of_pos p | XI p -> 2 * int_of_pos p + 1
let int_of_n = function N0 -> 0 | Npos p -> int_of_pos p
let int_of_z = function Z0 -> 0 | Zpos p -> int_of_pos p | Zneg p -> - (int_of_pos p)
let rec nat_of_int i = if i <= 0 then O else S (nat_of_int (i - 1))
let rec int_of_nat = function O -> 0 | S n -> 1 + int_of_nat n

let split_on c s = String.split_on_char c s
let words s = List.filter (fun w -> w <> "") (split_on ' ' s)
let ios = int_of_string
let bool_of s = (s = "1" || s = "true")


(* ---- weak-memory machine (Model/WMem.v) ---- *)
let wm_loc = function "Seq" -> LSeq | "Sec" -> LSec | "Nan" -> LNan | t -> failwith ("loc " ^ t)
let wm_ord = function "Rlx" -> Rlx | "Acq" -> Acq | "Rel" -> Rel | t -> failwith ("ord " ^ t)
let wm_reg = function "R0" -> R0 | "R1" -> R1 | "R2" -> R2 | "R3" -> R3 | t -> failwith ("reg " ^ t)
let wm_expr t =
  if t = "A" then EArgA else if t = "B" then EArgB else
  match split_on '+' t with
  | [r; k] -> EReg (wm_reg r, z_of_int (ios k))
  | _ -> failwith ("expr " ^ t)
let wm_instr tok =
  match split_on ',' tok with
  | ["Ld"; x; o; r] -> Ld (wm_loc x, wm_ord o, wm_reg r)
  | ["St"; x; o; e] -> St (wm_loc x, wm_ord o, wm_expr e)
  | ["Fn"; o] -> Fn (wm_ord o)
  | ["Odd"; r] -> FailIfOdd (wm_reg r)
  | ["Ret"; a; b; c; d] -> RetIfEq (wm_reg a, wm_reg b, wm_reg c, wm_reg d)
  | _ -> failwith ("instr " ^ tok)
(* "W <instrs> R <instrs> I a b V a b a b .. N n <rest>" *)
let wm_parse ws =
  let rec until stop acc = function
    | x :: r when List.mem x stop -> (List.rev acc, x :: r)
    | x :: r -> until stop (x :: acc) r
    | [] -> (List.rev acc, []) in
  match ws with
  | "W" :: r ->
      let (wp, r) = until ["R"] [] r in
      let (rp, r) = until ["I"] [] (List.tl r) in
      (match r with
       | "I" :: a :: b :: "V" :: r ->
           let (vs, r) = until ["N"] [] r in
           let rec pairs = function x :: y :: t -> (z_of_int (ios x), z_of_int (ios y)) :: pairs t | _ -> [] in
           (match r with
            | "N" :: n :: rest ->
                (wm_init (List.map wm_instr wp) (List.map wm_instr rp) (z_of_int (ios a), z_of_int (ios b)) (pairs vs) (nat_of_int (ios n)), rest)
            | _ -> failwith "wm: N")
       | _ -> failwith "wm: I")
  | _ -> failwith "wm: W"
let wm_out_str outs =
  String.concat " ; " (List.map (fun l -> String.concat " " (List.map (fun (a, b) -> Printf.sprintf "%d,%d" (int_of_z a) (int_of_z b)) l)) outs)
(* bounded depth-first search for a run in which a reader returns a value the cell never held,
   or an older value after a newer one (a search for a failing input: never a proof) *)
let wm_search s0 depth maxc limit =
  let seen = Hashtbl.create 100003 in
  let states = ref 0 in
  let found = ref None in
  let nthreads = List.length s0.threads in
  let bad s =
    let hist = s.whist in
    let idx v = let rec go i = function [] -> -1 | x :: r -> if x = v then i else go (i + 1) r in go 0 hist in
    List.exists (fun l ->
      let is = List.map idx l in
      List.mem (-1) is ||
      (let rec dec = function a :: (b :: _ as r) -> a > b || dec r | _ -> false in dec is)) (wm_outputs s) in
  let rec go s d path =
    if !found <> None || !states > limit then () else
    if bad s then found := Some (List.rev path, s) else
    if d = 0 then () else
    let key = (s.wmem, s.threads, d) in
    if Hashtbl.mem seen key then () else begin
      Hashtbl.add seen key (); incr states;
      for t = 0 to nthreads - 1 do
        for c = 0 to maxc do
          match wm_step s (nat_of_int t) (nat_of_int c) with
          | Some s' -> go s' (d - 1) ((t, c) :: path)
          | None -> ()
        done
      done
    end in
  go s0 depth [];
  (!found, !states)


(* ---- concurrent queue model (Model/QueueConc.v): replay of a real trace ----
   qcr <cap> P v,v,.. [P ...] C <npops> E <t>:<b> ...
   t = 0 consumer, 1 close, p+2 producer p; b = 1: the real compare-exchange failed.  Before an
   event of a producer the model performs that producer's steps that have no shared-memory access
   in the code (the Closed return after a load of a closed enqueue_pos, the Full return after a
   stamp that is behind).  One summary per event: enq,closed,deq/stamp,stamp,... *)
let qc_summary s =
  Printf.sprintf "%d,%d,%d/%s" (int_of_nat s.enq) (if x_cq_closed s then 1 else 0) (int_of_nat s.deq)
    (String.concat "," (List.map (fun (st, _) -> string_of_int (int_of_nat st)) s.slots))
let qc_silent s i =
  (* producer i is at a step of the model that corresponds to no shared access of the code *)
  match List.nth_opt s.prods i with
  | None -> false
  | Some p ->
      p.pvals <> [] &&
      (let pc = int_of_nat p.ppc in
       (pc = 1 && p.pclo) ||
       (pc = 2 && int_of_nat p.pst < 2 * int_of_nat p.ppos))
let rec qc_flush s i =
  if qc_silent s i then
    (match cq_step s (nat_of_int (i + 2)) false with Some s' -> qc_flush s' i | None -> s)
  else s
let pres_str = function PrOk -> "ok" | PrFull -> "full" | PrClosed -> "closed"
let cres_str = function CrVal v -> "v" ^ string_of_int (int_of_z v) | CrEmpty -> "empty" | CrClosed -> "closed"


(* ---- broadcaster model (Model/Broadcast.v) ---- *)
let b_act s =
  let j = nat_of_int (ios (String.sub s 1 (String.length s - 1))) in
  match s.[0] with
  | 'c' -> BComplete j | 'e' -> BError j | 'w' -> BWake j
  | _ -> failwith ("bs act " ^ s)
let b_op tok =
  let starts p = String.length tok >= String.length p && String.sub tok 0 (String.length p) = p in
  if starts "Q:" then
    (match split_on ':' tok with
     | [_; bits; m] ->
         BOQuery (List.init (String.length bits) (fun i -> bits.[i] = '1'),
                 if m = "a" then None else Some (nat_of_int (ios m)))
     | _ -> failwith "bs Q")
  else if starts "S:" then
    (match split_on ':' tok with
     | [_; jk; acts] ->
         (match split_on '.' jk with
          | [j; k] -> BOScript (nat_of_int (ios j), nat_of_int (ios k),
                               List.map b_act (List.filter (fun x -> x <> "") (split_on '+' acts)))
          | _ -> failwith "bs S")
     | _ -> failwith "bs S")
  else if tok = "p" then BOPoll
  else if tok = "d" then BODrop
  else if tok = "N" then BONotifs
  else BOAct (b_act tok)
let b_res_str = function
  | BRQ -> "Q" | BRS -> "S" | BRD -> "D" | BRDash -> "-"
  | BRN k -> "N" ^ string_of_int (int_of_nat k)
  | BRPNone -> "P-none"
  | BRPoll (subs, r, vs) ->
      Printf.sprintf "P[%s]=%s" (String.concat "," (List.map (fun x -> string_of_int (int_of_nat x)) subs))
        (match r with
         | BPend -> "pend" | BErr -> "err"
         | BOk -> "ok:" ^ String.concat "," (List.map (fun v -> string_of_int (int_of_z v)) vs))
  | BRPanic subs -> "PANIC"
  | BRFuel -> "FUEL"


(* ---- concurrent TaskSet model (Model/TaskSetConc.v): replay of a real trace ----
   tsr <ntasks> W <i> <i> ... E <event> ...
   events: w<j>:<b> one shared access of waker j (b = 1: the real compare-exchange failed);
           c:<b> one shared access of the owner; kt<k> the owner starts take_scheduled(k);
           kd the owner drops the iterator.  Steps of the model without a shared access (the
           branch on a non-SLEEPING next, the end of an iteration) are performed automatically.
   One summary per event: countdown,index/next,next,...  (index -1 = EMPTY; next S = SLEEPING, E = EMPTY) *)
let ts_summary s =
  let (cd, ix) = s.thead in
  Printf.sprintf "%d,%s/%s" (int_of_nat cd) (match ix with None -> "-1" | Some x -> string_of_int (int_of_nat x))
    (String.concat "," (List.map (function NSleep -> "S" | NIdx None -> "E" | NIdx (Some x) -> string_of_int (int_of_nat x)) s.tnext))
let rec ts_flush_w s j =
  match List.nth_opt s.tkwakers j with
  | Some w when int_of_nat w.kpc = 1 && w.knxt <> NSleep ->
      (match tk_step s (LStep (nat_of_int (j + 1), false)) with Some s' -> ts_flush_w s' j | None -> s)
  | _ -> s
let rec ts_flush_c s =
  match s.cph with
  | CIter None | CDrop (None, _) ->
      (match tk_step s (LStep (O, false)) with Some s' -> ts_flush_c s' | None -> s)
  | _ -> s

(* ---- pq ---- *)
let pq_op_of tok =
  match split_on ',' tok with
  | ["i"; t; o; v] -> PInsert ((z_of_int (ios t), n_of_int (ios o)), z_of_int (ios v))
  | ["p"] -> PPull
  | ["k"] -> PPeek
  | _ -> failwith ("bad pq op " ^ tok)
let pq_res_str = function
  | RUnit -> "u"
  | RNone -> "n"
  | RSome ((t, o), v) -> Printf.sprintf "s,%d,%d,%d" (int_of_z t) (int_of_n o) (int_of_z v)

(* ---- ipq ---- *)
let ipq_op_of tok =
  match split_on ',' tok with
  | ["i"; t; o; v] -> IInsert ((z_of_int (ios t), n_of_int (ios o)), z_of_int (ios v))
  | ["p"] -> IPull
  | ["k"] -> IPeek
  | ["K"] -> IPeekKey
  | ["x"; n] -> IExtract (nat_of_int (ios n))
  | ["l"] -> ILen
  | _ -> failwith ("bad ipq op " ^ tok)
let ipq_res_str = function
  | IRUnit -> "u"
  | IRNone -> "n"
  | IRSome ((t, o), v) -> Printf.sprintf "s,%d,%d,%d" (int_of_z t) (int_of_n o) (int_of_z v)
  | IRKey (t, o) -> Printf.sprintf "s,%d,%d" (int_of_z t) (int_of_n o)
  | IRLen n -> Printf.sprintf "l,%d" (int_of_nat n)
  | IRPanic -> "PANIC"

(* ---- mailbox queue (sequential) ---- *)
let q_op_of tok =
  match split_on ',' tok with
  | ["u"; v] -> QPush (z_of_int (ios v))
  | ["o"] -> QPop | ["h"] -> QPopHold | ["r"] -> QRelease | ["c"] -> QClose | ["l"] -> QLen | ["z"] -> QIsClosed
  | _ -> failwith ("bad q op " ^ tok)
let q_res_str = function
  | QRPush PushOk -> "ok" | QRPush PushFull -> "full" | QRPush PushClosed -> "closed"
  | QRPop (PopVal v) -> "v," ^ string_of_int (int_of_z v)
  | QRPop PopEmpty -> "empty" | QRPop PopClosed -> "closed" | QRPop PopBusy -> "busy"
  | QRRel b -> if b then "rel" else "none"
  | QRUnit -> "-"
  | QRLen n -> "l," ^ string_of_int (int_of_nat n)
  | QRBool b -> if b then "z,1" else "z,0"

(* ---- sinks ---- *)
let sink_op_of tok =
  match split_on ',' tok with
  | ["w"; v] -> SWrite (z_of_int (ios v))
  | ["r"] -> SRead
  | ["o"] -> SOpen
  | ["c"] -> SClose
  | _ -> failwith ("bad sink op " ^ tok)
let optz_str = function None -> "n" | Some v -> Printf.sprintf "s,%d" (int_of_z v)

(* ---- sim benches: prefix token stream (grammar in tools/simcase.py) ---- *)
let toks : string list ref = ref []
let next () = match !toks with t :: r -> toks := r; t | [] -> failwith "unexpected end of case"
let nint () = ios (next ())
let nnat () = nat_of_int (nint ())
let nz () = z_of_int (nint ())
let nopt_nat () = let i = nint () in if i < 0 then None else Some (nat_of_int i)
let nopt_z () = let i = nint () in if i < 0 then None else Some (z_of_int i)
let expect s = let t = next () in if t <> s then failwith ("expected " ^ s ^ " got " ^ t)
let rec rep n f = if n <= 0 then [] else let x = f () in x :: rep (n - 1) f
let plist f = let n = nint () in rep n f
let p_keep () = match next () with
  | "all" -> KAll | "even" -> KEven | "lt" -> KLt (nz ()) | t -> failwith ("keep " ^ t)
let p_tgt () = match next () with
  | "m" -> let m = nnat () in let i = nnat () in TgtModel (m, i)
  | "s" -> TgtSink (nnat ()) | t -> failwith ("tgt " ^ t)
let p_conn () = let k = p_keep () in let a = nz () in let t = p_tgt () in { ckeep = k; cadd = a; ctgt = t }
let p_qconn () = let k = p_keep () in let a = nz () in let m = nnat () in let r = nnat () in let ra = nz () in
  { qkeep = k; qadd = a; qmodel = m; qrep = r; qradd = ra }
let p_expr () = match next () with
  | "in" -> EIn | "c" -> EConst (nz ()) | "ip" -> EInPlus (nz ()) | t -> failwith ("expr " ^ t)
let p_dl () = match next () with
  | "a" -> DAbs (nz ()) | "r" -> DRel (nz ()) | t -> failwith ("dl " ^ t)
let p_op () = match next () with
  | "snd" -> let p = nnat () in let e = p_expr () in OSend (p, e)
  | "qry" -> let p = nnat () in let e = p_expr () in OQuery (p, e)
  | "sch" -> let d = p_dl () in let i = nnat () in let e = p_expr () in let sl = nopt_nat () in let pe = nopt_z () in
      OSched (d, i, e, sl, pe)
  | "can" -> OCancel (nnat ())
  | "cau" -> OCancel (nnat ())    (* harness: the model's own key is turned into an AutoActionKey and dropped *)
  | "pan" -> OPanic (nz ())
  | t -> failwith ("op " ^ t)
(* "nst <threads> <k>": a nested simulation built, run and dropped inside the handler (harness only);
   it has no effect on the enclosing simulation, so the model skips it *)
let p_op_opt () = match !toks with
  | "nst" :: _ | "nsp" :: _ -> ignore (next ()); ignore (nint ()); ignore (nint ()); None
  | "slp" :: _ -> ignore (next ()); ignore (nint ()); None      (* the handler is busy for a while: harness only *)
  | _ -> Some (p_op ())
let p_script () = List.filter_map (fun x -> x) (plist p_op_opt)
let p_model () =
  let cap = nnat () in
  let place = (match nint () with 0 -> Added | 1 -> Orphan | _ -> Dropped) in
  let parent = nopt_nat () in
  let named = (nint () = 1) in
  let init = p_script () in
  expect "H"; let hs = plist p_script in
  expect "R"; let rs = plist (fun () -> let sc = p_script () in let c = nz () in (sc, c)) in
  expect "O"; let os = plist (fun () -> plist p_conn) in
  expect "Q"; let qs = plist (fun () -> plist p_qconn) in
  { mcap = cap; mplace = place; mparent = parent; mnamed = named; minit = init; mhandlers = hs;
    mrepliers = rs; mouts = os; mreqs = qs }
let key_alias : (nat * nat) list ref = ref []
let alias_of s = (try List.assoc s !key_alias with Not_found -> s)
let p_cmd () = match next () with
  | "se" -> let d = p_dl () in let m = nnat () in let i = nnat () in let v = nz () in
      let sl = nopt_nat () in let pe = nopt_z () in CSchedEvent (d, m, i, v, sl, pe)
  | "ss" -> let d = p_dl () in let src = nnat () in let v = nz () in
      let sl = nopt_nat () in let pe = nopt_z () in CSchedSrc (d, src, v, sl, pe)
  | "cn" -> CCancel (alias_of (nnat ()))
  (* harness-only refinements of cancellation, equivalent for the model: "ca s" = the key of slot s is turned
     into an AutoActionKey and dropped (= cancel); "ck a b" = slot b receives a CLONE of the key of slot a: the
     model has no clones - the alias is resolved here and the command itself becomes the cancellation of slot 7,
     which the generators keep empty *)
  | "ca" -> CCancel (alias_of (nnat ()))
  | "ck" -> let a = nnat () in let b = nnat () in key_alias := (b, alias_of a) :: !key_alias; CCancel (nat_of_int 7)
  | "st" -> CStep
  | "su" -> CStepUntil (p_dl ())
  | "pe" -> let m = nnat () in let i = nnat () in let v = nz () in CProcEvent (m, i, v)
  | "pq" -> let m = nnat () in let r = nnat () in let v = nz () in CProcQuery (m, r, v)
  | "ps" -> let src = nnat () in let v = nz () in CProcSrc (src, v)
  | "rs" -> CReadSink (nnat ())
  | "so" -> let k = nnat () in let o = (nint () = 1) in CSinkOpen (k, o)
  | t -> failwith ("cmd " ^ t)

let name_str (l : nat option list) =
  String.concat "." (List.map (function Some m -> string_of_int (int_of_nat m) | None -> "?") l)
let zs v = string_of_int (int_of_z v)
let ns v = string_of_int (int_of_nat v)
let res_str = function
  | ROk -> "ok" | RTerminated -> "term"
  | RDeadlock l -> "dead:" ^ String.concat "," (List.map (fun (n, k) -> name_str n ^ "=" ^ ns k) l)
  | RMessageLoss n -> "loss:" ^ zs n
  | RNoRecipient None -> "norecip:-"
  | RNoRecipient (Some n) -> "norecip:" ^ name_str n
  | RPanic (n, c) -> "panic:" ^ name_str n ^ ":" ^ zs c
  | ROutOfSync l -> "oos:" ^ zs l
  | RBadQuery -> "badq"
  | RInvalidDeadline t -> "invdl:" ^ zs t
  | RSched c -> "sched:" ^ string_of_int (int_of_n c)
  | RReply v -> "reply:" ^ zs v
  | RSink l -> "sink:" ^ String.concat "," (List.map zs l)
  | RHang -> "hang" | RFuel -> "fuel"
let entry_str = function
  | EInit (m, t) -> Printf.sprintf "I:%s:%s" (ns m) (zs t)
  | EHandler (m, i, v, t) -> Printf.sprintf "H:%s:%s:%s:%s" (ns m) (ns i) (zs v) (zs t)
  | EReplier (m, r, v, t) -> Printf.sprintf "P:%s:%s:%s:%s" (ns m) (ns r) (zs v) (zs t)
  | EReplies (m, rs) -> Printf.sprintf "Y:%s:%s" (ns m) (String.concat "," (List.map zs rs))
  | ESched (m, c) -> Printf.sprintf "X:%s:%d" (match m with Some m -> ns m | None -> "-") (int_of_n c)
  | EClock t -> "K:" ^ zs t
  | ETime t -> "T:" ^ zs t
let obs_str o =
  Printf.sprintf "%s @%s [%s] nd=%d" (res_str o.ores) (zs o.otime)
    (String.concat " " (List.map entry_str o.olog)) (if o.ondet then 1 else 0)

let run_sim ws =
  toks := ws; key_alias := [];
  let _threads = next () in  (* "<n>" or "<n>d<seed>..." (delay spec, harness only) *)
  let fuel = nint () in
  let t0 = nz () in
  let tol = nopt_z () in
  let b1 = (nint () = 1) in let b2 = (nint () = 1) in let b3 = (nint () = 1) in let b4 = (nint () = 1) in
  expect "M"; let ms = plist p_model in
  expect "S"; let ss = plist (fun () -> let k = nint () in let c = nnat () in if k = 0 then SpecBuf c else SpecSlot) in
  expect "E"; let es = plist (fun () -> plist p_conn) in
  expect "K"; let ks = plist nopt_z in
  expect "I"; let ich = plist nnat in
  expect "C"; let cs = plist (fun () -> let c = p_cmd () in let ch = plist nnat in (c, ch)) in
  let b = { bmodels = ms; bsinks = ss; bsources = es; bclock = ks; btol = tol; bt0 = t0;
            bugF1 = b1; bugF2 = b2; bugF3 = b3; bugF4 = b4 } in
  String.concat " | " (List.map obs_str (sim_exec b (nat_of_int fuel) ich cs))

(* "conf": the same case syntax as "sim"; per init / command the verdict of Conf.conf_case: na, bad:<why>, or
   ok:<sorted invocation multiset predicted by the pool scheduler> *)
let cmsg_str = function
  | CMInit m -> Printf.sprintf "I:%s" (ns m)
  | CMHandler (m, i, v) -> Printf.sprintf "H:%s:%s:%s" (ns m) (ns i) (zs v)
  | CMReplier (m, r, v) -> Printf.sprintf "P:%s:%s:%s" (ns m) (ns r) (zs v)
  | CMSink (k, v) -> Printf.sprintf "S:%s:%s" (ns k) (zs v)
  | CMSource (k, v) -> Printf.sprintf "B:%s:%s" (ns k) (zs v)
let run_conf ws =
  toks := ws; key_alias := [];
  let _threads = next () in
  let fuel = nint () in
  let t0 = nz () in
  let tol = nopt_z () in
  let b1 = (nint () = 1) in let b2 = (nint () = 1) in let b3 = (nint () = 1) in let b4 = (nint () = 1) in
  expect "M"; let ms = plist p_model in
  expect "S"; let ss = plist (fun () -> let k = nint () in let c = nnat () in if k = 0 then SpecBuf c else SpecSlot) in
  expect "E"; let es = plist (fun () -> plist p_conn) in
  expect "K"; let ks = plist nopt_z in
  expect "I"; let ich = plist nnat in
  expect "C"; let cs = plist (fun () -> let c = p_cmd () in let ch = plist nnat in (c, ch)) in
  let b = { bmodels = ms; bsinks = ss; bsources = es; bclock = ks; btol = tol; bt0 = t0;
            bugF1 = b1; bugF2 = b2; bugF3 = b3; bugF4 = b4 } in
  String.concat " | " (List.map (function
    | CvNA -> "na"
    | CvBad w -> "bad:" ^ ns w
    | CvOk (pr, l) -> (if pr then "ok+:" else "ok:") ^ String.concat " " (List.sort compare (List.map cmsg_str l)))
    (conf_case b (nat_of_int fuel) ich cs))

let run_case line =
  match words line with
  | "pq" :: ops ->
      String.concat " " (List.map pq_res_str (x_pq_run (List.map pq_op_of ops)))
  | "ipq" :: ops ->
      String.concat " " (List.map ipq_res_str (x_ipq_run (List.map ipq_op_of ops)))
  | "q" :: cap :: ops ->
      String.concat " " (List.map q_res_str (x_q_run (nat_of_int (ios cap)) (List.map q_op_of ops)))
  | "sl" :: n :: a0 :: b0 :: "V" :: k :: rest ->
      let k = ios k in
      let rec take i l acc = if i = 0 then (List.rev acc, l) else
        (match l with a :: b :: r -> take (i - 1) r ((z_of_int (ios a), z_of_int (ios b)) :: acc) | _ -> failwith "sl vals") in
      let (vals, rest) = take k rest [] in
      (match rest with
       | "S" :: sched ->
           let outs = x_sl_run (z_of_int (ios a0), z_of_int (ios b0)) vals (nat_of_int (ios n)) (List.map (fun x -> nat_of_int (ios x)) sched) in
           String.concat ";" (List.map (fun l -> String.concat "," (List.map (fun (a, b) -> Printf.sprintf "%d:%d" (int_of_z a) (int_of_z b)) l)) outs)
       | _ -> failwith "sl sched")
  | "tsr" :: k :: ops ->
      let top_of = function
        | "clone" -> TClone | "wakeref" -> TWakeRef | "wake" -> TWakeVal | "dropw" -> TDropWaker
        | "droptok" -> TTokenDrop | "cancel" -> TTokenCancel | "cancelfin" -> TCancelFinish
        | "pollp" -> TPromisePoll | "dropp" -> TPromiseDrop | "start" -> TRunStart | "begin" -> TRunBegin
        | "pending" -> TPollPending | "ready" -> TPollReady | "panic" -> TPollPanic | "rupd" -> TReadyUpdate
        | "rfin" -> TReadyFinish | "cclose" -> TCancelClose | "dropr" -> TRunnableDrop
        | t -> failwith ("ts op " ^ t) in
      String.concat " " (List.map (function
        | None -> "X"
        | Some l -> String.concat "," (List.map (fun n -> string_of_int (int_of_nat n)) l))
        (x_ts_trace (k = "f") (List.map top_of ops)))
  | "ts" :: k :: ops ->
      let top_of = function
        | "clone" -> TClone | "wakeref" -> TWakeRef | "wake" -> TWakeVal | "dropw" -> TDropWaker
        | "droptok" -> TTokenDrop | "cancel" -> TTokenCancel | "cancelfin" -> TCancelFinish
        | "pollp" -> TPromisePoll | "dropp" -> TPromiseDrop | "start" -> TRunStart | "begin" -> TRunBegin
        | "pending" -> TPollPending | "ready" -> TPollReady | "panic" -> TPollPanic | "rupd" -> TReadyUpdate
        | "rfin" -> TReadyFinish | "cclose" -> TCancelClose | "dropr" -> TRunnableDrop
        | t -> failwith ("ts op " ^ t) in
      (match x_ts_check (k = "f") (List.map top_of ops) with
       | None -> "OK"
       | Some i -> "BAD-AT " ^ string_of_int (int_of_nat i))
  | "qcr" :: cap :: ws ->
      let rec pvs acc = function
        | "P" :: l :: r -> pvs ((List.map (fun x -> z_of_int (ios x)) (List.filter (fun x -> x <> "") (split_on ',' l))) :: acc) r
        | r -> (List.rev acc, r) in
      let (pv, r) = pvs [] ws in
      (match r with
       | "C" :: npops :: "E" :: evs ->
           let s0 = cq_init (nat_of_int (ios cap)) pv (nat_of_int (ios npops)) in
           let out = Buffer.create 256 in
           let s = List.fold_left (fun s ev ->
               match split_on ':' ev with
               | [t; b] ->
                   let t = ios t in
                   let s = if t >= 2 then qc_flush s (t - 2) else s in
                   (match cq_step s (nat_of_int t) (b = "1") with
                    | Some s' -> Buffer.add_string out (qc_summary s' ^ " "); s'
                    | None -> Buffer.add_string out "X "; s)
               | _ -> failwith "qcr event") s0 evs in
           let s = List.fold_left (fun s i -> qc_flush s i) s (List.init (List.length pv) (fun i -> i)) in
           Buffer.add_string out ("| " ^ qc_summary s ^ " | ");
           Buffer.add_string out (String.concat " ; " (List.map (fun p -> String.concat " " (List.rev_map pres_str p.pout)) s.prods));
           Buffer.add_string out (" | " ^ String.concat " " (List.rev_map cres_str s.con.cout));
           Buffer.add_string out (" | " ^ String.concat " " (List.map (fun v -> string_of_int (int_of_z v)) (x_cq_log s)));
           Buffer.add_string out (" | " ^ String.concat " " (List.map (fun v -> string_of_int (int_of_z v)) s.popped));
           Buffer.add_string out (" | " ^ string_of_int (int_of_nat s.cerr));
           Buffer.contents out
       | _ -> failwith "qcr: C n E ...")
  | "tkr" :: n :: "W" :: rest ->
      let rec split acc = function "E" :: r -> (List.rev acc, r) | x :: r -> split (x :: acc) r | [] -> (List.rev acc, []) in
      let (ws, evs) = split [] rest in
      let s0 = tk_init (nat_of_int (ios n)) (List.map (fun x -> nat_of_int (ios x)) ws) in
      let out = Buffer.create 256 in
      let apply s l = match tk_step s l with Some s' -> Buffer.add_string out (ts_summary s' ^ " "); s' | None -> Buffer.add_string out "X "; s in
      let s = List.fold_left (fun s ev ->
          if String.length ev >= 2 && String.sub ev 0 2 = "kt" then
            apply (ts_flush_c s) (LCmd (KTake (nat_of_int (ios (String.sub ev 2 (String.length ev - 2))))))
          else if ev = "kd" then apply s (LCmd KDropIter)
          else match split_on ':' ev with
            | [t; b] when t = "c" -> apply s (LStep (O, b = "1"))
            | [t; b] ->
                let j = ios (String.sub t 1 (String.length t - 1)) in
                apply (ts_flush_w s j) (LStep (nat_of_int (j + 1), b = "1"))
            | _ -> failwith "tsr event") s0 evs in
      let s = ts_flush_c (List.fold_left ts_flush_w s (List.init (List.length ws) (fun i -> i))) in
      Buffer.add_string out ("| " ^ ts_summary s ^ " | ");
      Buffer.add_string out (String.concat " " (List.rev_map (fun x -> string_of_int (int_of_nat x)) s.yielded));
      Buffer.add_string out (" | " ^ String.concat "" (List.map (fun b -> if b then "1" else "0") s.woken));
      Buffer.add_string out (" | " ^ string_of_int (int_of_nat s.tpanic));
      Buffer.add_string out (" | " ^ String.concat "," (List.map (fun w -> string_of_int (int_of_nat w.kpc)) s.tkwakers));
      Buffer.contents out
  | "bs" :: n :: ops ->
      String.concat " " (List.map b_res_str (b_run (b_init (nat_of_int (ios n))) (List.map b_op ops)))
  | "wm" :: ws ->
      let (s0, rest) = wm_parse ws in
      (match rest with
       | "S" :: sched ->
           let sch = List.map (fun tok -> match split_on ',' tok with [t; c] -> (nat_of_int (ios t), nat_of_int (ios c)) | _ -> failwith "wm sched") sched in
           let s = wm_run s0 sch in
           wm_out_str (wm_outputs s) ^ " | " ^ String.concat " " (List.map (fun (a, b) -> Printf.sprintf "%d,%d" (int_of_z a) (int_of_z b)) s.whist)
       | _ -> failwith "wm: S")
  | "wmsearch" :: ws ->
      let (s0, rest) = wm_parse ws in
      (match rest with
       | "D" :: d :: "C" :: c :: lim ->
           let limit = (match lim with ["L"; l] -> ios l | _ -> 2000000) in
           (match wm_search s0 (ios d) (ios c) limit with
            | (Some (path, s), n) ->
                Printf.sprintf "FOUND states=%d | %s | %s | %s" n
                  (String.concat " " (List.map (fun (t, c) -> Printf.sprintf "%d,%d" t c) path))
                  (wm_out_str (wm_outputs s))
                  (String.concat " " (List.map (fun (a, b) -> Printf.sprintf "%d,%d" (int_of_z a) (int_of_z b)) s.whist))
            | (None, n) -> Printf.sprintf "NONE states=%d%s" n (if n > limit then " state-limit-reached" else ""))
       | _ -> failwith "wmsearch: D d C c")
  | "poolsearch" :: which :: n :: "L" :: lim :: _ ->
      (* breadth-first search of the pool model for a state in which Executor::run reads a wrong message
         count, returns with work left, or the assertion of try_set_worker_inactive fails.
         A search for a replay, never evidence.  Budgets: 1 spawn per run call, 2 run calls, 2 wakes,
         3 count changes of +1/-1. *)
      let b = (match which with "gen" -> barrier_gen | "pinned" -> barrier_pinned | "fixed" -> barrier_fixed | _ -> failwith "poolsearch: gen|pinned|fixed") in
      let n = ios n and limit = ios lim in
      let nn = nat_of_int in
      let wl j = List.map (fun c -> (LW (nn j, c), 0)) [PNone; PPop (nn 1); PGiveUp; PDone; PPushLocal; PDrain (nn 1); PPushInj (nn 1); PNext; PSkip]
                 @ [(LW (nn j, PWake), 1); (LW (nn j, PCnt (z_of_int 1)), 2); (LW (nn j, PCnt (z_of_int (-1))), 2)]
                 @ List.concat (List.init n (fun v -> if v = j then [] else [(LW (nn j, PSteal (nn v, nn 1)), 0); (LW (nn j, PActivate (nn v)), 0)])) in
      let labels = [(LM, 0); (LSpawn, 3); (LRunCall, 4)] @ List.concat (List.init n wl) in
      let lab_str l = (match l with
        | LM -> "M" | LSpawn -> "spawn" | LRunCall -> "run"
        | LW (j, c) -> Printf.sprintf "w%d:%s" (int_of_nat j) (match c with
            | PNone -> "-" | PPop _ -> "pop" | PSteal (v, _) -> Printf.sprintf "steal%d" (int_of_nat v) | PGiveUp -> "giveup"
            | PCnt d -> Printf.sprintf "cnt%+d" (int_of_z d) | PWake -> "wake" | PDone -> "done" | PPushLocal -> "pushlocal"
            | PDrain _ -> "drain" | PPushInj _ -> "pushinj" | PNext -> "next" | PActivate v -> Printf.sprintf "activate%d" (int_of_nat v)
            | PSkip -> "skip")) in
      let seen = Hashtbl.create 100000 in
      let q = Queue.create () in
      let s0 = p_init (nn n) in
      (* budgets: wakes, cnts, spawns, runs *)
      Queue.add (s0, (2, 3, 2, 2), []) q;
      Hashtbl.replace seen (Marshal.to_string (s0, (2, 3, 2, 2)) []) ();
      let found = ref None and count = ref 0 in
      (try
        while !found = None && not (Queue.is_empty q) && !count <= limit do
          let (s, (bw, bc, bs, br), path) = Queue.pop q in
          incr count;
          (* global deadlock: no thread can take a step (budgets do not count) *)
          if not (List.exists (fun (l, _) -> p_step b s l <> None) labels) then found := Some (List.rev path, s);
          List.iter (fun (l, kind) ->
            if !found = None then begin
              let bud = (match kind with
                | 1 -> if bw > 0 then Some (bw - 1, bc, bs, br) else None
                | 2 -> if bc > 0 then Some (bw, bc - 1, bs, br) else None
                | 3 -> if bs > 0 then Some (bw, bc, bs - 1, br) else None
                | 4 -> if br > 0 then Some (bw, bc, bs, br - 1) else None
                | _ -> Some (bw, bc, bs, br)) in
              match bud with
              | None -> ()
              | Some bud ->
                (match p_step b s l with
                 | None -> ()
                 | Some s' ->
                     let key = Marshal.to_string (s', bud) [] in
                     if not (Hashtbl.mem seen key) then begin
                       Hashtbl.replace seen key ();
                       let path' = l :: path in
                       if p_bad s' then found := Some (List.rev path', s')
                       else Queue.add (s', bud, path') q
                     end)
            end) labels
        done
      with Exit -> ());
      (match !found with
       | Some (path, s) ->
           Printf.sprintf "FOUND states=%d | %s | %smain=%d msg=%d net=%d inj=%d panic=%d cnts=%s acts=%s" !count
             (String.concat " " (List.map lab_str path))
             (if p_bad s then "" else "DEADLOCK(no thread can step) ")
             (int_of_nat (x_p_main s)) (int_of_z (x_p_msg s)) (int_of_z (x_p_net s)) (int_of_nat (x_p_inj s)) (int_of_nat (x_p_panic s))
             (String.concat "," (List.map (fun c -> string_of_int (int_of_z c)) (x_p_cnts s)))
             (String.concat "," (List.map (fun b -> if b then "1" else "0") (x_p_acts s)))
       | None -> Printf.sprintf "NONE states=%d%s" !count (if !count > limit then " state-limit-reached" else ""))
  | "inj" :: cap :: ops ->
      let cap = (match ios cap with 1 | 2 | 3 | 4 as c -> c | _ -> 128) in
      let op_of tok =
        let k = String.sub tok 0 1 and rest = String.sub tok 1 (String.length tok - 1) in
        (match k with
         | "i" -> JInsert (z_of_int (ios rest))
         | "b" -> JPushBucket (List.map (fun x -> z_of_int (ios x)) (List.filter (fun x -> x <> "") (split_on '.' rest)))
         | "p" -> JPop | "e" -> JIsEmpty | _ -> failwith "inj op") in
      let (_, rs) = inj_run (nat_of_int cap) inj_new (List.map op_of ops) in
      String.concat " " (List.map (fun r -> match r with
        | JUnit -> "u"
        | JBucket None -> "-"
        | JBucket (Some b) -> "[" ^ String.concat "." (List.map (fun x -> string_of_int (int_of_z x)) b) ^ "]"
        | JBool b -> if b then "1" else "0") rs)
  | "chansearch" :: which :: cap :: n :: "L" :: lim :: _ ->
      (* breadth-first search of the channel model for a lost wake-up: a sender asleep in front of a free slot,
         or the receiver asleep in front of a queued message, with nobody left to wake them.  A search for a
         replay, never evidence.  Each sender sends at most twice; spurious wake-ups are not explored. *)
      let prog = (match which with "gen" -> chan_gen | "fixed" -> chan_fixed | _ -> failwith "chansearch: gen|fixed") in
      let cap = ios cap and n = ios n and limit = ios lim in
      let nn = nat_of_int in
      let picks = None :: List.init n (fun y -> Some (nn y)) in
      let labels =
        List.concat (List.init n (fun x -> (LBegin (nn x), x) :: List.map (fun pk -> (LS (nn x, pk, false), -1)) picks))
        @ List.concat (List.map (fun pk -> [(LR (pk, false), -1); (LR (pk, true), -1)]) picks) @ [(LHandled, -1)] in
      let lab_str l = (match l with
        | LBegin x -> Printf.sprintf "start%d" (int_of_nat x)
        | LS (x, pk, _) -> Printf.sprintf "s%d%s" (int_of_nat x) (match pk with Some y -> Printf.sprintf "(notify %d)" (int_of_nat y) | None -> "")
        | LR (pk, sp) -> Printf.sprintf "r%s%s" (match pk with Some y -> Printf.sprintf "(notify %d)" (int_of_nat y) | None -> "") (if sp then "*" else "")
        | LHandled -> "handled") in
      let seen = Hashtbl.create 100000 in
      let q = Queue.create () in
      let s0 = c_init (nn cap) (nn n) in
      let b0 = List.init n (fun _ -> 2) in
      Queue.add (s0, b0, []) q;
      Hashtbl.replace seen (Marshal.to_string (s0, b0) []) ();
      let found = ref None and count = ref 0 in
      while !found = None && not (Queue.is_empty q) && !count <= limit do
        let (s, bud, path) = Queue.pop q in
        incr count;
        List.iter (fun (l, starter) ->
          if !found = None then begin
            let bud' = if starter >= 0 then (if List.nth bud starter > 0 then Some (List.mapi (fun i b -> if i = starter then b - 1 else b) bud) else None) else Some bud in
            match bud' with
            | None -> ()
            | Some bud' ->
              (match c_step prog s l with
               | None -> ()
               | Some s' ->
                   let key = Marshal.to_string (s', bud') [] in
                   if not (Hashtbl.mem seen key) then begin
                     Hashtbl.replace seen key ();
                     let path' = l :: path in
                     if c_bad s' then found := Some (List.rev path', s') else Queue.add (s', bud', path') q
                   end)
          end) labels
      done;
      (match !found with
       | Some (path, s) ->
           Printf.sprintf "FOUND states=%d | %s | occ=%d cap=%d avail=%d recv=%d senders=%s" !count
             (String.concat " " (List.map lab_str path))
             (int_of_nat (x_c_occ s)) (int_of_nat (x_c_cap s)) (int_of_nat (x_c_avail s)) (int_of_nat (x_c_recv s))
             (String.concat "," (List.map (fun (pc, (i, w)) -> Printf.sprintf "%d%s%s" (int_of_nat pc) (if i then "i" else "") (if w then "w" else "")) (x_c_senders s)))
       | None -> Printf.sprintf "NONE states=%d%s" !count (if !count > limit then " state-limit-reached" else ""))
  | "strun" :: _ ->
      (* looks for an input on which the run body generated from st_executor.rs violates its specification:
         initial thread count, initial model id, own count, change of the count, panicking model *)
      let zs = [0; 1; -1; 5] and ids = [None; Some 3] and ps = [None; Some 7] in
      let found = ref None in
      List.iter (fun c0 -> List.iter (fun i0 -> List.iter (fun own -> List.iter (fun d -> List.iter (fun p ->
        if !found = None then begin
          let io = (match i0 with None -> None | Some i -> Some (nat_of_int i)) in
          let po = (match p with None -> None | Some i -> Some (nat_of_int i)) in
          if not (sr_check strun_gen (z_of_int c0) io (z_of_int own) (z_of_int d) po) then
            found := Some (Printf.sprintf "thread_count_before=%d model_id_before=%s own_count=%d count_change=%d panicking_model=%s"
                             c0 (match i0 with None -> "none" | Some i -> string_of_int i) own d (match p with None -> "none" | Some i -> string_of_int i))
        end) ps) zs) [0; 1]) ids) zs;
      (match !found with Some s -> "FOUND " ^ s | None -> "NONE")
  | "slotsearch" :: _ ->
      (* breadth-first search of the (finite) slot model with the constants generated from util/slot.rs for a
         state that violates os_ok *)
      let labels = [SLWrite; SLWDrop; SLW; SLTry; SLRDrop; SLR] in
      let lab_str = function SLWrite -> "write" | SLWDrop -> "wdrop" | SLW -> "w" | SLTry -> "try_read" | SLRDrop -> "rdrop" | SLR -> "r" in
      let seen = Hashtbl.create 1000 in
      let q = Queue.create () in
      Queue.add (os_init, []) q; Hashtbl.replace seen (Marshal.to_string os_init []) ();
      let found = ref None and count = ref 0 in
      while !found = None && not (Queue.is_empty q) && !count < 100000 do
        let (s, path) = Queue.pop q in
        incr count;
        List.iter (fun l ->
          if !found = None then
            match os_step slot_gen s l with
            | None -> ()
            | Some s' ->
                let key = Marshal.to_string s' [] in
                if not (Hashtbl.mem seen key) then begin
                  Hashtbl.replace seen key ();
                  if not (os_ok s') then found := Some (List.rev (l :: path)) else Queue.add (s', l :: path) q
                end) labels
      done;
      (match !found with
       | Some path -> Printf.sprintf "FOUND states=%d | %s" !count (String.concat " " (List.map lab_str path))
       | None -> Printf.sprintf "NONE states=%d" !count)
  | "crw" :: ops ->
      let op_of tok = match split_on ',' tok with
        | ["c"; i] -> CClone (nat_of_int (ios i))
        | ["w"; i; x] -> CWrite (nat_of_int (ios i), nat_of_int (ios x))
        | ["s"; i; x] -> CScratch (nat_of_int (ios i), nat_of_int (ios x))
        | ["r"; i] -> CRead (nat_of_int (ios i))
        | _ -> failwith "crw op" in
      let show l = if l = [] then "-" else String.concat "." (List.map (fun n -> string_of_int (int_of_nat n)) l) in
      String.concat " " (List.map show (x_crw_run (List.map op_of ops)))
  | "sqf" :: ks ->
      (* SeqFuture::poll with the body generated from the source, on scripted sub-futures *)
      let ks = List.map (fun x -> nat_of_int (ios x)) ks in
      let total = sum_list ks in
      let (st, rdy) = sq_polls (S total) seqfut_gen ks sq_init in
      let (_, early) = sq_polls total seqfut_gen ks sq_init in
      Printf.sprintf "%d %d %s %d %d" (if rdy then 1 else 0) (if early then 1 else 0)
        (String.concat "." (List.map ns st.qtrace)) (if st.qbad then 1 else 0) (if st.qoob then 1 else 0)
  | "seqfut" :: _ ->
      (* search: the first list of sub-futures (1..4 futures, 0..2 Pending answers each) on which the generated
         body violates the specification *)
      let rec lists n = if n = 0 then [[]] else List.concat_map (fun l -> [0 :: l; 1 :: l; 2 :: l]) (lists (n - 1)) in
      let all = List.concat_map lists [1; 2; 3; 4] in
      (match List.find_opt (fun ks -> not (sq_check seqfut_gen (List.map nat_of_int ks))) all with
       | Some ks -> "FOUND " ^ String.concat " " (List.map string_of_int ks)
       | None -> "NONE " ^ string_of_int (List.length all))
  | "sim" :: ws -> run_sim ws
  | "conf" :: ws -> run_conf ws
  | "ebuf" :: cap :: o :: ops ->
      String.concat " " (List.map optz_str
        (x_ebuf_run (nat_of_int (ios cap)) (bool_of o) (List.map sink_op_of ops)))
  | "eslot" :: o :: ops ->
      String.concat " " (List.map optz_str (x_eslot_run (bool_of o) (List.map sink_op_of ops)))
  | k :: _ -> "ERR unknown-kind " ^ k
  | [] -> ""

let () =
  try
    while true do
      let line = input_line stdin in
      (try print_endline (run_case line)
       with e -> print_endline ("ERR " ^ Printexc.to_string e))
    done
  with End_of_file -> ()
