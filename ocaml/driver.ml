(* Line-oriented runner for the extracted models.
   stdin: one case per line "<kind> <args...>"; stdout: one result line per case. *)
open Nxmodel

(* ---- conversions between OCaml ints and the Coq number types ---- *)
let rec pos_of_int (i : int) : positive =
  if i = 1 then XH
  else if i land 1 = 0 then XO (pos_of_int (i lsr 1))
  else XI (pos_of_int (i lsr 1))
let n_of_int i = if i = 0 then N0 else Npos (pos_of_int i)
let z_of_int i = if i = 0 then Z0 else if i > 0 then Zpos (pos_of_int i) else Zneg (pos_of_int (-i))
let rec int_of_pos = function
  | XH -> 1 | XO p -> 2 * int_of_pos p | XI p -> 2 * int_of_pos p + 1
let int_of_n = function N0 -> 0 | Npos p -> int_of_pos p
let int_of_z = function Z0 -> 0 | Zpos p -> int_of_pos p | Zneg p -> - (int_of_pos p)
let rec nat_of_int i = if i <= 0 then O else S (nat_of_int (i - 1))
let rec int_of_nat = function O -> 0 | S n -> 1 + int_of_nat n

let split_on c s = String.split_on_char c s
let words s = List.filter (fun w -> w <> "") (split_on ' ' s)
let ios = int_of_string
let bool_of s = (s = "1" || s = "true")

(* ---- pq ---- *)
let pq_op_of tok =
  match split_on ',' tok with
  | ["i"; t; o; v] -> PInsert ((z_of_int (ios t), n_of_int (ios o)), z_of_int (ios v))
  | ["p"] -> PPull
  | ["k"] -> PPeek
  | _ -> failwith ("bad pq op " ^ tok)
let pq_res_str = function
  | RUnit -> "u"
  | RNone -> "n"
  | RSome ((t, o), v) -> Printf.sprintf "s,%d,%d,%d" (int_of_z t) (int_of_n o) (int_of_z v)

(* ---- ipq ---- *)
let ipq_op_of tok =
  match split_on ',' tok with
  | ["i"; t; o; v] -> IInsert ((z_of_int (ios t), n_of_int (ios o)), z_of_int (ios v))
  | ["p"] -> IPull
  | ["k"] -> IPeek
  | ["K"] -> IPeekKey
  | ["x"; n] -> IExtract (nat_of_int (ios n))
  | ["l"] -> ILen
  | _ -> failwith ("bad ipq op " ^ tok)
let ipq_res_str = function
  | IRUnit -> "u"
  | IRNone -> "n"
  | IRSome ((t, o), v) -> Printf.sprintf "s,%d,%d,%d" (int_of_z t) (int_of_n o) (int_of_z v)
  | IRKey (t, o) -> Printf.sprintf "s,%d,%d" (int_of_z t) (int_of_n o)
  | IRLen n -> Printf.sprintf "l,%d" (int_of_nat n)
  | IRPanic -> "PANIC"

(* ---- sinks ---- *)
let sink_op_of tok =
  match split_on ',' tok with
  | ["w"; v] -> SWrite (z_of_int (ios v))
  | ["r"] -> SRead
  | ["o"] -> SOpen
  | ["c"] -> SClose
  | _ -> failwith ("bad sink op " ^ tok)
let optz_str = function None -> "n" | Some v -> Printf.sprintf "s,%d" (int_of_z v)

let run_case line =
  match words line with
  | "pq" :: ops ->
      String.concat " " (List.map pq_res_str (x_pq_run (List.map pq_op_of ops)))
  | "ipq" :: ops ->
      String.concat " " (List.map ipq_res_str (x_ipq_run (List.map ipq_op_of ops)))
  | "ebuf" :: cap :: o :: ops ->
      String.concat " " (List.map optz_str
        (x_ebuf_run (nat_of_int (ios cap)) (bool_of o) (List.map sink_op_of ops)))
  | "eslot" :: o :: ops ->
      String.concat " " (List.map optz_str (x_eslot_run (bool_of o) (List.map sink_op_of ops)))
  | k :: _ -> "ERR unknown-kind " ^ k
  | [] -> ""

let () =
  try
    while true do
      let line = input_line stdin in
      (try print_endline (run_case line)
       with e -> print_endline ("ERR " ^ Printexc.to_string e))
    done
  with End_of_file -> ()
