(* The program GENERATED from executor/st_executor.rs (gen/StRunProg.v, rewritten from the source on every
   run) is the program the specification of ExecutorInner::run is proved for. *)
Require Import NX.Base.Prelude NX.Model.StRun NX.gen.StRunProg NX.Proofs.StRunProofs.

Lemma strun_gen_is_proved : strun_gen = strun_fixed.
Proof. reflexivity. Qed.

Theorem strun_gen_spec : sr_spec strun_gen.
Proof. rewrite strun_gen_is_proved. exact strun_fixed_spec. Qed.
