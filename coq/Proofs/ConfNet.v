(* ConfNet.v — the net model of Model/Sim.v refines the message pool of Model/Conf.v.

   For a bench of the plain fragment (scripts made of sends, queries and scheduling requests, every model added), every step
   of the net model (start of a handler / one op of a script / one delivery) either leaves the pool of
   the state unchanged up to order (a stutter) or picks one message c of the pool and replaces it by
   bench_react b c - logging the invocation, or performing the sink write when c is a sink message.
   Hence every run of the net model, under every choice list, is a schedule of the pool, and the
   confluence theorems of ConfProofs.v apply to the net model itself. *)
Require Import NX.Base.Prelude NX.Base.ListX NX.Model.Sim NX.Model.Conf.
Require Import NX.Proofs.SimBasic NX.Proofs.NetProofs NX.Proofs.ConfProofs.
From AAC_tactics Require Import AAC Instances.
Import Instances.Lists.

Ltac perm_ac := unfold script_msgs; rewrite ?app_nil_r, ?app_nil_l; try reflexivity; aac_reflexivity.

(* ---- generic list facts ---- *)

Lemma flat_map_lupd {A B} (F : A -> list B) l : forall t x, nth_error l t = Some x ->
  exists rest, Permutation (flat_map F l) (F x ++ rest) /\
               forall x', Permutation (flat_map F (lupd l t x')) (F x' ++ rest).
Proof.
  induction l as [|y r IH]; intros [|t] x H; cbn in H; try discriminate.
  - injection H as ->. exists (flat_map F r). split; [reflexivity | intros x'; reflexivity].
  - destruct (IH _ _ H) as [rest [H1 H2]]. exists (F y ++ rest). split.
    + cbn [flat_map]. rewrite H1. aac_reflexivity.
    + intros x'. cbn [lupd flat_map]. rewrite (H2 x'). aac_reflexivity.
Qed.

Lemma box_msgs_lupd bs : forall m0 m q, nth_error bs m = Some q ->
  exists rest, Permutation (box_msgs m0 bs) (map (cm_of_msg (m0 + m)) q ++ rest) /\
               forall q', Permutation (box_msgs m0 (lupd bs m q')) (map (cm_of_msg (m0 + m)) q' ++ rest).
Proof.
  induction bs as [|y r IH]; intros m0 [|m] q H; cbn in H; try discriminate.
  - injection H as ->. exists (box_msgs (S m0) r). rewrite Nat.add_0_r.
    split; [reflexivity | intros q'; reflexivity].
  - destruct (IH (S m0) _ _ H) as [rest [H1 H2]].
    replace (S m0 + m) with (m0 + S m) in * by lia.
    exists (map (cm_of_msg m0) y ++ rest). split.
    + cbn [box_msgs]. rewrite H1. aac_reflexivity.
    + intros q'. cbn [lupd box_msgs]. rewrite (H2 q'). aac_reflexivity.
Qed.

Lemma perm_filter {A} (p : A -> bool) l1 l2 : Permutation l1 l2 -> Permutation (filter p l1) (filter p l2).
Proof.
  induction 1 as [|x l l' _ IH|x y l|l l' l'' _ IH1 _ IH2]; cbn [filter].
  - reflexivity.
  - destruct (p x); [constructor|]; exact IH.
  - destruct (p x), (p y); try reflexivity. apply perm_swap.
  - etransitivity; eassumption.
Qed.

(* ---- the fragment ---- *)

Lemma plain_is_ok o : op_plain o = true -> cop_ok o = true.
Proof. destruct o; cbn; congruence. Qed.

Lemma forallb_plain_ok l : forallb op_plain l = true -> forallb cop_ok l = true.
Proof.
  induction l as [|o r IH]; cbn; [reflexivity|]. intros H. apply andb_prop in H. destruct H as [H1 H2].
  rewrite (plain_is_ok _ H1), (IH H2). reflexivity.
Qed.

Lemma forallb_nth {A} (p : A -> bool) l d i : forallb p l = true -> p d = true -> p (nth i l d) = true.
Proof.
  revert i. induction l as [|x r IH]; intros [|i] H Hd; cbn in *; auto;
    apply andb_prop in H; destruct H as [H1 H2]; auto.
Qed.

Lemma bench_plain_model b m sp : bench_plain b = true -> nth_error (bmodels b) m = Some sp ->
  mplace sp = Added /\ forallb cop_ok (minit sp) = true /\
  (forall i, forallb cop_ok (nth i (mhandlers sp) []) = true) /\
  (forall r, forallb cop_ok (fst (nth r (mrepliers sp) ([], 0%Z))) = true).
Proof.
  unfold bench_plain. intros H E. rewrite forallb_forall in H.
  specialize (H sp (nth_error_In _ _ E)). unfold model_plain in H.
  apply andb_prop in H. destruct H as [H H4]. apply andb_prop in H. destruct H as [H H3].
  apply andb_prop in H. destruct H as [H1 H2].
  split; [destruct (mplace sp); try discriminate; reflexivity|].
  split; [exact (forallb_plain_ok _ H2)|]. split.
  - intros i. apply forallb_plain_ok.
    exact (forallb_nth (forallb op_plain) (mhandlers sp) [] i H3 eq_refl).
  - intros r. apply forallb_plain_ok.
    exact (forallb_nth (fun r => forallb op_plain (fst r)) (mrepliers sp) ([], 0%Z) r H4 eq_refl).
Qed.

Lemma query_deliveries_cm qs v : forall t slot,
  map cm_of_delivery (query_deliveries t slot qs v) = map cm_of_delivery (query_deliveries 0 0 qs v).
Proof.
  assert (G : forall t slot t' slot',
    map cm_of_delivery (query_deliveries t slot qs v) = map cm_of_delivery (query_deliveries t' slot' qs v)).
  { induction qs as [|q r IH]; intros t slot t' slot'; cbn [query_deliveries]; [reflexivity|].
    destruct (keep_ok (qkeep q) v); [|apply IH].
    cbn [map]. f_equal. apply IH. }
  intros t slot. apply G.
Qed.

(* ---- the invariant ---- *)

Definition NInv (s : state) : Prop :=
  (forall t x f, nth_error (tasks s) t = Some x -> tfr x = Some f -> forallb cop_ok (frest f) = true) /\
  (forall key, key_cancelled s key = false).

Lemma key_cancelled_ext s s' : cancelled s' = cancelled s -> forall k, key_cancelled s' k = key_cancelled s k.
Proof. intros E k. unfold key_cancelled. rewrite E. reflexivity. Qed.

Lemma NInv_upd2 s s' t x' :
  NInv s -> tasks s' = lupd (tasks s) t x' -> (forall k, key_cancelled s' k = false) ->
  (forall f, tfr x' = Some f -> forallb cop_ok (frest f) = true) -> NInv s'.
Proof.
  intros [I1 I2] ET EC HF. split; [|exact EC].
  intros t0 x0 f0 E0 F0. rewrite ET in E0. destruct (Nat.eq_dec t t0) as [<-|N].
  - assert (L : t < length (tasks s)).
    { rewrite <- (lupd_length (tasks s) t x'). apply nth_error_Some. rewrite E0. discriminate. }
    rewrite nth_error_lupd_eq in E0 by exact L. injection E0 as <-. exact (HF _ F0).
  - rewrite nth_error_lupd_ne in E0 by exact N. exact (I1 _ _ _ E0 F0).
Qed.

Lemma NInv_upd s s' t x' :
  NInv s -> tasks s' = lupd (tasks s) t x' -> cancelled s' = cancelled s ->
  (forall f, tfr x' = Some f -> forallb cop_ok (frest f) = true) -> NInv s'.
Proof.
  intros I ET EC HF. eapply NInv_upd2; [exact I | exact ET | | exact HF].
  intros k. rewrite (key_cancelled_ext _ _ EC). destruct I as [_ I2]. apply I2.
Qed.

Lemma sched_request_cancelled s origin d mk keyed period chk s' code k :
  sched_request s origin d mk keyed period chk = (s', code, k) ->
  cancelled s' = cancelled s \/ cancelled s' = cancelled s ++ [false].
Proof.
  unfold sched_request.
  destruct (chk && _); [intros H; injection H as <- <- <-; left; reflexivity|].
  destruct (Z.leb _ _); [intros H; injection H as <- <- <-; left; reflexivity|].
  destruct keyed; cbn; intros H; injection H as <- <- <-; cbn; [right | left]; reflexivity.
Qed.

Lemma key_cancelled_grow s s' :
  (forall k, key_cancelled s k = false) ->
  cancelled s' = cancelled s \/ cancelled s' = cancelled s ++ [false] ->
  forall k, key_cancelled s' k = false.
Proof.
  intros H [E|E] k; [rewrite (key_cancelled_ext _ _ E); apply H|].
  destruct k as [i|]; [|reflexivity]. unfold key_cancelled. rewrite E.
  destruct (Nat.lt_ge_cases i (length (cancelled s))) as [L|L].
  - rewrite nth_error_app1 by exact L. exact (H (Some i)).
  - rewrite nth_error_app2 by exact L. destruct (i - length (cancelled s)) as [|[|j]]; reflexivity.
Qed.

(* ---- one step ---- *)

Inductive sim_res (b : bench) (s s' : state) : Prop :=
| sim_stutter :
    Permutation (pool_of b s') (pool_of b s) -> invs (log s') = invs (log s) -> sinks s' = sinks s ->
    sim_res b s s'
| sim_pick : forall c rest,
    Permutation (pool_of b s) ([c] ++ rest) -> Permutation (pool_of b s') (bench_react b c ++ rest) ->
    invs (log s') = (if is_sink_msg c then [] else [c]) ++ invs (log s) ->
    sinks s' = sink_apply (sinks s) c ->
    sim_res b s s'.

(* the pool of a state whose task t and/or mailbox m were replaced *)
Lemma pool_tasks b s s' t x x' :
  nth_error (tasks s) t = Some x -> tasks s' = lupd (tasks s) t x' -> boxes s' = boxes s ->
  exists rest, Permutation (pool_of b s) (task_msgs b x ++ rest) /\
               Permutation (pool_of b s') (task_msgs b x' ++ rest).
Proof.
  intros E ET EB. destruct (flat_map_lupd (task_msgs b) _ _ _ E) as [rt [H1 H2]].
  exists (box_msgs 0 (boxes s) ++ rt). unfold pool_of. rewrite ET, EB, H1, (H2 x'). split; [aac_reflexivity | aac_reflexivity].
Qed.

Lemma pool_tasks_box b s s' t x x' m q q' :
  nth_error (tasks s) t = Some x -> tasks s' = lupd (tasks s) t x' ->
  nth_error (boxes s) m = Some q -> boxes s' = lupd (boxes s) m q' ->
  exists rest, Permutation (pool_of b s) (map (cm_of_msg m) q ++ task_msgs b x ++ rest) /\
               Permutation (pool_of b s') (map (cm_of_msg m) q' ++ task_msgs b x' ++ rest).
Proof.
  intros E ET EQ EB. destruct (flat_map_lupd (task_msgs b) _ _ _ E) as [rt [H1 H2]].
  destruct (box_msgs_lupd _ 0 _ _ EQ) as [rb [H3 H4]]. cbn [Nat.add] in *.
  exists (rb ++ rt). unfold pool_of. rewrite ET, EB, H1, (H2 x'), H3, (H4 q'). split; [aac_reflexivity | aac_reflexivity].
Qed.

Lemma deliver_reply_shape s r :
  boxes (deliver_reply s r) = boxes s /\ log (deliver_reply s r) = log s /\
  sinks (deliver_reply s r) = sinks s /\ cancelled (deliver_reply s r) = cancelled s /\
  (tasks (deliver_reply s r) = tasks s \/
   exists rt y f fw, nth_error (tasks s) rt = Some y /\ tfr y = Some f /\
     tasks (deliver_reply s r) = lupd (tasks s) rt (tset_tfr y (Some (fset_fwait f fw)))).
Proof.
  unfold deliver_reply. destruct r as [[[[rt|] slot] v]|]; cbn; auto 6.
  destruct (nth_error (tasks s) rt) as [y|] eqn:E; auto 6. destruct (tfr y) as [f|] eqn:F; auto 6.
  cbn. repeat split; auto. right. exists rt, y, f, (lupd (fwait f) slot (Some v)). auto.
Qed.

Lemma deliver_reply_pool b s r : Permutation (pool_of b (deliver_reply s r)) (pool_of b s).
Proof.
  destruct (deliver_reply_shape s r) as (EB & _ & _ & _ & [ET | (rt & y & f & fw & E & F & ET)]).
  - unfold pool_of. rewrite EB, ET. reflexivity.
  - destruct (pool_tasks b s _ rt y _ E ET EB) as [rest [H1 H2]]. rewrite H1, H2.
    apply Permutation_app_tail. unfold task_msgs. cbn. rewrite F. reflexivity.
Qed.

Lemma deliver_reply_NInv s r : NInv s -> NInv (deliver_reply s r).
Proof.
  intros I. destruct (deliver_reply_shape s r) as (_ & _ & _ & EC & [ET | (rt & y & f & fw & E & F & ET)]).
  - destruct I as [I1 I2]. split; [rewrite ET; exact I1|]. intros k. rewrite (key_cancelled_ext _ _ EC). apply I2.
  - eapply NInv_upd; [exact I | exact ET | exact EC |]. cbn. intros f0 E0. injection E0 as <-. cbn.
    destruct I as [I1 _]. exact (I1 _ _ _ E F).
Qed.

Lemma cm_sink d sk v : dtgt d = DSink sk v -> cm_of_delivery d = CMSink sk v.
Proof. unfold cm_of_delivery. intros ->. reflexivity. Qed.
Lemma cm_model d m g : dtgt d = DModel m g -> cm_of_delivery d = cm_of_msg m g.
Proof. unfold cm_of_delivery. intros ->. reflexivity. Qed.

Lemma step_start_sim b s t s' :
  bench_plain b = true -> NInv s -> step_start b s t = Some s' -> NInv s' /\ sim_res b s s'.
Proof.
  intros HP I. unfold step_start. intros H.
  destruct (nth_error (tasks s) t) as [x|] eqn:EX; [|discriminate].
  destruct (tk x) as [m|] eqn:TK; [|discriminate]. destruct (tfr x) eqn:TF; [discriminate|].
  destruct (tdone x); [discriminate|]. destruct (nth_error (bmodels b) m) as [sp|] eqn:ES; [|discriminate].
  destruct (bench_plain_model b m sp HP ES) as (_ & PI & PH & PR).
  destruct (tinit x) eqn:TI.
  { injection H as <-. split.
    - eapply NInv_upd; [exact I | reflexivity | reflexivity |]. cbn. intros f E. injection E as <-. exact PI.
    - match goal with |- sim_res _ _ ?s' => destruct (pool_tasks b s s' t x _ EX eq_refl eq_refl) as [rest [H1 H2]] end.
      apply sim_pick with (c := CMInit m) (rest := rest).
      + rewrite H1. unfold task_msgs. rewrite TI, TK, TF. cbv iota. perm_ac.
      + etransitivity; [exact H2|]. unfold task_msgs, frame_msgs, task_model. cbn. rewrite TK, ES. perm_ac.
      + reflexivity.
      + reflexivity. }
  destruct (nth_error (boxes s) m) as [[|g restq]|] eqn:EB; try discriminate.
  destruct (mkd g) as [key|r slot rep radd] eqn:EK.
  - destruct I as [I1 I2]. rewrite (I2 key) in H. injection H as <-. split.
    + eapply NInv_upd; [exact (conj I1 I2) | reflexivity | reflexivity |].
      cbn. intros f E. injection E as <-. apply PH.
    + match goal with |- sim_res _ _ ?s' => destruct (pool_tasks_box b s s' t x _ m (g :: restq) restq EX eq_refl EB eq_refl) as [rest [H1 H2]] end.
      apply sim_pick with (c := CMHandler m (minp g) (mval g)) (rest := map (cm_of_msg m) restq ++ rest).
      * rewrite H1. unfold task_msgs. rewrite TI, TF. cbn [map]. unfold cm_of_msg at 1. rewrite EK. cbv iota. change (?a :: map ?f ?l) with ([a] ++ map f l). perm_ac.
      * etransitivity; [exact H2|]. unfold task_msgs, frame_msgs, task_model. cbn. rewrite TI, TK, ES. perm_ac.
      * reflexivity.
      * reflexivity.
  - destruct (nth rep (mrepliers sp) ([], 0%Z)) as [script c0] eqn:ER. injection H as <-. split.
    + eapply NInv_upd; [exact I | reflexivity | reflexivity |].
      cbn. intros f E. injection E as <-. specialize (PR rep). rewrite ER in PR. exact PR.
    + match goal with |- sim_res _ _ ?s' => destruct (pool_tasks_box b s s' t x _ m (g :: restq) restq EX eq_refl EB eq_refl) as [rest [H1 H2]] end.
      apply sim_pick with (c := CMReplier m rep (mval g)) (rest := map (cm_of_msg m) restq ++ rest).
      * rewrite H1. unfold task_msgs. rewrite TI, TF. cbn [map]. unfold cm_of_msg at 1. rewrite EK. cbv iota. change (?a :: map ?f ?l) with ([a] ++ map f l). perm_ac.
      * etransitivity; [exact H2|]. unfold task_msgs, frame_msgs, task_model. cbn. rewrite TI, TK, ES, ER.
        cbn [fst]. perm_ac.
      * reflexivity.
      * reflexivity.
Qed.

Lemma step_op_sim b s t s' :
  bench_plain b = true -> NInv s -> step_op b s t = Some s' -> NInv s' /\ sim_res b s s'.
Proof.
  intros HP I. unfold step_op. intros H.
  destruct (nth_error (tasks s) t) as [x|] eqn:EX; [|discriminate].
  destruct (tfr x) as [f|] eqn:TF; [|discriminate].
  destruct (fpend f) eqn:FP; [|discriminate].
  assert (OKF : forallb cop_ok (frest f) = true) by (destruct I as [I1 _]; exact (I1 _ _ _ EX TF)).
  destruct (fwait f) eqn:FW.
  2:{ destruct (opt_all _); [|discriminate].
      assert (G : forall s1, tasks s1 = lupd (tasks s) t (tset_tfr x (Some (fset_fwait f []))) ->
                  boxes s1 = boxes s -> cancelled s1 = cancelled s -> invs (log s1) = invs (log s) ->
                  sinks s1 = sinks s -> NInv s1 /\ sim_res b s s1).
      { intros s1 ET EB EC EL ESK. split.
        - eapply NInv_upd; [exact I | exact ET | exact EC|]. cbn. intros f0 E0. injection E0 as <-. cbn. exact OKF.
        - destruct (pool_tasks b s s1 t x _ EX ET EB) as [rest [H1 H2]].
          apply sim_stutter; [|exact EL|exact ESK]. rewrite H1, H2. apply Permutation_app_tail.
          unfold task_msgs. cbn. rewrite TF. reflexivity. }
      destruct (task_model x); injection H as <-; apply G; reflexivity. }
  destruct (frest f) as [|o rest] eqn:FR.
  { (* the script is over *)
    match type of H with Some (deliver_reply ?a _) = _ => set (s1 := a) in H end.
    injection H as <-.
    assert (X : exists x', tasks s1 = lupd (tasks s) t x' /\ tfr x' = None /\ tinit x' = tinit x /\ tk x' = tk x /\
                boxes s1 = boxes s /\ cancelled s1 = cancelled s /\ log s1 = log s /\ sinks s1 = sinks s).
    { subst s1. destruct (tk x) eqn:TK; eexists; (split; [reflexivity|]); cbn; rewrite ?TK; auto 10. }
    destruct X as (x' & ET & TF' & TI' & TK' & EB & EC & EL & ESK).
    assert (I1 : NInv s1).
    { eapply NInv_upd; [exact I | exact ET | exact EC|]. rewrite TF'. discriminate. }
    split; [apply deliver_reply_NInv; exact I1|].
    destruct (deliver_reply_shape s1 (freply f)) as (_ & DL & DS & _ & _).
    apply sim_stutter.
    - rewrite deliver_reply_pool. destruct (pool_tasks b s s1 t x x' EX ET EB) as [rs [H1 H2]].
      rewrite H1, H2. apply Permutation_app_tail. unfold task_msgs. rewrite TF, TF', TI', TK'.
      unfold frame_msgs. rewrite FP, FR. reflexivity.
    - rewrite DL, EL. reflexivity.
    - rewrite DS, ESK. reflexivity. }
  cbn [forallb] in OKF. apply andb_prop in OKF. destruct OKF as [OKo OKr].
  assert (G : forall f' s1, tasks s1 = lupd (tasks s) t (tset_tfr x (Some f')) -> boxes s1 = boxes s ->
              cancelled s1 = cancelled s -> log s1 = log s -> sinks s1 = sinks s ->
              frest f' = rest -> fin f' = fin f ->
              map cm_of_delivery (fpend f') = op_msgs b (task_model x) (fin f) o -> NInv s1 /\ sim_res b s s1).
  { intros f' s1 ET EB EC EL ESK FR' FI FP'. split.
    - eapply NInv_upd; [exact I|exact ET|exact EC|]. cbn. intros f0 E0. injection E0 as <-. rewrite FR'. exact OKr.
    - destruct (pool_tasks b s s1 t x _ EX ET EB) as [rs [H1 H2]].
      apply sim_stutter; [|rewrite EL; reflexivity|exact ESK]. rewrite H1, H2. apply Permutation_app_tail.
      unfold task_msgs. cbn [tinit tk tfr tset_tfr task_model]. rewrite TF. unfold frame_msgs.
      rewrite FP, FR, FR', FI, FP'. reflexivity. }
  destruct (match o with OSched _ _ _ _ _ => true | _ => false end) eqn:IsSched.
  { destruct o; try discriminate IsSched. destruct (task_model x) as [mm|] eqn:TM; [|discriminate].
    destruct (sched_request _ _ _ _ _ _ _) as [[s1 code] k] eqn:ESR.
    pose proof (sched_request_cancelled _ _ _ _ _ _ _ _ _ _ ESR) as ECN.
    apply sched_request_frame in ESR. destruct ESR as (_ & _ & _ & _ & EL1 & _ & EB1 & _ & ET1 & ESK1 & _).
    injection H as <-.
    match goal with |- NInv ?s2 /\ _ => assert (ET : exists x2, tasks s2 = lupd (tasks s) t x2 /\ tinit x2 = tinit x /\
                                            tk x2 = tk x /\ tfr x2 = Some (fset_frest f rest)) end.
    { eexists. cbn. rewrite ET1. split; [reflexivity|]. destruct slot; destruct k; cbn; auto. }
    destruct ET as (x2 & ET & TI2 & TK2 & TF2). split.
    - eapply NInv_upd2; [exact I | exact ET | |].
      + apply (key_cancelled_grow s); [destruct I as [_ I2]; exact I2 | exact ECN].
      + rewrite TF2. intros f0 E0. injection E0 as <-. exact OKr.
    - match goal with |- sim_res _ _ ?s2 => destruct (pool_tasks b s s2 t x x2 EX ET EB1) as [rs [H1 H2]] end.
      apply sim_stutter.
      + rewrite H1, H2. apply Permutation_app_tail. unfold task_msgs, task_model. rewrite TI2, TK2, TF2, TF.
        unfold frame_msgs. cbn [fpend fin frest fset_frest]. rewrite FP, FR. unfold script_msgs, task_model.
        cbn [flat_map op_msgs]. reflexivity.
      + cbn. rewrite EL1. reflexivity.
      + cbn. exact ESK1. }
  destruct o; try discriminate OKo; try discriminate IsSched; destruct (task_model x) as [mm|] eqn:TM; try discriminate H.
  - destruct (nth_error (bmodels b) mm) as [sp|] eqn:ES; [|discriminate]. injection H as <-.
    eapply G; try reflexivity. unfold op_msgs. rewrite ES. reflexivity.
  - destruct (nth_error (bmodels b) mm) as [sp|] eqn:ES; [|discriminate]. injection H as <-.
    eapply G; try reflexivity. unfold op_msgs. rewrite ES. cbn [fpend fset_fwait fset_fpend]. apply query_deliveries_cm.
  - injection H as <-. eapply G; reflexivity.
  - injection H as <-. eapply G; reflexivity.
  - injection H as <-. eapply G; reflexivity.
  - injection H as <-. eapply G; reflexivity.
  - injection H as <-. eapply G; reflexivity.
  - injection H as <-. eapply G; reflexivity.
Qed.

Lemma step_deliver_sim b s t i s' :
  bench_plain b = true -> NInv s -> step_deliver b s t i = Some s' -> NInv s' /\ sim_res b s s'.
Proof.
  intros HP I. unfold step_deliver. intros H.
  destruct (nth_error (tasks s) t) as [x|] eqn:EX; [|discriminate].
  destruct (tfr x) as [f|] eqn:TF; [|discriminate].
  destruct (nth_error (fpend f) i) as [d|] eqn:ED; [|discriminate].
  assert (OKF : forallb cop_ok (frest f) = true) by (destruct I as [I1 _]; exact (I1 _ _ _ EX TF)).
  pose proof (Permutation_map cm_of_delivery (ldel_perm _ _ _ ED)) as PD. cbn [map] in PD.
  set (x' := tset_tfr x (Some (fset_fpend f (ldel (fpend f) i)))) in *.
  assert (NI : forall s1, tasks s1 = lupd (tasks s) t x' -> cancelled s1 = cancelled s -> NInv s1).
  { intros s1 ET EC. eapply NInv_upd; [exact I|exact ET|exact EC|]. cbn. intros f0 E0. injection E0 as <-. exact OKF. }
  assert (TM : forall rest0, Permutation (task_msgs b x ++ rest0) ([cm_of_delivery d] ++ task_msgs b x' ++ rest0)).
  { intros rest0. unfold task_msgs, x'. cbn [tinit tk tfr tset_tfr task_model]. rewrite TF. unfold frame_msgs.
    cbn [fpend fin frest fset_fpend]. rewrite PD. change (cm_of_delivery d :: ?l) with ([cm_of_delivery d] ++ l). change (task_model (tset_tfr x ?y)) with (task_model x). perm_ac. }
  destruct (dtgt d) as [m g|sk v] eqn:DT.
  - destruct (nth_error (bmodels b) m) as [sp|] eqn:ES; [|discriminate].
    destruct (nth_error (boxes s) m) as [q|] eqn:EB; [|discriminate].
    destruct (bench_plain_model b m sp HP ES) as (PL & _). rewrite PL in H.
    destruct (Nat.ltb (length q) (mcap sp)); [|discriminate]. injection H as <-. split; [apply NI; reflexivity|].
    match goal with |- sim_res _ _ ?s1 =>
      destruct (pool_tasks_box b s s1 t x x' m q (q ++ [g]) EX eq_refl EB eq_refl) as [rest [H1 H2]] end.
    apply sim_stutter; [|reflexivity|reflexivity].
    rewrite H1, H2, map_app. cbn [map]. rewrite (TM rest). rewrite (cm_model _ _ _ DT). perm_ac.
  - assert (G : forall s1, tasks s1 = lupd (tasks s) t x' -> boxes s1 = boxes s -> cancelled s1 = cancelled s ->
                log s1 = log s -> sinks s1 = sink_apply (sinks s) (CMSink sk v) -> NInv s1 /\ sim_res b s s1).
    { intros s1 ET EB EC EL ESK. split; [apply NI; assumption|].
      destruct (pool_tasks b s s1 t x x' EX ET EB) as [rest [H1 H2]].
      apply sim_pick with (c := CMSink sk v) (rest := task_msgs b x' ++ rest).
      - rewrite H1, (TM rest), (cm_sink _ _ _ DT). reflexivity.
      - rewrite H2. reflexivity.
      - rewrite EL. reflexivity.
      - exact ESK. }
    destruct (nth_error (sinks s) sk) as [st|] eqn:EK; injection H as <-; apply G; try reflexivity;
      unfold sink_apply; cbn [sinks set_task set_tasks]; rewrite EK; reflexivity.
Qed.

Theorem net_step_sim b s l s' :
  bench_plain b = true -> NInv s -> net_step b s l = Some s' -> NInv s' /\ sim_res b s s'.
Proof.
  intros HP I. unfold net_step. destruct (err s); [discriminate|]. destruct l as [t|t|t i].
  - apply step_start_sim; assumption.
  - apply step_op_sim; assumption.
  - apply step_deliver_sim; assumption.
Qed.

(* ---- runs ---- *)

Lemma pruns_perm_l {M} (react : M -> list M) P L Q :
  pruns react P L Q -> forall P', Permutation P P' -> pruns react P' L Q.
Proof.
  intros H. destruct H as [P Q HP | P m rest L Q Hp Hr]; intros P' HP'.
  - constructor. rewrite <- HP'. exact HP.
  - econstructor; [|exact Hr]. rewrite <- HP'. exact Hp.
Qed.

Lemma pruns_nil_runs {M} (react : M -> list M) P L : pruns react P L [] -> cruns react P L.
Proof.
  remember [] as Q eqn:EQ. induction 1 as [P Q HP | P m rest L Q Hp Hr IH]; subst.
  - apply Permutation_sym, Permutation_nil in HP. subst. constructor.
  - econstructor; [exact Hp | apply IH; reflexivity].
Qed.


(* Every run of the net model is a schedule of the pool: L lists the messages picked, in order; the
   invocation entries appended to the log are exactly the non-sink members of L, and the sinks are
   what the sink members of L wrote, in that order. *)
Theorem net_run_is_pool_schedule b (HP : bench_plain b = true) fuel : forall ch s nd s' nd',
  NInv s -> net_run b fuel ch s nd = Some (s', nd') ->
  NInv s' /\ exists L,
    pruns (bench_react b) (pool_of b s) L (pool_of b s') /\
    invs (log s') = rev (filter cm_logged L) ++ invs (log s) /\
    sinks s' = fold_left sink_apply L (sinks s).
Proof.
  induction fuel as [|fuel IH]; intros ch s nd s' nd' I H; cbn [net_run] in H; [discriminate|].
  destruct (net_enabled b s) as [|l0 ls].
  { injection H as <- <-. split; [exact I|]. exists []. repeat split. constructor. reflexivity. }
  destruct (match ch with [] => (0, []) | c :: r => (c, r) end) as [c rest].
  destruct (net_step b s _) as [s1|] eqn:ES; [|discriminate].
  destruct (net_step_sim b s _ s1 HP I ES) as [I1 SR].
  destruct (IH _ _ _ _ _ I1 H) as [I' [L [HR [HL HS]]]]. split; [exact I'|].
  destruct SR as [PP EL ESK | c0 rest0 P1 P2 EL ESK].
  - exists L. split; [eapply pruns_perm_l; [exact HR | exact PP]|]. split.
    + rewrite HL, EL. reflexivity.
    + rewrite HS, ESK. reflexivity.
  - exists (c0 :: L). split; [|split].
    + econstructor; [exact P1|]. eapply pruns_perm_l; [exact HR | exact P2].
    + rewrite HL, EL. cbn [filter]. unfold cm_logged at 2. destruct (is_sink_msg c0); cbn [negb rev app].
      * reflexivity.
      * rewrite <- app_assoc. reflexivity.
    + rewrite HS, ESK. reflexivity.
Qed.

Lemma sink_apply_filter L : forall sk,
  fold_left sink_apply L sk = fold_left sink_apply (filter is_sink_msg L) sk.
Proof.
  induction L as [|c L IH]; intros sk; [reflexivity|]. cbn [fold_left filter].
  destruct c; cbn [is_sink_msg fold_left sink_apply]; apply IH.
Qed.

(* C04, second sentence, for the net model: two runs from the same state, under ANY two choice lists,
   that both end with an empty pool have cm_logged the same multiset of handler invocations and have
   performed the same multiset of sink writes. *)
Theorem net_confluent b s f1 ch1 nd1 s1 nd1' f2 ch2 nd2 s2 nd2' :
  bench_plain b = true -> NInv s ->
  net_run b f1 ch1 s nd1 = Some (s1, nd1') -> net_run b f2 ch2 s nd2 = Some (s2, nd2') ->
  pool_of b s1 = [] -> pool_of b s2 = [] ->
  exists l1 l2 w1 w2,
    invs (log s1) = l1 ++ invs (log s) /\ invs (log s2) = l2 ++ invs (log s) /\ Permutation l1 l2 /\
    sinks s1 = fold_left sink_apply w1 (sinks s) /\ sinks s2 = fold_left sink_apply w2 (sinks s) /\
    Permutation w1 w2.
Proof.
  intros HP I H1 H2 E1 E2.
  destruct (net_run_is_pool_schedule b HP _ _ _ _ _ _ I H1) as [_ [L1 [R1 [G1 K1]]]].
  destruct (net_run_is_pool_schedule b HP _ _ _ _ _ _ I H2) as [_ [L2 [R2 [G2 K2]]]].
  rewrite E1 in R1. rewrite E2 in R2. apply pruns_nil_runs in R1. apply pruns_nil_runs in R2.
  pose proof (conf_unique _ _ _ _ R1 _ _ (Permutation_refl _) R2) as PL.
  exists (rev (filter cm_logged L1)), (rev (filter cm_logged L2)), (filter is_sink_msg L1), (filter is_sink_msg L2).
  repeat split.
  - exact G1.
  - exact G2.
  - rewrite <- !Permutation_rev. apply perm_filter. exact PL.
  - rewrite K1. apply sink_apply_filter.
  - rewrite K2. apply sink_apply_filter.
  - apply perm_filter. exact PL.
Qed.

(* ... and no schedule can do more: if one run ends with an empty pool, any other run from the same
   state - complete or not - has cm_logged at most as many invocations. *)
Theorem net_no_longer_run b s f1 ch1 nd1 s1 nd1' f2 ch2 nd2 s2 nd2' :
  bench_plain b = true -> NInv s ->
  net_run b f1 ch1 s nd1 = Some (s1, nd1') -> net_run b f2 ch2 s nd2 = Some (s2, nd2') ->
  pool_of b s1 = [] ->
  exists l1 l2, invs (log s1) = l1 ++ invs (log s) /\ invs (log s2) = l2 ++ invs (log s) /\
                length l2 <= length l1.
Proof.
  intros HP I H1 H2 E1.
  destruct (net_run_is_pool_schedule b HP _ _ _ _ _ _ I H1) as [_ [L1 [R1 [G1 _]]]].
  destruct (net_run_is_pool_schedule b HP _ _ _ _ _ _ I H2) as [_ [L2 [R2 [G2 _]]]].
  rewrite E1 in R1. apply pruns_nil_runs in R1.
  destruct (conf_complete _ _ _ _ _ R2 _ R1) as [L3 [_ PL]].
  exists (rev (filter cm_logged L1)), (rev (filter cm_logged L2)). repeat split; [exact G1 | exact G2|].
  rewrite !rev_length. rewrite (Permutation_length (perm_filter cm_logged _ _ PL)), filter_app, app_length. lia.
Qed.

(* Non-vacuity: the initial state of a plain bench satisfies the invariant, a process call keeps it, and
   two different choice lists on conf_bench reach an empty pool with differently ordered logs. *)
Lemma NInv_no_frames s :
  (forall t x, nth_error (tasks s) t = Some x -> tfr x = None) -> cancelled s = [] -> NInv s.
Proof.
  intros H C. split.
  - intros t x f E F. rewrite (H _ _ E) in F. discriminate.
  - intros [[|k]|]; unfold key_cancelled; rewrite ?C; reflexivity.
Qed.

Lemma ninv_check_sound s : ninv_check s = true -> NInv s.
Proof.
  unfold ninv_check. intros H. apply andb_prop in H. destruct H as [H1 H2]. split.
  - intros t x f E F. rewrite forallb_forall in H1. specialize (H1 x (nth_error_In _ _ E)).
    rewrite F in H1. exact H1.
  - intros [k|]; [|reflexivity]. unfold key_cancelled.
    destruct (nth_error (cancelled s) k) as [[|]|] eqn:E; try reflexivity.
    rewrite forallb_forall in H2. specialize (H2 true (nth_error_In _ _ E)). discriminate.
Qed.

Definition conf_start : state :=
  spawn (spawn (fst (fst (sim_init conf_bench 100 []))) [OEvent 0 0 4 None]) [OEvent 0 0 5 None].

Example net_confluent_nonvacuous :
  bench_plain conf_bench = true /\ NInv conf_start /\
  exists s1 s2 nd1 nd2,
    net_run conf_bench 500 [] conf_start false = Some (s1, nd1) /\
    net_run conf_bench 500 [3; 1; 4; 1; 5; 9; 2; 6; 5; 3; 5; 8; 9; 7; 9] conf_start false = Some (s2, nd2) /\
    pool_of conf_bench s1 = [] /\ pool_of conf_bench s2 = [] /\
    invs (log s1) <> invs (log s2) /\ length (invs (log s1)) = 10.
Proof.
  split; [vm_compute; reflexivity|]. split; [apply ninv_check_sound; vm_compute; reflexivity|].
  eexists. eexists. eexists. eexists.
  split; [vm_compute; reflexivity|]. split; [vm_compute; reflexivity|].
  split; [vm_compute; reflexivity|]. split; [vm_compute; reflexivity|].
  split; [vm_compute; intro H; discriminate H | vm_compute; reflexivity].
Qed.

(* ---- exactly once (C03) on the pool: what a complete schedule invokes is, as a multiset, exactly the
   initial pool plus everything the invoked handlers sent: nothing lost, duplicated or invented ---- *)
Theorem cruns_balance {M} (react : M -> list M) P L :
  cruns react P L -> Permutation L (P ++ flat_map react L).
Proof.
  induction 1 as [|P m rest L Hp Hr IH]; [reflexivity|].
  cbn [flat_map]. rewrite Hp. change (m :: L) with ([m] ++ L). change (m :: rest) with ([m] ++ rest).
  rewrite IH at 1. aac_reflexivity.
Qed.

Theorem net_processed_is_sent b fuel ch s nd s' nd' :
  bench_plain b = true -> NInv s -> net_run b fuel ch s nd = Some (s', nd') -> pool_of b s' = [] ->
  exists L, Permutation L (pool_of b s ++ flat_map (bench_react b) L) /\
            invs (log s') = rev (filter cm_logged L) ++ invs (log s) /\
            sinks s' = fold_left sink_apply L (sinks s).
Proof.
  intros HP I H E.
  destruct (net_run_is_pool_schedule b HP _ _ _ _ _ _ I H) as [_ [L [R [G K]]]].
  rewrite E in R. apply pruns_nil_runs in R. exists L. split; [exact (cruns_balance _ _ _ R)|]. split; assumption.
Qed.
