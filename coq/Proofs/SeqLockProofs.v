Require Import NX.Base.Prelude NX.Base.ListX NX.Model.SeqLock.

Definition idx (s : slstate) : nat := length (hist s) - 1.

Definition last_val (s : slstate) : tval := nth (idx s) (hist s) (0%Z, 0%Z).

Definition winv (s : slstate) : Prop :=
  length (hist s) >= 1 /\
  match wpc s with
  | 0 => seq s = 2 * idx s /\ (ma s, mb s) = last_val s
  | 1 => seq s = 2 * idx s /\ (ma s, mb s) = last_val s /\ ws s = seq s
  | 2 | 3 => seq s = 2 * idx s + 1 /\ (ma s, mb s) = last_val s /\ ws s = 2 * idx s
  | 4 => seq s = 2 * idx s + 1 /\ ws s = 2 * idx s /\ exists v rest, wvals s = v :: rest /\ ma s = fst v
  | 5 => seq s = 2 * idx s + 1 /\ ws s = 2 * idx s /\ exists v rest, wvals s = v :: rest /\ ma s = fst v /\ mb s = snd v
  | _ => False
  end.

Fixpoint sorted_desc (l : list nat) : Prop :=
  match l with
  | [] => True
  | x :: r => (match r with [] => True | y :: _ => y <= x end) /\ sorted_desc r
  end.

Definition rinv (s : slstate) (r : reader) : Prop :=
  (forall j v, In (j, v) (rout r) -> nth_error (hist s) j = Some v) /\
  sorted_desc (map fst (rout r)) /\
  (forall j v, In (j, v) (rout r) -> 2 * j <= seq s) /\
  (rpc r <= 4) /\
  (rpc r >= 1 -> rs r = 2 * rj r /\ rs r <= seq s /\
                 (forall j v, In (j, v) (rout r) -> j <= rj r) /\
                 (seq s = rs r ->
                    (rpc r >= 2 -> ra r = fst (last_val s)) /\ (rpc r >= 3 -> rb r = snd (last_val s)) /\
                    rj r = idx s)).

Definition sl_inv (s : slstate) : Prop := winv s /\ forall r, In r (readers s) -> rinv s r.

Lemma even_half n : Nat.even n = true -> n = 2 * (n / 2).
Proof.
  intros H. apply Nat.even_spec in H. destruct H as [k ->].
  rewrite Nat.mul_comm, Nat.div_mul by lia. lia.
Qed.

Lemma sl_init_inv v0 vals n : sl_inv (sl_init v0 vals n).
Proof.
  split.
  - unfold winv, idx, last_val; cbn. split; [lia|]. split; [reflexivity|]. destruct v0; reflexivity.
  - intros r Hr. cbn in Hr. apply in_map_iff in Hr. destruct Hr as [x [<- _]].
    unfold rinv; cbn. repeat split; try lia; try (intros j v []); auto.
Qed.

Lemma nth_app_last {A} (l : list A) x d : nth (length (l ++ [x]) - 1) (l ++ [x]) d = x.
Proof. rewrite app_length; cbn. replace (length l + 1 - 1) with (length l) by lia. rewrite app_nth2 by lia. rewrite Nat.sub_diag. reflexivity. Qed.

Lemma rinv_mono s s' r :
  rinv s r ->
  (forall j v, nth_error (hist s) j = Some v -> nth_error (hist s') j = Some v) ->
  seq s <= seq s' ->
  (rpc r >= 1 -> seq s' = rs r -> seq s = rs r /\ last_val s' = last_val s /\ idx s' = idx s) ->
  rinv s' r.
Proof.
  intros (A & B & C & D & E) H1 H2 H3. unfold rinv. repeat split; auto.
  - intros j v Hj. specialize (C j v Hj). lia.
  - destruct (E H) as (E1 & _). exact E1.
  - destruct (E H) as (_ & E2 & _). lia.
  - destruct (E H) as (_ & _ & E3 & _). exact E3.
  - intros G. destruct (H3 H H0) as (X1 & X2 & X3). destruct (E H) as (_ & _ & _ & E4).
    destruct (E4 X1) as (Y1 & _). rewrite X2. auto.
  - intros G. destruct (H3 H H0) as (X1 & X2 & X3). destruct (E H) as (_ & _ & _ & E4).
    destruct (E4 X1) as (_ & Y2 & _). rewrite X2. auto.
  - destruct (H3 H H0) as (X1 & X2 & X3). destruct (E H) as (_ & _ & _ & E4).
    destruct (E4 X1) as (_ & _ & Y3). lia.
Qed.

Lemma writer_step_inv s s' : sl_inv s -> writer_step s = Some s' -> sl_inv s'.
Proof.
  intros [W R]. unfold writer_step. destruct (wvals s) as [|v rest] eqn:EV; [discriminate|].
  destruct W as [HL W].
  assert (RX : forall r, In r (readers s) -> rpc r >= 1 -> rs r = 2 * rj r /\ rs r <= seq s).
  { intros r Hr P. destruct (R r Hr) as (_ & _ & _ & _ & X). destruct (X P) as (X1 & X2 & _). auto. }
  destruct (wpc s) as [|[|[|[|[|[|n]]]]]] eqn:EP; try discriminate; intros H; injection H as <-.
  - destruct W as [W1 W2]. split.
    + unfold winv, idx, last_val in *; cbn. auto.
    + intros r Hr. apply (rinv_mono s); cbn; auto.
  - destruct W as (W1 & W2 & W3). split.
    + unfold winv, idx, last_val in *; cbn. split; auto. split; [lia|]. split; auto. lia.
    + intros r Hr. apply (rinv_mono s); cbn; auto; try lia; try (intros P E; exfalso; destruct (RX r Hr P); lia).
  - destruct W as (W1 & W2 & W3). split.
    + unfold winv, idx, last_val in *; cbn. auto.
    + intros r Hr. apply (rinv_mono s); cbn; auto.
  - destruct W as (W1 & W2 & W3). split.
    + unfold winv, idx, last_val in *; cbn. split; auto. split; auto. split; auto. exists v, rest. auto.
    + intros r Hr. apply (rinv_mono s); cbn; auto; try (intros P E; exfalso; destruct (RX r Hr P); lia).
  - destruct W as (W1 & W2 & v0 & rest0 & W3 & W4). rewrite EV in W3. injection W3 as <- <-. split.
    + unfold winv, idx, last_val in *; cbn. split; auto. split; auto. split; auto. exists v, rest. auto.
    + intros r Hr. apply (rinv_mono s); cbn; auto; try (intros P E; exfalso; destruct (RX r Hr P); lia).
  - destruct W as (W1 & W2 & v0 & rest0 & W3 & W4 & W5). rewrite EV in W3. injection W3 as <- <-. split.
    + unfold winv, idx, last_val in *; cbn. rewrite app_length; cbn. split; [lia|]. split; [lia|].
      replace (length (hist s) + 1 - 1) with (length (hist s)) by lia.
      rewrite app_nth2 by lia. rewrite Nat.sub_diag. cbn. destruct v; cbn in *; congruence.
    + intros r Hr. apply (rinv_mono s); cbn; auto; try lia;
        try (intros P E; exfalso; destruct (RX r Hr P); lia).
      intros j x Hj. rewrite nth_error_app1; auto. apply nth_error_Some. congruence.
Qed.

Lemma div2_lower j n : 2 * j <= n -> j <= n / 2.
Proof. intros H. apply Nat.div_le_lower_bound; lia. Qed.

Lemma even_seq_mem s j : winv s -> seq s = 2 * j -> (ma s, mb s) = last_val s /\ j = idx s.
Proof.
  intros [HL W] E. destruct (wpc s) as [|[|[|[|[|[|k]]]]]]; try contradiction.
  - destruct W as [W1 W2]. split; auto; lia.
  - destruct W as (W1 & W2 & _). split; auto; lia.
  - destruct W as (W1 & _). lia.
  - destruct W as (W1 & _). lia.
  - destruct W as (W1 & _). lia.
  - destruct W as (W1 & _). lia.
Qed.

Lemma reader_step_inv s r : winv s -> rinv s r -> rinv s (reader_step s r).
Proof.
  intros HW (A & B & C & D & E). unfold reader_step.
  destruct (rpc r) as [|[|[|[|n]]]] eqn:EP.
  - destruct (Nat.even (seq s)) eqn:EE; [|unfold rinv; rewrite EP; repeat split; auto; lia].
    pose proof (even_half _ EE) as EH.
    destruct (even_seq_mem s (seq s / 2) HW EH) as [M1 M2].
    unfold rinv; cbn -[Nat.div Nat.mul]. repeat split; auto; try lia.
    intros j v Hj. apply div2_lower. eapply C; eauto.
  - destruct (E ltac:(lia)) as (E1 & E2 & E3 & E4).
    unfold rinv; cbn -[Nat.div Nat.mul]. repeat split; auto; try lia; intros; try lia;
      (match goal with H0 : seq s = rs r |- _ =>
           destruct (E4 H0) as (Y1 & Y2 & Y3);
           destruct (even_seq_mem s (rj r) HW ltac:(lia)) as [M1 M2] end);
      first [lia | (rewrite <- M1; reflexivity) | (apply Y1; lia) | (apply Y2; lia) | assumption].
  - destruct (E ltac:(lia)) as (E1 & E2 & E3 & E4).
    unfold rinv; cbn -[Nat.div Nat.mul]. repeat split; auto; try lia; intros; try lia;
      (match goal with H0 : seq s = rs r |- _ =>
           destruct (E4 H0) as (Y1 & Y2 & Y3);
           destruct (even_seq_mem s (rj r) HW ltac:(lia)) as [M1 M2] end);
      first [lia | (rewrite <- M1; reflexivity) | (apply Y1; lia) | (apply Y2; lia) | assumption].
  - destruct (E ltac:(lia)) as (E1 & E2 & E3 & E4).
    unfold rinv; cbn -[Nat.div Nat.mul]. repeat split; auto; try lia; intros; try lia;
      (match goal with H0 : seq s = rs r |- _ =>
           destruct (E4 H0) as (Y1 & Y2 & Y3);
           destruct (even_seq_mem s (rj r) HW ltac:(lia)) as [M1 M2] end);
      first [lia | (rewrite <- M1; reflexivity) | (apply Y1; lia) | (apply Y2; lia) | assumption].
  - destruct (E ltac:(lia)) as (E1 & E2 & E3 & E4).
    destruct HW as [HL W].
    destruct (Nat.eqb_spec (seq s) (rs r)) as [G|G].
    + destruct (E4 G) as (Y1 & Y2 & Y3).
      unfold rinv; cbn -[Nat.div Nat.mul]. repeat split; auto; try lia.
      * intros j v [X|X]; [|eapply A; eauto]. injection X as <- <-.
        rewrite (Y1 ltac:(lia)), (Y2 ltac:(lia)), Y3. unfold last_val.
        rewrite <- surjective_pairing. apply nth_error_nth'. unfold idx. lia.
      * destruct (rout r) as [|[j0 v0] rest]; cbn; auto. apply (E3 j0 v0). left; reflexivity.
      * intros j v [X|X]; [|eapply C; eauto]. injection X as <- <-. lia.
    + unfold rinv; cbn -[Nat.div Nat.mul]. repeat split; auto; try lia.
Qed.

(* ---------------- every reachable state ---------------- *)

Lemma sl_step_inv s t s' : sl_inv s -> sl_step s t = Some s' -> sl_inv s'.
Proof.
  intros HI. destruct t as [|i]; cbn [sl_step].
  - apply writer_step_inv; auto.
  - destruct (nth_error (readers s) i) as [r|] eqn:E; [|discriminate]. intros H; injection H as <-.
    destruct HI as [W R]. split; [exact W|]. cbn. intros r' Hr'.
    assert (RI : forall x, rinv s x -> rinv (set_readers s (lupd (readers s) i (reader_step s r))) x) by (intros x Hx; exact Hx).
    apply RI. clear RI.
    apply In_nth_error in Hr'. destruct Hr' as [k Hk].
    destruct (Nat.eq_dec i k) as [<-|NE].
    + rewrite nth_error_lupd_eq in Hk by (apply nth_error_Some; congruence). injection Hk as <-.
      apply reader_step_inv; auto. apply R. eapply nth_error_In; eauto.
    + rewrite nth_error_lupd_ne in Hk by auto. apply R. eapply nth_error_In; eauto.
Qed.

Theorem sl_run_inv sched : forall s, sl_inv s -> sl_inv (sl_run s sched).
Proof.
  induction sched as [|t r IH]; intros s HI; cbn [sl_run]; auto.
  destruct (sl_step s t) as [s'|] eqn:E; [apply IH; eapply sl_step_inv; eauto|apply IH; auto].
Qed.

(* A reader only ever returns values that were written (or the initial one),
   never a mix; the values it returns follow the write order. *)
Theorem sl_not_torn v0 vals n sched r j v :
  let s := sl_run (sl_init v0 vals n) sched in
  In r (readers s) -> In (j, v) (rout r) -> nth_error (hist s) j = Some v.
Proof.
  intros s Hr Hv. destruct (sl_run_inv sched _ (sl_init_inv v0 vals n)) as [_ R].
  destruct (R r Hr) as (A & _). eapply A; eauto.
Qed.

Theorem sl_monotone v0 vals n sched r :
  let s := sl_run (sl_init v0 vals n) sched in
  In r (readers s) -> sorted_desc (map fst (rout r)).
Proof.
  intros s Hr. destruct (sl_run_inv sched _ (sl_init_inv v0 vals n)) as [_ R].
  destruct (R r Hr) as (_ & B & _). exact B.
Qed.

(* the history is the initial value followed by a prefix of the values to write *)
Lemma hist_prefix sched : forall s, exists done, hist (sl_run s sched) = hist s ++ done.
Proof.
  induction sched as [|t r IH]; intros s; cbn [sl_run]; [exists []; rewrite app_nil_r; auto|].
  destruct (sl_step s t) as [s'|] eqn:E; [|apply IH].
  destruct (IH s') as [d Hd]. rewrite Hd.
  destruct t as [|i]; cbn [sl_step] in E.
  - unfold writer_step in E. destruct (wvals s) as [|v rest]; [discriminate|].
    destruct (wpc s) as [|[|[|[|[|[|k]]]]]]; try discriminate; injection E as <-; cbn [hist];
      try (exists d; reflexivity). exists (v :: d). rewrite <- app_assoc. reflexivity.
  - destruct (nth_error (readers s) i); [|discriminate]. injection E as <-. exists d. reflexivity.
Qed.
