Require Import NX.Base.Prelude NX.Model.TaskSM NX.Model.TaskInv.
Require Import ZifyBool.

Ltac case_state s :=
  destruct s as [w r c p co al wk tk pr q rn cd fd od dd bp br bf];
  destruct al, c, p, tk, pr, cd, co, rn as [|wc0 c0|wc0| | | ]; try destruct c0.

Ltac fin :=
  unfold last_ref_release, wake_rmw, runnable_exists, has_waker in *;
  cbn in *; try discriminate;
  repeat match goal with
         | H : Some _ = Some _ |- _ => injection H as <-
         | H : (if ?b then _ else _) = Some _ |- _ => destruct b eqn:?; try discriminate
         end;
  cbn in *; try discriminate; try lia;
  repeat (match goal with |- context [if ?b then _ else _] => destruct b eqn:? end; cbn in *; try discriminate; try lia).
