(* The loop body GENERATED from util/seq_futures.rs (gen/SeqFutProg.v, rewritten from the source on every
   run) is the body the specification of SeqFuture::poll is proved for. *)
Require Import NX.Base.Prelude NX.Model.SeqFut NX.gen.SeqFutProg NX.Proofs.SeqFutProofs.

Lemma seqfut_gen_is_proved : seqfut_gen = seqfut_fixed.
Proof. reflexivity. Qed.

Theorem seqfut_gen_spec k ks :
  sq_polls (S (sum_list (k :: ks))) seqfut_gen (k :: ks) sq_init
  = ({| qidx := length (k :: ks); qcur := 0; qtrace := sq_expected 0 (k :: ks); qbad := false; qoob := false |}, true)
  /\ forall m, m <= sum_list (k :: ks) -> snd (sq_polls m seqfut_gen (k :: ks) sq_init) = false.
Proof. rewrite seqfut_gen_is_proved. exact (seqfut_fixed_spec k ks). Qed.
