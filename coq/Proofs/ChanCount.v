(* The in-flight message count of channel.rs: THREAD_MSG_COUNT contributions (+1 after a push, -1 after a
   pop) add up to the number of queued messages, up to the senders that have pushed and not yet counted and
   the receiver that has popped and not yet counted - in every reachable state of the channel model, for the
   programs of the current tree. *)
Require Import NX.Base.Prelude NX.Base.ListX NX.Model.Chan NX.Proofs.ChanInv NX.Proofs.ChanSteps NX.Proofs.ChanProofs.

Definition inc_pending (pc : spc) : bool :=
  match pc with
  | SCancel => true
  | SPost ops => existsb (fun o => match o with SCountInc => true | _ => false end) ops
  | _ => false
  end.
Definition dec_pending (pc : rpc) : bool :=
  match pc with RGot ops => existsb (fun o => match o with RCountDec => true | _ => false end) ops | _ => false end.
Fixpoint ninc (l : list csender) : nat := match l with [] => 0 | v :: r => b2n (inc_pending (spc_ v)) + ninc r end.

Definition CCnt (s : cstate) : Prop :=
  (ccount s + Z.of_nat (ninc (csnd s)) - Z.of_nat (b2n (dec_pending (rpc_ s))) = Z.of_nat (cavail s))%Z
  /\ cpushed s = cpopped s + cavail s.

Lemma ninc_lupd l x v : x < length l ->
  ninc (lupd l x v) + b2n (inc_pending (spc_ (nth x l csdef))) = ninc l + b2n (inc_pending (spc_ v)).
Proof.
  revert x; induction l as [|y l IH]; intros x H; cbn [length] in H; [lia|].
  destruct x; cbn [lupd ninc nth]; [lia|]. specialize (IH x ltac:(lia)). lia.
Qed.

Lemma ninc_repeat n : ninc (repeat csdef n) = 0.
Proof. induction n as [|n IH]; cbn [repeat ninc]; [reflexivity|]. rewrite IH. reflexivity. Qed.

Lemma ccnt_init c n : CCnt (c_init c n).
Proof. unfold CCnt; cbn. rewrite ninc_repeat. split; reflexivity. Qed.

Lemma nth_error_nth_csdef (l : list csender) x v : nth_error l x = Some v -> nth x l csdef = v /\ x < length l.
Proof. intros H. split; [apply nth_error_nth; auto|apply nth_error_Some; congruence]. Qed.

Ltac supd Hv Hx v' :=
  let L := fresh "L" in
  pose proof (ninc_lupd _ _ v' Hx) as L; rewrite Hv in L; cbn in L; unfold b2n in *; cbn in *; try lia.

Lemma cnotify_one_cnt s pick s' : cnotify_one s pick = Some s' ->
  ninc (csnd s') = ninc (csnd s) /\ ccount s' = ccount s /\ cavail s' = cavail s /\ rpc_ s' = rpc_ s /\
  cpushed s' = cpushed s /\ cpopped s' = cpopped s /\ length (csnd s') = length (csnd s) /\
  (forall x v, nth_error (csnd s) x = Some v -> exists v', nth_error (csnd s') x = Some v' /\ spc_ v' = spc_ v).
Proof.
  unfold cnotify_one. destruct pick as [y|].
  - destruct (nth_error (csnd s) y) as [w|] eqn:Ey; [|discriminate].
    destruct (nth_error_nth_csdef _ _ _ Ey) as [Hw Hy].
    destruct (sin w); [|discriminate]. intros H; injection H as <-. cbn.
    refine (conj _ (conj eq_refl (conj eq_refl (conj eq_refl (conj eq_refl (conj eq_refl (conj _ _))))))).
    + pose proof (ninc_lupd _ _ (cmk_s (spc_ w) false true true) Hy) as L. rewrite Hw in L. cbn in L. lia.
    + apply lupd_length.
    + intros x v Hn. destruct (Nat.eq_dec x y) as [->|Hne].
      * rewrite nth_error_lupd_eq by exact Hy. rewrite Ey in Hn. injection Hn as <-. eexists; split; reflexivity.
      * rewrite nth_error_lupd_ne by auto. eexists; split; [exact Hn|reflexivity].
  - destruct (existsb sin (csnd s)); [discriminate|]. intros H; injection H as <-.
    refine (conj eq_refl (conj eq_refl (conj eq_refl (conj eq_refl (conj eq_refl (conj eq_refl (conj eq_refl _))))))).
    intros x v Hn. eexists; split; [exact Hn|reflexivity].
Qed.

Lemma sender_step_cnt s x v pick sp s' :
  CInv s -> CCnt s -> nth_error (csnd s) x = Some v -> sender_step chan_fixed s x v pick sp = Some s' -> CCnt s'.
Proof.
  intros I [C1 C2] Hn Hs. destruct (nth_error_nth_csdef _ _ _ Hn) as [Hv Hx].
  pose proof (c_post s I x) as Hpost. unfold S_ in Hpost. rewrite Hv in Hpost.
  unfold sender_step in Hs. unfold CCnt.
  destruct (spc_ v) as [| | | | | | |ops] eqn:Epc.
  - discriminate.
  - injection Hs as <-. cbn. supd Hv Hx (cmk_s SCheck1 false false (sh v)). rewrite Epc in L. cbn in L. lia.
  - unfold ctry_push in Hs. destruct (cocc s <? ccap s); injection Hs as <-; cbn.
    + supd Hv Hx (cmk_s (SPost [SNotifyRecv; SCountInc]) (sin v) (swk v) false). rewrite Epc in L. cbn in L. lia.
    + supd Hv Hx (cmk_s SIns (sin v) (swk v) false). rewrite Epc in L. cbn in L. lia.
  - injection Hs as <-. cbn. supd Hv Hx (cmk_s SCheck2 true (swk v) (sh v)). rewrite Epc in L. cbn in L. lia.
  - unfold ctry_push in Hs. destruct (cocc s <? ccap s); injection Hs as <-; cbn.
    + supd Hv Hx (cmk_s SCancel (sin v) (swk v) (sh v)). rewrite Epc in L. cbn in L. lia.
    + supd Hv Hx (cmk_s SSleep (sin v) (swk v) false). rewrite Epc in L. cbn in L. lia.
  - destruct (sin v).
    + injection Hs as <-. cbn. supd Hv Hx (cmk_s (SPost [SNotifyRecv; SCountInc]) false (swk v) false). rewrite Epc in L. cbn in L. lia.
    + destruct (cnotify_one s pick) as [s1|] eqn:En; [|discriminate].
      destruct (cnotify_one_cnt _ _ _ En) as (A1 & A2 & A3 & A4 & A5 & A6 & A7 & A8).
      destruct (A8 x v Hn) as [v1 [Hn1 Hpc1]]. rewrite Hn1 in Hs. injection Hs as <-. cbn.
      destruct (nth_error_nth_csdef _ _ _ Hn1) as [Hv1 Hx1].
      pose proof (ninc_lupd _ _ (cmk_s (SPost [SNotifyRecv; SCountInc]) false (swk v1) false) Hx1) as L.
      rewrite Hv1, Hpc1, Epc in L. cbn in L. rewrite A2, A3, A4, A5, A6. unfold b2n in *. lia.
  - destruct (swk v || sp); [|discriminate]. injection Hs as <-. cbn.
    supd Hv Hx (cmk_s SPoll (sin v) false (sh v)). rewrite Epc in L. cbn in L. lia.
  - cbn in Hpost. destruct Hpost as [->|[->| ->]]; injection Hs as <-.
    + destruct (rreg s); cbn;
        (pose proof (ninc_lupd _ _ (cmk_s (SPost [SCountInc]) (sin v) (swk v) (sh v)) Hx) as L; rewrite Hv, Epc in L; cbn in L; unfold b2n in *; lia).
    + cbn. pose proof (ninc_lupd _ _ (cmk_s (SPost []) (sin v) (swk v) (sh v)) Hx) as L. rewrite Hv, Epc in L. cbn in L. unfold b2n in *. lia.
    + cbn. pose proof (ninc_lupd _ _ (cmk_s SIdle (sin v) (swk v) (sh v)) Hx) as L. rewrite Hv, Epc in L. cbn in L. unfold b2n in *. lia.
Qed.

Lemma recv_step_cnt s pick sp s' : CInv s -> CCnt s -> recv_step chan_fixed s pick sp = Some s' -> CCnt s'.
Proof.
  intros I [C1 C2] Hs. pose proof (c_got s I) as Hgot. unfold recv_step in Hs. unfold CCnt.
  destruct (rpc_ s) as [| | | |ops|] eqn:Epc.
  - destruct (cavail s) as [|a] eqn:Ea; injection Hs as <-; cbn; cbn in C1; rewrite ?Ea in *; unfold b2n in *; lia.
  - injection Hs as <-; cbn; cbn in C1; unfold b2n in *; lia.
  - destruct (cavail s) as [|a] eqn:Ea; injection Hs as <-; cbn; cbn in C1; rewrite ?Ea in *; unfold b2n in *; lia.
  - destruct (rwk s || sp); [|discriminate]. injection Hs as <-; cbn; cbn in C1; unfold b2n in *; lia.
  - cbn in Hgot. destruct Hgot as [->|[->|[->|[->| ->]]]].
    + injection Hs as <-; cbn; cbn in C1; unfold b2n in *; lia.
    + injection Hs as <-; cbn; cbn in C1; unfold b2n in *; lia.
    + injection Hs as <-; cbn; cbn in C1; unfold b2n in *; lia.
    + destruct (cnotify_one s pick) as [s1|] eqn:En; [|discriminate].
      destruct (cnotify_one_cnt _ _ _ En) as (A1 & A2 & A3 & A4 & A5 & A6 & A7 & A8).
      injection Hs as <-. cbn. rewrite A1, A2, A3, A5, A6. cbn in C1. unfold b2n in *. lia.
    + injection Hs as <-; cbn; cbn in C1; unfold b2n in *; lia.
  - discriminate.
Qed.

Lemma c_step_cnt s l s' : CInv s -> CCnt s -> c_step chan_fixed s l = Some s' -> CCnt s'.
Proof.
  intros I C Hs. destruct l as [x pick sp|x|pick sp|]; cbn [c_step] in Hs.
  - destruct (nth_error (csnd s) x) as [v|] eqn:E; [|discriminate]. eapply sender_step_cnt; eauto.
  - destruct (nth_error (csnd s) x) as [v|] eqn:E; [|discriminate].
    destruct (nth_error_nth_csdef _ _ _ E) as [Hv Hx].
    destruct (spc_ v) eqn:Epc; try discriminate. injection Hs as <-. destruct C as [C1 C2]. unfold CCnt. cbn.
    pose proof (ninc_lupd _ _ (cmk_s SPoll (sin v) false (sh v)) Hx) as L. rewrite Hv, Epc in L. cbn in L. unfold b2n in *. lia.
  - eapply recv_step_cnt; eauto.
  - destruct (rpc_ s) eqn:Epc; try discriminate. injection Hs as <-. destruct C as [C1 C2]. unfold CCnt. cbn.
    rewrite Epc in C1. cbn in C1. unfold b2n in *. lia.
Qed.

Theorem chan_run_cnt c n ls : CCnt (c_run chan_fixed (c_init c n) ls).
Proof.
  assert (G : forall s, CInv s -> CCnt s -> CCnt (c_run chan_fixed s ls) /\ CInv (c_run chan_fixed s ls)).
  { induction ls as [|l ls IH]; intros s I C; cbn [c_run]; [split; auto|].
    destruct (c_step chan_fixed s l) as [s'|] eqn:E; [|apply IH; auto].
    apply IH; [eapply c_step_inv; eauto|eapply c_step_cnt; eauto]. }
  apply G; [apply cinv_init|apply ccnt_init].
Qed.

Lemma ninc_zero l : (forall x, inc_pending (spc_ (nth x l csdef)) = false) -> ninc l = 0.
Proof.
  induction l as [|v l IH]; intros H; cbn [ninc]; [reflexivity|].
  rewrite IH; [|intros x; apply (H (S x))]. specialize (H 0); cbn in H. rewrite H. reflexivity.
Qed.

(* when no sender is between its push and its count update, and the receiver is not between its pop and its
   count update, the sum of the thread counts contributed through this channel is exactly the number of
   queued messages *)
Theorem chan_count_is_queued c n ls :
  let s := c_run chan_fixed (c_init c n) ls in
  (forall x, inc_pending (spc_ (S_ s x)) = false) -> dec_pending (rpc_ s) = false ->
  ccount s = Z.of_nat (cavail s).
Proof.
  intros s Hi Hd. destruct (chan_run_cnt c n ls) as [C1 _]. fold s in C1.
  rewrite ninc_zero in C1 by exact Hi. rewrite Hd in C1. cbn in C1. lia.
Qed.
