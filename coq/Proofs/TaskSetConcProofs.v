(* Invariant of the concurrent TaskSet model and its consequences: the linked lists are never
   corrupted (the iterator never meets SLEEPING), a completed wake-up is never lost (the task
   stays pending until the owner yields or discards it). *)
Require Import NX.Base.Prelude NX.Base.ListX NX.Model.TaskSetConc.

(* the list reachable from o through the next pointers *)
Fixpoint chain (nx : list nst) (o : option nat) (l : list nat) : Prop :=
  match l with
  | [] => o = None
  | i :: r => o = Some i /\ exists x, nth i nx NSleep = NIdx x /\ chain nx x r
  end.

Definition citer (c : cphase) : option nat :=
  match c with CIter it => it | CDrop it _ => it | _ => None end.

Definition claimed (w : waker) : Prop := kpc w = 4 \/ kpc w = 5.

Definition pending (s : tstate) (lh li : list nat) (i : nat) : Prop :=
  In i (lh ++ li) \/ exists j w, nth_error (tkwakers s) j = Some w /\ claimed w /\ kti w = i.

Record Lists (s : tstate) (lh li : list nat) : Prop := {
  l_head : chain (tnext s) (snd (thead s)) lh;
  l_iter : chain (tnext s) (citer (cph s)) li;
  l_nodup : NoDup (lh ++ li);
  l_claimed : forall j w, nth_error (tkwakers s) j = Some w -> claimed w ->
      ~ In (kti w) (lh ++ li) /\ (exists x, nth (kti w) (tnext s) NSleep = NIdx x) /\
      (kpc w = 4 -> nth (kti w) (tnext s) NSleep = NIdx (snd (khd w)));
  l_uniq : forall j k w v, nth_error (tkwakers s) j = Some w -> nth_error (tkwakers s) k = Some v -> j <> k ->
      claimed w -> claimed v -> kti w <> kti v;
  l_cover : forall i x, nth i (tnext s) NSleep = NIdx x -> pending s lh li i;
  l_drop : forall idx nx, cph s = CDrop (Some idx) (Some nx) -> nx = nth idx (tnext s) NSleep;
  l_woken : forall i, nth i (woken s) false = true -> pending s lh li i
}.

Record TInv (s : tstate) : Prop := {
  ti_len : length (woken s) = length (tnext s);
  ti_panic : tpanic s = 0;
  ti_wpc : forall j w, nth_error (tkwakers s) j = Some w ->
      kpc w <= 6 /\ kti w < length (tnext s) /\ (kpc w = 3 -> knxt w <> NSleep);
  ti_lists : exists lh li, Lists s lh li
}.

(* ---------------- chains ---------------- *)
Lemma nth_lupd_gen {A} (l : list A) i j x d : nth j (lupd l i x) d = if Nat.eqb j i then (if Nat.ltb i (length l) then x else d) else nth j l d.
Proof.
  revert i j; induction l as [|y r IH]; intros i j.
  - cbn [lupd]. destruct (Nat.eqb j i); destruct j; reflexivity.
  - destruct i as [|i], j as [|j]; cbn [lupd nth length]; try reflexivity.
    rewrite IH. change (Nat.eqb (S j) (S i)) with (Nat.eqb j i). change (Nat.ltb (S i) (S (length r))) with (Nat.ltb i (length r)). reflexivity.
Qed.

Lemma chain_none nx l : chain nx None l -> l = [].
Proof. destruct l as [|i r]; [reflexivity|]. intros [H _]. discriminate. Qed.

Lemma chain_lupd nx i v : forall l o, chain nx o l -> ~ In i l -> chain (lupd nx i v) o l.
Proof.
  induction l as [|k r IH]; intros o Hc Hn; [exact Hc|].
  destruct Hc as (Ho & x & Hx & Hr). split; [exact Ho|]. exists x. split.
  - rewrite nth_lupd_gen. destruct (Nat.eqb_spec k i) as [->|_]; [exfalso; apply Hn; left; reflexivity|exact Hx].
  - apply IH; [exact Hr|]. intros H; apply Hn; right; exact H.
Qed.

Lemma chain_nidx nx : forall l o i, chain nx o l -> In i l -> exists x, nth i nx NSleep = NIdx x.
Proof.
  induction l as [|k r IH]; intros o i Hc Hi; [destruct Hi|].
  destruct Hc as (_ & x & Hx & Hr). destruct Hi as [->|Hi]; [eauto|eapply IH; eauto].
Qed.

Lemma nth_error_lupd_inv {A} (l : list A) i j x y :
  nth_error (lupd l i x) j = Some y -> (j = i /\ y = x) \/ (j <> i /\ nth_error l j = Some y).
Proof.
  intros H. destruct (Nat.eq_dec j i) as [->|Hne].
  - left. split; [reflexivity|]. destruct (Nat.lt_ge_cases i (length l)) as [L|L].
    + rewrite nth_error_lupd_eq in H by exact L. congruence.
    + assert (nth_error (lupd l i x) i = None) by (apply nth_error_None; rewrite lupd_length; exact L). congruence.
  - right. split; [exact Hne|]. rewrite nth_error_lupd_ne in H by congruence. exact H.
Qed.

Ltac tproj := cbn [thead tnext tkwakers cph yielded woken tnotif tpanic set_w set_c mkw kpc kti knxt khd] in *.

Lemma nst_eqb_true a b : nst_eqb a b = true -> a = b.
Proof.
  destruct a as [|[x|]], b as [|[y|]]; cbn; try discriminate; auto.
  intros H. apply Nat.eqb_eq in H. congruence.
Qed.

Lemma hd_eqb_true a b : hd_eqb a b = true -> a = b.
Proof.
  destruct a as [c1 [x|]], b as [c2 [y|]]; unfold hd_eqb; cbn; rewrite ?andb_true_iff, ?andb_false_r; try (intros [_ H]; discriminate).
  - intros [H1 H2]. apply Nat.eqb_eq in H1, H2. congruence.
  - intros [H1 _]. apply Nat.eqb_eq in H1. congruence.
Qed.

(* a waker whose local state changes without becoming or ceasing to be a claimant *)
Lemma lists_set_w_local s j w w' lh li :
  Lists s lh li -> nth_error (tkwakers s) j = Some w -> ~ claimed w -> ~ claimed w' -> Lists (set_w s j w') lh li.
Proof.
  intros [A B C D E F G H] Hj Hn Hn'. constructor; unfold pending in *; tproj; auto.
  - intros k v Hk Hc. apply nth_error_lupd_inv in Hk. destruct Hk as [[-> ->]|[Hne Hk]]; [contradiction|eauto].
  - intros k1 k2 v1 v2 H1 H2 Hne C1 C2. apply nth_error_lupd_inv in H1. apply nth_error_lupd_inv in H2.
    destruct H1 as [[-> ->]|[N1 H1]]; [contradiction|]. destruct H2 as [[-> ->]|[N2 H2]]; [contradiction|]. eauto.
  - intros i x Hi. destruct (F i x Hi) as [P|(k & v & Hk & Hc & Hv)]; [left; exact P|right].
    exists k, v. tproj. split; [|auto]. rewrite nth_error_lupd_ne; [exact Hk|]. intros ->. rewrite Hj in Hk. injection Hk as <-. contradiction.
  - intros i Hi. destruct (H i Hi) as [P|(k & v & Hk & Hc & Hv)]; [left; exact P|right].
    exists k, v. tproj. split; [|auto]. rewrite nth_error_lupd_ne; [exact Hk|]. intros ->. rewrite Hj in Hk. injection Hk as <-. contradiction.
Qed.

Lemma tinv_set_w_local s j w w' :
  TInv s -> nth_error (tkwakers s) j = Some w -> ~ claimed w -> ~ claimed w' ->
  kpc w' <= 6 -> kti w' = kti w -> (kpc w' = 3 -> knxt w' <> NSleep) -> TInv (set_w s j w').
Proof.
  intros [A B C (lh & li & L)] Hj Hn Hn' Hpc Hwi H3. constructor; tproj; auto.
  - intros k v Hk. apply nth_error_lupd_inv in Hk. destruct Hk as [[-> ->]|[Hne Hk]]; [|eauto].
    destruct (C j w Hj) as (_ & Hl & _). rewrite Hwi. auto.
  - exists lh, li. eapply lists_set_w_local; eauto.
Qed.

Lemma pending_mono s s' lh li lh' li' i :
  pending s lh li i ->
  (forall x, In x (lh ++ li) -> In x (lh' ++ li')) ->
  (forall k v, nth_error (tkwakers s) k = Some v -> claimed v ->
     In (kti v) (lh' ++ li') \/ exists k' v', nth_error (tkwakers s') k' = Some v' /\ claimed v' /\ kti v' = kti v) ->
  pending s' lh' li' i.
Proof.
  intros [P|(k & v & Hk & Hc & Hv)] Hl Hw; [left; apply Hl; exact P|].
  destruct (Hw k v Hk Hc) as [Q|(k' & v' & Hk' & Hc' & Hv')]; [left; rewrite <- Hv; exact Q|right].
  exists k', v'. split; [exact Hk'|]. split; [exact Hc'|congruence].
Qed.

(* the claimants of a state in which waker j got a new local state that is claimed with the same task *)
Lemma claimants_upd s j w' :
  forall k v, nth_error (tkwakers s) k = Some v -> claimed v ->
    (k = j -> claimed w' /\ kti w' = kti v) ->
    exists k' v', nth_error (lupd (tkwakers s) j w') k' = Some v' /\ claimed v' /\ kti v' = kti v.
Proof.
  intros k v Hk Hc Hj. destruct (Nat.eq_dec k j) as [->|Hne].
  - destruct (Hj eq_refl) as [C W]. exists j, w'. split; [|auto].
    apply nth_error_lupd_eq. apply nth_error_Some. congruence.
  - exists k, v. split; [|auto]. rewrite nth_error_lupd_ne by congruence. exact Hk.
Qed.

(* ---------------- waker steps ---------------- *)
Lemma not_sleep_in_lists s lh li i : Lists s lh li -> In i (lh ++ li) -> exists x, nth i (tnext s) NSleep = NIdx x.
Proof.
  intros L Hi. apply in_app_or in Hi. destruct Hi as [Hi|Hi].
  - eapply chain_nidx; [exact (l_head _ _ _ L)|exact Hi].
  - eapply chain_nidx; [exact (l_iter _ _ _ L)|exact Hi].
Qed.

Lemma claim_step s j w :
  TInv s -> nth_error (tkwakers s) j = Some w -> kpc w = 2 -> nth (kti w) (tnext s) NSleep = NSleep ->
  TInv {| thead := thead s; tnext := lupd (tnext s) (kti w) (NIdx (snd (khd w))); tkwakers := lupd (tkwakers s) j (mkw 4 (kti w) (knxt w) (khd w));
          cph := cph s; yielded := yielded s; woken := woken s; tnotif := tnotif s; tpanic := tpanic s |}.
Proof.
  intros [A B C (lh & li & L)] Hj Hpc Hsl. pose proof (C j w Hj) as (_ & Hlt & _).
  set (i := kti w) in *.
  assert (Hnl : ~ In i (lh ++ li)).
  { intros Hi. destruct (not_sleep_in_lists _ _ _ _ L Hi) as (x & Hx). congruence. }
  assert (Hother : forall k v, nth_error (tkwakers s) k = Some v -> claimed v -> kti v <> i).
  { intros k v Hk Hc E. destruct (l_claimed _ _ _ L k v Hk Hc) as (_ & (x & Hx) & _). rewrite E in Hx. congruence. }
  assert (Hnc : ~ claimed w) by (intros [E|E]; lia).
  assert (Hb : Nat.ltb i (length (tnext s)) = true) by (apply Nat.ltb_lt; exact Hlt).
  constructor; tproj.
  - rewrite lupd_length. exact A.
  - exact B.
  - intros k v Hk. rewrite lupd_length. apply nth_error_lupd_inv in Hk. destruct Hk as [[-> ->]|[Hne Hk]]; [|apply (C k v Hk)].
    tproj. split; [lia|]. split; [exact Hlt|intros E; discriminate].
  - exists lh, li. destruct L as [L1 L2 L3 L4 L5 L6 L7 L8]. constructor; tproj.
    + apply chain_lupd; [exact L1|]. intros Hi. apply Hnl. apply in_or_app. left. exact Hi.
    + apply chain_lupd; [exact L2|]. intros Hi. apply Hnl. apply in_or_app. right. exact Hi.
    + exact L3.
    + intros k v Hk Hc. apply nth_error_lupd_inv in Hk. destruct Hk as [[-> ->]|[Hne Hk]]; tproj.
      * split; [exact Hnl|]. rewrite nth_lupd_gen, Nat.eqb_refl, Hb. split; [eauto|reflexivity].
      * destruct (L4 k v Hk Hc) as (Q1 & Q2 & Q3). pose proof (Hother k v Hk Hc) as Hd.
        rewrite nth_lupd_gen. destruct (Nat.eqb_spec (kti v) i); [contradiction|]. auto.
    + intros k1 k2 v1 v2 H1 H2 Hne C1 C2. apply nth_error_lupd_inv in H1. apply nth_error_lupd_inv in H2.
      destruct H1 as [[-> ->]|[N1 H1]], H2 as [[-> ->]|[N2 H2]]; tproj.
      * congruence.
      * intros E. apply (Hother k2 v2 H2 C2). symmetry. exact E.
      * exact (Hother k1 v1 H1 C1).
      * eauto.
    + intros i' x Hx. rewrite nth_lupd_gen in Hx. destruct (Nat.eqb_spec i' i) as [->|Hd].
      * right. exists j, (mkw 4 i (knxt w) (khd w)). tproj. split; [apply nth_error_lupd_eq; apply nth_error_Some; congruence|]. split; [left; reflexivity|reflexivity].
      * eapply pending_mono; [exact (L6 i' x Hx)|auto|]. intros k v Hk Hc. right. tproj.
        apply (claimants_upd s j _ k v Hk Hc). intros ->. rewrite Hj in Hk. injection Hk as <-. contradiction.
    + intros idx nx Hc. rewrite nth_lupd_gen. destruct (Nat.eqb_spec idx i) as [->|_]; [|apply L7; exact Hc].
      exfalso. apply Hnl. apply in_or_app. right. rewrite Hc in L2. cbn [citer] in L2. destruct li as [|a r]; [discriminate L2|].
      destruct L2 as (E & _). injection E as <-. left. reflexivity.
    + intros i' Hi'. eapply pending_mono; [exact (L8 i' Hi')|auto|]. intros k v Hk Hc. right. tproj.
      apply (claimants_upd s j _ k v Hk Hc). intros ->. rewrite Hj in Hk. injection Hk as <-. contradiction.
Qed.

(* the no-op compare-exchange succeeded: the wake-up is absorbed by the pending one *)
Lemma absorb_step s j w :
  TInv s -> nth_error (tkwakers s) j = Some w -> kpc w = 3 -> nth (kti w) (tnext s) NSleep = knxt w ->
  TInv {| thead := thead s; tnext := tnext s; tkwakers := lupd (tkwakers s) j (mkw 6 (kti w) (knxt w) (khd w));
          cph := cph s; yielded := yielded s; woken := lupd (woken s) (kti w) true; tnotif := tnotif s; tpanic := tpanic s |}.
Proof.
  intros [A B C (lh & li & L)] Hj Hpc Hnx. pose proof (C j w Hj) as (_ & Hlt & H3).
  assert (Hnc : ~ claimed w) by (intros [E|E]; lia).
  destruct (knxt w) as [|x] eqn:Ew; [exfalso; apply (H3 Hpc); reflexivity|].
  constructor; tproj.
  - rewrite lupd_length. exact A.
  - exact B.
  - intros k v Hk. apply nth_error_lupd_inv in Hk. destruct Hk as [[-> ->]|[Hne Hk]]; [|apply (C k v Hk)].
    tproj. split; [lia|]. split; [exact Hlt|intros E; discriminate].
  - exists lh, li. destruct L as [L1 L2 L3 L4 L5 L6 L7 L8].
    assert (Hpm : forall i', pending s lh li i' ->
              pending {| thead := thead s; tnext := tnext s; tkwakers := lupd (tkwakers s) j (mkw 6 (kti w) (NIdx x) (khd w));
                         cph := cph s; yielded := yielded s; woken := lupd (woken s) (kti w) true; tnotif := tnotif s; tpanic := tpanic s |} lh li i').
    { intros i' Hp. eapply pending_mono; [exact Hp|auto|]. intros k v Hk Hc. right. tproj.
      apply (claimants_upd s j _ k v Hk Hc). intros ->. rewrite Hj in Hk. injection Hk as <-. contradiction. }
    constructor; tproj; auto.
    + intros k v Hk Hc. apply nth_error_lupd_inv in Hk. destruct Hk as [[-> ->]|[Hne Hk]]; [destruct Hc as [E|E]; discriminate|eauto].
    + intros k1 k2 v1 v2 H1 H2 Hne C1 C2. apply nth_error_lupd_inv in H1. apply nth_error_lupd_inv in H2.
      destruct H1 as [[-> ->]|[N1 H1]]; [destruct C1 as [E|E]; discriminate|].
      destruct H2 as [[-> ->]|[N2 H2]]; [destruct C2 as [E|E]; discriminate|]. eauto.
    + intros i' y Hy. apply Hpm. eapply L6; eauto.
    + intros i' Hi'. apply Hpm. rewrite nth_lupd_gen in Hi'. destruct (Nat.eqb_spec i' (kti w)) as [E|_]; [|apply L8; exact Hi'].
      rewrite E. eapply L6. exact Hnx.
Qed.

(* the compare-exchange on head succeeded: the claimed task is linked in *)
Lemma push_step s j w :
  TInv s -> nth_error (tkwakers s) j = Some w -> kpc w = 4 -> thead s = khd w ->
  TInv {| thead := (fst (khd w) - 1, Some (kti w)); tnext := tnext s; tkwakers := lupd (tkwakers s) j (mkw 6 (kti w) (knxt w) (khd w));
          cph := cph s; yielded := yielded s; woken := lupd (woken s) (kti w) true;
          tnotif := tnotif s + (if Nat.eqb (fst (khd w)) 1 then 1 else 0); tpanic := tpanic s |}.
Proof.
  intros [A B C (lh & li & L)] Hj Hpc Hhd. pose proof (C j w Hj) as (_ & Hlt & _).
  set (i := kti w) in *.
  destruct L as [L1 L2 L3 L4 L5 L6 L7 L8].
  destruct (L4 j w Hj (or_introl Hpc)) as (Hnl & _ & Hnx). specialize (Hnx Hpc).
  constructor; tproj.
  - rewrite lupd_length. exact A.
  - exact B.
  - intros k v Hk. apply nth_error_lupd_inv in Hk. destruct Hk as [[-> ->]|[Hne Hk]]; [|apply (C k v Hk)].
    tproj. split; [lia|]. split; [exact Hlt|intros E; discriminate].
  - exists (i :: lh), li.
    assert (Hpm : forall i', pending s lh li i' ->
              pending {| thead := (fst (khd w) - 1, Some i); tnext := tnext s; tkwakers := lupd (tkwakers s) j (mkw 6 i (knxt w) (khd w));
                         cph := cph s; yielded := yielded s; woken := lupd (woken s) i true;
                         tnotif := tnotif s + (if Nat.eqb (fst (khd w)) 1 then 1 else 0); tpanic := tpanic s |} (i :: lh) li i').
    { intros i' Hp. eapply pending_mono; [exact Hp|intros y Hy; right; exact Hy|]. intros k v Hk Hc. tproj.
      destruct (Nat.eq_dec k j) as [->|Hne].
      - rewrite Hj in Hk. injection Hk as <-. left. left. reflexivity.
      - right. exists k, v. split; [rewrite nth_error_lupd_ne by congruence; exact Hk|auto]. }
    constructor; tproj.
    + cbn [snd chain]. split; [reflexivity|]. exists (snd (khd w)). split; [exact Hnx|]. rewrite <- Hhd. exact L1.
    + exact L2.
    + cbn [app]. constructor; [exact Hnl|exact L3].
    + intros k v Hk Hc. apply nth_error_lupd_inv in Hk. destruct Hk as [[-> ->]|[Hne Hk]]; [destruct Hc as [E|E]; discriminate|].
      destruct (L4 k v Hk Hc) as (Q1 & Q2 & Q3). split; [|split; assumption].
      cbn [app]. intros [E|E]; [|contradiction]. eapply (L5 j k w v); eauto. left; exact Hpc.
    + intros k1 k2 v1 v2 H1 H2 Hne C1 C2. apply nth_error_lupd_inv in H1. apply nth_error_lupd_inv in H2.
      destruct H1 as [[-> ->]|[N1 H1]]; [destruct C1 as [E|E]; discriminate|].
      destruct H2 as [[-> ->]|[N2 H2]]; [destruct C2 as [E|E]; discriminate|]. eauto.
    + intros i' y Hy. apply Hpm. eapply L6; eauto.
    + exact L7.
    + intros i' Hi'. rewrite nth_lupd_gen in Hi'. destruct (Nat.eqb_spec i' i) as [E|_]; [rewrite E; left; left; reflexivity|].
      apply Hpm. apply L8. exact Hi'.
Qed.

(* local changes of a claimant that stays a claimant of the same task (push failed: reload head) *)
Lemma reload_step s j w hd :
  TInv s -> nth_error (tkwakers s) j = Some w -> kpc w = 4 ->
  TInv (set_w s j (mkw 5 (kti w) (knxt w) hd)).
Proof.
  intros [A B C (lh & li & L)] Hj Hpc. pose proof (C j w Hj) as (_ & Hlt & _).
  destruct L as [L1 L2 L3 L4 L5 L6 L7 L8].
  assert (Hpm : forall i', pending s lh li i' -> pending (set_w s j (mkw 5 (kti w) (knxt w) hd)) lh li i').
  { intros i' Hp. eapply pending_mono; [exact Hp|auto|]. intros k v Hk Hc. right. tproj.
    apply (claimants_upd s j _ k v Hk Hc). intros ->. rewrite Hj in Hk. injection Hk as <-. split; [right; reflexivity|reflexivity]. }
  constructor; tproj; auto.
  - intros k v Hk. apply nth_error_lupd_inv in Hk. destruct Hk as [[-> ->]|[Hne Hk]]; [|apply (C k v Hk)].
    tproj. split; [lia|]. split; [exact Hlt|intros E; discriminate].
  - exists lh, li. constructor; tproj.
    + exact L1.
    + exact L2.
    + exact L3.
    + intros k v Hk Hc. apply nth_error_lupd_inv in Hk. destruct Hk as [[-> ->]|[Hne Hk]]; [|eauto]. tproj.
      destruct (L4 j w Hj (or_introl Hpc)) as (Q1 & Q2 & _). split; [exact Q1|]. split; [exact Q2|intros E; discriminate].
    + intros k1 k2 v1 v2 H1 H2 Hne C1 C2. apply nth_error_lupd_inv in H1. apply nth_error_lupd_inv in H2.
      destruct H1 as [[-> ->]|[N1 H1]], H2 as [[-> ->]|[N2 H2]]; tproj.
      * congruence.
      * eapply (L5 j k2 w v2); eauto. left; exact Hpc.
      * eapply (L5 k1 j v1 w); eauto. left; exact Hpc.
      * eauto.
    + intros i' y Hy. apply Hpm. eapply L6; eauto.
    + exact L7.
    + intros i' Hi'. apply Hpm. apply L8. exact Hi'.
Qed.

(* after a failed push: next[i] := the index of the head just read *)
Lemma swap_step s j w :
  TInv s -> nth_error (tkwakers s) j = Some w -> kpc w = 5 ->
  TInv {| thead := thead s; tnext := lupd (tnext s) (kti w) (NIdx (snd (khd w))); tkwakers := lupd (tkwakers s) j (mkw 4 (kti w) (knxt w) (khd w));
          cph := cph s; yielded := yielded s; woken := woken s; tnotif := tnotif s; tpanic := tpanic s |}.
Proof.
  intros [A B C (lh & li & L)] Hj Hpc. pose proof (C j w Hj) as (_ & Hlt & _).
  set (i := kti w) in *.
  destruct L as [L1 L2 L3 L4 L5 L6 L7 L8].
  destruct (L4 j w Hj (or_intror Hpc)) as (Hnl & (x0 & Hx0) & _).
  assert (Hb : Nat.ltb i (length (tnext s)) = true) by (apply Nat.ltb_lt; exact Hlt).
  assert (Hother : forall k v, nth_error (tkwakers s) k = Some v -> claimed v -> k <> j -> kti v <> i).
  { intros k v Hk Hc Hne. eapply (L5 k j v w); eauto. right; exact Hpc. }
  set (s' := {| thead := thead s; tnext := lupd (tnext s) i (NIdx (snd (khd w))); tkwakers := lupd (tkwakers s) j (mkw 4 i (knxt w) (khd w));
                cph := cph s; yielded := yielded s; woken := woken s; tnotif := tnotif s; tpanic := tpanic s |}).
  assert (Hpm : forall i', pending s lh li i' -> pending s' lh li i').
  { intros i' Hp. eapply pending_mono; [exact Hp|auto|]. intros k v Hk Hc. right. unfold s'. tproj.
    apply (claimants_upd s j _ k v Hk Hc). intros ->. rewrite Hj in Hk. injection Hk as <-. split; [left; reflexivity|reflexivity]. }
  constructor; unfold s'; tproj.
  - rewrite lupd_length. exact A.
  - exact B.
  - intros k v Hk. rewrite lupd_length. apply nth_error_lupd_inv in Hk. destruct Hk as [[-> ->]|[Hne Hk]]; [|apply (C k v Hk)].
    tproj. split; [lia|]. split; [exact Hlt|intros E; discriminate].
  - exists lh, li. constructor; unfold s'; tproj.
    + apply chain_lupd; [exact L1|]. intros Hi. apply Hnl. apply in_or_app. left. exact Hi.
    + apply chain_lupd; [exact L2|]. intros Hi. apply Hnl. apply in_or_app. right. exact Hi.
    + exact L3.
    + intros k v Hk Hc. apply nth_error_lupd_inv in Hk. destruct Hk as [[-> ->]|[Hne Hk]]; tproj.
      * split; [exact Hnl|]. rewrite nth_lupd_gen, Nat.eqb_refl, Hb. split; [eauto|reflexivity].
      * destruct (L4 k v Hk Hc) as (Q1 & Q2 & Q3). pose proof (Hother k v Hk Hc Hne) as Hd.
        rewrite nth_lupd_gen. destruct (Nat.eqb_spec (kti v) i); [contradiction|]. auto.
    + intros k1 k2 v1 v2 H1 H2 Hne C1 C2. apply nth_error_lupd_inv in H1. apply nth_error_lupd_inv in H2.
      destruct H1 as [[-> ->]|[N1 H1]], H2 as [[-> ->]|[N2 H2]]; tproj.
      * congruence.
      * intros E. apply (Hother k2 v2 H2 C2 N2). symmetry. exact E.
      * exact (Hother k1 v1 H1 C1 N1).
      * eauto.
    + intros i' y Hy. rewrite nth_lupd_gen in Hy. destruct (Nat.eqb_spec i' i) as [->|Hd].
      * right. exists j, (mkw 4 i (knxt w) (khd w)). tproj. split; [apply nth_error_lupd_eq; apply nth_error_Some; congruence|]. split; [left; reflexivity|reflexivity].
      * apply Hpm. eapply L6; eauto.
    + intros idx nx Hc. rewrite nth_lupd_gen. destruct (Nat.eqb_spec idx i) as [->|_]; [|apply L7; exact Hc].
      exfalso. apply Hnl. apply in_or_app. right. rewrite Hc in L2. cbn [citer] in L2. destruct li as [|a r]; [discriminate L2|].
      destruct L2 as (E & _). injection E as <-. left. reflexivity.
    + intros i' Hi'. apply Hpm. apply L8. exact Hi'.
Qed.

(* ---------------- the consumer ---------------- *)
(* only the consumer's phase changes, the iterator position stays the same *)
Lemma tinv_set_c_same s c :
  TInv s -> citer c = citer (cph s) ->
  (forall idx nx, c = CDrop (Some idx) (Some nx) -> nx = nth idx (tnext s) NSleep) ->
  TInv (set_c s c).
Proof.
  intros [A B C (lh & li & L)] Hc Hd. constructor; tproj; auto.
  exists lh, li. destruct L as [L1 L2 L3 L4 L5 L6 L7 L8]. constructor; unfold pending in *; tproj; auto.
  rewrite Hc. exact L2.
Qed.

(* take_scheduled: the compare-exchange on head succeeded *)
Lemma take_step s k hd :
  TInv s -> cph s = CTake k (Some hd) -> thead s = hd ->
  TInv {| thead := match snd hd with None => (k, None) | Some _ => (0, None) end; tnext := tnext s; tkwakers := tkwakers s;
          cph := match snd hd with None => CIdle | Some x => CIter (Some x) end;
          yielded := yielded s; woken := woken s; tnotif := tnotif s; tpanic := tpanic s |}.
Proof.
  intros [A B C (lh & li & L)] Hc Hh. destruct L as [L1 L2 L3 L4 L5 L6 L7 L8].
  rewrite Hc in L2. cbn [citer] in L2. apply chain_none in L2. subst li.
  rewrite Hh in L1.
  assert (L3' : NoDup lh) by (rewrite app_nil_r in L3; exact L3).
  assert (L4' : forall j w, nth_error (tkwakers s) j = Some w -> claimed w ->
            ~ In (kti w) lh /\ (exists x, nth (kti w) (tnext s) NSleep = NIdx x) /\
            (kpc w = 4 -> nth (kti w) (tnext s) NSleep = NIdx (snd (khd w)))).
  { intros j w Hj Hcl. destruct (L4 j w Hj Hcl) as (Q1 & Q2 & Q3). rewrite app_nil_r in Q1. auto. }
  assert (P' : forall i, pending s lh [] i ->
            In i lh \/ exists j w, nth_error (tkwakers s) j = Some w /\ claimed w /\ kti w = i).
  { intros i [P|P]; [left; rewrite app_nil_r in P; exact P|right; exact P]. }
  constructor; tproj; auto.
  destruct (snd hd) as [x|] eqn:Es.
  - exists [], lh. constructor; unfold pending; tproj; cbn [snd citer app].
    + reflexivity.
    + exact L1.
    + exact L3'.
    + exact L4'.
    + exact L5.
    + intros i y Hy. apply P'. eapply L6; eauto.
    + intros idx nx Hd. discriminate.
    + intros i Hi. apply P'. apply L8. exact Hi.
  - apply chain_none in L1. subst lh.
    exists [], []. constructor; unfold pending; tproj; cbn [snd citer app].
    + reflexivity.
    + reflexivity.
    + constructor.
    + exact L4'.
    + exact L5.
    + intros i y Hy. apply P'. eapply L6; eauto.
    + intros idx nx Hd. discriminate.
    + intros i Hi. apply P'. apply L8. exact Hi.
Qed.

(* the iterator pops one task (yield), or the dropped iterator clears one *)
Lemma pop_step s idx x c' (yl : list nat) :
  TInv s -> citer (cph s) = Some idx -> nth idx (tnext s) NSleep = NIdx x -> citer c' = x ->
  (forall i nx, c' = CDrop (Some i) (Some nx) -> False) ->
  TInv {| thead := thead s; tnext := lupd (tnext s) idx NSleep; tkwakers := tkwakers s; cph := c';
          yielded := yl; woken := lupd (woken s) idx false; tnotif := tnotif s; tpanic := tpanic s |}.
Proof.
  intros [A B C (lh & li & L)] Hit Hnx Hc' Hnd. destruct L as [L1 L2 L3 L4 L5 L6 L7 L8].
  rewrite Hit in L2. destruct li as [|a r]; [discriminate L2|]. destruct L2 as (E & y & Hy & Hr). injection E as <-.
  rewrite Hnx in Hy. injection Hy as <-.
  assert (Hnd1 : ~ In idx (lh ++ r)).
  { apply NoDup_remove_2 in L3. exact L3. }
  assert (Hnd2 : NoDup (lh ++ r)) by (apply NoDup_remove_1 in L3; exact L3).
  assert (Hidx : idx < length (tnext s)).
  { destruct (Nat.lt_ge_cases idx (length (tnext s))) as [H|H]; [exact H|]. rewrite nth_overflow in Hnx by exact H. discriminate. }
  assert (Hb : Nat.ltb idx (length (tnext s)) = true) by (apply Nat.ltb_lt; exact Hidx).
  assert (Hncl : forall k v, nth_error (tkwakers s) k = Some v -> claimed v -> kti v <> idx).
  { intros k v Hk Hc E. destruct (L4 k v Hk Hc) as (Q & _). apply Q. rewrite E. apply in_or_app. right. left. reflexivity. }
  assert (Hpm : forall i', i' <> idx -> pending s lh (idx :: r) i' ->
            pending {| thead := thead s; tnext := lupd (tnext s) idx NSleep; tkwakers := tkwakers s; cph := c';
                       yielded := yl; woken := lupd (woken s) idx false; tnotif := tnotif s; tpanic := tpanic s |} lh r i').
  { intros i' Hne [P|P]; [left|right; exact P].
    apply in_app_or in P. apply in_or_app. destruct P as [P|[P|P]]; [left; exact P|congruence|right; exact P]. }
  constructor; tproj.
  - rewrite !lupd_length. exact A.
  - exact B.
  - intros k v Hk. rewrite lupd_length. apply (C k v Hk).
  - exists lh, r. constructor; tproj.
    + apply chain_lupd; [exact L1|]. intros Hi. apply Hnd1. apply in_or_app. left. exact Hi.
    + rewrite Hc'. apply chain_lupd; [exact Hr|]. intros Hi. apply Hnd1. apply in_or_app. right. exact Hi.
    + exact Hnd2.
    + intros k v Hk Hc. destruct (L4 k v Hk Hc) as (Q1 & Q2 & Q3). pose proof (Hncl k v Hk Hc) as Hd.
      rewrite nth_lupd_gen. destruct (Nat.eqb_spec (kti v) idx); [contradiction|].
      split; [|split; assumption]. intros Hi. apply Q1. apply in_app_or in Hi. apply in_or_app. destruct Hi; [left|right; right]; assumption.
    + exact L5.
    + intros i' y Hy. rewrite nth_lupd_gen in Hy. destruct (Nat.eqb_spec i' idx) as [E|Hne].
      * rewrite Hb in Hy. discriminate.
      * apply Hpm; [exact Hne|]. eapply L6; eauto.
    + intros i nx Hd. exfalso. eapply Hnd; eauto.
    + intros i' Hi'. rewrite nth_lupd_gen in Hi'. destruct (Nat.eqb_spec i' idx) as [E|Hne].
      * destruct (Nat.ltb idx (length (woken s))); discriminate.
      * apply Hpm; [exact Hne|]. apply L8. exact Hi'.
Qed.

(* ---------------- every step ---------------- *)
Lemma wake_step_inv s j w b s' :
  TInv s -> nth_error (tkwakers s) j = Some w -> wake_step s j w b = Some s' -> TInv s'.
Proof.
  intros HI Hj H. pose proof (ti_wpc s HI j w Hj) as (Hpc & Hlt & H3). unfold wake_step in H.
  destruct (kpc w) as [|[|[|[|[|[|n]]]]]] eqn:Epc; try discriminate.
  - injection H as <-.
    apply (tinv_set_w_local s j w _ HI Hj); [intros [E|E]; lia|intros [E|E]; discriminate|cbn; lia|reflexivity|cbn; intros E; discriminate].
  - destruct (knxt w) as [|x] eqn:Ew; injection H as <-.
    + apply (tinv_set_w_local s j w _ HI Hj); [intros [E|E]; lia|intros [E|E]; discriminate|cbn; lia|reflexivity|cbn; intros E; discriminate].
    + apply (tinv_set_w_local s j w _ HI Hj); [intros [E|E]; lia|intros [E|E]; discriminate|cbn; lia|reflexivity|cbn; intros _; discriminate].
  - destruct (negb b && nst_eqb (nth (kti w) (tnext s) NSleep) NSleep) eqn:Ec; injection H as <-.
    + apply andb_true_iff in Ec. destruct Ec as [_ Ec]. apply nst_eqb_true in Ec. apply claim_step; auto.
    + apply (tinv_set_w_local s j w _ HI Hj); [intros [E|E]; lia|intros [E|E]; discriminate|cbn; lia|reflexivity|cbn; intros E; discriminate].
  - destruct (negb b && nst_eqb (nth (kti w) (tnext s) NSleep) (knxt w)) eqn:Ec; injection H as <-.
    + apply andb_true_iff in Ec. destruct Ec as [_ Ec]. apply nst_eqb_true in Ec. apply absorb_step; auto.
    + apply (tinv_set_w_local s j w _ HI Hj); [intros [E|E]; lia|intros [E|E]; discriminate|cbn; lia|reflexivity|cbn; intros E; discriminate].
  - destruct (negb b && hd_eqb (thead s) (khd w)) eqn:Ec; injection H as <-.
    + apply andb_true_iff in Ec. destruct Ec as [_ Ec]. apply hd_eqb_true in Ec. apply push_step; auto.
    + apply reload_step; auto.
  - injection H as <-. apply swap_step; auto.
Qed.

Lemma cons_step_inv s b s' : TInv s -> cons_step s b = Some s' -> TInv s'.
Proof.
  intros HI H. unfold cons_step in H.
  destruct (cph s) as [|k [hd|]|[idx|]|[idx|] [nx|]] eqn:Ec; try discriminate.
  - (* take: CAS *)
    destruct (negb b && hd_eqb (thead s) hd) eqn:Eb; injection H as <-.
    + apply andb_true_iff in Eb. destruct Eb as [_ Eb]. apply hd_eqb_true in Eb. apply (take_step s k hd HI Ec Eb).
    + apply tinv_set_c_same; [exact HI|rewrite Ec; reflexivity|intros i nx Hd; discriminate].
  - (* take: load *)
    injection H as <-. apply tinv_set_c_same; [exact HI|rewrite Ec; reflexivity|intros i nx Hd; discriminate].
  - (* iterate: swap *)
    destruct (ti_lists s HI) as (lh & li & L). pose proof (l_iter _ _ _ L) as Li. rewrite Ec in Li. cbn [citer] in Li.
    destruct li as [|a r]; [discriminate Li|]. destruct Li as (E & x & Hx & _). injection E as <-.
    rewrite Hx in H. injection H as <-.
    apply (pop_step s idx x (CIter x)); auto; [rewrite Ec; reflexivity|intros i nx Hd; discriminate].
  - (* iteration finished *)
    injection H as <-. destruct (ti_lists s HI) as (lh & li & L). destruct HI as [A B C _].
    constructor; tproj; auto. exists lh, li. destruct L as [L1 L2 L3 L4 L5 L6 L7 L8].
    constructor; unfold pending in *; tproj; auto. { rewrite Ec in L2. exact L2. } intros i nx Hd; discriminate.
  - (* drop: store *)
    destruct (ti_lists s HI) as (lh & li & L). pose proof (l_drop _ _ _ L idx nx Ec) as Hn.
    pose proof (l_iter _ _ _ L) as Li. rewrite Ec in Li. cbn [citer] in Li.
    destruct li as [|a r]; [discriminate Li|]. destruct Li as (E & x & Hx & _). injection E as <-.
    rewrite Hn, Hx in H. injection H as <-.
    apply (pop_step s idx x (CDrop x None)); auto; [rewrite Ec; reflexivity|intros i nx' Hd; discriminate].
  - (* drop: load *)
    injection H as <-. apply tinv_set_c_same; [exact HI|rewrite Ec; reflexivity|].
    intros i nx Hd. injection Hd as <- <-. reflexivity.
  - (* drop finished *)
    injection H as <-. destruct (ti_lists s HI) as (lh & li & L). destruct HI as [A B C _].
    constructor; tproj; auto. exists lh, li. destruct L as [L1 L2 L3 L4 L5 L6 L7 L8].
    constructor; unfold pending in *; tproj; auto. { rewrite Ec in L2. exact L2. } intros i nx' Hd; discriminate.
  - injection H as <-. destruct (ti_lists s HI) as (lh & li & L). destruct HI as [A B C _].
    constructor; tproj; auto. exists lh, li. destruct L as [L1 L2 L3 L4 L5 L6 L7 L8].
    constructor; unfold pending in *; tproj; auto. { rewrite Ec in L2. exact L2. } intros i nx' Hd; discriminate.
Qed.

Theorem tk_step_inv s l s' : TInv s -> tk_step s l = Some s' -> TInv s'.
Proof.
  intros HI H. destruct l as [[|j] b|[k| |]]; cbn [tk_step] in H.
  - eapply cons_step_inv; eauto.
  - destruct (nth_error (tkwakers s) j) as [w|] eqn:Ej; [|discriminate]. eapply wake_step_inv; eauto.
  - destruct (cph s) eqn:Ec; try discriminate. injection H as <-.
    apply tinv_set_c_same; [exact HI|rewrite Ec; reflexivity|intros i nx Hd; discriminate].
  - discriminate.
  - destruct (cph s) as [| | it|] eqn:Ec; try discriminate. injection H as <-.
    apply tinv_set_c_same; [exact HI|rewrite Ec; reflexivity|intros i nx Hd; discriminate].
Qed.

Theorem tk_run_inv ls : forall s, TInv s -> TInv (tk_run s ls).
Proof.
  induction ls as [|l r IH]; intros s HI; [exact HI|]. cbn [tk_run].
  destruct (tk_step s l) as [s'|] eqn:E; [apply IH; eapply tk_step_inv; eauto|apply IH; exact HI].
Qed.

Lemma repeat_nth {A} (x : A) n i d : nth i (repeat x n) d = if Nat.ltb i n then x else d.
Proof.
  revert i; induction n as [|n IH]; intros [|i]; cbn [repeat nth]; try reflexivity.
  rewrite IH. reflexivity.
Qed.

Theorem tk_init_inv n ws : (forall i, In i ws -> i < n) -> TInv (tk_init n ws).
Proof.
  intros Hws. constructor; cbn [tk_init woken tnext tpanic tkwakers].
  - rewrite !repeat_length. reflexivity.
  - reflexivity.
  - intros j w Hj. rewrite nth_error_map in Hj. destruct (nth_error ws j) as [i|] eqn:Ei; [|discriminate].
    injection Hj as <-. cbn. rewrite repeat_length. split; [lia|]. split; [apply Hws; eapply nth_error_In; eauto|intros E; discriminate].
  - exists [], []. constructor; unfold pending; cbn [tk_init thead tnext tkwakers cph woken snd citer app chain].
    + reflexivity.
    + reflexivity.
    + constructor.
    + intros j w Hj Hc. rewrite nth_error_map in Hj. destruct (nth_error ws j); [|discriminate]. injection Hj as <-.
      destruct Hc as [E|E]; discriminate.
    + intros j k w v Hj _ _ Hc. rewrite nth_error_map in Hj. destruct (nth_error ws j); [|discriminate]. injection Hj as <-.
      destruct Hc as [E|E]; discriminate.
    + intros i x Hx. rewrite repeat_nth in Hx. destruct (Nat.ltb i n); discriminate.
    + intros idx nx Hd. discriminate.
    + intros i Hi. rewrite repeat_nth in Hi. destruct (Nat.ltb i n); discriminate.
Qed.

(* ---------------- consequences ---------------- *)
(* the iterator never meets SLEEPING (index out of bounds in the code) *)
Theorem ts_no_panic s : TInv s -> tpanic s = 0.
Proof. intros HI. exact (ti_panic s HI). Qed.

(* no completed wake-up is lost: the task is in the scheduled list, in the part of the list the
   iterator has not reached yet, or claimed by a waker that is about to link it in *)
Theorem ts_no_lost_wake s i :
  TInv s -> nth i (woken s) false = true ->
  exists lh li, chain (tnext s) (snd (thead s)) lh /\ chain (tnext s) (citer (cph s)) li /\
    (In i (lh ++ li) \/ exists j w, nth_error (tkwakers s) j = Some w /\ claimed w /\ kti w = i).
Proof.
  intros HI Hw. destruct (ti_lists s HI) as (lh & li & L). exists lh, li.
  split; [exact (l_head _ _ _ L)|]. split; [exact (l_iter _ _ _ L)|]. exact (l_woken _ _ _ L i Hw).
Qed.

(* in a state where no waker is in flight and the consumer is idle, a woken task is in the
   scheduled list: the next take_scheduled returns it *)
Theorem ts_quiescent_woken_scheduled s i :
  TInv s -> cph s = CIdle -> (forall j w, nth_error (tkwakers s) j = Some w -> ~ claimed w) ->
  nth i (woken s) false = true ->
  exists lh, chain (tnext s) (snd (thead s)) lh /\ In i lh.
Proof.
  intros HI Hc Hnw Hw. destruct (ti_lists s HI) as (lh & li & L). exists lh. split; [exact (l_head _ _ _ L)|].
  pose proof (l_iter _ _ _ L) as Li. rewrite Hc in Li. cbn [citer] in Li. apply chain_none in Li. subst li.
  destruct (l_woken _ _ _ L i Hw) as [P|(j & w & Hj & Hcl & _)]; [rewrite app_nil_r in P; exact P|].
  exfalso. eapply Hnw; eauto.
Qed.

Theorem tk_reachable_inv n ws ls : (forall i, In i ws -> i < n) -> TInv (tk_run (tk_init n ws) ls).
Proof. intros H. apply tk_run_inv. apply tk_init_inv. exact H. Qed.
