(* ConfProofs.v — confluence of the message pool (Model/Conf.v): every complete schedule of a step
   performs the same multiset of handler invocations, and no schedule can run longer or get stuck. *)
Require Import NX.Base.Prelude NX.Base.ListX NX.Model.Sim NX.Model.Conf.

Lemma perm_cons_split {A} (m m' : A) rest rest' :
  Permutation (m :: rest) (m' :: rest') ->
  (m = m' /\ Permutation rest rest') \/
  exists r2, Permutation rest (m' :: r2) /\ Permutation rest' (m :: r2).
Proof.
  intros H.
  assert (Hin : In m (m' :: rest')) by (eapply Permutation_in; [exact H | left; reflexivity]).
  destruct Hin as [He | Hin].
  - left. subst m'. split; [reflexivity | exact (Permutation_cons_inv H)].
  - right. destruct (in_split _ _ Hin) as [a [c Hs]]. exists (a ++ c). subst rest'.
    assert (H2 : Permutation (m :: rest) (m :: m' :: a ++ c)).
    { rewrite H. rewrite perm_swap. constructor.
      symmetry. apply Permutation_middle. }
    split.
    + exact (Permutation_cons_inv H2).
    + symmetry. apply Permutation_middle.
Qed.

Lemma ldel_perm {A} (l : list A) i x : nth_error l i = Some x -> Permutation l (x :: ldel l i).
Proof.
  revert i. induction l as [|y r IH]; intros [|i] H; cbn in *; try discriminate.
  - injection H as ->. reflexivity.
  - rewrite (IH _ H) at 1. apply perm_swap.
Qed.

Section Pool.
  Variable M : Type.
  Variable react : M -> list M.
  Notation cruns := (cruns react).
  Notation pruns := (pruns react).

  Lemma runs_perm P L : cruns P L -> forall P', Permutation P P' -> cruns P' L.
  Proof.
    intros H. destruct H as [|P m rest L Hp Hr]; intros P' HP.
    - apply Permutation_nil in HP. subst. constructor.
    - econstructor; [|exact Hr]. rewrite <- HP. exact Hp.
  Qed.

  (* a message of the pool is invoked by every complete run, and its invocation can be moved first *)
  Lemma runs_extract Q L :
    cruns Q L -> forall m rest, Permutation Q (m :: rest) ->
    exists L', Permutation L (m :: L') /\ cruns (react m ++ rest) L'.
  Proof.
    induction 1 as [|P m' rest' L0 Hp Hr IH]; intros m rest HQ.
    - apply Permutation_nil in HQ. discriminate.
    - assert (H2 : Permutation (m :: rest) (m' :: rest')) by (rewrite <- HQ; exact Hp).
      destruct (perm_cons_split _ _ _ _ H2) as [[-> Hrr] | [r2 [Ha Hb]]].
      + exists L0. split; [reflexivity|].
        eapply runs_perm; [exact Hr|]. apply Permutation_app_head. symmetry. exact Hrr.
      + destruct (IH m (react m' ++ r2)) as [L0' [HL Hr']].
        { rewrite Hb. symmetry. apply Permutation_middle. }
        exists (m' :: L0'). split.
        * rewrite HL. apply perm_swap.
        * econstructor.
          -- rewrite Ha. symmetry. apply Permutation_middle.
          -- eapply runs_perm; [exact Hr'|].
             rewrite !app_assoc. apply Permutation_app_tail. apply Permutation_app_comm.
  Qed.

  (* the same multiset of invocations, whatever the schedule *)
  Theorem conf_unique P L1 :
    cruns P L1 -> forall P' L2, Permutation P P' -> cruns P' L2 -> Permutation L1 L2.
  Proof.
    induction 1 as [|P m rest L Hp Hr IH]; intros P' L2 HP H2.
    - apply Permutation_nil in HP. subst. inversion H2 as [|? ? ? ? Hq]; subst; [reflexivity|].
      apply Permutation_nil in Hq. discriminate.
    - assert (Hq : Permutation P' (m :: rest)) by (rewrite <- HP; exact Hp).
      destruct (runs_extract _ _ H2 _ _ Hq) as [L2' [HL Hr2]].
      rewrite HL. constructor. exact (IH _ _ (Permutation_refl _) Hr2).
  Qed.

  (* no schedule gets stuck or diverges: any partial schedule can be completed, to the same multiset *)
  Theorem conf_complete P L2 Q :
    pruns P L2 Q -> forall L1, cruns P L1 -> exists L3, cruns Q L3 /\ Permutation L1 (L2 ++ L3).
  Proof.
    induction 1 as [P Q HP | P m rest L Q Hp Hr IH]; intros L1 H1.
    - exists L1. split; [exact (runs_perm _ _ H1 _ HP) | reflexivity].
    - destruct (runs_extract _ _ H1 _ _ Hp) as [L1' [HL Hr1]].
      destruct (IH _ Hr1) as [L3 [HQ HL3]].
      exists L3. split; [exact HQ|]. rewrite HL. cbn [app]. constructor. exact HL3.
  Qed.

  Corollary conf_bounded P L1 L2 Q : cruns P L1 -> pruns P L2 Q -> length L2 <= length L1.
  Proof.
    intros H1 H2. destruct (conf_complete _ _ _ H2 _ H1) as [L3 [_ HL]].
    rewrite (Permutation_length HL), app_length. lia.
  Qed.

  (* whatever is derived from each invocation by a function of its content (sink outputs, replies)
     is the same multiset too *)
  Corollary conf_outputs {O} (out : M -> list O) P L1 L2 :
    cruns P L1 -> cruns P L2 -> Permutation (flat_map out L1) (flat_map out L2).
  Proof.
    intros H1 H2. pose proof (conf_unique _ _ H1 _ _ (Permutation_refl _) H2) as HL.
    clear H1 H2. induction HL; cbn [flat_map].
    - reflexivity.
    - apply Permutation_app_head. assumption.
    - rewrite !app_assoc. apply Permutation_app_tail. apply Permutation_app_comm.
    - etransitivity; eassumption.
  Qed.

  (* the executable scheduler produces complete runs *)
  Lemma pool_exec_runs fuel : forall P ch L, pool_exec react fuel P ch = Some L -> cruns P L.
  Proof.
    induction fuel as [|f IH]; intros P ch L H; cbn [pool_exec] in H; [discriminate|].
    destruct P as [|x r] eqn:EP.
    - injection H as <-. constructor.
    - rewrite <- EP in *.
      destruct (nth_error P (Nat.modulo (hd 0 ch) (length P))) as [m|] eqn:En; [|discriminate].
      destruct (pool_exec react f (react m ++ ldel P (Nat.modulo (hd 0 ch) (length P))) (tl ch)) as [L'|] eqn:Er;
        [|discriminate].
      injection H as <-. econstructor; [exact (ldel_perm _ _ _ En) | exact (IH _ _ _ Er)].
  Qed.

  Theorem pool_exec_confluent f1 f2 P ch1 ch2 L1 L2 :
    pool_exec react f1 P ch1 = Some L1 -> pool_exec react f2 P ch2 = Some L2 -> Permutation L1 L2.
  Proof.
    intros H1 H2. eapply conf_unique; [eapply pool_exec_runs; exact H1 | reflexivity | eapply pool_exec_runs; exact H2].
  Qed.
End Pool.

(* Non-vacuity: a bench with fan-out, a filter and a query; two different schedules, same multiset. *)
Definition conf_bench : bench :=
  {| bmodels :=
       [ {| mcap := 1; mplace := Added; mparent := None; mnamed := true; minit := [];
            mhandlers := [[OSend 0 EIn; OQuery 0 (EInPlus 1); OSend 0 (EInPlus 2)]];
            mrepliers := [];
            mouts := [[ {| ckeep := KAll; cadd := 0; ctgt := TgtModel 1 0 |};
                        {| ckeep := KEven; cadd := 1000; ctgt := TgtSink 0 |} ]];
            mreqs := [[ {| qkeep := KAll; qadd := 0; qmodel := 1; qrep := 0; qradd := 5 |} ]] |};
         {| mcap := 1; mplace := Added; mparent := None; mnamed := true; minit := [];
            mhandlers := [[OSend 0 EIn]];
            mrepliers := [([OSend 0 (EConst 7)], 0%Z)];
            mouts := [[ {| ckeep := KAll; cadd := 0; ctgt := TgtSink 0 |} ]];
            mreqs := [] |} ];
     bsinks := [SpecBuf 64]; bsources := []; bclock := []; btol := None; bt0 := 0;
     bugF1 := false; bugF2 := false; bugF3 := false; bugF4 := false |}.

Example conf_nonvacuous :
  bench_plain conf_bench = true /\
  exists L1 L2,
    pool_exec (bench_react conf_bench) 100 [CMHandler 0 0 4; CMHandler 0 0 5] [] = Some L1 /\
    pool_exec (bench_react conf_bench) 100 [CMHandler 0 0 4; CMHandler 0 0 5] [1; 3; 0; 2; 5; 1; 1] = Some L2 /\
    L1 <> L2 /\ length L1 = 16.
Proof.
  split; [vm_compute; reflexivity|].
  eexists. eexists. split; [vm_compute; reflexivity|]. split; [vm_compute; reflexivity|].
  split; [intro H; discriminate H | reflexivity].
Qed.
