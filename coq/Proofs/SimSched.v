(* Cancellation, same-key order and periodic re-insertion: lemmas about the
   critical section of a step and the handler-side cancellation check. *)
Require Import NX.Base.Prelude NX.Base.ListX NX.Model.PQ NX.Model.Sink NX.Model.Sim.
Require Import NX.Proofs.PQProofs NX.Proofs.SimBasic NX.Proofs.SimDriver NX.Proofs.SimQueue.

Definition live (s : state) (a : action) : Prop := key_cancelled s (akey a) = false.

(* peek_next_key returns a key only when the head of the (possibly shortened)
   queue is a live action with that key; it never inserts anything. *)
Lemma peek_next_head fuel : forall s q bound k q',
  peek_next fuel s q bound = (Some k, q') ->
  exists a, pq_peek q' = Some (k, a) /\ live s a /\ le_bound (fst k) bound = true.
Proof.
  induction fuel as [|f IH]; intros s q bound k q' H; cbn [peek_next] in H; [discriminate|].
  destruct (pq_peek q) as [[k0 a0]|] eqn:EP; [|discriminate].
  destruct (le_bound (fst k0) bound) eqn:EB; [|discriminate].
  destruct (key_cancelled s (akey a0)) eqn:EC.
  - eapply IH; eauto.
  - injection H as <- <-. exists a0. auto.
Qed.

(* Every action the critical section turns into a task was live (its key not
   cancelled) when the step began pulling it.  [acc] is what was collected
   before. *)
Lemma crit_live fuel : forall s q bound cur group groups q' gs,
  crit fuel s q bound cur group groups = Some (q', gs) ->
  (exists a0, pq_peek q = Some (cur, a0) /\ live s a0) ->
  forall o, In o (concat gs) ->
    In o (concat groups) \/ In o group \/ exists a, o = aop a /\ live s a.
Proof.
  induction fuel as [|f IH]; intros s q bound cur group groups q' gs H [a0 [HP HL]] o Ho; cbn [crit] in H; [discriminate|].
  destruct (pull_next q) as [[[k a] q1]|] eqn:EPN; [|discriminate].
  destruct (peek_next (S (pq_len q1)) s q1 bound) as [nk q2] eqn:EN.
  apply pull_next_spec in EPN. destruct EPN as [EPK _]. rewrite HP in EPK. injection EPK as <- <-.
  destruct (opt_key_eqb nk cur) eqn:EK.
  - destruct nk as [k'|]; [|discriminate]. cbn in EK. apply key_eqb_iff in EK. subst k'.
    destruct (peek_next_head _ _ _ _ _ _ EN) as [a1 (H1 & H2 & _)].
    destruct (IH _ _ _ _ _ _ _ _ H (ex_intro _ a1 (conj H1 H2)) o Ho) as [X|[X|X]]; auto.
    apply in_app_or in X. destruct X as [X|[<-|[]]]; auto. right; right. exists a0; auto.
  - assert (G : In o (concat (groups ++ [group ++ [aop a0]])) ->
                In o (concat groups) \/ In o group \/ exists a, o = aop a /\ live s a).
    { rewrite concat_app. cbn [concat]. rewrite app_nil_r. intros X.
      apply in_app_or in X. destruct X as [X|X]; auto.
      apply in_app_or in X. destruct X as [X|[<-|[]]]; auto. right; right. exists a0; auto. }
    destruct nk as [k'|].
    + destruct (Z.eqb (fst k') (fst cur)).
      * destruct (peek_next_head _ _ _ _ _ _ EN) as [a1 (H1 & H2 & _)].
        destruct (IH _ _ _ _ _ _ _ _ H (ex_intro _ a1 (conj H1 H2)) o Ho) as [X|[X|X]]; auto.
        destruct X.
      * injection H as <- <-. auto.
    + injection H as <- <-. auto.
Qed.

(* The handler-side check: a keyed event dequeued after its key was cancelled
   runs nothing and logs nothing (the message is consumed). *)
Lemma step_start_cancelled b s t x m sp g rest key :
  nth_error (tasks s) t = Some x -> tk x = TKModel m -> tfr x = None -> tdone x = false ->
  tinit x = false -> nth_error (bmodels b) m = Some sp ->
  nth_error (boxes s) m = Some (g :: rest) -> mkd g = KEvent key -> key_cancelled s key = true ->
  exists s', step_start b s t = Some s' /\ log s' = log s /\
             nth_error (tasks s') t = Some (tset_tfr x (Some (empty_frame [] (mval g) None))).
Proof.
  intros H1 H2 H3 H4 H5 H6 H7 H8 H9. unfold step_start.
  rewrite H1, H2, H3, H4, H6, H5, H7, H8, H9.
  eexists. split; [reflexivity|]. split; [reflexivity|].
  cbn. apply nth_error_lupd_eq. apply nth_error_Some. congruence.
Qed.

(* Cancelling touches one flag and nothing else. *)
Lemma cancel_key_spec s k :
  let s' := cancel_key s k in
  queue s' = queue s /\ now s' = now s /\ tasks s' = tasks s /\ boxes s' = boxes s /\ log s' = log s /\
  (forall k', k' <> k -> key_cancelled s' k' = key_cancelled s k') /\
  (forall i, k = Some i -> i < length (cancelled s) -> key_cancelled s' k = true).
Proof.
  unfold cancel_key. destruct k as [i|]; cbn.
  - repeat split; auto.
    + intros [j|] NE; unfold key_cancelled; cbn; auto; try (rewrite nth_error_lupd_ne by congruence); auto.
    + intros i0 E L. injection E as <-. rewrite nth_error_lupd_eq; auto.
  - repeat split; auto. intros i E; discriminate.
Qed.

(* A periodic action is re-inserted with the pulled key's time plus its period
   (never the clock), same origin, same action, next epoch. *)
Lemma pull_next_periodic q k a q1 p :
  pq_pull q = (Some (k, a), q1) -> aperiod a = Some p ->
  pull_next q = Some (k, a, pq_insert q1 ((fst k + p)%Z, snd k) a).
Proof. intros H E. unfold pull_next. rewrite H, E. reflexivity. Qed.

Lemma pull_next_oneshot q k a q1 :
  pq_pull q = (Some (k, a), q1) -> aperiod a = None -> pull_next q = Some (k, a, q1).
Proof. intros H E. unfold pull_next. rewrite H, E. reflexivity. Qed.

Fixpoint iter_add (n : nat) (t p : Z) : Z := match n with O => t | S n' => (iter_add n' t p + p)%Z end.
Lemma iter_add_closed n t p : iter_add n t p = (t + Z.of_nat n * p)%Z.
Proof. induction n as [|n IH]; cbn [iter_add]; [lia|]. rewrite IH. lia. Qed.

(* A task executes its script in order: nothing of the next op starts while a
   delivery of the current one is outstanding. *)
Lemma step_op_blocked b s t x f d ds :
  nth_error (tasks s) t = Some x -> tfr x = Some f -> fpend f = d :: ds -> step_op b s t = None.
Proof. intros H1 H2 H3. unfold step_op. rewrite H1, H2, H3. reflexivity. Qed.

(* Mailboxes are FIFO: a delivery appends at the back, a start takes the head. *)
Lemma deliver_appends b s t i x f m g thr sp q s' :
  nth_error (tasks s) t = Some x -> tfr x = Some f ->
  nth_error (fpend f) i = Some {| dtgt := DModel m g; dthrow := thr |} ->
  nth_error (bmodels b) m = Some sp -> mplace sp <> Dropped -> nth_error (boxes s) m = Some q ->
  step_deliver b s t i = Some s' ->
  nth_error (boxes s') m = Some (q ++ [g]) /\ length q < mcap sp /\ inflight s' = (inflight s + 1)%Z.
Proof.
  intros H1 H2 H3 H4 H5 H6. unfold step_deliver. rewrite H1, H2, H3. cbn [dtgt]. rewrite H4, H6.
  destruct (mplace sp) eqn:EPl; try congruence;
    (destruct (Nat.ltb_spec (length q) (mcap sp)) as [L|L]; [|discriminate];
     intros H; injection H as <-; cbn; split; [apply nth_error_lupd_eq; apply nth_error_Some; congruence|auto]).
Qed.
