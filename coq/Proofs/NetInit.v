(* Trace-level initialisation invariant: in every state reachable by steps of a
   run, the task of model m has logged exactly one init once its flag is
   cleared, and no init and no handler entry while the flag is still set. *)
Require Import NX.Base.Prelude NX.Base.ListX NX.Model.PQ NX.Model.Sink NX.Model.Sim.
Require Import NX.Proofs.SimBasic NX.Proofs.NetProofs.

Definition tsig (x : task) : tkind * bool := (tk x, tinit x).

Definition init_inv (s : state) : Prop :=
  forall t x, nth_error (tasks s) t = Some x ->
    match tk x with
    | TKModel m =>
        m = t /\
        (tinit x = true -> inits m (log s) = 0 /\ handled m (log s) = 0) /\
        (tinit x = false -> inits m (log s) = 1)
    | TKAction => True
    end.

Lemma counts_app m added l :
  forallb (fun e => negb (is_init_entry e) && negb (is_handler_entry e)) added = true ->
  inits m (added ++ l) = inits m l /\ handled m (added ++ l) = handled m l.
Proof.
  induction added as [|e r IH]; intros H; cbn [app]; [auto|].
  cbn [forallb] in H. apply andb_true_iff in H. destruct H as [He Hr]. destruct (IH Hr) as [A B].
  destruct e; cbn in He; try discriminate; cbn [inits handled]; auto.
Qed.

(* a step that is not a start keeps every task's kind and init flag *)
Lemma set_task_sig s t x x' t' :
  nth_error (tasks s) t = Some x -> tsig x' = tsig x ->
  option_map tsig (nth_error (tasks (set_task s t x')) t') = option_map tsig (nth_error (tasks s) t').
Proof.
  intros H E. destruct (Nat.eq_dec t t') as [<-|NE].
  - rewrite set_task_same by (apply nth_error_Some; congruence). rewrite H. cbn. congruence.
  - rewrite set_task_other by auto. reflexivity.
Qed.

Lemma deliver_reply_sig s r t' :
  option_map tsig (nth_error (tasks (deliver_reply s r)) t') = option_map tsig (nth_error (tasks s) t').
Proof.
  unfold deliver_reply. destruct r as [[[[rt|] slot] v]|]; auto.
  destruct (nth_error (tasks s) rt) as [y|] eqn:E; auto. destruct (tfr y) eqn:Ef; auto.
  eapply set_task_sig; eauto.
Qed.

Lemma other_steps_sig b s l s' :
  net_step b s l = Some s' -> (forall t, l <> LStart t) ->
  forall t', option_map tsig (nth_error (tasks s') t') = option_map tsig (nth_error (tasks s) t').
Proof.
  intros H NS t'. unfold net_step in H. destruct (err s); [discriminate|].
  destruct l as [t|t|t i]; [exfalso; eapply NS; reflexivity| |].
  - unfold step_op in H.
    destruct (nth_error (tasks s) t) as [x|] eqn:Et; [|discriminate].
    destruct (tfr x) as [f|]; [|discriminate]. destruct (fpend f); [|discriminate].
    destruct (fwait f).
    2:{ destruct (opt_all _); [|discriminate].
        destruct (task_model x); injection H as <-; cbn [tasks add_log set_log]; eapply set_task_sig; eauto. }
    destruct (frest f) as [|o rest].
    { injection H as <-. rewrite deliver_reply_sig. destruct (tk x) eqn:Ek; eapply set_task_sig; eauto; unfold tsig; cbn; rewrite Ek; reflexivity. }
    destruct o; destruct (task_model x) as [mm|]; try discriminate H;
      try (break_match_hyp H; injection H as <-; cbn [tasks add_log set_log set_err]; eapply set_task_sig; eauto).
    + destruct (sched_request _ _ _ _ _ _ _) as [[s1 code] k] eqn:ES.
      apply sched_request_frame in ES. destruct ES as (_ & _ & _ & _ & _ & _ & _ & _ & ET & _).
      injection H as <-. cbn [tasks add_log set_log].
      assert (Et1 : nth_error (tasks s1) t = Some x) by (rewrite ET; exact Et).
      rewrite <- ET.
      destruct slot as [sl|]; [destruct k|]; eapply set_task_sig; eauto.
    + injection H as <-. unfold cancel_key. destruct (nth slot (tkeys x) None) as [n|].
      * apply (set_task_sig (set_cancelled s (lupd (cancelled s) n true)) t x); [exact Et|reflexivity].
      * eapply set_task_sig; eauto.
  - unfold step_deliver in H.
    destruct (nth_error (tasks s) t) as [x|] eqn:Et; [|discriminate].
    destruct (tfr x) as [f|]; [|discriminate].
    destruct (nth_error (fpend f) i) as [d|]; [|discriminate].
    assert (G : option_map tsig (nth_error (tasks (set_task s t (tset_tfr x (Some (fset_fpend f (ldel (fpend f) i)))))) t') =
                option_map tsig (nth_error (tasks s) t')) by (eapply set_task_sig; eauto).
    break_match_hyp H; injection H as <-; cbn [tasks set_sinks set_err set_inflight set_boxes]; exact G.
Qed.

Lemma init_inv_sig s s' :
  init_inv s -> (forall t', option_map tsig (nth_error (tasks s') t') = option_map tsig (nth_error (tasks s) t')) ->
  (forall m, inits m (log s') = inits m (log s) /\ handled m (log s') = handled m (log s)) -> init_inv s'.
Proof.
  intros HI HS HL t x' Hx'. specialize (HS t). rewrite Hx' in HS. cbn in HS.
  destruct (nth_error (tasks s) t) as [x|] eqn:Ex; [|discriminate]. cbn in HS. injection HS as E1 E2.
  specialize (HI t x Ex). rewrite E1. destruct (tk x) as [m|]; [|exact I].
  destruct HI as (A & B & C). destruct (HL m) as [L1 L2]. rewrite E2, L1, L2. auto.
Qed.

Lemma net_step_init_inv b s l s' : init_inv s -> net_step b s l = Some s' -> init_inv s'.
Proof.
  intros HI H. destruct l as [t|t|t i].
  2:{ destruct (other_steps_log _ _ _ _ H ltac:(intros; discriminate)) as [added [EL EA]].
      eapply init_inv_sig; [exact HI|eapply other_steps_sig; [exact H|intros; discriminate]|].
      intros m. rewrite EL. apply counts_app; exact EA. }
  2:{ destruct (other_steps_log _ _ _ _ H ltac:(intros; discriminate)) as [added [EL EA]].
      eapply init_inv_sig; [exact HI|eapply other_steps_sig; [exact H|intros; discriminate]|].
      intros m. rewrite EL. apply counts_app; exact EA. }
  (* a start *)
  pose proof H as H0. unfold net_step in H0. destruct (err s); [discriminate|].
  unfold step_start in H0.
  destruct (nth_error (tasks s) t) as [x|] eqn:Et; [|discriminate].
  destruct (tk x) as [m|] eqn:Ek; [|discriminate]. destruct (tfr x) eqn:Ef; [discriminate|].
  destruct (tdone x); [discriminate|]. destruct (nth_error (bmodels b) m) as [sp|]; [|discriminate].
  pose proof (HI t x Et) as HT. rewrite Ek in HT. destruct HT as (-> & HT1 & HT2).
  assert (Lt : t < length (tasks s)) by (apply nth_error_Some; congruence).
  destruct (tinit x) eqn:Ei.
  - injection H0 as <-. intros t' x' Hx'. cbn [tasks add_log set_log log] in *.
    destruct (Nat.eq_dec t t') as [<-|NE].
    + rewrite set_task_same in Hx' by auto. injection Hx' as <-. cbn [tk tset_tfr tset_tinit tinit]. rewrite Ek.
      destruct (HT1 eq_refl) as [A B]. split; [reflexivity|]. split; [discriminate|]. intros _. unfold add_log, set_log, set_task, set_tasks; cbn [log inits]. rewrite Nat.eqb_refl, A. reflexivity.
    + rewrite set_task_other in Hx' by auto. specialize (HI t' x' Hx'). destruct (tk x') as [m'|]; [|exact I].
      destruct HI as (-> & B & C). unfold add_log, set_log, set_task, set_tasks; cbn [log inits handled]. destruct (Nat.eqb_spec t' t) as [E|E]; [congruence|]. cbn. auto.
  - (* an ordinary message: the log gains at most one handler entry of model t *)
    assert (G : forall s1 e, tasks s1 = tasks s -> log s1 = log s ->
              (e = None \/ exists e0, e = Some e0 /\ is_init_entry e0 = false /\ entry_model e0 = Some t) ->
              forall fr, init_inv (match e with Some e0 => add_log (set_task s1 t (tset_tfr x fr)) e0 | None => set_task s1 t (tset_tfr x fr) end)).
    { intros s1 e ET EL He fr t' x' Hx'.
      assert (TS : forall sx, tasks sx = tasks s -> nth_error (tasks (set_task sx t (tset_tfr x fr))) t' = Some x' ->
                   exists x0, nth_error (tasks s) t' = Some x0 /\ tk x' = tk x0 /\ tinit x' = tinit x0).
      { intros sx E X. destruct (Nat.eq_dec t t') as [<-|NE].
        - rewrite set_task_same in X by (rewrite E; auto). injection X as <-. exists x. auto.
        - rewrite set_task_other in X by auto. rewrite E in X. exists x'. auto. }
      assert (X : nth_error (tasks (set_task s1 t (tset_tfr x fr))) t' = Some x') by (destruct e; exact Hx').
      destruct (TS s1 ET X) as (x0 & E0 & K1 & K2). specialize (HI t' x0 E0). rewrite K1, K2.
      destruct (tk x0) as [m'|]; [|exact I]. destruct HI as (-> & B & C).
      assert (LG : log (match e with Some e0 => add_log (set_task s1 t (tset_tfr x fr)) e0 | None => set_task s1 t (tset_tfr x fr) end) =
                   match e with Some e0 => e0 :: log s | None => log s end) by (destruct e; cbn; rewrite EL; reflexivity).
      rewrite LG. destruct He as [->|(e0 & -> & N1 & N2)]; [auto|].
      split; [reflexivity|].
      assert (CI : inits t' (e0 :: log s) = inits t' (log s)) by (destruct e0; cbn in N1; try discriminate; reflexivity).
      rewrite CI. split; [|exact C]. intros T. destruct (B T) as [B1 B2]. split; [exact B1|].
      (* t' still has its flag set, so t' <> t (whose flag is cleared): the entry is not one of t' *)
      assert (t' <> t) by (intros ->; rewrite Et in E0; injection E0 as <-; congruence).
      destruct e0; cbn in N2; try discriminate; cbn [handled]; try (injection N2 as ->);
        try (destruct (Nat.eqb_spec t' t); [congruence|cbn; exact B2]); exact B2. }
    destruct (nth_error (boxes s) t) as [[|g rest]|]; try discriminate.
    set (s1 := set_inflight (set_boxes s (lupd (boxes s) t rest)) (inflight s - 1)%Z) in *.
    destruct (mkd g) as [key|r slot rep radd].
    + destruct (key_cancelled s key); injection H0 as <-.
      * apply (G s1 None eq_refl eq_refl (or_introl eq_refl)).
      * apply (G s1 (Some (EHandler t (minp g) (mval g) (now s))) eq_refl eq_refl). right. eexists. repeat split.
    + destruct (nth rep (mrepliers sp) ([], 0%Z)). injection H0 as <-.
      apply (G s1 (Some (EReplier t rep (mval g) (now s))) eq_refl eq_refl). right. eexists. repeat split.
Qed.

Lemma net_run_init_inv b fuel : forall ch s nd s' nd',
  init_inv s -> net_run b fuel ch s nd = Some (s', nd') -> init_inv s'.
Proof.
  induction fuel as [|f IH]; intros ch s nd s' nd' HI H; cbn [net_run] in H; [discriminate|].
  destruct (net_enabled b s) as [|l0 ls]; [injection H as <- <-; auto|].
  destruct ch as [|c r]; cbn in H;
    (destruct (net_step b s _) as [s1|] eqn:E; [|discriminate]; eapply IH; [eapply net_step_init_inv; eauto|eauto]).
Qed.

(* the initial state of a bench satisfies it *)
Lemma init_tasks_nth l : forall st t x, nth_error (init_tasks st l) t = Some x -> tk x = TKModel (st + t) /\ tinit x = true.
Proof.
  induction l as [|sp r IH]; intros st t x H; [destruct t; discriminate|].
  destruct t as [|t]; cbn in H.
  - injection H as <-. cbn. rewrite Nat.add_0_r. auto.
  - destruct (IH (S st) t x H) as [A B]. split; auto. rewrite A. f_equal. lia.
Qed.

Lemma init_state_init_inv b l : (forall m, inits m l = 0 /\ handled m l = 0) -> init_inv (set_log (init_state b) l).
Proof.
  intros HL t x H. cbn [tasks set_log init_state] in H. destruct (init_tasks_nth _ _ _ _ H) as [A B]. rewrite A. cbn.
  split; [reflexivity|]. split; [intros _; apply HL|rewrite B; discriminate].
Qed.

(* at quiescence without failure every added model has been initialised *)
Lemma quiescent_all_initialised b s t x m sp :
  net_enabled b s = [] -> err s = None ->
  nth_error (tasks s) t = Some x -> tk x = TKModel m -> tdone x = false -> tfr x = None ->
  nth_error (bmodels b) m = Some sp -> tinit x = false.
Proof.
  intros HQ HE Ht Hk Hd Hf Hs. destruct (tinit x) eqn:Ei; [|reflexivity]. exfalso.
  assert (E : net_step b s (LStart t) = Some (add_log (set_task s t (tset_tfr (tset_tinit x false) (Some (empty_frame (minit sp) 0 None)))) (EInit m (now s)))).
  { unfold net_step. rewrite HE. apply start_runs_init; auto. }
  assert (I : In (LStart t) (net_enabled b s)).
  { unfold net_enabled. apply in_flat_map. exists t. split; [apply In_seqn; assert (t < length (tasks s)) by (apply nth_error_Some; congruence); lia|].
    unfold enabled_of_task. apply in_or_app. left. rewrite E. left. reflexivity. }
  rewrite HQ in I. destruct I.
Qed.
