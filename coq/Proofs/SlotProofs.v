(* util/slot.rs: every reachable state of the (finite) model is fine - no access after free, no double free,
   no double drop, no read of a value that is not there, and once both handles are gone the allocation is freed
   and the value, if written, was moved out by try_read or dropped.  Proved by computing the reachable states
   and checking closure under every step. *)
Require Import NX.Base.Prelude NX.Base.ListX NX.Model.Slot.

Lemma vstat_eqb_eq a b : vstat_eqb a b = true -> a = b.
Proof. destruct a, b; cbn; congruence. Qed.
Lemma swpc_eqb_eq a b : swpc_eqb a b = true -> a = b.
Proof. destruct a, b; cbn; congruence. Qed.
Lemma srpc_eqb_eq a b : srpc_eqb a b = true -> a = b.
Proof. destruct a, b; cbn; try congruence. intros H. apply Bool.eqb_prop in H. congruence. Qed.

Lemma sstate_eqb_eq a b : sstate_eqb a b = true -> a = b.
Proof.
  unfold sstate_eqb. rewrite !andb_true_iff. intros [[[[[[H1 H2] H3] H4] H5] H6] H7].
  destruct a, b; cbn in *. apply Nat.eqb_eq in H1. apply vstat_eqb_eq in H2. apply Bool.eqb_prop in H3.
  apply swpc_eqb_eq in H4. apply srpc_eqb_eq in H5. apply Bool.eqb_prop in H6. apply Bool.eqb_prop in H7. congruence.
Qed.

Lemma smem_In s l : os_mem s l = true -> In s l.
Proof.
  unfold os_mem. rewrite existsb_exists. intros [x [Hx E]]. apply sstate_eqb_eq in E. subst. exact Hx.
Qed.

Lemma sstate_eqb_refl a : sstate_eqb a a = true.
Proof.
  unfold sstate_eqb. destruct a as [st v b w r g bad]; cbn.
  rewrite Nat.eqb_refl, !Bool.eqb_reflx.
  destruct v, w, r; cbn; try reflexivity; destruct populated; reflexivity.
Qed.

Lemma In_smem s l : In s l -> os_mem s l = true.
Proof. intros H. unfold os_mem. apply existsb_exists. exists s. split; auto. apply sstate_eqb_refl. Qed.

Lemma step_in_succs K s l s' : os_step K s l = Some s' -> In s' (os_succs K s).
Proof.
  intros H. unfold os_succs. apply in_flat_map. exists l. split; [destruct l; cbn; tauto|]. rewrite H. left; reflexivity.
Qed.

Section Closed.
  Variable K : slot_consts.
  Variable R : list sstate.
  Hypothesis Hinit : os_mem os_init R = true.
  Hypothesis Hclosed : os_closed K R = true.

  Lemma run_in_reach ls : forall s, In s R -> In (os_run K s ls) R.
  Proof.
    induction ls as [|l ls IH]; intros s Hs; cbn [os_run]; auto.
    destruct (os_step K s l) as [s'|] eqn:E; [|apply IH; auto].
    apply IH. unfold os_closed in Hclosed. rewrite forallb_forall in Hclosed.
    specialize (Hclosed s Hs). rewrite forallb_forall in Hclosed.
    apply smem_In. apply Hclosed. eapply step_in_succs; eauto.
  Qed.

  Lemma all_ok_run : forallb os_ok R = true -> forall ls, os_ok (os_run K os_init ls) = true.
  Proof.
    intros Hok ls. rewrite forallb_forall in Hok. apply Hok. apply run_in_reach. apply smem_In. exact Hinit.
  Qed.
End Closed.

Theorem slot_always_ok : forall ls, os_ok (os_run slot_fixed os_init ls) = true.
Proof.
  apply (all_ok_run slot_fixed (os_reach slot_fixed)); vm_compute; reflexivity.
Qed.

(* readable corollaries *)
Theorem slot_no_misuse ls : sbad (os_run slot_fixed os_init ls) = false.
Proof.
  pose proof (slot_always_ok ls) as H. unfold os_ok in H. rewrite !andb_true_iff in H.
  destruct H as [[H _] _]. destruct (sbad _); [discriminate|reflexivity].
Qed.

Theorem slot_released_exactly_once ls :
  let s := os_run slot_fixed os_init ls in
  swp s = WDone -> srp s = RDone -> sbox s = false /\ sval s <> VInit.
Proof.
  intros s Hw Hr. pose proof (slot_always_ok ls) as H. fold s in H. unfold os_ok in H.
  rewrite Hw, Hr, !andb_true_iff in H. destruct H as [_ [A B]].
  split; [destruct (sbox s); [discriminate|reflexivity]|]. intros E. rewrite E in B. discriminate.
Qed.

Theorem slot_value_read_at_most_once ls :
  let s := os_run slot_fixed os_init ls in sgot s = true -> sval s = VMoved.
Proof.
  intros s Hg. pose proof (slot_always_ok ls) as H. fold s in H. unfold os_ok in H.
  rewrite Hg, !andb_true_iff in H. destruct H as [[_ A] _]. cbn in A. destruct (sval s); try discriminate. reflexivity.
Qed.

(* the mask of seed C19-3 (write sets POPULATED only): the value is leaked when the reader goes away without reading *)
Definition slot_leaky : slot_consts := {| k_closed := 1; k_populated := 2; k_wmask := 2 |}.
Lemma slot_leaky_refuted :
  let s := os_run slot_leaky os_init [SLWrite; SLW; SLRDrop; SLR] in
  swp s = WDone /\ srp s = RDone /\ sbox s = true /\ sval s = VInit.
Proof. vm_compute. auto. Qed.
