(* The constants GENERATED from util/slot.rs (gen/SlotProg.v, rewritten from the source on every run, after
   the shape of the four functions has been checked) are those the slot proofs are about. *)
Require Import NX.Base.Prelude NX.Model.Slot NX.gen.SlotProg NX.Proofs.SlotProofs.

Lemma slot_gen_is_proved : slot_gen = slot_fixed.
Proof. reflexivity. Qed.

Theorem slot_gen_always_ok : forall ls, os_ok (os_run slot_gen os_init ls) = true.
Proof. rewrite slot_gen_is_proved. exact slot_always_ok. Qed.

Theorem slot_gen_no_misuse ls : sbad (os_run slot_gen os_init ls) = false.
Proof. rewrite slot_gen_is_proved. exact (slot_no_misuse ls). Qed.

Theorem slot_gen_released_exactly_once ls :
  let s := os_run slot_gen os_init ls in
  swp s = WDone -> srp s = RDone -> sbox s = false /\ sval s <> VInit.
Proof. rewrite slot_gen_is_proved. exact (slot_released_exactly_once ls). Qed.

Theorem slot_gen_value_read_at_most_once ls :
  let s := os_run slot_gen os_init ls in sgot s = true -> sval s = VMoved.
Proof. rewrite slot_gen_is_proved. exact (slot_value_read_at_most_once ls). Qed.
