(* Every step of the pool protocol (barrier of the repaired tree) keeps the invariant. *)
Require Import NX.Base.Prelude NX.Base.ListX NX.Model.Pool NX.Proofs.PoolInv.

Lemma W_upd s s' j w' x :
  pws s' = lupd (pws s) j w' -> j < length (pws s) -> W s' x = if Nat.eqb x j then w' else W s x.
Proof.
  intros E H. unfold W. rewrite E, nth_lupd.
  destruct (Nat.ltb_spec j (length (pws s))); [|lia]. rewrite andb_true_r. reflexivity.
Qed.

Lemma map_wact_lupd l j w' : j < length l -> wact w' = wact (nth j l wdef) ->
  map wact (lupd l j w') = map wact l.
Proof.
  revert j; induction l as [|y l IH]; intros j H E; cbn [length] in H; [lia|].
  destruct j; cbn [lupd map nth] in *; [rewrite E; reflexivity|]. rewrite IH; auto; lia.
Qed.

Ltac wsplit x j := destruct (Nat.eqb_spec x j) as [->|?].

(* A step in which worker j changes only itself, keeps its bit and its token, neither enters nor leaves
   the parked states or an unpark, and does not become "the last worker". *)
Lemma benign s s' j w' :
  Inv s -> j < length (pws s) ->
  pws s' = lupd (pws s) j w' -> pmain s' = pmain s -> ppanic s' = ppanic s -> preads s' = preads s ->
  wact w' = wact (W s j) -> wtok w' = wtok (W s j) -> parkish (wpc w') = parkish (wpc (W s j)) ->
  (forall v, wpc w' <> WUnpark v) -> (forall v, wpc (W s j) <> WUnpark v) ->
  (last_pc (wpc w') = true ->
     (forall v, v <> j -> wact (W s v) = false) /\
     (wpc w' = WPost [BSetAllInactive; BUnparkMain; BPark] -> pinj s' = 0)) ->
  (forall v, wpc w' = WAct v -> v < length (pws s)) ->
  pc_ok (wpc w') -> local_ok w' ->
  (pmsg s' + wcnt w' - pnet s' = pmsg s + wcnt (W s j) - pnet s)%Z ->
  (pinj s' = pinj s \/ (wact (W s j) = true /\ last_pc (wpc (W s j)) = false)) ->
  (pmtok s = true -> pmtok s' = true) ->
  (wpc (W s j) = WPost [BUnparkMain; BPark] -> pmtok s' = true) ->
  Inv s'.
Proof.
  intros I Hj Ews Em Ep Er Ha Ht Hpk Hnu' Hnu Hnl Hwa Hpc Hloc Hsum Hinj Hmt1 Hmt2.
  assert (EW : forall x, W s' x = if Nat.eqb x j then w' else W s x) by (intros x; eapply W_upd; eauto).
  assert (Eacts : acts s' = acts s).
  { unfold acts. rewrite Ews. apply map_wact_lupd; auto. }
  constructor.
  - rewrite Ews, lupd_length. apply I.
  - intros x; rewrite EW; wsplit x j; rewrite ?Nat.eqb_refl; auto. apply I.
  - intros x; rewrite EW; wsplit x j; auto. apply I.
  - intros x; rewrite EW; wsplit x j.
    + intros H. rewrite Ha. apply I. congruence.
    + apply I.
  - intros v; rewrite EW; wsplit v j.
    + intros H. rewrite Ht in H. destruct (i_tok s I j H) as (A & B & C & D).
      refine (conj _ (conj _ (conj _ _))); try congruence.
      intros x; rewrite EW; wsplit x j; auto.
    + intros H. destruct (i_tok s I v H) as (A & B & C & D).
      refine (conj A (conj B (conj _ _))); try congruence.
      intros x; rewrite EW; wsplit x j; auto.
  - intros x v; rewrite EW; wsplit x j; [intros H; exfalso; eapply Hnu'; eauto|].
    intros H. destruct (i_unp s I x v H) as (A & B & C & D & E).
    rewrite EW. refine (conj _ (conj _ (conj _ (conj _ _)))).
    + wsplit v j; congruence.
    + wsplit v j; congruence.
    + wsplit v j; congruence.
    + intros y; rewrite EW; wsplit y j; [intros F; exfalso; eapply Hnu'; eauto|apply D].
    + congruence.
  - intros v; rewrite Em; intros H. destruct (i_munp s I v H) as (A & B & C).
    rewrite EW; wsplit v j; refine (conj _ (conj _ _)); congruence.
  - intros x v; rewrite EW, Ews, lupd_length; wsplit x j; [apply Hwa|apply I].
  - intros x; rewrite EW; wsplit x j.
    + intros H v Hv. rewrite EW. wsplit v j; [congruence|]. apply (proj1 (Hnl H)); auto.
    + intros H v Hv. rewrite EW; wsplit v j; [|eapply i_last; eauto].
      rewrite Ha. eapply i_last; eauto.
  - intros x; rewrite EW; wsplit x j.
    + intros H. apply Hnl; [rewrite H; reflexivity|exact H].
    + intros H. destruct Hinj as [->|[A B]]; [eapply i_last0; eauto|].
      assert (L : last_pc (wpc (W s x)) = true) by (rewrite H; reflexivity).
      rewrite (i_last s I x L j) in A by auto. discriminate.
  - rewrite Em. intros H v. rewrite EW; wsplit v j; [rewrite Ha|]; eapply i_main; eauto.
  - intros a; rewrite Em, Eacts. apply I.
  - intros H. rewrite Em.
    destruct Hinj as [E|[A B]].
    + rewrite E in H. destruct (i_inj s I H) as [[v Hv]|Hm]; [|right; exact Hm].
      left. exists v. rewrite EW; wsplit v j; congruence.
    + left. exists j. rewrite EW, Nat.eqb_refl. congruence.
  - rewrite Ews, sumc_lupd by auto. fold (W s j). pose proof (i_sum s I). lia.
  - rewrite Ep. apply I.
  - rewrite Er. apply I.
  - intros v; rewrite EW, Em; wsplit v j.
    + rewrite Ha, Hpk, Ht. intros A B. destruct (i_wake s I j A B) as [T|[[x Hx]|M]]; auto.
      right; left. exists x. rewrite EW. wsplit x j; [exfalso; eapply Hnu; eauto|exact Hx].
    + intros A B. destruct (i_wake s I v A B) as [T|[[x Hx]|M]]; auto.
      right; left. exists x. rewrite EW. wsplit x j; [exfalso; eapply Hnu; eauto|exact Hx].
  - rewrite Em. intros M A.
    assert (A' : forall v, wact (W s v) = false).
    { intros v. pose proof (A v) as A0. rewrite EW in A0. revert A0. wsplit v j; intros A0; congruence. }
    destruct (i_mwake s I M A') as [T|[x Hx]]; [left; auto|].
    wsplit x j; [left; apply Hmt2; exact Hx|].
    right. exists x. rewrite EW. destruct (Nat.eqb_spec x j); [contradiction|exact Hx].
Qed.


Lemma inactive_parkish s v : Inv s -> wact (W s v) = false -> parkish (wpc (W s v)) = true.
Proof.
  intros I H. destruct (parkish (wpc (W s v))) eqn:E; auto.
  rewrite (i_bit s I v E) in H. discriminate.
Qed.

Lemma tok_inactive s v : Inv s -> wact (W s v) = false -> wtok (W s v) = false.
Proof.
  intros I H. destruct (wtok (W s v)) eqn:E; auto.
  destruct (i_tok s I v E) as [A _]. congruence.
Qed.

Lemma active_not_quiet s v : Inv s -> wact (W s v) = true -> main_quiet (pmain s) = false.
Proof.
  intros I H. destruct (main_quiet (pmain s)) eqn:E; auto.
  rewrite (i_main s I E v) in H. discriminate.
Qed.

Lemma active_no_last s v x : Inv s -> wact (W s v) = true -> x <> v -> last_pc (wpc (W s x)) = false.
Proof.
  intros I H Hx. destruct (last_pc (wpc (W s x))) eqn:E; auto.
  rewrite (i_last s I x E v) in H by auto. discriminate.
Qed.

(* Worker j gives up its bit (try_set_worker_inactive -> true, or set_all_workers_inactive when it is
   the only active one) and goes to a parked state. *)
Lemma clear_bit s s' j w' :
  Inv s -> j < length (pws s) ->
  (forall x, W s' x = if Nat.eqb x j then w' else W s x) ->
  length (pws s') = length (pws s) -> sumc (pws s') = sumc (pws s) ->
  pmain s' = pmain s -> ppanic s' = ppanic s -> preads s' = preads s ->
  pinj s' = pinj s -> pmsg s' = pmsg s -> pnet s' = pnet s ->
  wact (W s j) = true -> parkish (wpc (W s j)) = false ->
  wact w' = false -> wtok w' = false -> parkish (wpc w') = true ->
  pc_ok (wpc w') -> local_ok w' ->
  ((exists v, v <> j /\ wact (W s v) = true) \/ pinj s = 0) ->
  (forall v, wpc (W s j) <> WUnpark v) ->
  ((exists v, v <> j /\ wact (W s v) = true) \/ wpc w' = WPost [BUnparkMain; BPark]) ->
  Inv s'.
Proof.
  intros I Hj EW El Es Em Ep Er Ei Emsg Enet Ha Hnp Ha' Ht' Hp' Hpc Hloc Hoth Hnu Hmw.
  assert (Hpk : forall v, wpc w' <> WUnpark v) by (intros v E; rewrite E in Hp'; discriminate).
  assert (Hq : main_quiet (pmain s) = false) by (eapply active_not_quiet; eauto).
  constructor.
  - rewrite El. apply I.
  - intros x; rewrite EW; wsplit x j; auto. apply I.
  - intros x; rewrite EW; wsplit x j; auto. apply I.
  - intros x; rewrite EW; wsplit x j; [congruence|apply I].
  - intros v; rewrite EW; wsplit v j; [congruence|].
    intros H. destruct (i_tok s I v H) as (A & B & C & D).
    refine (conj A (conj B (conj _ _))); try congruence.
    intros x; rewrite EW; wsplit x j; auto.
  - intros x v; rewrite EW; wsplit x j; [intros H; exfalso; eapply Hpk; eauto|].
    intros H. destruct (i_unp s I x v H) as (A & B & C & D & E).
    assert (v <> j) by (intros ->; congruence).
    rewrite EW. destruct (Nat.eqb_spec v j); [contradiction|].
    refine (conj A (conj B (conj C (conj _ _)))); [|congruence].
    intros y; rewrite EW; wsplit y j; [intros F; exfalso; eapply Hpk; eauto|apply D].
  - intros v; rewrite Em; intros H. destruct (i_munp s I v H) as (A & B & C).
    assert (v <> j) by (intros ->; congruence).
    rewrite EW. destruct (Nat.eqb_spec v j); [contradiction|auto].
  - intros x v; rewrite EW, El; wsplit x j; [intros H; rewrite H in Hp'; discriminate|apply I].
  - intros x; rewrite EW; wsplit x j; [intros H; destruct (wpc w') as [| | |[|[] [|[] [|]]]| | | | | | | |]; discriminate|].
    intros H v Hv. rewrite EW; wsplit v j; [auto|eapply i_last; eauto].
  - intros x; rewrite EW; wsplit x j; [intros H; rewrite H in Hp'; discriminate|].
    rewrite Ei. apply I.
  - rewrite Em, Hq. discriminate.
  - intros a; rewrite Em. intros H. rewrite H in Hq. discriminate.
  - rewrite Ei, Em. intros H. destruct Hoth as [[v [Hv1 Hv2]]|Hz]; [|lia].
    left. exists v. rewrite EW. destruct (Nat.eqb_spec v j); [contradiction|auto].
  - rewrite Emsg, Es, Enet. apply I.
  - rewrite Ep; apply I.
  - rewrite Er; apply I.
  - intros v; rewrite EW, Em; wsplit v j; [congruence|].
    intros A B. destruct (i_wake s I v A B) as [T|[[x Hx]|M]]; auto.
    right; left. exists x. rewrite EW. wsplit x j; [exfalso; eapply Hnu; eauto|exact Hx].
  - intros M A. destruct Hmw as [[v [Hv1 Hv2]]|Hw].
    + pose proof (A v) as A0. rewrite EW in A0. revert A0. destruct (Nat.eqb_spec v j); [contradiction|congruence].
    + right. exists j. rewrite EW, Nat.eqb_refl. exact Hw.
Qed.

(* parker.park() returns: the token is consumed *)
Lemma park_step s s' j w' :
  Inv s -> j < length (pws s) ->
  (forall x, W s' x = if Nat.eqb x j then w' else W s x) ->
  length (pws s') = length (pws s) -> sumc (pws s') = sumc (pws s) ->
  pmain s' = pmain s -> ppanic s' = ppanic s -> preads s' = preads s ->
  pinj s' = pinj s -> pmsg s' = pmsg s -> pnet s' = pnet s ->
  wtok (W s j) = true ->
  wact w' = true -> wtok w' = false -> wpc w' = WPost [] -> local_ok w' ->
  Inv s'.
Proof.
  intros I Hj EW El Es Em Ep Er Ei Emsg Enet Ht Ha' Ht' Hpc' Hloc.
  destruct (i_tok s I j Ht) as (A & B & C & D).
  constructor.
  - rewrite El. apply I.
  - intros x; rewrite EW; wsplit x j; [rewrite Hpc'; cbn; auto|apply I].
  - intros x; rewrite EW; wsplit x j; auto. apply I.
  - intros x; rewrite EW; wsplit x j; [auto|apply I].
  - intros v; rewrite EW; wsplit v j; [congruence|].
    intros H. destruct (i_tok s I v H) as (A1 & B1 & C1 & D1).
    refine (conj A1 (conj B1 (conj _ _))); try congruence.
    intros x; rewrite EW; wsplit x j; [rewrite Hpc'; discriminate|auto].
  - intros x v; rewrite EW; wsplit x j; [rewrite Hpc'; discriminate|].
    intros H. destruct (i_unp s I x v H) as (A1 & B1 & C1 & D1 & E1).
    assert (v <> j) by (intros ->; eapply C; eauto).
    rewrite EW. destruct (Nat.eqb_spec v j); [contradiction|].
    refine (conj A1 (conj B1 (conj C1 (conj _ _)))); [|congruence].
    intros y; rewrite EW; wsplit y j; [rewrite Hpc'; discriminate|apply D1].
  - intros v; rewrite Em; intros H. destruct (i_munp s I v H) as (A1 & B1 & C1).
    assert (v <> j) by (intros ->; congruence).
    rewrite EW. destruct (Nat.eqb_spec v j); [contradiction|auto].
  - intros x v; rewrite EW, El; wsplit x j; [rewrite Hpc'; discriminate|apply I].
  - intros x; rewrite EW; wsplit x j; [rewrite Hpc'; discriminate|].
    intros H v Hv. rewrite EW; wsplit v j; [|eapply i_last; eauto].
    rewrite (i_last s I x H j) in A by auto. discriminate.
  - intros x; rewrite EW; wsplit x j; [rewrite Hpc'; discriminate|].
    rewrite Ei. apply I.
  - rewrite Em. intros H. rewrite (i_main s I H j) in A. discriminate.
  - intros a; rewrite Em. intros H.
    assert (Q : main_quiet (pmain s) = true) by (rewrite H; reflexivity).
    rewrite (i_main s I Q j) in A. discriminate.
  - intros _. left. exists j. rewrite EW, Nat.eqb_refl. auto.
  - rewrite Emsg, Es, Enet. apply I.
  - rewrite Ep; apply I.
  - rewrite Er; apply I.
  - intros v; rewrite EW, Em; wsplit v j; [rewrite Hpc'; discriminate|].
    intros A1 B1. destruct (i_wake s I v A1 B1) as [T|[[x Hx]|M]]; auto.
    right; left. exists x. rewrite EW. wsplit x j; [exfalso; rewrite Hx in B; discriminate|exact Hx].
  - intros M A1. specialize (A1 j). rewrite EW, Nat.eqb_refl in A1. congruence.
Qed.

(* An activator (worker j at WAct v, or the main thread) sets the bit of the inactive worker v. *)
Lemma flip_step s s' v x' (byw : option (nat * pworker)) :
  Inv s -> v < length (pws s) ->
  wact (W s v) = false ->
  wact x' = true -> wtok x' = wtok (W s v) -> wpc x' = wpc (W s v) ->
  wlq x' = wlq (W s v) -> wslot x' = wslot (W s v) -> whand x' = whand (W s v) -> wcnt x' = wcnt (W s v) ->
  length (pws s') = length (pws s) -> sumc (pws s') = sumc (pws s) ->
  ppanic s' = ppanic s -> preads s' = preads s ->
  pinj s' = pinj s -> pmsg s' = pmsg s -> pnet s' = pnet s ->
  match byw with
  | Some (j, w') =>
      j <> v /\ j < length (pws s) /\ wpc (W s j) = WAct v /\ wpc w' = WUnpark v /\ local_ok w' /\
      wact w' = wact (W s j) /\ wtok w' = wtok (W s j) /\ pmain s' = pmain s /\
      (forall y, W s' y = if Nat.eqb y j then w' else if Nat.eqb y v then x' else W s y)
  | None =>
      (exists a, pmain s = MAct a) /\ pmain s' = MUnpark v /\
      (forall y, W s' y = if Nat.eqb y v then x' else W s y)
  end ->
  Inv s'.
Proof.
  intros I Hv Hav Ha' Ht' Hpc' Hlq Hsl Hhd Hcn El Es Ep Er Ei Emsg Enet Hby.
  pose proof (inactive_parkish s v I Hav) as Pv.
  pose proof (tok_inactive s v I Hav) as Tv.
  assert (NU : forall y, wpc (W s y) <> WUnpark v).
  { intros y E. destruct (i_unp s I y v E) as (A & _). congruence. }
  assert (NM : pmain s <> MUnpark v).
  { intros E. destruct (i_munp s I v E) as (A & _). congruence. }
  assert (Lx : local_ok x').
  { pose proof (i_loc s I v) as L. unfold local_ok, clean in *. rewrite Hpc', Hlq, Hsl, Hhd, Hcn. exact L. }
  destruct byw as [[j w']|].
  - destruct Hby as (Hjv & Hj & Hpj & Hpw & Lw & Haw & Htw & Em & EW).
    assert (Aj : wact (W s j) = true) by (apply I; rewrite Hpj; reflexivity).
    assert (Tj : wtok (W s j) = false).
    { destruct (wtok (W s j)) eqn:E; auto. destruct (i_tok s I j E) as (_ & B & _). rewrite Hpj in B. discriminate. }
    assert (Hq : main_quiet (pmain s) = false) by (eapply active_not_quiet; eauto).
    assert (NL : forall y, y <> j -> last_pc (wpc (W s y)) = false) by (intros y Hy; eapply active_no_last; eauto).
    constructor.
    + rewrite El. apply I.
    + intros y; rewrite EW; wsplit y j; [rewrite Hpw; exact Logic.I|].
      wsplit y v; [rewrite Hpc'|]; apply I.
    + intros y; rewrite EW; wsplit y j; [exact Lw|].
      wsplit y v; [exact Lx|apply I].
    + intros y; rewrite EW; wsplit y j; [congruence|]. wsplit y v; [auto|apply I].
    + intros u; rewrite EW; wsplit u j; [congruence|]. wsplit u v; [congruence|].
      intros H. destruct (i_tok s I u H) as (A1 & B1 & C1 & D1).
      refine (conj A1 (conj B1 (conj _ _))); try congruence.
      intros y; rewrite EW; wsplit y j; [rewrite Hpw; congruence|].
      wsplit y v; [rewrite Hpc'|]; apply C1.
    + intros y u; rewrite EW; wsplit y j.
      * rewrite Hpw. intros H; injection H as <-.
        rewrite EW. destruct (Nat.eqb_spec v j); [congruence|]. rewrite Nat.eqb_refl.
        refine (conj Ha' (conj _ (conj _ (conj _ _)))); try congruence.
        intros y; rewrite EW; wsplit y j; auto. wsplit y v; [rewrite Hpc'|]; intros F; exfalso; eapply NU; eauto.
      * assert (Hy : wpc (if Nat.eqb y v then x' else W s y) = wpc (W s y)) by (wsplit y v; auto).
        rewrite Hy. intros H. destruct (i_unp s I y u H) as (A1 & B1 & C1 & D1 & E1).
        assert (u <> v) by (intros ->; congruence).
        assert (u <> j) by (intros ->; rewrite Hpj in B1; discriminate).
        rewrite EW. destruct (Nat.eqb_spec u j); [contradiction|]. destruct (Nat.eqb_spec u v); [contradiction|].
        refine (conj A1 (conj B1 (conj C1 (conj _ _)))); [|congruence].
        intros z; rewrite EW; wsplit z j; [rewrite Hpw; congruence|].
        wsplit z v; [rewrite Hpc'|]; apply D1.
    + intros u; rewrite Em; intros H. destruct (i_munp s I u H) as (A1 & B1 & C1).
      assert (u <> v) by (intros ->; congruence).
      assert (u <> j) by (intros ->; rewrite Hpj in B1; discriminate).
      rewrite EW. destruct (Nat.eqb_spec u j); [contradiction|]. destruct (Nat.eqb_spec u v); [contradiction|auto].
    + intros y u; rewrite EW, El; wsplit y j; [rewrite Hpw; discriminate|].
      wsplit y v; [rewrite Hpc'|]; apply I.
    + intros y; rewrite EW; wsplit y j; [rewrite Hpw; discriminate|].
      assert (Hy : wpc (if Nat.eqb y v then x' else W s y) = wpc (W s y)) by (wsplit y v; auto).
      rewrite Hy, NL by auto. discriminate.
    + intros y; rewrite EW; wsplit y j; [rewrite Hpw; discriminate|].
      assert (Hy : wpc (if Nat.eqb y v then x' else W s y) = wpc (W s y)) by (wsplit y v; auto).
      rewrite Hy, Ei. apply I.
    + rewrite Em, Hq. discriminate.
    + intros a; rewrite Em. intros H. rewrite H in Hq. discriminate.
    + intros _. left. exists v. rewrite EW. destruct (Nat.eqb_spec v j); [congruence|]. rewrite Nat.eqb_refl. auto.
    + rewrite Emsg, Es, Enet. apply I.
    + rewrite Ep; apply I.
    + rewrite Er; apply I.
    + intros u; rewrite EW, Em; wsplit u j; [rewrite Hpw; discriminate|]. wsplit u v.
      * intros _ _. right; left. exists j. rewrite EW, Nat.eqb_refl. exact Hpw.
      * intros A1 B1. destruct (i_wake s I u A1 B1) as [T|[[x Hx]|M]]; auto.
        right; left. exists x. rewrite EW. wsplit x j; [congruence|]. wsplit x v; [rewrite Hpc'|]; exact Hx.
    + intros M A1. specialize (A1 j). rewrite EW, Nat.eqb_refl in A1. congruence.
  - destruct Hby as ([a Ea] & Em & EW).
    assert (Q : main_quiet (pmain s) = true) by (rewrite Ea; reflexivity).
    pose proof (i_main s I Q) as AllI.
    assert (NUa : forall y u, wpc (W s y) <> WUnpark u).
    { intros y u E. destruct (i_unp s I y u E) as (A & _). rewrite AllI in A. discriminate. }
    assert (NLa : forall y, last_pc (wpc (W s y)) = false).
    { intros y. destruct (last_pc (wpc (W s y))) eqn:E; auto.
      assert (P : parkish (wpc (W s y)) = false) by (destruct (wpc (W s y)) as [| | |[|[] [|[] [|[] [|]]]]| | | | | | | |]; try discriminate; reflexivity).
      pose proof (AllI y) as F. rewrite (i_bit s I y P) in F. discriminate. }
    assert (Hyp : forall y, wpc (if Nat.eqb y v then x' else W s y) = wpc (W s y)) by (intros y; wsplit y v; auto).
    constructor.
    + rewrite El. apply I.
    + intros y; rewrite EW, Hyp; apply I.
    + intros y; rewrite EW; wsplit y v; [exact Lx|apply I].
    + intros y; rewrite EW; wsplit y v; [auto|apply I].
    + intros u; rewrite EW; wsplit u v; [congruence|].
      intros H. destruct (i_tok s I u H) as (A1 & _). rewrite AllI in A1. discriminate.
    + intros y u; rewrite EW, Hyp. intros H; exfalso; eapply NUa; eauto.
    + intros u; rewrite Em. intros H; injection H as <-.
      rewrite EW, Nat.eqb_refl. refine (conj Ha' (conj _ _)); congruence.
    + intros y u; rewrite EW, Hyp, El. apply I.
    + intros y; rewrite EW, Hyp, NLa. discriminate.
    + intros y; rewrite EW, Hyp, Ei. apply I.
    + rewrite Em. discriminate.
    + intros b; rewrite Em. discriminate.
    + intros _. left. exists v. rewrite EW, Nat.eqb_refl. auto.
    + rewrite Emsg, Es, Enet. apply I.
    + rewrite Ep; apply I.
    + rewrite Er; apply I.
    + intros u; rewrite EW, Em; wsplit u v; [intros _ _; right; right; reflexivity|].
      intros A1 _. rewrite AllI in A1. discriminate.
    + rewrite Em. discriminate.
Qed.

(* The activator hands the token over: worker_unparkers[v].unpark() *)
Lemma unpark_step s s' v x' (byw : option (nat * pworker)) :
  Inv s -> v < length (pws s) ->
  wact x' = wact (W s v) -> wtok x' = true -> wpc x' = wpc (W s v) ->
  wlq x' = wlq (W s v) -> wslot x' = wslot (W s v) -> whand x' = whand (W s v) -> wcnt x' = wcnt (W s v) ->
  length (pws s') = length (pws s) -> sumc (pws s') = sumc (pws s) ->
  ppanic s' = ppanic s -> preads s' = preads s ->
  pinj s' = pinj s -> pmsg s' = pmsg s -> pnet s' = pnet s ->
  match byw with
  | Some (j, w') =>
      j < length (pws s) /\ wpc (W s j) = WUnpark v /\ wpc w' = WTask /\ local_ok w' /\
      wact w' = wact (W s j) /\ wtok w' = wtok (W s j) /\ pmain s' = pmain s /\
      (forall y, W s' y = if Nat.eqb y j then w' else if Nat.eqb y v then x' else W s y)
  | None =>
      pmain s = MUnpark v /\ pmain s' = MLoop /\
      (forall y, W s' y = if Nat.eqb y v then x' else W s y)
  end ->
  Inv s'.
Proof.
  intros I Hv Ha' Ht' Hpc' Hlq Hsl Hhd Hcn El Es Ep Er Ei Emsg Enet Hby.
  assert (Lx : local_ok x').
  { pose proof (i_loc s I v) as L. unfold local_ok, clean in *. rewrite Hpc', Hlq, Hsl, Hhd, Hcn. exact L. }
  assert (Hyp : forall y, wpc (if Nat.eqb y v then x' else W s y) = wpc (W s y)) by (intros y; wsplit y v; auto).
  assert (Hya : forall y, wact (if Nat.eqb y v then x' else W s y) = wact (W s y)) by (intros y; wsplit y v; auto).
  destruct byw as [[j w']|].
  - destruct Hby as (Hj & Hpj & Hpw & Lw & Haw & Htw & Em & EW).
    destruct (i_unp s I j v Hpj) as (Av & Pv & Tv & Uv & Mv).
    assert (Hjv : j <> v) by (intros ->; rewrite Hpj in Pv; discriminate).
    assert (Aj : wact (W s j) = true) by (apply I; rewrite Hpj; reflexivity).
    assert (Tj : wtok (W s j) = false).
    { destruct (wtok (W s j)) eqn:E; auto. destruct (i_tok s I j E) as (_ & B & _). rewrite Hpj in B. discriminate. }
    assert (Hq : main_quiet (pmain s) = false) by (eapply active_not_quiet; eauto).
    assert (NL : forall y, y <> j -> last_pc (wpc (W s y)) = false) by (intros y Hy; eapply active_no_last; eauto).
    constructor.
    + rewrite El. apply I.
    + intros y; rewrite EW; wsplit y j; [rewrite Hpw; exact Logic.I|]. rewrite Hyp. apply I.
    + intros y; rewrite EW; wsplit y j; [exact Lw|].
      wsplit y v; [exact Lx|apply I].
    + intros y; rewrite EW; wsplit y j; [congruence|]. rewrite Hyp, Hya. apply I.
    + intros u; rewrite EW; wsplit u j; [congruence|]. wsplit u v.
      * intros _. refine (conj _ (conj _ (conj _ _))); try congruence.
        intros y; rewrite EW; wsplit y j; [rewrite Hpw; discriminate|].
        rewrite Hyp. intros F. apply Uv in F. contradiction.
      * intros H. destruct (i_tok s I u H) as (A1 & B1 & C1 & D1).
        refine (conj A1 (conj B1 (conj _ _))); try congruence.
        intros y; rewrite EW; wsplit y j; [rewrite Hpw; discriminate|]. rewrite Hyp. apply C1.
    + intros y u; rewrite EW; wsplit y j; [rewrite Hpw; discriminate|].
      rewrite Hyp. intros H. destruct (i_unp s I y u H) as (A1 & B1 & C1 & D1 & E1).
      assert (u <> v) by (intros ->; apply Uv in H; contradiction).
      assert (u <> j) by (intros ->; rewrite Hpj in B1; discriminate).
      rewrite EW. destruct (Nat.eqb_spec u j); [contradiction|]. destruct (Nat.eqb_spec u v); [contradiction|].
      refine (conj A1 (conj B1 (conj C1 (conj _ _)))); [|congruence].
      intros z; rewrite EW; wsplit z j; [rewrite Hpw; discriminate|]. rewrite Hyp. apply D1.
    + intros u; rewrite Em; intros H. destruct (i_munp s I u H) as (A1 & B1 & C1).
      assert (u <> v) by (intros ->; contradiction).
      assert (u <> j) by (intros ->; rewrite Hpj in B1; discriminate).
      rewrite EW. destruct (Nat.eqb_spec u j); [contradiction|]. destruct (Nat.eqb_spec u v); [contradiction|auto].
    + intros y u; rewrite EW, El; wsplit y j; [rewrite Hpw; discriminate|]. rewrite Hyp. apply I.
    + intros y; rewrite EW; wsplit y j; [rewrite Hpw; discriminate|]. rewrite Hyp, NL by auto. discriminate.
    + intros y; rewrite EW; wsplit y j; [rewrite Hpw; discriminate|]. rewrite Hyp, Ei. apply I.
    + rewrite Em, Hq. discriminate.
    + intros a; rewrite Em. intros H. rewrite H in Hq. discriminate.
    + intros _. left. exists j. rewrite EW, Nat.eqb_refl. congruence.
    + rewrite Emsg, Es, Enet. apply I.
    + rewrite Ep; apply I.
    + rewrite Er; apply I.
    + intros u; rewrite EW, Em; wsplit u j; [rewrite Hpw; discriminate|]. wsplit u v; [intros _ _; left; exact Ht'|].
      intros A1 B1. destruct (i_wake s I u A1 B1) as [T|[[x Hx]|M]]; auto.
      right; left. exists x. rewrite EW. wsplit x j; [congruence|]. rewrite Hyp. exact Hx.
    + intros M A1. specialize (A1 j). rewrite EW, Nat.eqb_refl in A1. congruence.
  - destruct Hby as (Em0 & Em & EW).
    destruct (i_munp s I v Em0) as (Av & Pv & Tv).
    assert (NU : forall y, wpc (W s y) <> WUnpark v).
    { intros y E. destruct (i_unp s I y v E) as (_ & _ & _ & _ & F). contradiction. }
    constructor.
    + rewrite El. apply I.
    + intros y; rewrite EW, Hyp; apply I.
    + intros y; rewrite EW; wsplit y v; [exact Lx|apply I].
    + intros y; rewrite EW, Hyp, Hya. apply I.
    + intros u; rewrite EW; wsplit u v.
      * intros _. refine (conj _ (conj _ (conj _ _))); try congruence.
        intros y; rewrite EW, Hyp. apply NU.
      * intros H. destruct (i_tok s I u H) as (A1 & B1 & C1 & D1).
        refine (conj A1 (conj B1 (conj _ _))); try congruence.
        intros y; rewrite EW, Hyp. apply C1.
    + intros y u; rewrite EW, Hyp. intros H. destruct (i_unp s I y u H) as (A1 & B1 & C1 & D1 & E1).
      assert (u <> v) by (intros ->; eapply NU; eauto).
      rewrite EW. destruct (Nat.eqb_spec u v); [contradiction|].
      refine (conj A1 (conj B1 (conj C1 (conj _ _)))); [|congruence].
      intros z; rewrite EW, Hyp. apply D1.
    + intros u; rewrite Em. discriminate.
    + intros y u; rewrite EW, Hyp, El. apply I.
    + intros y; rewrite EW, Hyp. intros H u Hu. rewrite EW, Hya. eapply i_last; eauto.
    + intros y; rewrite EW, Hyp, Ei. apply I.
    + rewrite Em. discriminate.
    + intros a; rewrite Em. discriminate.
    + rewrite Ei. intros H. destruct (i_inj s I H) as [[u Hu]|[F|[a F]]]; try congruence.
      left. exists u. rewrite EW, Hya. exact Hu.
    + rewrite Emsg, Es, Enet. apply I.
    + rewrite Ep; apply I.
    + rewrite Er; apply I.
    + intros u; rewrite EW, Em; wsplit u v; [intros _ _; left; exact Ht'|].
      intros A1 B1. destruct (i_wake s I u A1 B1) as [T|[[x Hx]|M]]; auto.
      * right; left. exists x. rewrite EW, Hyp. exact Hx.
      * congruence.
    + rewrite Em. discriminate.
Qed.

(* The main thread moves on, the workers are untouched. *)
Lemma main_frame s s' :
  Inv s -> pws s' = pws s -> ppanic s' = ppanic s -> pmsg s' = pmsg s -> pnet s' = pnet s ->
  (pinj s' = pinj s \/ main_quiet (pmain s) = true) ->
  (forall v, pmain s' = MUnpark v -> pmain s = MUnpark v) ->
  (main_quiet (pmain s') = true -> forall v, wact (W s v) = false) ->
  (forall a, pmain s' = MAct a -> a = acts s) ->
  (0 < pinj s' -> (exists v, wact (W s v) = true) \/ pmain s' = MIdle \/ exists a, pmain s' = MAct a) ->
  (forall m n, In (m, n) (preads s') -> m = n) ->
  (forall v, pmain s <> MUnpark v) ->
  (pmain s' = MPark -> (forall v, wact (W s v) = false) ->
     pmtok s' = true \/ exists x, wpc (W s x) = WPost [BUnparkMain; BPark]) ->
  Inv s'.
Proof.
  intros I Ews Ep Emsg Enet Hinj Hmu Hq Hsn Hi Hr Hnm Hmw.
  assert (EW : forall x, W s' x = W s x) by (intros x; unfold W; rewrite Ews; reflexivity).
  constructor.
  - rewrite Ews; apply I.
  - intros j; rewrite EW; apply I.
  - intros j; rewrite EW; apply I.
  - intros j; rewrite EW; apply I.
  - intros v; rewrite EW; intros H. destruct (i_tok s I v H) as (A & B & C & D).
    refine (conj A (conj B (conj _ _))).
    + intros x; rewrite EW; apply C.
    + intros F. apply D. apply Hmu; exact F.
  - intros x v; rewrite EW; intros H. destruct (i_unp s I x v H) as (A & B & C & D & E).
    rewrite EW. refine (conj A (conj B (conj C (conj _ _)))).
    + intros y; rewrite EW; apply D.
    + intros F. apply E. apply Hmu; exact F.
  - intros v H. rewrite EW. apply I. apply Hmu; exact H.
  - intros x v; rewrite EW, Ews. apply I.
  - intros j; rewrite EW; intros H v Hv. rewrite EW. eapply i_last; eauto.
  - intros j; rewrite EW; intros H. destruct Hinj as [->|Q]; [eapply i_last0; eauto|].
    assert (P : parkish (wpc (W s j)) = false) by (rewrite H; reflexivity).
    pose proof (i_bit s I j P) as A. rewrite (i_main s I Q j) in A. discriminate.
  - intros H v; rewrite EW. apply Hq; auto.
  - intros a H. unfold acts; rewrite Ews. apply Hsn; auto.
  - intros H. destruct (Hi H) as [[v Hv]|F]; [left; exists v; rewrite EW; exact Hv|right; exact F].
  - rewrite Emsg, Ews, Enet. apply I.
  - rewrite Ep; apply I.
  - exact Hr.
  - intros v; rewrite EW. intros A B. destruct (i_wake s I v A B) as [T|[[x Hx]|M]]; auto.
    + right; left. exists x. rewrite EW. exact Hx.
    + exfalso. eapply Hnm; eauto.
  - intros M A. destruct (Hmw M) as [T|[x Hx]]; auto.
    + intros v. rewrite <- EW. apply A.
    + right. exists x. rewrite EW. exact Hx.
Qed.

(* Worker v loses tasks of its local queue to a thief: nothing the invariant talks about changes. *)
Lemma lq_only s s' v x' :
  Inv s -> v < length (pws s) -> pws s' = lupd (pws s) v x' ->
  pmain s' = pmain s -> ppanic s' = ppanic s -> preads s' = preads s ->
  pinj s' = pinj s -> pmsg s' = pmsg s -> pnet s' = pnet s ->
  wpc x' = wpc (W s v) -> wact x' = wact (W s v) -> wtok x' = wtok (W s v) -> wcnt x' = wcnt (W s v) ->
  local_ok x' -> pmtok s' = pmtok s -> Inv s'.
Proof.
  intros I Hv Ews Em Ep Er Ei Emsg Enet Hpc Ha Ht Hc Hl Emt.
  assert (EW : forall y, W s' y = if Nat.eqb y v then x' else W s y) by (intros y; eapply W_upd; eauto).
  assert (Ppc : forall y, wpc (W s' y) = wpc (W s y)) by (intros y; rewrite EW; wsplit y v; auto).
  assert (Pa : forall y, wact (W s' y) = wact (W s y)) by (intros y; rewrite EW; wsplit y v; auto).
  assert (Pt : forall y, wtok (W s' y) = wtok (W s y)) by (intros y; rewrite EW; wsplit y v; auto).
  constructor.
  - rewrite Ews, lupd_length. apply I.
  - intros y; rewrite Ppc; apply I.
  - intros y; rewrite EW; wsplit y v; [exact Hl|apply I].
  - intros y; rewrite Ppc, Pa; apply I.
  - intros u; rewrite Pt, Pa, Ppc, Em. intros H. destruct (i_tok s I u H) as (A & B & C & D).
    refine (conj A (conj B (conj _ D))). intros y; rewrite Ppc; apply C.
  - intros y u; rewrite Ppc, Pa, Ppc, Pt, Em. intros H. destruct (i_unp s I y u H) as (A & B & C & D & E).
    refine (conj A (conj B (conj C (conj _ E)))). intros z; rewrite Ppc; apply D.
  - intros u; rewrite Em, Pa, Ppc, Pt. apply I.
  - intros y u; rewrite Ppc, Ews, lupd_length. apply I.
  - intros y; rewrite Ppc. intros H u Hu. rewrite Pa. eapply i_last; eauto.
  - intros y; rewrite Ppc, Ei. apply I.
  - rewrite Em. intros H u. rewrite Pa. eapply i_main; eauto.
  - intros a; rewrite Em. intros H. rewrite (i_snap s I a H). unfold acts. rewrite Ews.
    symmetry. apply map_wact_lupd; auto.
  - rewrite Ei, Em. intros H. destruct (i_inj s I H) as [[u Hu]|F]; [left; exists u; rewrite Pa; exact Hu|right; exact F].
  - rewrite Emsg, Enet, Ews, sumc_lupd by auto. fold (W s v). pose proof (i_sum s I). lia.
  - rewrite Ep; apply I.
  - rewrite Er; apply I.
  - intros u; rewrite Pa, Ppc, Pt, Em. intros A B. destruct (i_wake s I u A B) as [T|[[x Hx]|M]]; auto.
    right; left. exists x. rewrite Ppc. exact Hx.
  - rewrite Em, Emt. intros M A. destruct (i_mwake s I M) as [T|[x Hx]]; auto.
    + intros u. rewrite <- Pa. apply A.
    + right. exists x. rewrite Ppc. exact Hx.
Qed.
