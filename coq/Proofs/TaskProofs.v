(* Every operation of Model/TaskSM.v preserves the invariant of Model/TaskInv.v
   (one lemma per operation in Proofs/TaskOps, each by case analysis on the
   finite part of the state + linear arithmetic); hence it holds in every
   state reachable from spawn / spawn_and_forget under any interleaving. *)
Require Import NX.Base.Prelude NX.Model.TaskSM NX.Model.TaskInv.
Require Import NX.Proofs.TaskOps.Op_TClone NX.Proofs.TaskOps.Op_TWakeRef NX.Proofs.TaskOps.Op_TWakeVal NX.Proofs.TaskOps.Op_TDropWaker NX.Proofs.TaskOps.Op_TTokenDrop NX.Proofs.TaskOps.Op_TTokenCancel NX.Proofs.TaskOps.Op_TCancelFinish NX.Proofs.TaskOps.Op_TPromisePoll NX.Proofs.TaskOps.Op_TPromiseDrop NX.Proofs.TaskOps.Op_TRunStart NX.Proofs.TaskOps.Op_TRunBegin NX.Proofs.TaskOps.Op_TPollPending NX.Proofs.TaskOps.Op_TPollReady NX.Proofs.TaskOps.Op_TPollPanic NX.Proofs.TaskOps.Op_TReadyUpdate NX.Proofs.TaskOps.Op_TReadyFinish NX.Proofs.TaskOps.Op_TCancelClose NX.Proofs.TaskOps.Op_TRunnableDrop.

Theorem ts_step_inv s o s' : inv_b s = true -> ts_step s o = Some s' -> inv_b s' = true.
Proof.
  intros HI HS. destruct o.
  - eapply step_TClone; eauto.
  - eapply step_TWakeRef; eauto.
  - eapply step_TWakeVal; eauto.
  - eapply step_TDropWaker; eauto.
  - eapply step_TTokenDrop; eauto.
  - eapply step_TTokenCancel; eauto.
  - eapply step_TCancelFinish; eauto.
  - eapply step_TPromisePoll; eauto.
  - eapply step_TPromiseDrop; eauto.
  - eapply step_TRunStart; eauto.
  - eapply step_TRunBegin; eauto.
  - eapply step_TPollPending; eauto.
  - eapply step_TPollReady; eauto.
  - eapply step_TPollPanic; eauto.
  - eapply step_TReadyUpdate; eauto.
  - eapply step_TReadyFinish; eauto.
  - eapply step_TCancelClose; eauto.
  - eapply step_TRunnableDrop; eauto.
Qed.

Theorem ts_run_inv ops : forall s, inv_b s = true -> inv_b (ts_run s ops) = true.
Proof.
  induction ops as [|o r IH]; intros s HI; cbn [ts_run]; auto.
  destruct (ts_step s o) as [s'|] eqn:E; [apply IH; eapply ts_step_inv; eauto|apply IH; auto].
Qed.

Lemma init_spawn_inv : inv_b init_spawn = true. Proof. reflexivity. Qed.
Lemma init_forget_inv : inv_b init_forget = true. Proof. reflexivity. Qed.
