(* The pool protocol keeps its invariant along every execution; consequences. *)
Require Import NX.Base.Prelude NX.Base.ListX NX.Model.Pool NX.Proofs.PoolInv NX.Proofs.PoolSteps.

Global Arguments W : simpl never.

Lemma set_act_same w b : wact w = b -> set_act w b = w.
Proof. intros <-. destruct w; reflexivity. Qed.

Lemma nth_map_act l x b : wact wdef = b ->
  nth x (map (fun y => set_act y b) l) wdef = set_act (nth x l wdef) b.
Proof.
  intros E. rewrite <- (map_nth (fun y => set_act y b)). f_equal. symmetry. apply set_act_same. exact E.
Qed.

Lemma W_upd2 s s' j v w' x' y :
  pws s' = lupd (lupd (pws s) v x') j w' -> j < length (pws s) -> v < length (pws s) ->
  W s' y = if Nat.eqb y j then w' else if Nat.eqb y v then x' else W s y.
Proof.
  intros E Hj Hv. unfold W. rewrite E, !nth_lupd, lupd_length.
  destruct (Nat.ltb_spec j (length (pws s))); [|lia]. destruct (Nat.ltb_spec v (length (pws s))); [|lia].
  rewrite !andb_true_r. reflexivity.
Qed.

Lemma sumc_lupd_same l j w : j < length l -> wcnt w = wcnt (nth j l wdef) -> sumc (lupd l j w) = sumc l.
Proof. intros H E. rewrite sumc_lupd by auto. lia. Qed.

Ltac ben_side HW Epc :=
  rewrite ?HW; rewrite ?Epc; cbn; rewrite ?Epc; cbn;
  try solve [ reflexivity | discriminate | tauto | auto | lia
            | intros; discriminate
            | intros F; discriminate F
            | unfold local_ok, clean in *; cbn in *; rewrite ?Epc in *; cbn in *; intuition (auto; lia) ].

Lemma worker_step_inv s j w c s' :
  Inv s -> nth_error (pws s) j = Some w -> worker_step barrier_fixed s j w c = Some s' -> Inv s'.
Proof.
  intros I Hn Hs. destruct (W_nth_error _ _ _ Hn) as [HW Hj].
  pose proof (i_pc s I j) as Hpc. pose proof (i_loc s I j) as Hloc. pose proof (i_bit s I j) as Hbit.
  rewrite HW in Hpc, Hloc, Hbit. unfold local_ok in Hloc.
  assert (Htk : parkish (wpc w) = false -> wtok w = false).
  { intros P. destruct (wtok w) eqn:E; auto.
    destruct (i_tok s I j) as (_ & B & _); [rewrite HW; exact E|]. rewrite HW in B. congruence. }
  unfold worker_step in Hs.
  destruct (wpc w) as [ops| | |ops| | | | | | |v|v] eqn:Epc.
  - (* WPre *)
    cbn in Hpc. destruct Hpc as [->| ->].
    + cbn in Hs. injection Hs as <-. eapply (benign s _ j _ I Hj); ben_side HW Epc.
    + cbn in Hs. injection Hs as <-. eapply (benign s _ j _ I Hj); ben_side HW Epc.
  - (* WTry *)
    assert (Aw : wact w = true) by (apply Hbit; reflexivity).
    rewrite Aw in Hs. cbn [negb] in Hs.
    assert (Hlen : j < length (acts s)) by (unfold acts; rewrite map_length; auto).
    destruct (only_bit (acts s) j) eqn:Eo; injection Hs as <-.
    + destruct (only_bit_spec _ _ Hlen Eo) as [_ Oth].
      eapply (benign s _ j _ I Hj); ben_side HW Epc.
      intros _. split; [intros v Hv; rewrite <- acts_nth; apply Oth; auto|intros F; discriminate F].
    + destruct (only_bit_false _ _ Hlen Eo) as [v [Hv1 Hv2]]; [rewrite acts_nth, HW; exact Aw|].
      rewrite acts_nth in Hv2.
      eapply (clear_bit s _ j (set_pc (set_act w false) (WPost [BPark])) I Hj); try reflexivity; ben_side HW Epc;
        try solve [ intros x; eapply W_upd; [reflexivity|exact Hj] | apply lupd_length
                  | apply sumc_lupd_same; auto; fold (W s j); rewrite HW; reflexivity
                  | left; exists v; auto | apply Htk; rewrite Epc; reflexivity ].
  - (* WChk *)
    assert (Oth : forall v, v <> j -> wact (W s v) = false).
    { apply (i_last s I j). rewrite HW, Epc. reflexivity. }
    destruct (Nat.eqb_spec (pinj s) 0) as [Ez|Ez]; injection Hs as <-.
    + eapply (benign s _ j _ I Hj); ben_side HW Epc.
    + eapply (benign s _ j _ I Hj); ben_side HW Epc.
  - (* WPost *)
    cbn in Hpc. destruct Hpc as [->|[->|[->|[->| ->]]]]; cbn in Hs.
    + (* park *)
      destruct (wtok w) eqn:Et; [|discriminate]. injection Hs as <-.
      assert (Tj : wtok (W s j) = true) by (rewrite HW; exact Et).
      destruct (i_tok s I j Tj) as (A & _). rewrite HW in A.
      eapply (park_step s _ j (set_pc (set_tok w false) (WPost [])) I Hj); try reflexivity; ben_side HW Epc;
        try solve [ intros x; eapply W_upd; [reflexivity|exact Hj] | apply lupd_length
                  | apply sumc_lupd_same; auto; fold (W s j); rewrite HW; reflexivity ].
    + injection Hs as <-. eapply (benign s _ j _ I Hj); ben_side HW Epc.
    + (* set_all_workers_inactive *)
      injection Hs as <-.
      assert (Oth : forall v, v <> j -> wact (W s v) = false).
      { apply (i_last s I j). rewrite HW, Epc. reflexivity. }
      assert (Aw : wact w = true) by (apply Hbit; reflexivity).
      assert (Z0 : pinj s = 0) by (apply (i_last0 s I j); rewrite HW; exact Epc).
      eapply (clear_bit s _ j (set_pc (set_act w false) (WPost [BUnparkMain; BPark])) I Hj); try reflexivity; ben_side HW Epc.
      * intros x. unfold W at 1. cbn [pws set_w set_ws]. rewrite nth_lupd, map_length.
        destruct (Nat.ltb_spec j (length (pws s))); [|lia]. rewrite andb_true_r.
        destruct (Nat.eqb_spec x j); [reflexivity|].
        rewrite nth_map_act by reflexivity. fold (W s x).
        apply set_act_same. apply Oth; auto.
      * rewrite lupd_length, map_length. reflexivity.
      * rewrite sumc_lupd by (rewrite map_length; auto). rewrite sumc_map_act.
        rewrite nth_map_act by reflexivity. fold (W s j). rewrite HW. cbn. lia.
    + injection Hs as <-. eapply (benign s _ j _ I Hj); ben_side HW Epc.
    + injection Hs as <-. eapply (benign s _ j _ I Hj); ben_side HW Epc.
  - (* WSearch *)
    assert (Aw : wact w = true) by (apply Hbit; reflexivity).
    destruct c; try discriminate.
    + destruct ((1 <=? k) && (k <=? pinj s)) eqn:Ek; [|discriminate]. injection Hs as <-.
      eapply (benign s _ j _ I Hj); ben_side HW Epc.
    + destruct (Nat.eqb_spec v j) as [|Hvj]; [discriminate|].
      destruct (nth_error (pws s) v) as [x|] eqn:Ev; [|discriminate].
      destruct (W_nth_error _ _ _ Ev) as [HWv Hv].
      destruct (wslot w) eqn:Esl; [unfold clean in Hloc; destruct Hloc as (_ & F & _); congruence|].
      destruct ((1 <=? k) && (k <=? wlq x)) eqn:Ek; [|discriminate]. injection Hs as <-.
      apply andb_true_iff in Ek. destruct Ek as [Ek1 Ek2]. apply Nat.leb_le in Ek1, Ek2.
      assert (I1 : Inv (set_w s v (set_lq x (wlq x - k)))).
      { pose proof (i_loc s I v) as Lv. rewrite HWv in Lv.
        eapply (lq_only s _ v (set_lq x (wlq x - k)) I Hv); try reflexivity; rewrite ?HWv; try reflexivity.
        unfold local_ok, clean in *. cbn.
        destruct (wpc x) as [[|[] [|]]| | |ops| | | | | | |u|u]; cbn in *; intuition lia. }
      set (s1 := set_w s v (set_lq x (wlq x - k))) in *.
      assert (Hj1 : j < length (pws s1)) by (unfold s1; rewrite length_set_w; exact Hj).
      assert (HW1 : W s1 j = w).
      { unfold s1. rewrite W_set_w by exact Hv. destruct (Nat.eqb_spec j v); [congruence|exact HW]. }
      eapply (benign s1 _ j _ I1 Hj1); ben_side HW1 Epc.
    + injection Hs as <-. eapply (benign s _ j _ I Hj); ben_side HW Epc.
  - (* WExt *)
    injection Hs as <-. assert (Aw : wact w = true) by (apply Hbit; reflexivity).
    eapply (benign s _ j _ I Hj); ben_side HW Epc.
  - (* WRun *)
    assert (Aw : wact w = true) by (apply Hbit; reflexivity).
    destruct (wslot w) eqn:Esl; [|destruct (wlq w) as [|q] eqn:Elq]; injection Hs as <-;
      eapply (benign s _ j _ I Hj); ben_side HW Epc.
  - (* WTask *)
    assert (Aw : wact w = true) by (apply Hbit; reflexivity).
    destruct c; try discriminate.
    + injection Hs as <-. eapply (benign s _ j _ I Hj); ben_side HW Epc.
    + destruct (wslot w) eqn:Esl; injection Hs as <-; eapply (benign s _ j _ I Hj); ben_side HW Epc.
    + injection Hs as <-. eapply (benign s _ j _ I Hj); ben_side HW Epc.
  - (* WSched1 *)
    assert (Aw : wact w = true) by (apply Hbit; reflexivity).
    destruct c; try discriminate.
    + destruct (whand w) as [|h] eqn:Eh; [discriminate|]. injection Hs as <-.
      eapply (benign s _ j _ I Hj); ben_side HW Epc.
    + destruct (k <=? wlq w) eqn:Ek; [|discriminate]. injection Hs as <-.
      eapply (benign s _ j _ I Hj); ben_side HW Epc.
    + destruct ((1 <=? k) && (k <=? whand w)) eqn:Ek; [|discriminate]. injection Hs as <-.
      eapply (benign s _ j _ I Hj); ben_side HW Epc.
    + destruct (whand w) as [|h] eqn:Eh; [|discriminate]. injection Hs as <-.
      eapply (benign s _ j _ I Hj); ben_side HW Epc.
  - (* WSched2 *)
    assert (Aw : wact w = true) by (apply Hbit; reflexivity).
    destruct c; try discriminate.
    + destruct (Nat.ltb_spec v (length (pws s))) as [Hv|Hv]; [|discriminate]. injection Hs as <-.
      eapply (benign s _ j _ I Hj); ben_side HW Epc.
      intros u F. injection F as <-. exact Hv.
    + injection Hs as <-. eapply (benign s _ j _ I Hj); ben_side HW Epc.
  - (* WAct *)
    assert (Aw : wact w = true) by (apply Hbit; reflexivity).
    destruct (nth_error (pws s) v) as [x|] eqn:Ev; [|discriminate].
    destruct (W_nth_error _ _ _ Ev) as [HWv Hv].
    destruct (wact x) eqn:Eax.
    + injection Hs as <-. eapply (benign s _ j _ I Hj); ben_side HW Epc.
    + destruct (Nat.eqb_spec v j) as [->|Hvj]; [congruence|]. injection Hs as <-.
      eapply (flip_step s _ v (set_act x true) (Some (j, set_pc w (WUnpark v))) I Hv);
        rewrite ?HWv; try reflexivity; try exact Eax.
      * cbn. rewrite !lupd_length. reflexivity.
      * cbn. rewrite sumc_lupd_same; [apply sumc_lupd_same; auto; fold (W s v); rewrite HWv; reflexivity
                                      |rewrite lupd_length; exact Hj|].
        rewrite nth_lupd. destruct (Nat.eqb_spec j v); [congruence|]. cbn [andb]. fold (W s j). rewrite HW. reflexivity.
      * rewrite HW. refine (conj _ (conj Hj (conj Epc (conj _ (conj _ (conj _ (conj _ (conj _ _)))))))); try reflexivity; auto.
        intros y. eapply W_upd2; [reflexivity|exact Hj|exact Hv].
  - (* WUnpark *)
    destruct (nth_error (pws s) v) as [x|] eqn:Ev; [|discriminate].
    destruct (W_nth_error _ _ _ Ev) as [HWv Hv].
    assert (Hpj : wpc (W s j) = WUnpark v) by (rewrite HW; exact Epc).
    destruct (i_unp s I j v Hpj) as (_ & Pv & _).
    destruct (Nat.eqb_spec v j) as [->|Hvj]; [rewrite Hpj in Pv; discriminate|]. injection Hs as <-.
    eapply (unpark_step s _ v (set_tok x true) (Some (j, set_pc w WTask)) I Hv);
      rewrite ?HWv; try reflexivity.
    + cbn. rewrite !lupd_length. reflexivity.
    + cbn. rewrite sumc_lupd_same; [apply sumc_lupd_same; auto; fold (W s v); rewrite HWv; reflexivity
                                    |rewrite lupd_length; exact Hj|].
      rewrite nth_lupd. destruct (Nat.eqb_spec j v); [congruence|]. cbn [andb]. fold (W s j). rewrite HW. reflexivity.
    + rewrite HW. refine (conj Hj (conj Epc (conj _ (conj _ (conj _ (conj _ (conj _ _))))))); try reflexivity; try exact Hloc.
      intros y. eapply W_upd2; [reflexivity|exact Hj|exact Hv].
Qed.

Lemma all_inactive_acts s : all_inactive (acts s) = true <-> forall v, wact (W s v) = false.
Proof.
  rewrite all_inactive_spec. split; intros H v; [rewrite <- acts_nth|rewrite acts_nth]; apply H.
Qed.

Lemma quiet_msg s : Inv s -> (forall v, wact (W s v) = false) ->
  pmsg s = pnet s /\ (forall j, no_work (W s j)) /\
  (pmain s <> MIdle -> (forall a, pmain s <> MAct a) -> pinj s = 0).
Proof.
  intros I H.
  assert (P : forall v, parkish (wpc (W s v)) = true) by (intros v; apply inactive_parkish; auto).
  assert (L : forall v, clean (W s v) /\ wcnt (W s v) = 0%Z /\ in_barrier (wpc (W s v)) = true).
  { intros v. pose proof (i_loc s I v) as L. pose proof (P v) as Pv. unfold local_ok in L.
    destruct (wpc (W s v)) as [| | |[|[] [|[] [|]]]| | | | | | | |]; try discriminate; cbn; tauto. }
  refine (conj _ (conj _ _)).
  - pose proof (i_sum s I) as S. rewrite sumc_zero in S; [lia|]. intros j. apply L.
  - intros j. destruct (L j) as ((A & B & C) & D & E). unfold no_work. auto.
  - intros N1 N2. destruct (pinj s) as [|n] eqn:E; auto.
    destruct (i_inj s I) as [[v Hv]|[F|[a F]]]; [lia|rewrite H in Hv; discriminate|contradiction|].
    exfalso; eapply N2; eauto.
Qed.

Lemma main_step_inv s s' : Inv s -> main_step s = Some s' -> Inv s'.
Proof.
  intros I Hs. unfold main_step in Hs.
  destruct (pmain s) as [|a|v| | |] eqn:Em.
  - discriminate.
  - (* activate_worker *)
    assert (Q : main_quiet (pmain s) = true) by (rewrite Em; reflexivity).
    pose proof (i_main s I Q) as AllI.
    pose proof (i_snap s I a Em) as ->.
    rewrite first_idle_all_false in Hs.
    + destruct (nth_error (pws s) 0) as [x|] eqn:E0; [|discriminate].
      destruct (W_nth_error _ _ _ E0) as [HW0 H0].
      assert (Ax : wact x = false) by (rewrite <- HW0; apply AllI).
      rewrite Ax in Hs. injection Hs as <-.
      eapply (flip_step s _ 0 (set_act x true) None I H0); rewrite ?HW0; try reflexivity; try exact Ax.
      * cbn. apply lupd_length.
      * cbn. apply sumc_lupd_same; auto. fold (W s 0). rewrite HW0. reflexivity.
      * refine (conj (ex_intro _ _ Em) (conj _ _)); [reflexivity|].
        intros y. eapply W_upd; [reflexivity|exact H0].
    + unfold acts. rewrite map_length. apply I.
    + intros v. rewrite acts_nth. apply AllI.
  - (* unpark *)
    destruct (nth_error (pws s) v) as [x|] eqn:Ev; [|discriminate].
    destruct (W_nth_error _ _ _ Ev) as [HWv Hv]. injection Hs as <-.
    eapply (unpark_step s _ v (set_tok x true) None I Hv); rewrite ?HWv; try reflexivity.
    + cbn. apply lupd_length.
    + cbn. apply sumc_lupd_same; auto. fold (W s v). rewrite HWv. reflexivity.
    + refine (conj Em (conj _ _)); [reflexivity|].
      intros y. eapply W_upd; [reflexivity|exact Hv].
  - (* pool_is_idle? *)
    destruct (all_inactive (acts s)) eqn:Ea; injection Hs as <-.
    + pose proof (proj1 (all_inactive_acts s) Ea) as Ea'.
      eapply (main_frame s _ I); [reflexivity|reflexivity|reflexivity|reflexivity| | | | | | | | ]; cbn.
      * left; reflexivity.
      * intros v F; discriminate F.
      * intros _. exact Ea'.
      * intros a F; discriminate F.
      * intros H. exfalso. destruct (i_inj s I H) as [[v Hv]|[F|[a F]]]; try congruence;
          try (rewrite Ea' in Hv; discriminate).
      * apply I.
      * intros v F; rewrite Em in F; discriminate F.
      * intros F; discriminate F.
    + eapply (main_frame s _ I); [reflexivity|reflexivity|reflexivity|reflexivity| | | | | | | | ]; cbn.
      * left; reflexivity.
      * intros v F; discriminate F.
      * intros F; discriminate F.
      * intros a F; discriminate F.
      * intros H. destruct (i_inj s I H) as [[v Hv]|[F|[a F]]]; try congruence. left; eauto.
      * apply I.
      * intros v F; rewrite Em in F; discriminate F.
      * intros _ A. rewrite (proj2 (all_inactive_acts s) A) in Ea. discriminate Ea.
  - (* park *)
    destruct (pmtok s); [|discriminate]. injection Hs as <-.
    eapply (main_frame s _ I); [reflexivity|reflexivity|reflexivity|reflexivity| | | | | | | | ]; cbn.
    + left; reflexivity.
    + intros v F; discriminate F.
    + intros F; discriminate F.
    + intros a F; discriminate F.
    + intros H. destruct (i_inj s I H) as [[v Hv]|[F|[a F]]]; try congruence. left; eauto.
    + apply I.
    + intros v F; rewrite Em in F; discriminate F.
    + intros F; discriminate F.
  - (* msg_count.load() *)
    injection Hs as <-.
    assert (Q : main_quiet (pmain s) = true) by (rewrite Em; reflexivity).
    pose proof (i_main s I Q) as AllI.
    destruct (quiet_msg s I AllI) as (Emsg & _ & _).
    eapply (main_frame s _ I); [reflexivity|reflexivity|reflexivity|reflexivity| | | | | | | | ]; cbn.
    + left; reflexivity.
    + intros v F; discriminate F.
    + intros _. exact AllI.
    + intros a F; discriminate F.
    + intros _. right; left; reflexivity.
    + intros m n [F|F]; [injection F as <- <-; exact Emsg|eapply i_reads; eauto].
    + intros v F; rewrite Em in F; discriminate F.
    + intros F; discriminate F.
Qed.

Lemma p_step_inv s l s' : Inv s -> p_step barrier_fixed s l = Some s' -> Inv s'.
Proof.
  intros I Hs. destruct l as [j c| | |]; cbn in Hs.
  - destruct (nth_error (pws s) j) as [w|] eqn:E; [|discriminate]. eapply worker_step_inv; eauto.
  - eapply main_step_inv; eauto.
  - destruct (pmain s) eqn:Em; try discriminate. injection Hs as <-.
    assert (Q : main_quiet (pmain s) = true) by (rewrite Em; reflexivity).
    eapply (main_frame s _ I); [reflexivity|reflexivity|reflexivity|reflexivity| | | | | | | | ]; cbn.
    + right; exact Q.
    + rewrite Em. intros v F; discriminate F.
    + intros _. apply (i_main s I Q).
    + rewrite Em. intros a F; discriminate F.
    + intros _. rewrite Em. right; left; reflexivity.
    + apply I.
    + intros v F; rewrite Em in F; discriminate F.
    + rewrite Em. intros F; discriminate F.
  - destruct (pmain s) eqn:Em; try discriminate. injection Hs as <-.
    assert (Q : main_quiet (pmain s) = true) by (rewrite Em; reflexivity).
    eapply (main_frame s _ I); [reflexivity|reflexivity|reflexivity|reflexivity| | | | | | | | ]; cbn.
    + left; reflexivity.
    + intros v F; discriminate F.
    + intros _. apply (i_main s I Q).
    + intros a F. injection F as <-. reflexivity.
    + intros _. right; right; eauto.
    + apply I.
    + intros v F; rewrite Em in F; discriminate F.
    + intros F; discriminate F.
Qed.

Theorem pool_run_inv n ls : 1 <= n -> Inv (p_run barrier_fixed (p_init n) ls).
Proof.
  intros Hn. generalize (inv_init n Hn). generalize (p_init n). induction ls as [|l ls IH]; intros s I; cbn [p_run]; auto.
  destruct (p_step barrier_fixed s l) as [s'|] eqn:E; [apply IH; eapply p_step_inv; eauto|apply IH; exact I].
Qed.

(* ---- consequences ---- *)
Theorem pool_idle_read_exact n ls : 1 <= n ->
  let s := p_run barrier_fixed (p_init n) ls in
  pmain s = MRead -> pmsg s = pnet s /\ quiescent s.
Proof.
  intros Hn s Em. pose proof (pool_run_inv n ls Hn) as I. fold s in I.
  assert (Q : main_quiet (pmain s) = true) by (rewrite Em; reflexivity).
  destruct (quiet_msg s I (i_main s I Q)) as (A & B & C).
  refine (conj A (conj _ B)). apply C; rewrite Em; intros; discriminate.
Qed.

Theorem pool_every_read_exact n ls m k : 1 <= n ->
  In (m, k) (preads (p_run barrier_fixed (p_init n) ls)) -> m = k.
Proof. intros Hn. apply (i_reads _ (pool_run_inv n ls Hn)). Qed.

Theorem pool_idle_means_quiescent n ls : 1 <= n ->
  let s := p_run barrier_fixed (p_init n) ls in
  (forall v, wact (W s v) = false) -> pmain s <> MIdle -> (forall a, pmain s <> MAct a) ->
  pmsg s = pnet s /\ quiescent s.
Proof.
  intros Hn s H N1 N2. pose proof (pool_run_inv n ls Hn) as I. fold s in I.
  destruct (quiet_msg s I H) as (A & B & C). refine (conj A (conj _ B)). apply C; auto.
Qed.

Theorem pool_no_assert_failure n ls : 1 <= n -> ppanic (p_run barrier_fixed (p_init n) ls) = 0.
Proof. intros Hn. apply (i_pan _ (pool_run_inv n ls Hn)). Qed.

(* a worker that is doing anything has its bit set: work is never held by an "inactive" worker *)
Theorem pool_work_only_on_active n ls j : 1 <= n ->
  let s := p_run barrier_fixed (p_init n) ls in
  wact (W s j) = false -> no_work (W s j) /\ wcnt (W s j) = 0%Z.
Proof.
  intros Hn s H. pose proof (pool_run_inv n ls Hn) as I. fold s in I.
  pose proof (inactive_parkish s j I H) as P. pose proof (i_loc s I j) as L. unfold local_ok in L.
  unfold no_work. destruct (wpc (W s j)) as [| | |[|[] [|[] [|]]]| | | | | | | |]; try discriminate;
    cbn; unfold clean in L; tauto.
Qed.

(* ---- the pinned tree: the count read by run() can be wrong ---- *)
Definition w0 c := LW 0 c.
Definition w1 c := LW 1 c.
Definition sched_common : list plabel :=
  [LSpawn; LRunCall; LM; LM;
   w0 PNone; w0 PNone; w0 (PPop 1); w0 PNone; w0 PNone;
   w0 PWake; w0 PWake; w0 PPushLocal; w0 PNext; w0 (PActivate 1); w0 PNone; w0 PNone; w0 (PCnt 1); w0 PDone;
   w1 PNone; w1 PNone; w1 (PSteal 0 1); w1 PNone; w1 (PCnt (-1)); w1 PDone; w1 PNone; w1 PGiveUp;
   w0 PNone; w0 PDone; w0 PNone; w0 PGiveUp;
   LM].
(* worker 0 clears its bit; worker 1, now the last one, declares the pool idle and folds its count;
   the main thread wakes up and reads the count before worker 0 has folded its own *)
Definition sched_pinned : list plabel :=
  sched_common ++
  [w0 PNone; w0 PNone;
   w1 PNone; w1 PNone; w1 PNone; w1 PNone; w1 PNone; w1 PNone;
   LM; LM].
Definition sched_fixed : list plabel :=
  sched_common ++
  [w0 PNone; w0 PNone; w0 PNone;
   w1 PNone; w1 PNone; w1 PNone; w1 PNone; w1 PNone; w1 PNone;
   LM; LM].

Lemma pool_pinned_refuted :
  let s := p_run barrier_pinned (p_init 2) sched_pinned in
  pmain s = MRead /\ pmsg s = (-1)%Z /\ pnet s = 0%Z /\ quiescent s.
Proof.
  vm_compute. refine (conj eq_refl (conj eq_refl (conj eq_refl (conj eq_refl _)))).
  intros [|[|[|j]]]; repeat split; destruct j; reflexivity.
Qed.

Lemma pool_fixed_same_schedule :
  let s := p_run barrier_fixed (p_init 2) sched_fixed in
  pmain s = MRead /\ pmsg s = 0%Z /\ pnet s = 0%Z.
Proof. vm_compute. auto. Qed.

(* ---- no global deadlock: while Executor::run is blocked in park(), some worker can move ---- *)
Lemma active_in_range s v : wact (W s v) = true -> v < length (pws s).
Proof.
  intros H. destruct (Nat.lt_ge_cases v (length (pws s))) as [L|L]; auto.
  rewrite W_out in H by exact L. discriminate.
Qed.

Lemma W_nth_error_inv s v : v < length (pws s) -> nth_error (pws s) v = Some (W s v).
Proof. intros H. unfold W. apply nth_error_nth'. exact H. Qed.

Lemma not_all_inactive_ex l : all_inactive l = false -> exists v, nth v l false = true.
Proof.
  unfold all_inactive. induction l as [|b l IH]; cbn [forallb]; [discriminate|].
  destruct b; cbn [negb andb]; [intros _; exists 0; reflexivity|].
  intros H. destruct (IH H) as [v Hv]. exists (S v). exact Hv.
Qed.

Definition worker_enabled (s : pstate) (j : nat) : Prop :=
  exists c s', p_step barrier_fixed s (LW j c) = Some s'.

Lemma nonparked_enabled s j :
  Inv s -> j < length (pws s) -> parkish (wpc (W s j)) = false -> worker_enabled s j.
Proof.
  intros I Hj P. unfold worker_enabled. cbn [p_step]. rewrite (W_nth_error_inv s j Hj).
  pose proof (i_pc s I j) as Hpc. pose proof (i_loc s I j) as Hloc. unfold local_ok in Hloc.
  unfold worker_step.
  destruct (wpc (W s j)) as [ops| | |ops| | | | | | |v|v] eqn:Epc.
  - cbn in Hpc. destruct Hpc as [->| ->]; exists PNone; cbn; eauto.
  - exists PNone. destruct (negb (wact (W s j))); [eauto|]. destruct (only_bit (acts s) j); eauto.
  - exists PNone. destruct (Nat.eqb (pinj s) 0); eauto.
  - cbn in Hpc. destruct Hpc as [->|[->|[->|[->| ->]]]]; try discriminate; exists PNone; cbn; eauto.
  - exists PGiveUp. eauto.
  - exists PNone. eauto.
  - exists PNone. destruct (wslot (W s j)); [eauto|]. destruct (wlq (W s j)); eauto.
  - exists PDone. eauto.
  - destruct (whand (W s j)) eqn:Eh; [exists PNext|exists PPushLocal]; eauto.
  - exists PSkip. eauto.
  - exists PNone. pose proof (i_wact s I j v Epc) as Hv. rewrite (W_nth_error_inv s v Hv).
    destruct (wact (W s v)); [eauto|]. destruct (Nat.eqb v j); eauto.
  - exists PNone. destruct (i_unp s I j v Epc) as (A & _). pose proof (active_in_range s v A) as Hv.
    rewrite (W_nth_error_inv s v Hv). destruct (Nat.eqb v j); eauto.
Qed.

Theorem pool_no_global_deadlock n ls : 1 <= n ->
  let s := p_run barrier_fixed (p_init n) ls in
  pmain s = MPark -> pmtok s = false -> exists j, worker_enabled s j.
Proof.
  intros Hn s Em Et. pose proof (pool_run_inv n ls Hn) as I. fold s in I.
  assert (Hex : (exists v, wact (W s v) = true) \/ forall v, wact (W s v) = false).
  { destruct (all_inactive (acts s)) eqn:E.
    - right. apply all_inactive_acts. exact E.
    - left. destruct (not_all_inactive_ex _ E) as [v Hv]. exists v. rewrite <- acts_nth. exact Hv. }
  destruct Hex as [[v Hv]|Hall].
  - pose proof (active_in_range s v Hv) as Lv.
    destruct (parkish (wpc (W s v))) eqn:P.
    + destruct (i_wake s I v Hv P) as [T|[[x Hx]|M]].
      * exists v. unfold worker_enabled. cbn [p_step]. rewrite (W_nth_error_inv s v Lv). unfold worker_step.
        destruct (wpc (W s v)) as [| | |[|[] [|[] [|]]]| | | | | | | |] eqn:Epc; try discriminate; exists PNone; cbn; rewrite ?T; eauto.
      * exists x. apply nonparked_enabled; auto.
        -- destruct (Nat.lt_ge_cases x (length (pws s))) as [L|L]; auto.
           rewrite W_out in Hx by exact L. discriminate.
        -- rewrite Hx. reflexivity.
      * congruence.
    + exists v. apply nonparked_enabled; auto.
  - destruct (i_mwake s I Em Hall) as [T|[x Hx]]; [congruence|].
    exists x. unfold worker_enabled. cbn [p_step].
    assert (Lx : x < length (pws s)).
    { destruct (Nat.lt_ge_cases x (length (pws s))) as [L|L]; auto. rewrite W_out in Hx by exact L. discriminate. }
    rewrite (W_nth_error_inv s x Lx). unfold worker_step. rewrite Hx. exists PNone. cbn. eauto.
Qed.
