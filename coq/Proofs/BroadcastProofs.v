(* Proofs about Model/Broadcast.v: replies are matched to the accepting repliers in connection
   order and the broadcast completes only when all of them have replied; whenever the broadcast
   future returns Pending the parent is armed (its waker registered, the countdown at one, nothing
   scheduled), so that the next wake-up of any sub-future notifies it. *)
Require Import NX.Base.Prelude NX.Base.ListX NX.Model.Broadcast.

Ltac bproj := cbn [bn qno avl wk npoll script flt outs ts registered notifs fut sublog
                   set_env set_ts set_outs set_fut set_log tcount tlen sched iter countdown] in *.

(* ---------------- what the environment steps leave unchanged ---------------- *)
Definition same_core (s s' : bstate) : Prop :=
  bn s' = bn s /\ qno s' = qno s /\ outs s' = outs s /\ flt s' = flt s /\ script s' = script s /\ fut s' = fut s /\
  tcount (ts s') = tcount (ts s) /\ iter (ts s') = iter (ts s).

Lemma same_core_refl s : same_core s s.
Proof. unfold same_core; repeat split; reflexivity. Qed.

Lemma same_core_trans a b c : same_core a b -> same_core b c -> same_core a c.
Proof. unfold same_core. intros (A1 & A2 & A3 & A4 & A5 & A6 & A7 & A8) (B1 & B2 & B3 & B4 & B5 & B6 & B7 & B8). repeat split; congruence. Qed.

Lemma ts_wake_core s p : same_core s (ts_wake s p).
Proof.
  unfold ts_wake. destruct (in_list (ts s) p); [apply same_core_refl|].
  destruct (Nat.eqb (countdown (ts s)) 1); [destruct (registered s)|]; unfold same_core; bproj; repeat split; reflexivity.
Qed.

Lemma fire_core s w : same_core s (fire s w).
Proof.
  destruct w as [[|p]|]; cbn [fire]; [unfold same_core; bproj; repeat split; reflexivity|apply ts_wake_core|apply same_core_refl].
Qed.

Lemma fire_avl s w : avl (fire s w) = avl s.
Proof.
  destruct w as [[|p]|]; cbn [fire]; bproj; try reflexivity.
  unfold ts_wake. destruct (in_list (ts s) p); [reflexivity|].
  destruct (Nat.eqb (countdown (ts s)) 1); [destruct (registered s)|]; reflexivity.
Qed.

(* the replies the environment hands out are the expected ones *)
Definition EnvOk (s : bstate) : Prop :=
  forall j v, nth j (avl s) ANone = AOk v -> v = (1000 * qno s + Z.of_nat j)%Z.

Lemma nth_lupd_gen {A} (l : list A) i j x d : nth j (lupd l i x) d = if Nat.eqb j i then (if Nat.ltb i (length l) then x else d) else nth j l d.
Proof.
  revert i j; induction l as [|y r IH]; intros i j.
  - cbn [lupd]. destruct (Nat.eqb j i); destruct j; reflexivity.
  - destruct i as [|i], j as [|j]; cbn [lupd nth length]; try reflexivity.
    rewrite IH. change (Nat.eqb (S j) (S i)) with (Nat.eqb j i). change (Nat.ltb (S i) (S (length r))) with (Nat.ltb i (length r)). reflexivity.
Qed.

Lemma do_act_core s a : same_core s (do_act s a).
Proof.
  destruct a as [j|j|j]; cbn [do_act]; try apply fire_core;
    (eapply same_core_trans; [|apply fire_core]); unfold same_core; bproj; repeat split; reflexivity.
Qed.

Lemma do_act_env s a : EnvOk s -> EnvOk (do_act s a).
Proof.
  intros HE. destruct a as [j|j|j]; cbn [do_act]; unfold EnvOk; intros i v.
  - rewrite fire_avl. destruct (fire_core (set_env s (lupd (avl s) j (AOk (1000 * qno s + Z.of_nat j))) (lupd (wk s) j None) (npoll s)) (nth j (wk s) None)) as (_ & Eq & _).
    rewrite Eq. bproj. rewrite nth_lupd_gen. destruct (Nat.eqb_spec i j) as [->|Hne]; [|apply HE].
    destruct (Nat.ltb j (length (avl s))); [intros H; injection H as <-; reflexivity|discriminate].
  - rewrite fire_avl. destruct (fire_core (set_env s (lupd (avl s) j AErr) (lupd (wk s) j None) (npoll s)) (nth j (wk s) None)) as (_ & Eq & _).
    rewrite Eq. bproj. rewrite nth_lupd_gen. destruct (Nat.eqb_spec i j) as [->|Hne]; [|apply HE].
    destruct (Nat.ltb j (length (avl s))); discriminate.
  - rewrite fire_avl. destruct (fire_core s (nth j (wk s) None)) as (_ & Eq & _). rewrite Eq. apply HE.
Qed.

Lemma fold_act_core acts : forall s, same_core s (fold_left do_act acts s).
Proof.
  induction acts as [|a r IH]; intros s; cbn [fold_left]; [apply same_core_refl|].
  eapply same_core_trans; [apply do_act_core|apply IH].
Qed.

Lemma fold_act_env acts : forall s, EnvOk s -> EnvOk (fold_left do_act acts s).
Proof. induction acts as [|a r IH]; intros s HE; cbn [fold_left]; [exact HE|]. apply IH. apply do_act_env. exact HE. Qed.

(* one poll of a sub-future *)
Lemma sub_poll_spec s j tg s' r :
  sub_poll s j tg = (s', r) -> EnvOk s ->
  same_core s s' /\ EnvOk s' /\ (forall v, r = AOk v -> v = (1000 * qno s + Z.of_nat j)%Z).
Proof.
  unfold sub_poll. intros H HE.
  set (s1 := set_log (set_env s (avl s) (wk s) (lupd (npoll s) j (S (nth j (npoll s) 0)))) (sublog s ++ [j])) in *.
  assert (C1 : same_core s s1) by (unfold same_core, s1; bproj; repeat split; reflexivity).
  assert (E1 : EnvOk s1) by exact HE.
  set (s2 := fold_left do_act (lookup_script (script s) j (nth j (npoll s) 0)) s1) in *.
  assert (C2 : same_core s s2) by (eapply same_core_trans; [exact C1|apply fold_act_core]).
  assert (E2 : EnvOk s2) by (apply fold_act_env; exact E1).
  destruct (nth j (avl s2) ANone) as [|v|] eqn:Ea; injection H as <- <-.
  - split; [|split; [exact E2|intros v Hv; discriminate]].
    eapply same_core_trans; [exact C2|]. unfold same_core; bproj; repeat split; reflexivity.
  - split; [exact C2|]. split; [exact E2|]. intros v' Hv. injection Hv as <-.
    destruct C2 as (_ & Eq & _). rewrite <- Eq. apply E2. exact Ea.
  - split; [exact C2|]. split; [exact E2|]. intros v' Hv. discriminate.
Qed.

(* ---------------- the output slots ---------------- *)
Fixpoint count_none (l : list (option Z)) : nat :=
  match l with [] => 0 | None :: r => S (count_none r) | Some _ :: r => count_none r end.

Definition OutsOk (s : bstate) (acc : list nat) : Prop :=
  forall p v, p < length acc -> nth p (outs s) None = Some v ->
              exists j, nth_error acc p = Some j /\ v = (1000 * qno s + Z.of_nat j)%Z.

Definition CountOk (s : bstate) (acc : list nat) (pend : nat) : Prop :=
  length acc <= length (outs s) /\ pend = count_none (firstn (length acc) (outs s)).

Lemma count_none_lupd l p v n :
  p < n -> n <= length l -> nth p l None = None ->
  S (count_none (firstn n (lupd l p (Some v)))) = count_none (firstn n l).
Proof.
  revert p n; induction l as [|x r IH]; intros p n Hp Hn Hx; [cbn in Hn; lia|].
  destruct n as [|n]; [lia|]. destruct p as [|p]; cbn [lupd firstn nth] in *.
  - subst x. cbn [count_none]. reflexivity.
  - cbn [length] in Hn. destruct x; cbn [count_none]; [|f_equal]; apply IH; auto; lia.
Qed.

Lemma poll_tasks_spec acc skip : forall ps s pend s' pend' err,
  poll_tasks s acc pend ps skip = (s', pend', err) ->
  EnvOk s -> OutsOk s acc -> CountOk s acc pend ->
  (forall p, In p ps -> p < length acc) ->
  (skip = true \/ (NoDup ps /\ forall p, In p ps -> nth p (outs s) None = None)) ->
  EnvOk s' /\ OutsOk s' acc /\ CountOk s' acc pend' /\
  bn s' = bn s /\ qno s' = qno s /\ flt s' = flt s /\ fut s' = fut s /\ tcount (ts s') = tcount (ts s) /\
  iter (ts s') = iter (ts s) /\ length (outs s') = length (outs s).
Proof.
  induction ps as [|p r IH]; intros s pend s' pend' err H HE HO HC Hlt Hnone.
  - cbn [poll_tasks] in H. injection H as <- <- <-.
    refine (conj HE (conj HO (conj HC (conj _ (conj _ (conj _ (conj _ (conj _ (conj _ _))))))))); reflexivity.
  - cbn [poll_tasks] in H.
    assert (Hp : p < length acc) by (apply Hlt; left; reflexivity).
    assert (Hr : forall q, In q r -> q < length acc) by (intros q Hq; apply Hlt; right; exact Hq).
    assert (Hnone_r : forall s1, (forall q, q <> p -> nth q (outs s1) None = nth q (outs s) None) ->
              skip = true \/ (NoDup r /\ forall q, In q r -> nth q (outs s1) None = None)).
    { intros s1 Hsame. destruct Hnone as [Hs|[Hnd Hall]]; [left; exact Hs|right].
      inversion Hnd; subst. split; [assumption|]. intros q Hq. rewrite Hsame; [apply Hall; right; exact Hq|].
      intros ->. contradiction. }
    destruct (skip && match nth p (outs s) None with Some _ => true | None => false end) eqn:Hskip.
    + apply (IH s pend s' pend' err H HE HO HC Hr). apply (Hnone_r s). auto.
    + assert (Hpn : nth p (outs s) None = None).
      { destruct Hnone as [->|[_ Hall]]; [|apply Hall; left; reflexivity].
        cbn [andb] in Hskip. destruct (nth p (outs s) None); [discriminate|reflexivity]. }
      destruct (nth_error acc p) as [j|] eqn:Ej.
      2:{ apply nth_error_None in Ej. lia. }
      destruct (sub_poll s j (TTask p)) as [s1 res] eqn:Esp.
      destruct (sub_poll_spec _ _ _ _ _ Esp HE) as ((B1 & B2 & B3 & B4 & B5 & B6 & B7 & B8) & E1 & Hv).
      assert (HO1 : OutsOk s1 acc) by (unfold OutsOk; rewrite B3, B2; exact HO).
      assert (HC1 : CountOk s1 acc pend) by (unfold CountOk; rewrite B3; exact HC).
      destruct res as [|v|].
      * destruct (IH s1 pend s' pend' err H E1 HO1 HC1 Hr) as (R1 & R2 & R3 & R4 & R5 & R6 & R7 & R8 & R9 & R10).
        { apply Hnone_r. intros q _. rewrite B3. reflexivity. }
        refine (conj R1 (conj R2 (conj R3 (conj _ (conj _ (conj _ (conj _ (conj _ (conj _ _))))))))); congruence.
      * set (s2 := set_outs s1 (lupd (outs s1) p (Some v))) in *.
        assert (E2 : EnvOk s2) by exact E1.
        destruct HC1 as [Hlen Hcnt].
        assert (HO2 : OutsOk s2 acc).
        { intros q w Hq Hw. unfold s2 in Hw. bproj. rewrite nth_lupd_gen in Hw.
          destruct (Nat.eqb_spec q p) as [->|Hne]; [|apply HO1; assumption].
          destruct (Nat.ltb_spec p (length (outs s1))); [|lia]. injection Hw as <-.
          exists j. split; [exact Ej|]. unfold s2. bproj. rewrite B2. apply Hv. reflexivity. }
        assert (HC2 : CountOk s2 acc (pend - 1)).
        { unfold CountOk, s2. bproj. rewrite lupd_length. split; [exact Hlen|].
          pose proof (count_none_lupd (outs s1) p v (length acc) Hp Hlen ltac:(rewrite B3; exact Hpn)). lia. }
        destruct (IH s2 (pend - 1) s' pend' err H E2 HO2 HC2 Hr) as (R1 & R2 & R3 & R4 & R5 & R6 & R7 & R8 & R9 & R10).
        { apply Hnone_r. intros q Hq. unfold s2. bproj. rewrite nth_lupd_gen, B3.
          destruct (Nat.eqb_spec q p); [contradiction|reflexivity]. }
        refine (conj R1 (conj R2 (conj R3 (conj _ (conj _ (conj _ (conj _ (conj _ (conj _ _))))))))); unfold s2 in *; bproj; rewrite ?lupd_length in *; congruence.
      * injection H as <- <- <-.
        refine (conj E1 (conj HO1 (conj HC1 (conj _ (conj _ (conj _ (conj _ (conj _ (conj _ _))))))))); congruence.
Qed.

(* ---------------- the iteration and the loop ---------------- *)
Record MInv (s : bstate) (acc : list nat) (pend : nat) : Prop := {
  mi_env : EnvOk s; mi_outs : OutsOk s acc; mi_count : CountOk s acc pend; mi_tc : tcount (ts s) = length acc
}.

Lemma MInv_set_ts s acc pend t r nf : MInv s acc pend -> tcount t = tcount (ts s) -> MInv (set_ts s t r nf) acc pend.
Proof. intros [A B C D] E. constructor; bproj; auto. congruence. Qed.

Definition frame (s s' : bstate) : Prop :=
  bn s' = bn s /\ qno s' = qno s /\ flt s' = flt s /\ length (outs s') = length (outs s).

Lemma frame_refl s : frame s s. Proof. unfold frame; repeat split; reflexivity. Qed.
Lemma frame_trans a b c : frame a b -> frame b c -> frame a c.
Proof. unfold frame. intros (A1 & A2 & A3 & A5) (B1 & B2 & B3 & B5). repeat split; congruence. Qed.

Lemma poll_iter_spec acc : forall fuel s pend s' pend' err,
  poll_iter fuel s acc pend = (s', pend', err) -> MInv s acc pend ->
  MInv s' acc pend' /\ frame s s' /\ (length (iter (ts s)) < fuel -> iter (ts s') = []).
Proof.
  induction fuel as [|fuel IH]; intros s pend s' pend' err H HM; cbn [poll_iter] in H.
  - injection H as <- <- <-. split; [exact HM|]. split; [apply frame_refl|intros Hl; lia].
  - destruct (iter (ts s)) as [|p r] eqn:Ei.
    + injection H as <- <- <-. split; [exact HM|]. split; [apply frame_refl|intros _; exact Ei].
    + set (s0 := set_ts s {| tcount := tcount (ts s); tlen := tlen (ts s); sched := sched (ts s); iter := r; countdown := countdown (ts s) |}
                        (registered s) (notifs s)) in *.
      assert (HM0 : MInv s0 acc pend) by (apply MInv_set_ts; [exact HM|reflexivity]).
      assert (F0 : frame s s0) by (unfold frame, s0; bproj; repeat split; reflexivity).
      assert (I0 : iter (ts s0) = r) by reflexivity.
      destruct (Nat.ltb_spec p (tcount (ts s))) as [Hp|Hp].
      * destruct (poll_tasks s0 acc pend [p] true) as [[s1 pend1] e1] eqn:Ept.
        destruct HM0 as [A B C D].
        destruct (poll_tasks_spec acc true [p] s0 pend s1 pend1 e1 Ept A B C) as (R1 & R2 & R3 & R4 & R5 & R6 & R7 & R8 & R9 & R10).
        { intros q [<-|[]]. rewrite <- (mi_tc _ _ _ HM). exact Hp. }
        { left; reflexivity. }
        assert (HM1 : MInv s1 acc pend1) by (constructor; auto; congruence).
        assert (F1 : frame s s1) by (eapply frame_trans; [exact F0|]; unfold frame; repeat split; assumption).
        destruct e1.
        -- injection H as <- <- <-. split; [apply MInv_set_ts; [exact HM1|reflexivity]|].
           split; [eapply frame_trans; [exact F1|]; unfold frame; bproj; repeat split; reflexivity|intros _; reflexivity].
        -- destruct (IH s1 pend1 s' pend' err H HM1) as (Q1 & Q2 & Q3).
           split; [exact Q1|]. split; [exact (frame_trans _ _ _ F1 Q2)|]. intros Hl. apply Q3. rewrite R9, I0. cbn [length] in Hl. lia.
      * destruct (IH s0 pend s' pend' err H HM0) as (Q1 & Q2 & Q3).
        split; [exact Q1|]. split; [exact (frame_trans _ _ _ F0 Q2)|]. intros Hl. apply Q3. rewrite I0. cbn [length] in Hl. lia.
Qed.

Definition armed (s : bstate) : Prop :=
  registered s = true /\ countdown (ts s) = 1 /\ sched (ts s) = [] /\ iter (ts s) = [].

Lemma poll_loop_spec acc : forall fuel s pend s' pend' r,
  poll_loop fuel s acc pend = (s', pend', r) -> MInv s acc pend -> iter (ts s) = [] ->
  MInv s' acc pend' /\ frame s s' /\ (r = LPend -> armed s') /\ (r = LOk -> pend' = 0) /\ (r <> LFuel -> iter (ts s') = []).
Proof.
  induction fuel as [|fuel IH]; intros s pend s' pend' r H HM Hi; cbn [poll_loop] in H.
  - injection H as <- <- <-. split; [exact HM|]. split; [apply frame_refl|].
    split; [intros Hr; discriminate|]. split; [intros Hr; discriminate|intros Hr; congruence].
  - set (s1 := match sched (ts s) with [] => set_ts s (ts s) true (notifs s) | _ => s end) in *.
    assert (HM1 : MInv s1 acc pend) by (unfold s1; destruct (sched (ts s)); [apply MInv_set_ts; auto|exact HM]).
    assert (F1 : frame s s1) by (unfold s1; destruct (sched (ts s)); [unfold frame; bproj; repeat split; reflexivity|apply frame_refl]).
    assert (T1 : ts s1 = ts s) by (unfold s1; destruct (sched (ts s)); reflexivity).
    assert (G1 : sched (ts s) = [] -> registered s1 = true) by (unfold s1; intros ->; reflexivity).
    unfold ts_take in H. rewrite T1 in H. destruct (sched (ts s)) as [|p0 l0] eqn:Es.
    + injection H as <- <- <-.
      split; [apply MInv_set_ts; [exact HM1|rewrite T1; reflexivity]|].
      split; [eapply frame_trans; [exact F1|]; unfold frame; bproj; repeat split; reflexivity|].
      split; [intros _; unfold armed; bproj; repeat split; auto|].
      split; [intros Hr; discriminate|intros _; bproj; exact Hi].
    + set (t2 := {| tcount := tcount (ts s); tlen := tlen (ts s); sched := []; iter := p0 :: l0; countdown := 0 |}) in *.
      set (s2 := set_ts s1 t2 (registered s1) (notifs s1)) in *.
      assert (HM2 : MInv s2 acc pend) by (apply MInv_set_ts; [exact HM1|rewrite T1; reflexivity]).
      assert (F2 : frame s s2) by (eapply frame_trans; [exact F1|]; unfold frame, s2; bproj; repeat split; reflexivity).
      destruct (poll_iter (S (length (iter t2))) s2 acc pend) as [[s3 pend3] e3] eqn:Epi.
      destruct (poll_iter_spec acc _ _ _ _ _ _ Epi HM2) as (Q1 & Q2 & Q3).
      assert (I3 : iter (ts s3) = []) by (apply Q3; unfold s2; bproj; lia).
      destruct e3.
      * injection H as <- <- <-. split; [exact Q1|]. split; [exact (frame_trans _ _ _ F2 Q2)|].
        split; [intros Hr; discriminate|]. split; [intros Hr; discriminate|intros _; exact I3].
      * destruct (Nat.eqb_spec pend3 0) as [E0|E0].
        -- injection H as <- <- <-. split; [exact Q1|]. split; [exact (frame_trans _ _ _ F2 Q2)|].
           split; [intros Hr; discriminate|]. split; [intros _; exact E0|intros _; exact I3].
        -- destruct (IH s3 pend3 s' pend' r H Q1 I3) as (P1 & P2 & P3 & P4 & P5).
           split; [exact P1|]. split; [exact (frame_trans _ _ _ F2 (frame_trans _ _ _ Q2 P2))|]. exact (conj P3 (conj P4 P5)).
Qed.

(* ---------------- no wake-up is lost once the parent is armed ---------------- *)
Theorem armed_wake_notifies s p :
  armed s -> notifs (ts_wake s p) = S (notifs s) /\ sched (ts (ts_wake s p)) = [p] /\ registered (ts_wake s p) = false.
Proof.
  intros (R & C & S & I). unfold ts_wake, in_list. rewrite S, I. cbn [existsb orb].
  rewrite C. cbn [Nat.eqb]. rewrite R. bproj. auto.
Qed.

(* further wake-ups accumulate in the scheduled list; none of them is dropped *)
Theorem wake_is_recorded s p : In p (sched (ts (ts_wake s p))) \/ In p (iter (ts (ts_wake s p))).
Proof.
  unfold ts_wake. destruct (in_list (ts s) p) eqn:E.
  - unfold in_list in E. apply orb_true_iff in E. destruct E as [E|E]; apply existsb_exists in E;
      destruct E as (x & Hx & Ex); apply Nat.eqb_eq in Ex; subst x; auto.
  - destruct (Nat.eqb (countdown (ts s)) 1); [destruct (registered s)|]; bproj; left; left; reflexivity.
Qed.

(* ---------------- replies ---------------- *)
Definition reply (s : bstate) (j : nat) : Z := (1000 * qno s + Z.of_nat j)%Z.

Lemma all_some (f : nat -> Z) : forall (xs : list nat) (l : list (option Z)),
  length xs <= length l -> count_none (firstn (length xs) l) = 0 ->
  (forall p v, p < length xs -> nth p l None = Some v -> exists j, nth_error xs p = Some j /\ v = f j) ->
  firstn (length xs) l = map (fun j => Some (f j)) xs.
Proof.
  induction xs as [|x xs IH]; intros l Hl Hc Hv; [reflexivity|].
  destruct l as [|o l]; [cbn in Hl; lia|]. cbn [length firstn map] in *.
  destruct o as [v|]; [|cbn in Hc; discriminate]. cbn [count_none] in Hc.
  destruct (Hv 0 v ltac:(lia) eq_refl) as (j & Ej & Ev). cbn in Ej. injection Ej as <-. subst v.
  f_equal. apply IH; [lia|exact Hc|]. intros p v Hp Hn. apply (Hv (S p) v ltac:(lia) Hn).
Qed.

Lemma opt_vals_map_some (f : nat -> Z) (xs : list nat) : opt_vals (map (fun j => Some (f j)) xs) = map f xs.
Proof. induction xs as [|x r IH]; cbn; [reflexivity|rewrite IH; reflexivity]. Qed.

Lemma firstn_firstn_le {A} (l : list A) k n : k <= n -> firstn k (firstn n l) = firstn k l.
Proof. intros H. rewrite firstn_firstn. rewrite Nat.min_l by exact H. reflexivity. Qed.

Lemma forallb_some_map (f : nat -> Z) (xs : list nat) :
  forallb (fun o : option Z => match o with Some _ => true | None => false end) (map (fun j => Some (f j)) xs) = true.
Proof. induction xs; cbn; auto. Qed.

(* number of replies the caller takes *)
Definition taken (m : option nat) (count : nat) : nat := match m with None => count | Some k => Nat.min k count end.

(* when every one of the first [length acc] slots holds its replier's reply, the iterator yields
   the replies of the accepting repliers in connection order *)
Lemma take_replies_full s acc m :
  OutsOk s acc -> CountOk s acc 0 ->
  exists s1, take_replies s (length acc) m = (s1, Some (firstn (taken m (length acc)) (map (reply s) acc))).
Proof.
  intros HO [Hlen Hcnt].
  assert (Hall : firstn (length acc) (outs s) = map (fun j => Some (reply s j)) acc).
  { apply all_some; [exact Hlen|symmetry; exact Hcnt|]. intros p v Hp Hv. apply (HO p v Hp Hv). }
  unfold take_replies. fold (taken m (length acc)). set (k := taken m (length acc)).
  assert (Hk : k <= length acc) by (unfold k, taken; destruct m; lia).
  assert (Hgot : firstn k (outs s) = map (fun j => Some (reply s j)) (firstn k acc)).
  { rewrite <- (firstn_firstn_le (outs s) k (length acc) Hk), Hall, firstn_map. reflexivity. }
  rewrite Hgot, forallb_some_map, map_length, firstn_length, Nat.min_l by exact Hk.
  rewrite Nat.eqb_refl. cbn [andb]. eexists. rewrite opt_vals_map_some, firstn_map. reflexivity.
Qed.

(* ---------------- the invariant of every reachable state ---------------- *)
Definition consume_of (f : bfut) : option nat :=
  match f with FStart m => m | FSingle _ m => m | FMulti _ _ _ m => m end.

Definition BInv (s : bstate) : Prop :=
  EnvOk s /\ length (outs s) = bn s /\ iter (ts s) = [] /\
  match fut s with
  | Some (FMulti acc st pend m) => acc = accepted s /\ st = FPending /\ MInv s acc pend
  | Some (FSingle j m) => accepted s = [j]
  | _ => True
  end.

Lemma accepted_frame s s' : frame s s' -> accepted s' = accepted s.
Proof. intros (A & _ & C & _). unfold accepted. rewrite A, C. reflexivity. Qed.

Lemma clear_first_length n : forall l : list (option Z), length (clear_first n l) = length l.
Proof. induction n as [|n IH]; intros [|x l]; cbn; auto. Qed.

Lemma clear_first_none n : forall (l : list (option Z)) p, p < n -> nth p (clear_first n l) None = None.
Proof.
  induction n as [|n IH]; intros l p Hp; [lia|]. destruct l as [|x l]; [destruct p; reflexivity|].
  cbn [clear_first]. destruct p as [|p]; [reflexivity|]. cbn [nth]. apply IH. lia.
Qed.

Lemma count_none_clear_first n : forall l : list (option Z), n <= length l -> count_none (firstn n (clear_first n l)) = n.
Proof.
  induction n as [|n IH]; intros l Hl; [reflexivity|]. destruct l as [|x l]; [cbn in Hl; lia|].
  cbn [clear_first firstn count_none]. f_equal. apply IH. cbn in Hl. lia.
Qed.

Lemma filter_length_le {A} (f : A -> bool) (l : list A) : length (filter f l) <= length l.
Proof. induction l as [|x r IH]; cbn; [lia|]. destruct (f x); cbn; lia. Qed.

Lemma seqn_len n : forall st, length (seqn st n) = n.
Proof. induction n as [|n IH]; intros st; cbn; [reflexivity|rewrite IH; reflexivity]. Qed.

Lemma accepted_le s : length (accepted s) <= bn s.
Proof. unfold accepted. eapply Nat.le_trans; [apply filter_length_le|]. rewrite seqn_len. lia. Qed.

Lemma NoDup_seqn n : forall st, NoDup (seqn st n).
Proof.
  induction n as [|n IH]; intros st; cbn [seqn]; constructor; [|apply IH].
  intros H. apply In_seqn in H. lia.
Qed.

Lemma finish_spec s count m s' r :
  finish s count m = (s', r) ->
  fut s' = None /\ avl s' = avl s /\ qno s' = qno s /\ bn s' = bn s /\ length (outs s') = length (outs s) /\ ts s' = ts s /\
  (forall subs vs, r = BRPoll subs BOk vs ->
     exists s1, take_replies s count m = (s1, Some vs)).
Proof.
  unfold finish. destruct (take_replies s count m) as [s1 [vs|]] eqn:Et; intros H; injection H as <- <-.
  - assert (Hs1 : avl s1 = avl s /\ qno s1 = qno s /\ bn s1 = bn s /\ length (outs s1) = length (outs s) /\ ts s1 = ts s).
    { unfold take_replies in Et. destruct (forallb _ _ && Nat.eqb _ _); [injection Et as <- _|discriminate].
      bproj. rewrite clear_first_length. repeat split; reflexivity. }
    destruct Hs1 as (A1 & A2 & A3 & A4 & A5). bproj. repeat split; auto.
    intros subs vs0 Hr. injection Hr as _ <-. exists s1. reflexivity.
  - bproj. repeat split; auto. intros subs vs Hr. discriminate.
Qed.

Definition expected (s : bstate) (m : option nat) : list Z :=
  firstn (taken m (length (accepted s))) (map (reply s) (accepted s)).


Definition multi_tail (s1 : bstate) (acc : list nat) (pend1 : nat) (err1 done1 : bool) (m : option nat) : bstate * bres :=
  if err1 then (set_fut s1 None, BRPoll (sublog s1) BErr [])
  else if done1 then finish s1 (length acc) m
  else
    let '(s2, pend2, r) := poll_loop (fuel_of s1) s1 acc pend1 in
    match r with
    | LPend => (set_fut s2 (Some (FMulti acc FPending pend2 m)), BRPoll (sublog s2) BPend [])
    | LErr => (set_fut s2 None, BRPoll (sublog s2) BErr [])
    | LOk => finish s2 (length acc) m
    | LFuel => (set_fut s2 None, BRFuel)
    end.

Lemma EnvOk_eq s s' : avl s' = avl s -> qno s' = qno s -> EnvOk s -> EnvOk s'.
Proof. unfold EnvOk. intros -> ->. auto. Qed.

Lemma expected_frame s s' m : frame s s' -> expected s' m = expected s m.
Proof.
  intros F. unfold expected, reply. rewrite (accepted_frame _ _ F). destruct F as (_ & -> & _). reflexivity.
Qed.

Lemma finish_full s acc m s' r :
  EnvOk s -> OutsOk s acc -> CountOk s acc 0 -> acc = accepted s -> length (outs s) = bn s -> iter (ts s) = [] ->
  finish s (length acc) m = (s', r) ->
  BInv s' /\ (forall subs vs, r = BRPoll subs BOk vs -> vs = expected s m) /\
  (forall subs, r <> BRPoll subs BPend []).
Proof.
  intros HE HO HC Hacc Hlo Hit Hfin. destruct (finish_spec _ _ _ _ _ Hfin) as (F1 & F2 & F3 & F4 & F5 & F6 & F7).
  split; [|split].
  - unfold BInv. rewrite F1. split; [apply (EnvOk_eq s); auto|].
    split; [congruence|]. split; [rewrite F6; exact Hit|exact I].
  - intros subs vs Hr. destruct (F7 subs vs Hr) as (s1 & Et).
    destruct (take_replies_full s acc m HO HC) as (s1' & Et'). rewrite Et in Et'. injection Et' as _ ->.
    unfold expected. rewrite <- Hacc. reflexivity.
  - intros subs Hr. unfold finish in Hfin. destruct (take_replies s (length acc) m) as [sx [vs|]]; injection Hfin as _ <-; discriminate.
Qed.

Lemma multi_tail_spec s1 acc pend1 err1 done1 m s' r :
  MInv s1 acc pend1 -> iter (ts s1) = [] -> length (outs s1) = bn s1 -> (done1 = true -> pend1 = 0) ->
  acc = accepted s1 ->
  multi_tail s1 acc pend1 err1 done1 m = (s', r) -> r <> BRFuel ->
  BInv s' /\
  (forall subs vs, r = BRPoll subs BOk vs -> vs = expected s1 m) /\
  (forall subs, r = BRPoll subs BPend [] -> armed s' /\ exists pend2, fut s' = Some (FMulti acc FPending pend2 m)).
Proof.
  intros HM Hit Hlo Hdone Hacc H Hnf. unfold multi_tail in H.
  destruct err1.
  - injection H as <- <-. split; [|split; intros subs; intros; discriminate].
    unfold BInv. bproj. split; [exact (mi_env _ _ _ HM)|]. split; [exact Hlo|]. split; [exact Hit|exact I].
  - destruct done1.
    + rewrite (Hdone eq_refl) in HM.
      destruct (finish_full s1 acc m s' r (mi_env _ _ _ HM) (mi_outs _ _ _ HM) (mi_count _ _ _ HM) Hacc Hlo Hit H) as (A & B & C).
      split; [exact A|]. split; [exact B|]. intros subs Hr. exfalso. eapply C; eauto.
    + destruct (poll_loop (fuel_of s1) s1 acc pend1) as [[s2 pend2] lr] eqn:Epl.
      destruct (poll_loop_spec acc _ _ _ _ _ _ Epl HM Hit) as (P1 & P2 & P3 & P4 & P5).
      assert (Hacc2 : acc = accepted s2) by (rewrite (accepted_frame _ _ P2); exact Hacc).
      assert (Hlo2 : length (outs s2) = bn s2) by (destruct P2 as (A1 & _ & _ & A5); congruence).
      destruct lr.
      * injection H as <- <-.
        destruct (P3 eq_refl) as (R1 & R2 & R3 & R4).
        split; [|split].
        -- unfold BInv. bproj. split; [exact (mi_env _ _ _ P1)|]. split; [exact Hlo2|]. split; [exact R4|].
           split; [exact Hacc2|]. split; [reflexivity|].
           destruct P1 as [A B C D]. constructor; auto.
        -- intros subs vs Hr. discriminate.
        -- intros subs _. split; [unfold armed; bproj; auto|eexists; reflexivity].
      * injection H as <- <-. split; [|split; intros subs; intros; discriminate].
        unfold BInv. bproj. split; [exact (mi_env _ _ _ P1)|]. split; [exact Hlo2|]. split; [apply P5; discriminate|exact I].
      * rewrite (P4 eq_refl) in P1.
        destruct (finish_full s2 acc m s' r (mi_env _ _ _ P1) (mi_outs _ _ _ P1) (mi_count _ _ _ P1) Hacc2 Hlo2 (P5 ltac:(discriminate)) H) as (A & B & C).
        split; [exact A|]. split; [|intros subs Hr; exfalso; eapply C; eauto].
        intros subs vs Hr. rewrite (B subs vs Hr). apply expected_frame. exact P2.
      * injection H as <- <-. congruence.
Qed.

(* the first poll of a multi-replier broadcast (BroadcastFuture in state Uninit) *)
Lemma first_pass_spec sa acc pend s1 pend1 err :
  MInv sa acc pend -> (forall p, p < length acc -> nth p (outs sa) None = None) ->
  poll_tasks (set_ts sa (ts_discard (ts sa)) (registered sa) (notifs sa)) acc pend (seqn 0 (length acc)) false = (s1, pend1, err) ->
  MInv s1 acc pend1 /\ frame sa s1 /\ iter (ts s1) = [].
Proof.
  intros HM Hnone Ept. set (sd := set_ts sa (ts_discard (ts sa)) (registered sa) (notifs sa)) in *.
  assert (HMd : MInv sd acc pend) by (apply MInv_set_ts; [exact HM|reflexivity]).
  destruct HMd as [A B C D].
  destruct (poll_tasks_spec acc false _ sd pend s1 pend1 err Ept A B C) as (R1 & R2 & R3 & R4 & R5 & R6 & R7 & R8 & R9 & R10).
  { intros p Hp. apply In_seqn in Hp. lia. }
  { right. split; [apply NoDup_seqn|]. intros p Hp. apply In_seqn in Hp. unfold sd. bproj. apply Hnone. lia. }
  split; [constructor; auto; congruence|]. split; [unfold frame; unfold sd in *; bproj; repeat split; assumption|].
  rewrite R9. reflexivity.
Qed.

Lemma fut_set_fut s f : fut (set_fut s f) = f.
Proof. reflexivity. Qed.

Theorem b_poll_spec s s' r :
  BInv s -> b_poll s = (s', r) -> r <> BRFuel ->
  BInv s' /\
  (forall subs vs f, r = BRPoll subs BOk vs -> fut s = Some f -> vs = expected s (consume_of f)) /\
  (forall subs acc st pend m, r = BRPoll subs BPend [] -> fut s' = Some (FMulti acc st pend m) -> armed s').
Proof.
  intros (HE & Hlo & Hit & Hf) H Hnf. unfold b_poll in H.
  set (s0 := set_log s []) in *.
  assert (F0 : frame s s0) by (unfold frame, s0; bproj; repeat split; reflexivity).
  assert (E0 : EnvOk s0) by exact HE.
  assert (Hlo0 : length (outs s0) = bn s0) by exact Hlo.
  assert (Hit0 : iter (ts s0) = []) by exact Hit.
  change (fut s0) with (fut s) in H.
  destruct (fut s) as [f0|] eqn:Ef0.
  2:{ injection H as <- <-. split; [unfold BInv; bproj; change (fut s0) with (fut s); rewrite Ef0; auto|].
      split; [intros subs vs f Hr; discriminate|intros subs acc st pend m Hr; discriminate]. }
  (* a broadcast with no accepting replier completes at once *)
  assert (Hempty : forall sx m, bn sx = bn s0 -> qno sx = qno s0 -> flt sx = flt s0 -> outs sx = outs s0 ->
            avl sx = avl s0 -> ts sx = ts s0 -> accepted s0 = [] -> finish sx 0 m = (s', r) ->
            BInv s' /\ (forall subs vs, r = BRPoll subs BOk vs -> vs = expected s m) /\
            (forall subs, r <> BRPoll subs BPend [])).
  { intros sx m X1 X2 X3 X4 Ax Tx Hacc Hfin.
    assert (Ex : EnvOk sx) by (apply (EnvOk_eq s0); [exact Ax|exact X2|exact E0]).
    assert (Hax : accepted sx = []) by (unfold accepted; rewrite X1, X3; exact Hacc).
    destruct (finish_full sx [] m s' r Ex) as (A & B & C); auto.
    - intros p v Hp. cbn in Hp. lia.
    - split; [cbn; lia|reflexivity].
    - rewrite X4, X1. exact Hlo0.
    - rewrite Tx. exact Hit0.
    - split; [exact A|]. split; [|exact C].
      intros subs vs Hr. rewrite (B subs vs Hr). unfold expected. rewrite Hax.
      rewrite <- (accepted_frame _ _ F0), Hacc. reflexivity. }
  (* the multi-replier path, once the first pass is over *)
  assert (Htail : forall s1 acc pend1 err1 done1 m,
            frame s0 s1 -> MInv s1 acc pend1 -> iter (ts s1) = [] -> (done1 = true -> pend1 = 0) -> acc = accepted s0 ->
            multi_tail s1 acc pend1 err1 done1 m = (s', r) ->
            BInv s' /\ (forall subs vs, r = BRPoll subs BOk vs -> vs = expected s m) /\
            (forall subs acc' st pend m', r = BRPoll subs BPend [] -> fut s' = Some (FMulti acc' st pend m') -> armed s')).
  { intros s1 acc pend1 err1 done1 m F1 HM1 Hi1 Hd Hacc Ht.
    assert (Hacc1 : acc = accepted s1) by (rewrite (accepted_frame _ _ F1); exact Hacc).
    assert (Hlo1 : length (outs s1) = bn s1) by (destruct F1 as (A1 & _ & _ & A5); congruence).
    destruct (multi_tail_spec s1 acc pend1 err1 done1 m s' r HM1 Hi1 Hlo1 Hd Hacc1 Ht Hnf) as (A & B & C).
    split; [exact A|]. split.
    - intros subs vs Hr. rewrite (B subs vs Hr). apply expected_frame. exact (frame_trans _ _ _ F0 F1).
    - intros subs acc' st pend m' Hr _. apply (C subs Hr). }
  destruct f0 as [m|j m|acc st pend m].
  - (* first poll of the async fn *)
    unfold start_future in H.
    destruct (bn s0) as [|n'] eqn:Ebn.
    + rewrite fut_set_fut in H; cbv beta iota in H.
      destruct (Hempty (set_fut s0 (Some (FMulti [] FUninit 0 m))) m) as (A & B & C); auto.
      * unfold accepted. rewrite Ebn. reflexivity.
      * split; [exact A|]. split; [|intros subs acc st pend m0 Hr; exfalso; eapply C; eauto].
        intros subs vs f Hr Hff. injection Hff as <-. exact (B subs vs Hr).
    + destruct (accepted s0) as [|j [|j2 rest]] eqn:Eacc.
      * rewrite fut_set_fut in H; cbv beta iota in H.
        destruct (Hempty (set_fut s0 (Some (FMulti [] FUninit 0 m))) m) as (A & B & C); auto.
        split; [exact A|]. split; [|intros subs acc st pend m0 Hr; exfalso; eapply C; eauto].
           intros subs vs f Hr Hff. injection Hff as <-. exact (B subs vs Hr).
      * (* one accepting replier: its future is awaited directly *)
        rewrite fut_set_fut in H; cbv beta iota in H.
        destruct (sub_poll (set_fut s0 (Some (FSingle j m))) j TParent) as [s1 res] eqn:Esp.
        assert (E0' : EnvOk (set_fut s0 (Some (FSingle j m)))) by exact E0.
        destruct (sub_poll_spec _ _ _ _ _ Esp E0') as ((B1 & B2 & B3 & B4 & B5 & B6 & B7 & B8) & E1 & Hv). bproj.
        assert (Facc : accepted s1 = [j]) by (unfold accepted; rewrite B1, B4; exact Eacc).
        assert (Fs : accepted s = [j]) by (rewrite <- (accepted_frame _ _ F0); exact Eacc).
        destruct res as [|v|].
        -- injection H as <- <-. split; [|split; [intros; discriminate|intros subs acc st pend m0 _ Hfu; rewrite B6 in Hfu; discriminate]].
           unfold BInv. rewrite B6. split; [exact E1|]. split; [congruence|]. split; [congruence|exact Facc].
        -- set (s2 := set_outs s1 (lupd (outs s1) 0 (Some v))) in *.
           assert (Hv' : v = (1000 * qno s0 + Z.of_nat j)%Z) by (apply Hv; reflexivity).
           assert (Hpos : 0 < length (outs s1)).
           { rewrite B3, Hlo0. lia. }
           assert (X2 : OutsOk s2 [j]).
           { intros p w Hp Hw. cbn in Hp. assert (p = 0) by lia. subst p. unfold s2 in Hw. bproj. rewrite nth_lupd_gen in Hw.
             cbn [Nat.eqb] in Hw. destruct (Nat.ltb_spec 0 (length (outs s1))) as [L|L]; [|lia].
             injection Hw as <-. exists j. split; [reflexivity|]. unfold s2. bproj. rewrite B2. exact Hv'. }
           assert (X3 : CountOk s2 [j] 0).
           { unfold CountOk, s2. bproj. rewrite lupd_length. split; [cbn; lia|].
             destruct (outs s1) as [|o os] eqn:Eo; [cbn in Hpos; lia|]. reflexivity. }
           assert (X4 : [j] = accepted s2) by (symmetry; exact Facc).
           assert (X5 : length (outs s2) = bn s2) by (unfold s2; bproj; rewrite lupd_length; congruence).
           assert (X6 : iter (ts s2) = []) by (unfold s2; bproj; congruence).
           destruct (finish_full s2 [j] m s' r E1 X2 X3 X4 X5 X6 H) as (A & B & C).
           split; [exact A|]. split; [|intros subs acc st pend m0 Hr; exfalso; eapply C; eauto].
              intros subs vs f Hr Hff. injection Hff as <-. cbn [consume_of]. rewrite (B subs vs Hr).
              unfold expected. rewrite <- X4, Fs. unfold reply, s2. bproj. rewrite B2. reflexivity.
        -- injection H as <- <-. split; [|split; intros; discriminate].
           unfold BInv. bproj. split; [exact E1|]. split; [congruence|]. split; [congruence|exact I].
      * (* BroadcastFuture::new, then its first poll *)
        set (acc := j :: j2 :: rest) in *.
        set (sn := set_fut (set_outs (set_ts s0 (ts_resize (ts s0) (length acc)) (registered s0) (notifs s0))
                                     (clear_first (length acc) (outs s0))) (Some (FMulti acc FUninit (length acc) m))) in *.
        fold sn in H. replace (fut sn) with (Some (FMulti acc FUninit (length acc) m)) in H by reflexivity. cbv beta iota in H.
        assert (Hle : length acc <= length (outs s0)).
        { pose proof (accepted_le s0) as Hal. rewrite Eacc, Ebn in Hal. rewrite Hlo0. exact Hal. }
        assert (HMn : MInv sn acc (length acc)).
        { constructor.
          - exact E0.
          - intros p v Hp Hv. unfold sn in Hv. bproj. rewrite clear_first_none in Hv by exact Hp. discriminate.
          - unfold CountOk, sn. bproj. rewrite clear_first_length. split; [exact Hle|]. symmetry. apply count_none_clear_first. exact Hle.
          - reflexivity. }
        assert (Fn : frame s0 sn) by (unfold frame, sn; bproj; rewrite clear_first_length; repeat split; reflexivity).
        change (match acc with [] => finish sn 0 m | _ :: _ => ?x end) with x in H. cbv zeta in H.
        destruct (poll_tasks (set_ts sn (ts_discard (ts sn)) (registered sn) (notifs sn)) acc (length acc) (seqn 0 (length acc)) false)
          as [[s1 pend1] e1] eqn:Ept.
        destruct (first_pass_spec sn acc (length acc) s1 pend1 e1 HMn) as (Q1 & Q2 & Q3); [|exact Ept|].
        { intros p Hp. unfold sn. bproj. apply clear_first_none. exact Hp. }
        change (if e1 then ?a else if (Nat.eqb pend1 0) then ?b else ?c) with (multi_tail s1 acc pend1 e1 (Nat.eqb pend1 0) m) in H.
        destruct (Htail s1 acc pend1 e1 (Nat.eqb pend1 0) m (frame_trans _ _ _ Fn Q2) Q1 Q3) as (A & B & C); auto.
        -- intros Hd. apply Nat.eqb_eq. exact Hd.
        -- split; [exact A|]. split; [|exact C].
           intros subs vs f Hr Hff. injection Hff as <-. exact (B subs vs Hr).
  - (* a single accepting replier, polled again *)
    destruct (sub_poll s0 j TParent) as [s1 res] eqn:Esp.
    destruct (sub_poll_spec _ _ _ _ _ Esp E0) as ((B1 & B2 & B3 & B4 & B5 & B6 & B7 & B8) & E1 & Hv).
    assert (Facc0 : accepted s0 = [j]) by (rewrite (accepted_frame _ _ F0); exact Hf).
    assert (Facc : accepted s1 = [j]) by (unfold accepted; rewrite B1, B4; exact Facc0).
    assert (Hbn : 0 < bn s0).
    { destruct (bn s0) eqn:Eb; [|lia]. unfold accepted in Facc0. rewrite Eb in Facc0. discriminate. }
    change (fut s0) with (fut s) in H. rewrite Ef0 in H. rewrite Esp in H.
    destruct res as [|v|].
    + injection H as <- <-. split; [|split; [intros; discriminate|intros subs acc st pend m0 _ Hfu; rewrite B6 in Hfu; change (fut s0) with (fut s) in Hfu; rewrite Ef0 in Hfu; discriminate]].
      unfold BInv. rewrite B6. change (fut s0) with (fut s). rewrite Ef0.
      split; [exact E1|]. split; [congruence|]. split; [congruence|exact Facc].
    + set (s2 := set_outs s1 (lupd (outs s1) 0 (Some v))) in *.
      assert (Hv' : v = (1000 * qno s0 + Z.of_nat j)%Z) by (apply Hv; reflexivity).
      assert (Hpos : 0 < length (outs s1)) by (rewrite B3, Hlo0; exact Hbn).
      assert (X2 : OutsOk s2 [j]).
      { intros p w Hp Hw. cbn in Hp. assert (p = 0) by lia. subst p. unfold s2 in Hw. bproj. rewrite nth_lupd_gen in Hw.
        cbn [Nat.eqb] in Hw. destruct (Nat.ltb_spec 0 (length (outs s1))) as [L|L]; [|lia].
        injection Hw as <-. exists j. split; [reflexivity|]. unfold s2. bproj. rewrite B2. exact Hv'. }
      assert (X3 : CountOk s2 [j] 0).
      { unfold CountOk, s2. bproj. rewrite lupd_length. split; [cbn; lia|].
        destruct (outs s1) as [|o os] eqn:Eo; [cbn in Hpos; lia|]. reflexivity. }
      assert (X4 : [j] = accepted s2) by (symmetry; exact Facc).
      assert (X5 : length (outs s2) = bn s2) by (unfold s2; bproj; rewrite lupd_length; congruence).
      assert (X6 : iter (ts s2) = []) by (unfold s2; bproj; congruence).
      destruct (finish_full s2 [j] m s' r E1 X2 X3 X4 X5 X6 H) as (A & B & C).
      split; [exact A|]. split; [|intros subs acc st pend m0 Hr; exfalso; eapply C; eauto].
        intros subs vs f Hr Hff. injection Hff as <-. cbn [consume_of]. rewrite (B subs vs Hr).
        unfold expected. rewrite <- X4, Hf. unfold reply, s2. bproj. rewrite B2. reflexivity.
    + injection H as <- <-. split; [|split; intros; discriminate].
      unfold BInv. bproj. split; [exact E1|]. split; [congruence|]. split; [congruence|exact I].
  - (* a multi-replier broadcast, polled again *)
    destruct Hf as (Hacc & -> & HM).
    change (fut s0) with (fut s) in H. rewrite Ef0 in H.
    assert (HM0 : MInv s0 acc pend) by (destruct HM as [A B C D]; constructor; assumption).
    destruct acc as [|a0 acc'] eqn:Eacc.
    + assert (Ha0 : accepted s0 = []) by (rewrite (accepted_frame _ _ F0); symmetry; exact Hacc).
      destruct (Hempty s0 m eq_refl eq_refl eq_refl eq_refl eq_refl eq_refl Ha0 H) as (A & B & C).
      split; [exact A|]. split; [|intros subs acc1 st pend0 m0 Hr; exfalso; eapply C; eauto].
      intros subs vs f Hr Hff. injection Hff as <-. exact (B subs vs Hr).
    + rewrite <- Eacc in *. cbv zeta in H.
      change (if false then ?a else if false then ?b else ?c) with (multi_tail s0 acc pend false false m) in H.
      assert (Ha0 : acc = accepted s0) by (rewrite (accepted_frame _ _ F0); exact Hacc).
      assert (Hd : false = true -> pend = 0) by (intros Hd; discriminate).
      destruct (Htail s0 acc pend false false m (frame_refl _) HM0 Hit0 Hd Ha0 H) as (A & B & C).
      split; [exact A|]. split; [|exact C].
      intros subs vs f Hr Hff. injection Hff as <-. exact (B subs vs Hr).
Qed.

(* ---------------- every step keeps the invariant ---------------- *)
Lemma nth_repeat_anone n j : nth j (repeat ANone n) ANone = ANone.
Proof. revert j; induction n as [|n IH]; intros [|j]; cbn; auto. Qed.

Lemma repeat_length' {A} (x : A) n : length (repeat x n) = n.
Proof. induction n; cbn; auto. Qed.

Theorem b_step_inv s o s' r : BInv s -> b_step s o = (s', r) -> r <> BRFuel -> BInv s'.
Proof.
  intros HI H Hnf. destruct o as [bits m|j k acts| |a| |]; cbn [b_step] in H.
  - injection H as <- <-. destruct HI as (HE & Hlo & Hit & _). unfold BInv. bproj.
    split; [unfold EnvOk; bproj; intros j v Hj; rewrite nth_repeat_anone in Hj; discriminate|]. split; [exact Hlo|]. split; [exact Hit|exact I].
  - injection H as <- <-. destruct HI as (HE & Hlo & Hit & Hf). unfold BInv. bproj.
    split; [exact HE|]. split; [exact Hlo|]. split; [exact Hit|].
    destruct (fut s) as [[m|j0 m|acc st pend m]|]; auto.
    destruct Hf as (A & B & [C1 C2 C3 C4]). split; [exact A|]. split; [exact B|]. constructor; assumption.
  - destruct (b_poll_spec s s' r HI H Hnf) as (A & _). exact A.
  - injection H as <- <-. destruct HI as (HE & Hlo & Hit & Hf).
    destruct (do_act_core s a) as (B1 & B2 & B3 & B4 & B5 & B6 & B7 & B8).
    unfold BInv. rewrite B6, B3, B1, B8. split; [apply do_act_env; exact HE|]. split; [exact Hlo|]. split; [exact Hit|].
    assert (Hacc : accepted (do_act s a) = accepted s) by (unfold accepted; rewrite B1, B4; reflexivity).
    destruct (fut s) as [[m|j0 m|acc st pend m]|]; auto.
    + rewrite Hacc. exact Hf.
    + destruct Hf as (A & B & [C1 C2 C3 C4]). rewrite Hacc. split; [exact A|]. split; [exact B|].
      constructor.
      * apply do_act_env; exact C1.
      * unfold OutsOk. rewrite B3, B2. exact C2.
      * unfold CountOk. rewrite B3. exact C3.
      * rewrite B7. exact C4.
  - injection H as <- <-. destruct HI as (HE & Hlo & Hit & _). unfold BInv. bproj. auto.
  - injection H as <- <-. destruct HI as (HE & Hlo & Hit & Hf). unfold BInv. bproj.
    split; [exact HE|]. split; [exact Hlo|]. split; [exact Hit|].
    destruct (fut s) as [[m|j0 m|acc st pend m]|]; auto.
    destruct Hf as (A & B & [C1 C2 C3 C4]). split; [exact A|]. split; [exact B|]. constructor; assumption.
Qed.

Lemma BInv_init n : BInv (b_init n).
Proof.
  unfold BInv, b_init. bproj. split; [unfold EnvOk; bproj; intros j v Hj; rewrite nth_repeat_anone in Hj; discriminate|].
  split; [apply repeat_length'|]. split; [reflexivity|exact I].
Qed.

(* over whole runs: as long as the loop bound is not hit *)
Theorem b_run_inv ops : forall s, BInv s -> ~ In BRFuel (b_run s ops) -> BInv (b_exec s ops).
Proof.
  induction ops as [|o r IH]; intros s HI Hnf; cbn [b_exec]; [exact HI|].
  cbn [b_run] in Hnf. destruct (b_step s o) as [s1 x] eqn:E. cbn [fst].
  apply IH.
  - eapply b_step_inv; eauto. intros ->. apply Hnf. left. reflexivity.
  - intros Hin. apply Hnf. right. exact Hin.
Qed.

(* C14, for the broadcast of one query: every Ok carries exactly the replies of the accepting
   repliers of the current query, in connection order (as many as the caller takes) *)
Theorem b_run_replies n ops subs vs f :
  ~ In BRFuel (b_run (b_init n) (ops ++ [BOPoll])) ->
  last (b_run (b_init n) (ops ++ [BOPoll])) BRD = BRPoll subs BOk vs ->
  fut (b_exec (b_init n) ops) = Some f ->
  vs = expected (b_exec (b_init n) ops) (consume_of f).
Proof.
  intros Hnf Hlast Hfut.
  assert (Hrun : forall ops s, b_run s (ops ++ [BOPoll]) = b_run s ops ++ [snd (b_poll (b_exec s ops))]).
  { clear. induction ops as [|o r IH]; intros s; cbn [app b_run b_exec b_step].
    - destruct (b_poll s); reflexivity.
    - destruct (b_step s o) as [s1 x]. cbn [fst]. rewrite IH. reflexivity. }
  rewrite Hrun in Hnf, Hlast. rewrite last_last in Hlast.
  assert (HI : BInv (b_exec (b_init n) ops)).
  { apply b_run_inv; [apply BInv_init|]. intros Hin. apply Hnf. apply in_or_app. left. exact Hin. }
  destruct (b_poll (b_exec (b_init n) ops)) as [s' r] eqn:Ep. cbn [snd] in *.
  assert (Hr : r <> BRFuel) by (intros ->; apply Hnf; apply in_or_app; right; left; reflexivity).
  destruct (b_poll_spec _ _ _ HI Ep Hr) as (_ & B & _). eapply B; eauto.
Qed.

(* C04 (no lost wake-up): whenever a multi-replier broadcast returns Pending, the parent's waker
   is registered and the countdown is armed, so that the very next wake-up of a sub-future that is
   not already scheduled notifies the parent (armed_wake_notifies) *)
Theorem b_poll_pending_armed s s' subs acc st pend m :
  BInv s -> b_poll s = (s', BRPoll subs BPend []) -> fut s' = Some (FMulti acc st pend m) -> armed s'.
Proof.
  intros HI Hp Hf. destruct (b_poll_spec s s' _ HI Hp ltac:(discriminate)) as (_ & _ & C). eapply C; eauto.
Qed.
