(* Proofs about Model/PQ.v: the epoch-ordered queue refines the
   "first entry among those with the least key" specification. *)
Require Import NX.Base.Prelude NX.Model.PQ.

Section PQProofs.
  Variable V : Type.
  Notation item := (item V).
  Notation pq := (pq V).

  Definition item_lt (a b : item) : Prop :=
    key_lt (ikey a) (ikey b) \/ (ikey a = ikey b /\ (iepoch a < iepoch b)%N).

  Lemma item_ltb_spec a b : reflect (item_lt a b) (item_ltb a b).
  Proof.
    apply iff_reflect. unfold item_ltb, item_lt.
    rewrite orb_true_iff, andb_true_iff, key_ltb_iff, key_eqb_iff, N.ltb_lt. tauto.
  Qed.

  Lemma item_lt_irrefl a : ~ item_lt a a.
  Proof. unfold item_lt. intros [H|[_ H]]; [eapply key_lt_irrefl; eauto|lia]. Qed.

  Lemma item_lt_trans a b c : item_lt a b -> item_lt b c -> item_lt a c.
  Proof.
    unfold item_lt. intros [H1|[E1 H1]] [H2|[E2 H2]].
    - left; eapply key_lt_trans; eauto.
    - left; rewrite <- E2; auto.
    - left; rewrite E1; auto.
    - right; split; [congruence|lia].
  Qed.

  (* negative transitivity: "not less" is transitive *)
  Lemma item_nlt_trans a b c : ~ item_lt a b -> ~ item_lt b c -> ~ item_lt a c.
  Proof.
    unfold item_lt. intros H1 H2 [H|[E H]].
    - destruct (key_lt_total (ikey a) (ikey b)) as [K|[K|K]]; [tauto| |].
      + apply H2. left. rewrite <- K. auto.
      + apply H2. left. eapply key_lt_trans; eauto.
    - destruct (key_lt_total (ikey a) (ikey b)) as [K|[K|K]]; [tauto| |].
      + destruct (N.lt_ge_cases (iepoch a) (iepoch b)) as [L|L]; [tauto|].
        apply H2. right. split; [congruence|lia].
      + apply H2. left. rewrite <- E. auto.
  Qed.

  Lemma min_item_in (c : item) l : In (min_item c l) (c :: l).
  Proof.
    revert c; induction l as [|x r IH]; intros c; cbn [min_item]; [left; auto|].
    destruct (item_ltb x c).
    - right. apply IH.
    - destruct (IH c) as [H|H]; [left; auto| right; right; auto].
  Qed.

  Lemma min_item_le_cur (c : item) l : ~ item_lt c (min_item c l).
  Proof.
    revert c; induction l as [|x r IH]; intros c; cbn [min_item]; [apply item_lt_irrefl|].
    destruct (item_ltb_spec x c) as [H|H]; [|apply IH].
    intros H2. apply (IH x). eapply item_lt_trans; eauto.
  Qed.

  Lemma min_item_min (c : item) l y : In y (c :: l) -> ~ item_lt y (min_item c l).
  Proof.
    revert c; induction l as [|x r IH]; intros c Hy; cbn [min_item].
    - destruct Hy as [<-|[]]. apply item_lt_irrefl.
    - destruct (item_ltb_spec x c) as [H|H].
      + destruct Hy as [<-|Hy]; [|apply IH; auto].
        (* y = c, x < c, min ≤ x *)
        intros H2. apply (min_item_le_cur x r). eapply item_lt_trans; eauto.
      + destruct Hy as [<-|[<-|Hy]].
        * apply min_item_le_cur.
        * eapply item_nlt_trans; [exact H|apply min_item_le_cur].
        * apply IH; right; auto.
  Qed.

  (* ------------------------------------------------------------------ *)
  (* Representation invariant                                            *)

  Definition proj (i : item) : key * V := (ikey i, ival i).

  Definition epochs_sorted (l : list item) : Prop :=
    forall i j a b, (i < j)%nat -> nth_error l i = Some a -> nth_error l j = Some b ->
                    (iepoch a < iepoch b)%N.

  Record R (q : pq) (s : list (key * V)) : Prop := {
    R_map : map proj (items q) = s;
    R_sorted : epochs_sorted (items q);
    R_bound : forall a, In a (items q) -> (iepoch a < next_epoch q)%N
  }.

  Lemma R_empty : R pq_empty [].
  Proof.
    split; cbn; auto.
    - intros i j a b _ H. destruct i; discriminate.
    - intros a [].
  Qed.

  Lemma R_insert q s k v : R q s -> R (pq_insert q k v) (s ++ [(k, v)]).
  Proof.
    intros [Hm Hs Hb]. split; cbn [pq_insert items next_epoch].
    - rewrite map_app, Hm. reflexivity.
    - intros i j a b Hij Ha Hb'.
      assert (Hj : (j < length (items q ++ [{| ikey := k; iepoch := next_epoch q; ival := v |}]))%nat)
        by (apply nth_error_Some; congruence).
      rewrite app_length in Hj; cbn [length] in Hj.
      rewrite nth_error_app1 in Ha by lia.
      destruct (Nat.eq_dec j (length (items q))) as [E|E].
      + rewrite nth_error_app2 in Hb' by lia. subst j. rewrite Nat.sub_diag in Hb'.
        cbn in Hb'. injection Hb' as <-. cbn [iepoch].
        apply Hb. eapply nth_error_In; eauto.
      + rewrite nth_error_app1 in Hb' by lia. exact (Hs i j a b Hij Ha Hb').
    - intros a Ha. apply in_app_or in Ha. destruct Ha as [Ha|[<-|[]]].
      + specialize (Hb a Ha). lia.
      + cbn [iepoch]. lia.
  Qed.

  (* --- characterisation of the specification's choice ------------------ *)

  Lemma spec_min_idx_spec (l : list (key * V)) : forall pre curk curi,
    (curi < length pre)%nat ->
    (exists cv, nth_error pre curi = Some (curk, cv)) ->
    (forall j y, nth_error pre j = Some y -> key_le curk (fst y)) ->
    (forall j y, (j < curi)%nat -> nth_error pre j = Some y -> key_lt curk (fst y)) ->
    let i := spec_min_idx curk curi (length pre) l in
    exists x, nth_error (pre ++ l) i = Some x /\
      (forall j y, nth_error (pre ++ l) j = Some y -> key_le (fst x) (fst y)) /\
      (forall j y, (j < i)%nat -> nth_error (pre ++ l) j = Some y -> key_lt (fst x) (fst y)).
  Proof.
    induction l as [|x r IH]; intros pre curk curi Hlen [cv Hcur] Hle Hlt; cbn [spec_min_idx].
    - rewrite app_nil_r. exists (curk, cv). cbn [fst]. auto.
    - replace (pre ++ x :: r) with ((pre ++ [x]) ++ r) by (rewrite <- app_assoc; reflexivity).
      replace (S (length pre)) with (length (pre ++ [x])) by (rewrite app_length; cbn; lia).
      destruct (key_ltb_spec (fst x) curk) as [H|H].
      + apply IH.
        * rewrite app_length; cbn; lia.
        * exists (snd x). rewrite nth_error_app2 by lia. rewrite Nat.sub_diag. cbn. destruct x; auto.
        * intros j y Hy.
          destruct (Nat.lt_ge_cases j (length pre)) as [L|L].
          -- rewrite nth_error_app1 in Hy by lia.
             left. eapply key_lt_le_trans; [exact H|]. eapply Hle; eauto.
          -- rewrite nth_error_app2 in Hy by lia.
             destruct (j - length pre)%nat as [|n] eqn:E; cbn in Hy.
             ++ injection Hy as <-. apply key_le_refl.
             ++ destruct n; discriminate.
        * intros j y Hj Hy. rewrite nth_error_app1 in Hy by lia.
          eapply key_lt_le_trans; [exact H|]. eapply Hle; eauto.
      + apply IH.
        * rewrite app_length; cbn; lia.
        * exists cv. rewrite nth_error_app1 by lia. auto.
        * intros j y Hy.
          destruct (Nat.lt_ge_cases j (length pre)) as [L|L].
          -- rewrite nth_error_app1 in Hy by lia. eapply Hle; eauto.
          -- rewrite nth_error_app2 in Hy by lia.
             destruct (j - length pre)%nat as [|n] eqn:E; cbn in Hy.
             ++ injection Hy as <-. apply key_not_lt_le; auto.
             ++ destruct n; discriminate.
        * intros j y Hj Hy. rewrite nth_error_app1 in Hy by lia. eapply Hlt; eauto.
  Qed.

  (* The specification's pull: what it returns, stated without reference to
     the scanning function. *)
  Theorem spec_pull_char (s : list (key * V)) x s' :
    spec_pull s = (Some x, s') ->
    exists i, nth_error s i = Some x /\ s' = remove_nth i s /\
      (forall j y, nth_error s j = Some y -> key_le (fst x) (fst y)) /\
      (forall j y, (j < i)%nat -> nth_error s j = Some y -> key_lt (fst x) (fst y)).
  Proof.
    destruct s as [|[k v] r]; cbn [spec_pull]; [discriminate|].
    intros H. injection H as H1 H2.
    pose proof (spec_min_idx_spec r [(k, v)] k 0%nat) as S.
    cbn [length app] in S.
    destruct S as [x' [Hx [Hle Hlt]]].
    - lia.
    - exists v; reflexivity.
    - intros j y Hy. destruct j; cbn in Hy; [injection Hy as <-; apply key_le_refl|].
      destruct j; discriminate.
    - intros j y Hj; lia.
    - cbn [fst] in H1. rewrite Hx in H1. injection H1 as ->.
      eexists; split; [exact Hx|]. split; [symmetry; exact H2|]. split; auto.
  Qed.

  Lemma spec_pull_none (s : list (key * V)) s' :
    spec_pull s = (None, s') -> s = [] /\ s' = [].
  Proof.
    destruct s as [|[k v] r]; cbn [spec_pull]; [intros H; injection H as <-; auto|].
    intros H. injection H as H1 H2.
    pose proof (spec_min_idx_spec r [(k, v)] k 0%nat) as S.
    cbn [length app] in S.
    destruct S as [x' [Hx _]].
    - lia.
    - exists v; reflexivity.
    - intros j y Hy. destruct j; cbn in Hy; [injection Hy as <-; apply key_le_refl|].
      destruct j; discriminate.
    - intros j y Hj; lia.
    - cbn [fst] in H1. congruence.
  Qed.

  Lemma spec_min_is_nth (r : list (key * V)) : forall c pre curi,
    nth_error pre curi = Some c ->
    nth_error (pre ++ r) (spec_min_idx (fst c) curi (length pre) r) = Some (spec_min c r).
  Proof.
    induction r as [|x r IH]; intros c pre curi Hc; cbn [spec_min_idx spec_min].
    - rewrite app_nil_r; auto.
    - replace (pre ++ x :: r) with ((pre ++ [x]) ++ r) by (rewrite <- app_assoc; reflexivity).
      replace (S (length pre)) with (length (pre ++ [x])) by (rewrite app_length; cbn; lia).
      destruct (key_ltb (fst x) (fst c)).
      + apply IH. rewrite nth_error_app2 by lia. rewrite Nat.sub_diag. reflexivity.
      + apply IH. rewrite nth_error_app1; auto. apply nth_error_Some. congruence.
  Qed.

  Lemma spec_peek_pull (s : list (key * V)) : spec_peek s = fst (spec_pull s).
  Proof.
    destruct s as [|c r]; cbn [spec_peek spec_pull fst]; auto.
    symmetry. apply (spec_min_is_nth r c [c] 0%nat). reflexivity.
  Qed.

  (* --- the model's choice coincides with the specification's ----------- *)

  Lemma nth_error_map_proj (l : list item) i a :
    nth_error l i = Some a -> nth_error (map proj l) i = Some (proj a).
  Proof. intros H. rewrite nth_error_map, H. reflexivity. Qed.

  Lemma sorted_nodup_idx (l : list item) i j a :
    epochs_sorted l -> nth_error l i = Some a -> nth_error l j = Some a -> i = j.
  Proof.
    intros Hs Hi Hj. destruct (Nat.lt_trichotomy i j) as [H|[H|H]]; auto.
    - specialize (Hs _ _ _ _ H Hi Hj). lia.
    - specialize (Hs _ _ _ _ H Hj Hi). lia.
  Qed.

  Lemma remove_epoch_nth (l : list item) : forall i a,
    epochs_sorted l -> nth_error l i = Some a ->
    remove_epoch (iepoch a) l = remove_nth i l.
  Proof.
    induction l as [|x r IH]; intros i a Hs Ha; [destruct i; discriminate|].
    cbn [remove_epoch]. destruct i as [|i]; cbn [remove_nth].
    - cbn in Ha. injection Ha as ->. rewrite N.eqb_refl. reflexivity.
    - cbn in Ha. destruct (N.eqb_spec (iepoch x) (iepoch a)) as [E|E].
      + exfalso. assert (L : (iepoch x < iepoch a)%N).
        { apply (Hs 0%nat (S i) x a); [lia|reflexivity|exact Ha]. }
        lia.
      + f_equal. apply IH; auto.
        intros i' j' a' b' Hij Ha' Hb'. apply (Hs (S i') (S j') a' b'); [lia|auto|auto].
  Qed.

  Lemma map_remove_nth {A B} (f : A -> B) (l : list A) : forall i,
    map f (remove_nth i l) = remove_nth i (map f l).
  Proof.
    induction l as [|x r IH]; intros [|i]; cbn; auto. f_equal; auto.
  Qed.

  Lemma sorted_remove_nth (l : list item) : forall i,
    epochs_sorted l -> epochs_sorted (remove_nth i l).
  Proof.
    intros i Hs.
    assert (Hn : forall j, nth_error (remove_nth i l) j =
                           nth_error l (if Nat.ltb j i then j else S j)).
    { clear Hs. revert i. induction l as [|x r IH]; intros i j.
      - assert (E : forall n, nth_error (@nil item) n = None) by (intros [|n]; reflexivity).
        destruct i; cbn [remove_nth]; rewrite !E; reflexivity.
      - destruct i as [|i]; cbn [remove_nth].
        + reflexivity.
        + destruct j as [|j]; [reflexivity|]. cbn [nth_error]. rewrite IH.
          change (S j <? S i)%nat with (j <? i)%nat.
          destruct (Nat.ltb j i); reflexivity. }
    intros a b x y Hab Ha Hb. rewrite Hn in Ha, Hb.
    eapply Hs; [|exact Ha|exact Hb].
    destruct (Nat.ltb_spec a i), (Nat.ltb_spec b i); lia.
  Qed.

  Lemma in_remove_nth {A} (l : list A) : forall i a, In a (remove_nth i l) -> In a l.
  Proof.
    induction l as [|x r IH]; intros [|i] a; cbn; auto.
    intros [H|H]; auto. right; eapply IH; eauto.
  Qed.

  Lemma model_choice q s x s' :
    R q s -> spec_pull s = (Some x, s') ->
    exists m, pq_peek_item q = Some m /\ proj m = x /\
              R {| items := remove_epoch (iepoch m) (items q); next_epoch := next_epoch q |} s'.
  Proof.
    intros [Hm Hs Hb] Hp.
    destruct (spec_pull_char _ _ _ Hp) as [i [Hi [-> [Hle Hlt]]]].
    subst s.
    destruct (nth_error (items q) i) as [m|] eqn:Em.
    2:{ rewrite nth_error_map, Em in Hi. discriminate. }
    pose proof (nth_error_map_proj _ _ _ Em) as Hi'. rewrite Hi in Hi'. injection Hi' as ->.
    destruct (items q) as [|c l] eqn:Eq; [destruct i; discriminate|].
    assert (Hmin : min_item c l = m).
    { pose proof (min_item_in c l) as Hin.
      apply In_nth_error in Hin. destruct Hin as [j Hj].
      (* m is minimal too *)
      assert (Hmm : forall y, In y (c :: l) -> ~ item_lt y m).
      { intros y Hy. apply In_nth_error in Hy. destruct Hy as [jy Hjy].
        pose proof (nth_error_map_proj _ _ _ Hjy) as Hy'.
        specialize (Hle _ _ Hy'). cbn [proj fst] in Hle.
        intros [L|[E L]].
        - eapply key_le_not_lt; eauto.
        - destruct (Nat.lt_trichotomy jy i) as [T|[T|T]].
          + specialize (Hlt _ _ T Hy'). cbn [proj fst] in Hlt. rewrite E in Hlt.
            eapply key_lt_irrefl; eauto.
          + subst jy. rewrite Em in Hjy. injection Hjy as <-. lia.
          + specialize (Hs _ _ _ _ T Em Hjy). lia. }
      pose proof (min_item_min c l m (nth_error_In _ _ Em)) as H1.
      pose proof (Hmm _ (min_item_in c l)) as H2.
      (* neither is less: same key, same epoch -> same index *)
      set (mm := min_item c l) in *.
      assert (Ek : ikey mm = ikey m).
      { destruct (key_lt_total (ikey mm) (ikey m)) as [K|[K|K]]; auto.
        - exfalso; apply H2; left; auto.
        - exfalso; apply H1; left; auto. }
      assert (Ee : iepoch mm = iepoch m).
      { destruct (N.lt_trichotomy (iepoch mm) (iepoch m)) as [K|[K|K]]; auto.
        - exfalso; apply H2; right; auto.
        - exfalso; apply H1; right; auto. }
      destruct (Nat.lt_trichotomy j i) as [T|[T|T]].
      - specialize (Hs _ _ _ _ T Hj Em). lia.
      - subst j. congruence.
      - specialize (Hs _ _ _ _ T Em Hj). lia. }
    exists m. unfold pq_peek_item. rewrite Eq. split; [congruence|]. split; [reflexivity|].
    cbn [items next_epoch]. rewrite (remove_epoch_nth (c :: l) i m Hs Em).
    split; cbn [items next_epoch].
    - apply map_remove_nth.
    - apply sorted_remove_nth; auto.
    - intros a Ha. apply Hb. eapply in_remove_nth; eauto.
  Qed.

  Lemma model_choice_none q s s' :
    R q s -> spec_pull s = (None, s') -> pq_peek_item q = None /\ s' = [] /\ s = [].
  Proof.
    intros [Hm _ _] Hp. apply spec_pull_none in Hp. destruct Hp as [-> ->].
    unfold pq_peek_item. destruct (items q); [auto|discriminate].
  Qed.

  Lemma step_refines q s o :
    R q s -> snd (pq_step q o) = snd (spec_step s o) /\
             R (fst (pq_step q o)) (fst (spec_step s o)).
  Proof.
    intros HR. destruct o as [k v| |]; cbn [pq_step spec_step fst snd].
    - split; auto. apply R_insert; auto.
    - unfold pq_pull. destruct (spec_pull s) as [[x|] s'] eqn:Ep.
      + destruct (model_choice _ _ _ _ HR Ep) as [m [-> [<- HR']]]. cbn. auto.
      + destruct (model_choice_none _ _ _ HR Ep) as [-> [-> ->]]. cbn. auto.
    - split; auto. rewrite spec_peek_pull. unfold pq_peek.
      destruct (spec_pull s) as [[x|] s'] eqn:Ep; cbn [fst].
      + destruct (model_choice _ _ _ _ HR Ep) as [m [-> [<- _]]]. reflexivity.
      + destruct (model_choice_none _ _ _ HR Ep) as [-> _]. reflexivity.
  Qed.

  Theorem pq_refines_gen ops : forall q s, R q s -> pq_run q ops = spec_run s ops.
  Proof.
    induction ops as [|o r IH]; intros q s HR; cbn [pq_run spec_run]; auto.
    destruct (step_refines q s o HR) as [H1 H2].
    destruct (pq_step q o) as [q' x], (spec_step s o) as [s' y]. cbn [fst snd] in *.
    subst y. f_equal. apply IH; auto.
  Qed.

  Theorem pq_refines ops : pq_run pq_empty ops = spec_run (V:=V) [] ops.
  Proof. apply pq_refines_gen, R_empty. Qed.

  (* every reachable model state is related to a spec state *)
  Theorem pq_reachable_R ops : exists s, R (pq_exec pq_empty ops) s.
  Proof.
    assert (G : forall q s, R q s -> exists s', R (pq_exec q ops) s').
    { induction ops as [|o r IH]; intros q s HR; cbn [pq_exec]; [eauto|].
      destruct (step_refines q s o HR) as [_ H2]. eapply IH; eauto. }
    eapply G, R_empty.
  Qed.
End PQProofs.

(* ---------- item-level facts used by the simulation proofs ---------- *)
Section PQFacts.
  Variable V : Type.

  Lemma peek_item_spec (q : pq V) m :
    pq_peek_item q = Some m ->
    In m (items q) /\ forall y, In y (items q) -> key_le (ikey m) (ikey y).
  Proof.
    unfold pq_peek_item. destruct (items q) as [|c l] eqn:E; [discriminate|].
    intros H; injection H as <-. split; [apply min_item_in|].
    intros y Hy. pose proof (min_item_min V c l y Hy) as N.
    apply key_not_lt_le. intros K. apply N. left. exact K.
  Qed.

  Lemma in_remove_epoch (l : list (item V)) e y : In y (remove_epoch e l) -> In y l.
  Proof.
    induction l as [|x r IH]; cbn [remove_epoch]; [auto|].
    destruct (N.eqb _ _); cbn; [auto|]. intros [H|H]; auto.
  Qed.

  Lemma remove_epoch_length (l : list (item V)) m :
    In m l -> S (length (remove_epoch (iepoch m) l)) = length l.
  Proof.
    induction l as [|x r IH]; cbn [remove_epoch]; [intros []|].
    destruct (N.eqb_spec (iepoch x) (iepoch m)) as [E|E]; cbn [length]; [auto|].
    intros [->|H]; [congruence|]. rewrite IH; auto.
  Qed.

  Lemma pq_peek_spec (q : pq V) k a :
    pq_peek q = Some (k, a) ->
    exists m, In m (items q) /\ ikey m = k /\ ival m = a /\
              forall y, In y (items q) -> key_le k (ikey y).
  Proof.
    unfold pq_peek. destruct (pq_peek_item q) as [m|] eqn:E; [|discriminate].
    intros H; injection H as <- <-. apply peek_item_spec in E. destruct E as [A B]. eauto.
  Qed.

  Lemma pq_pull_some (q : pq V) k a q' :
    pq_pull q = (Some (k, a), q') ->
    pq_peek q = Some (k, a) /\
    (forall y, In y (items q') -> In y (items q)) /\
    S (length (items q')) = length (items q) /\ next_epoch q' = next_epoch q.
  Proof.
    unfold pq_pull, pq_peek. destruct (pq_peek_item q) as [m|] eqn:E; [|discriminate].
    intros H; injection H as <- <- <-. cbn [items next_epoch]. split; auto.
    apply peek_item_spec in E. destruct E as [A B].
    split; [intros y; apply in_remove_epoch|]. split; auto. apply remove_epoch_length; auto.
  Qed.

  Lemma pq_pull_none (q : pq V) q' : pq_pull q = (None, q') -> q' = q /\ items q = [].
  Proof.
    unfold pq_pull, pq_peek_item. destruct (items q) eqn:E; [|discriminate].
    intros H; injection H as <-. auto.
  Qed.

  Lemma pq_peek_none (q : pq V) : pq_peek q = None -> items q = [].
  Proof. unfold pq_peek, pq_peek_item. destruct (items q); [auto|discriminate]. Qed.
End PQFacts.
