(* The barrier program GENERATED from executor/mt_executor.rs (gen/PoolProg.v, rewritten from the source
   on every run) is the program the pool proofs are about, and the order of the protocol calls in the rest
   of the worker loop, in schedule_task, in Executor::run and in the PoolManager methods is the order the
   other steps of Pool.v were written against.  These are the proof obligations that break when the code's
   protocol changes. *)
Require Import Coq.Strings.String.
Require Import NX.Base.Prelude NX.Base.ListX NX.Model.Pool NX.gen.PoolProg NX.Proofs.PoolInv NX.Proofs.PoolProofs NX.Proofs.PoolCons.
Open Scope string_scope.

Lemma gen_barrier_is_proved : barrier_gen = barrier_fixed.
Proof. reflexivity. Qed.

Definition skel_worker_modelled : list string :=
  ["abort_signal.is_set"; "return"; "pop_bucket"; "spare_capacity"; "local_queue.extend"; "shuffled_stealers";
   "steal_and_pop"; "fast_slot.replace"; "end_worker_search"; "break"; "continue"; "end_worker_search";
   "fast_slot.take"; "local_queue.pop"; "abort_signal.is_set"; "return"; "task.run"; "begin_worker_search"].
Definition skel_sched_modelled : list string :=
  ["fast_slot.replace"; "return"; "local_queue.push"; "local_queue.drain"; "push_bucket"; "local_queue.push";
   "insert_task"; "searching_worker_count"; "activate_worker_relaxed";
   (* the overflow path moves exactly one bucket: what is drained is what the bucket holds (Bucket::from_iter
      truncates silently), so that tasks are conserved (PoolCons.v) *)
   "drain:|_|Bucket::capacity()"; "push_bucket:Bucket::from_iter(drain)"; "BUCKET_SIZE=128"; "QUEUE_SIZE=BUCKET_SIZE*2"].
Definition skel_run_modelled : list string :=
  ["activate_worker"; "take_panic"; "return"; "pool_is_idle"; "msg_count.load"; "return"; "return"; "parker.park";
   "parker.park_timeout"; "abort_signal.set"; "activate_all_workers"; "return"].
Definition skel_act_relaxed_modelled : list string :=
  ["active_workers.load"; "trailing_ones"; "return"; "fetch_or"; "begin_worker_search"; "unpark"; "return"].
Definition skel_act_modelled : list string :=
  ["active_workers.load"; "trailing_ones"; "fetch_or"; "return"; "fetch_or"; "begin_worker_search"; "unpark"; "return"].
Definition skel_try_inactive_modelled : list string := ["fetch_update"; "atomic::fence"].
Definition skel_set_inactive_modelled : list string := ["active_workers.store"].
Definition skel_is_idle_modelled : list string := ["active_workers.load"].
(* activate_all_workers (abort / drop path, outside the model): every worker is marked active AND unparked *)
Definition skel_act_all_modelled : list string :=
  ["self.set_all_workers_active();forunparkerin&*self.worker_unparkers{unparker.unpark();}"].

Lemma gen_skeleton_is_modelled :
  skel_worker_gen = skel_worker_modelled /\ skel_sched_gen = skel_sched_modelled /\
  skel_run_gen = skel_run_modelled /\ skel_act_relaxed_gen = skel_act_relaxed_modelled /\
  skel_act_gen = skel_act_modelled /\ skel_try_inactive_gen = skel_try_inactive_modelled /\
  skel_set_inactive_gen = skel_set_inactive_modelled /\ skel_is_idle_gen = skel_is_idle_modelled /\
  skel_act_all_gen = skel_act_all_modelled.
Proof. repeat split; reflexivity. Qed.

Theorem pool_gen_idle_read_exact n ls : 1 <= n ->
  let s := p_run barrier_gen (p_init n) ls in
  pmain s = MRead -> pmsg s = pnet s /\ quiescent s.
Proof. rewrite gen_barrier_is_proved. exact (pool_idle_read_exact n ls). Qed.

Theorem pool_gen_every_read_exact n ls m k : 1 <= n ->
  In (m, k) (preads (p_run barrier_gen (p_init n) ls)) -> m = k.
Proof. rewrite gen_barrier_is_proved. exact (pool_every_read_exact n ls m k). Qed.

Theorem pool_gen_idle_means_quiescent n ls : 1 <= n ->
  let s := p_run barrier_gen (p_init n) ls in
  (forall v, wact (W s v) = false) -> pmain s <> MIdle -> (forall a, pmain s <> MAct a) ->
  pmsg s = pnet s /\ quiescent s.
Proof. rewrite gen_barrier_is_proved. exact (pool_idle_means_quiescent n ls). Qed.

Theorem pool_gen_no_assert_failure n ls : 1 <= n -> ppanic (p_run barrier_gen (p_init n) ls) = 0.
Proof. rewrite gen_barrier_is_proved. exact (pool_no_assert_failure n ls). Qed.

Theorem pool_gen_work_only_on_active n ls j : 1 <= n ->
  let s := p_run barrier_gen (p_init n) ls in
  wact (W s j) = false -> no_work (W s j) /\ wcnt (W s j) = 0%Z.
Proof. rewrite gen_barrier_is_proved. exact (pool_work_only_on_active n ls j). Qed.

Theorem pool_gen_no_global_deadlock n ls : 1 <= n ->
  let s := p_run barrier_gen (p_init n) ls in
  pmain s = MPark -> pmtok s = false -> exists j c s', p_step barrier_gen s (LW j c) = Some s'.
Proof. rewrite gen_barrier_is_proved. exact (pool_no_global_deadlock n ls). Qed.

Theorem pool_gen_all_tasks_run n ls : 1 <= n ->
  let s := p_run barrier_gen (p_init n) ls in
  pmain s = MRead -> pran s = psched s.
Proof. rewrite gen_barrier_is_proved. exact (pool_all_tasks_run n ls). Qed.
