(* The bit layout of the task state word, proved against the constants that
   tools/gen_consts.py reads out of executor/task.rs on every run
   (gen/Consts.v): an edit of a constant in the source re-checks - and can
   break - these lemmas. *)
From Coq Require Import NArith Lia.
Require Import NX.gen.Consts.
Local Open Scope N_scope.

Definition encode (wake refs : N) (closed polling : bool) : N :=
  wake * TASK_WAKE_INC + refs * TASK_REF_INC + (if closed then TASK_CLOSED else 0) + (if polling then TASK_POLLING else 0).

Lemma layout_flags : TASK_POLLING = 1 /\ TASK_CLOSED = 2 /\ TASK_REF_INC = 4 /\ TASK_WAKE_INC = 2 ^ 33.
Proof. vm_compute. repeat split; reflexivity. Qed.

Lemma layout_masks :
  TASK_REF_MASK = TASK_WAKE_INC - TASK_REF_INC /\ TASK_WAKE_MASK = 2 ^ 64 - TASK_WAKE_INC /\
  N.land TASK_REF_MASK TASK_WAKE_MASK = 0 /\ N.land TASK_REF_MASK (TASK_POLLING + TASK_CLOSED) = 0 /\
  N.land TASK_WAKE_MASK (TASK_POLLING + TASK_CLOSED) = 0 /\
  N.lor (N.lor TASK_REF_MASK TASK_WAKE_MASK) (TASK_POLLING + TASK_CLOSED) = 2 ^ 64 - 1.
Proof. vm_compute. repeat split; reflexivity. Qed.

Lemma layout_critical :
  TASK_REF_CRITICAL < TASK_REF_MASK /\ TASK_WAKE_CRITICAL < TASK_WAKE_MASK /\
  TASK_REF_CRITICAL + TASK_REF_INC * 2 ^ 29 <= TASK_REF_MASK.
Proof. vm_compute. repeat split; reflexivity || discriminate. Qed.

(* the initial states written by spawn / spawn_and_forget are the model's *)
Lemma layout_init_spawn : TASK_INIT_SPAWN = encode 1 2 false true.
Proof. vm_compute. reflexivity. Qed.
Lemma layout_init_forget : TASK_INIT_SPAWN_FORGET = encode 1 1 false true.
Proof. vm_compute. reflexivity. Qed.

