(* The stamped ring buffer (Model/Queue.v) refines a bounded FIFO with one
   borrowable slot, for every capacity >= 1 and every operation sequence. *)
Require Import NX.Base.Prelude NX.Base.ListX NX.Model.Queue.

Section QueueProofs.
  Variable V : Type.
  Notation queue := (queue V).
  Notation fifo := (fifo V).

  Lemma mod_unique a b c : c > 0 -> a mod c = b mod c -> a <= b < a + c -> b = a.
  Proof.
    intros Hc Hm Hr.
    pose proof (Nat.div_mod_eq a c) as Ha. pose proof (Nat.div_mod_eq b c) as Hb.
    rewrite Hm in Ha.
    assert (b / c = a / c \/ b / c > a / c \/ b / c < a / c) as [E|[E|E]] by lia.
    - rewrite E in Hb. lia.
    - assert (c * (b / c) >= c * (a / c) + c) by nia. lia.
    - assert (c * (a / c) >= c * (b / c) + c) by nia. lia.
  Qed.

  Definition lo (q : queue) : nat := qdeq q - (match qheld q with Some _ => 1 | None => 0 end).

  Record QI (q : queue) (f : fifo) : Prop := {
    qi_cap : qcap q = fcap f /\ qcap q >= 1 /\ length (qslots q) = qcap q;
    qi_closed : qclosed q = fclosed f;
    qi_len : qdeq q + length (fitems f) = qenq q /\ qenq q - lo q <= qcap q /\ lo q <= qenq q;
    qi_held : (fheld f = true <-> qheld q <> None) /\
              (forall i, qheld q = Some i -> qdeq q >= 1 /\ nth_error (qslots q) i = Some (SBor (qdeq q - 1)));
    qi_slots : forall i st, nth_error (qslots q) i = Some st ->
        match st with
        | SVac n => n mod qcap q = i /\ qenq q <= n < lo q + qcap q
        | SPop n v => n mod qcap q = i /\ qdeq q <= n < qenq q /\ nth_error (fitems f) (n - qdeq q) = Some v
        | SBor n => n mod qcap q = i /\ qheld q = Some i /\ n + 1 = qdeq q
        end
  }.

  Lemma nth_error_map_seqn {A} (g : nat -> A) len : forall st i,
    nth_error (map g (seqn st len)) i = if Nat.ltb i len then Some (g (st + i)) else None.
  Proof.
    induction len as [|len IH]; intros st i; cbn [seqn map].
    - destruct i; reflexivity.
    - destruct i as [|i]; cbn [nth_error]; [rewrite Nat.add_0_r; reflexivity|].
      rewrite IH. change (S i <? S len) with (i <? len). destruct (i <? len); [f_equal; f_equal; lia|reflexivity].
  Qed.

  Lemma QI_new cap : cap >= 1 -> QI (queue_new cap) (fifo_new cap).
  Proof.
    intros H. split; cbn.
    - assert (G : forall st len, length (seqn st len) = len) by (intros st len; revert st; induction len; intros; cbn; auto).
      rewrite map_length, G. auto.
    - reflexivity.
    - unfold lo; cbn. lia.
    - split; [split; [discriminate|congruence]|discriminate].
    - intros i st E. rewrite nth_error_map_seqn in E. destruct (Nat.ltb_spec i cap) as [L|L]; [|discriminate].
      injection E as <-. unfold lo; cbn. split; [apply Nat.mod_small; lia|lia].
  Qed.

  Ltac slot_facts HS i :=
    let X := fresh "SF" in pose proof (HS i) as X.

  Lemma push_refines q f v :
    QI q f -> snd (q_step q (QPush v)) = snd (fifo_step f (QPush v)) /\
              QI (fst (q_step q (QPush v))) (fst (fifo_step f (QPush v))).
  Proof.
    intros HQ. pose proof HQ as HQ0. destruct HQ as [[Hc [Hc1 Hl]] Hcl [Hn [Hb Hlo]] [Hh1 Hh2] HS]. cbn [q_step fifo_step]. unfold q_push.
    rewrite Hcl. destruct (fclosed f) eqn:EC.
    { cbn. split; [reflexivity|exact HQ0]. }
    set (i := qenq q mod qcap q).
    assert (Li : i < length (qslots q)) by (rewrite Hl; apply Nat.mod_upper_bound; lia).
    destruct (nth_error (qslots q) i) as [st|] eqn:ES; [|apply nth_error_None in ES; lia].
    pose proof (HS i st ES) as F.
    assert (HL : length (fitems f) + (if fheld f then 1 else 0) = qenq q - lo q).
    { unfold lo. destruct Hh1 as [Ha Hb']. destruct (fheld f) eqn:EH; destruct (qheld q) as [j|] eqn:EQ.
      - destruct (Hh2 j eq_refl) as [D1 _]. lia.
      - exfalso. apply (Ha eq_refl). reflexivity.
      - assert (X : false = true) by (apply Hb'; discriminate). discriminate X.
      - lia. }
    destruct st as [n|n w|n].
    - destruct F as [F1 [F2 F3]].
      assert (n = qenq q).
      { apply (mod_unique (qenq q) n (qcap q)); [lia| |lia]. fold i. auto. }
      subst n. rewrite Nat.eqb_refl.
      destruct (Nat.ltb_spec (length (fitems f) + (if fheld f then 1 else 0)) (fcap f)) as [L|L]; [|lia].
      cbn [fst snd]. split; auto.
      split; cbn [qcap qclosed qenq qdeq qslots qheld fcap fclosed fitems fheld].
      + rewrite lupd_length. auto.
      + auto.
      + rewrite app_length. cbn [length]. unfold lo in *. cbn [qheld qdeq]. lia.
      + split; auto. intros j Ej. destruct (Hh2 j Ej) as [A B]. split; auto.
        destruct (Nat.eq_dec i j) as [<-|NE]; [rewrite ES in B; discriminate|].
        rewrite nth_error_lupd_ne; auto.
      + intros j st Ej. unfold lo in *. cbn [qheld qdeq].
        destruct (Nat.eq_dec i j) as [<-|NE].
        * rewrite nth_error_lupd_eq in Ej by auto. injection Ej as <-.
          split; auto. split; [lia|]. rewrite nth_error_app2 by lia.
          replace (qenq q - qdeq q - length (fitems f)) with 0 by lia. reflexivity.
        * rewrite nth_error_lupd_ne in Ej by auto. pose proof (HS j st Ej) as G.
          destruct st as [m|m w|m].
          -- destruct G as [G1 G2]. split; auto.
             assert (m <> qenq q) by (intros ->; apply NE; unfold i; auto). lia.
          -- destruct G as [G1 [G2 G3]]. split; auto. split; [lia|].
             rewrite nth_error_app1; auto. apply nth_error_Some. congruence.
          -- exact G.
    - (* slot still populated: the buffer is full *)
      destruct F as [F1 [F2 F3]].
      assert (E : qenq q - lo q = qcap q).
      { assert (n + qcap q = qenq q).
        { assert (qenq q >= n + 1) by lia.
          destruct (Nat.lt_ge_cases (qenq q) (n + qcap q)) as [L|L].
          - exfalso. assert (qenq q = n) by (apply (mod_unique n (qenq q) (qcap q)); [lia|fold i; lia|lia]). lia.
          - assert (n >= lo q) by (unfold lo; destruct (qheld q); lia). lia. }
        assert (n >= lo q) by (unfold lo; destruct (qheld q); lia). lia. }
      destruct (Nat.ltb_spec (length (fitems f) + (if fheld f then 1 else 0)) (fcap f)) as [L|L]; [lia|].
      cbn. split; [reflexivity|exact HQ0].
    - destruct F as [F1 [F2 F3]].
      assert (E : qenq q - lo q = qcap q).
      { unfold lo. rewrite F2.
        assert (qenq q >= n + 1) by lia.
        destruct (Nat.lt_ge_cases (qenq q) (n + qcap q)) as [L|L].
        - exfalso. assert (qenq q = n) by (apply (mod_unique n (qenq q) (qcap q)); [lia|fold i; lia|lia]). lia.
        - unfold lo in Hb. rewrite F2 in Hb. lia. }
      destruct (Nat.ltb_spec (length (fitems f) + (if fheld f then 1 else 0)) (fcap f)) as [L|L]; [lia|].
      cbn. split; [reflexivity|exact HQ0].
  Qed.

  Lemma held_iff q f : QI q f -> (fheld f = true <-> qheld q <> None).
  Proof. intros [_ _ _ [H _] _]. exact H. Qed.

  Lemma pophold_refines q f :
    QI q f -> snd (q_step q QPopHold) = snd (fifo_step f QPopHold) /\
              QI (fst (q_step q QPopHold)) (fst (fifo_step f QPopHold)).
  Proof.
    intros HQ. pose proof HQ as HQ0. destruct HQ as [[Hc [Hc1 Hl]] Hcl [Hn [Hb Hlo]] [Hh1 Hh2] HS].
    cbn [q_step fifo_step]. unfold q_pop.
    destruct (qheld q) as [j|] eqn:EQ.
    { assert (EH : fheld f = true) by (apply Hh1; discriminate). rewrite EH. cbn. split; [reflexivity|exact HQ0]. }
    assert (EH : fheld f = false).
    { destruct (fheld f) eqn:E; auto. exfalso. apply (proj1 Hh1 eq_refl). reflexivity. }
    rewrite EH.
    set (i := qdeq q mod qcap q).
    assert (Li : i < length (qslots q)) by (rewrite Hl; apply Nat.mod_upper_bound; lia).
    destruct (nth_error (qslots q) i) as [st|] eqn:ES; [|apply nth_error_None in ES; lia].
    pose proof (HS i st ES) as F. unfold lo in *. rewrite EQ in *. rewrite Nat.sub_0_r in *.
    destruct st as [n|n w|n].
    - (* vacant slot at the dequeue position: the queue is empty *)
      destruct F as [F1 [F2 F3]].
      assert (n = qdeq q) by (apply (mod_unique (qdeq q) n (qcap q)); [lia|fold i; auto|lia]).
      assert (EE : qenq q = qdeq q) by lia.
      assert (EI : fitems f = []) by (destruct (fitems f); [auto|cbn in Hn; lia]).
      rewrite EI, EE, Nat.eqb_refl, andb_true_r, Hcl. cbn. split; [reflexivity|exact HQ0].
    - destruct F as [F1 [F2 F3]].
      assert (n = qdeq q) by (apply (mod_unique (qdeq q) n (qcap q)); [lia|fold i; auto|lia]).
      subst n. rewrite Nat.eqb_refl. rewrite Nat.sub_diag in F3.
      destruct (fitems f) as [|x r] eqn:EI; [discriminate|]. cbn in F3. injection F3 as ->.
      cbn [fst snd]. split; [reflexivity|].
      split; cbn [qcap qclosed qenq qdeq qslots qheld fcap fclosed fitems fheld].
      + rewrite lupd_length. auto.
      + auto.
      + unfold lo; cbn [qheld qdeq]. cbn [length] in Hn. lia.
      + split; [split; [discriminate|reflexivity]|].
        intros j Ej. injection Ej as <-. split; [lia|]. rewrite nth_error_lupd_eq by auto.
        f_equal. f_equal. lia.
      + intros j st Ej. unfold lo; cbn [qheld qdeq].
        destruct (Nat.eq_dec i j) as [<-|NE].
        * rewrite nth_error_lupd_eq in Ej by auto. injection Ej as <-. split; auto. split; auto. lia.
        * rewrite nth_error_lupd_ne in Ej by auto. pose proof (HS j st Ej) as G. unfold lo in G. rewrite ?EQ in G.
          destruct st as [m|m w2|m].
          -- destruct G as [G1 G2]. split; auto. lia.
          -- destruct G as [G1 [G2 G3]]. split; auto.
             assert (m <> qdeq q) by (intros ->; apply NE; unfold i; auto).
             split; [lia|]. replace (m - qdeq q) with (S (m - S (qdeq q))) in G3 by lia. exact G3.
          -- destruct G as [_ [G _]]. discriminate.
    - destruct F as [_ [F _]]. discriminate.
  Qed.

  Lemma release_refines q f :
    QI q f -> snd (q_step q QRelease) = snd (fifo_step f QRelease) /\
              QI (fst (q_step q QRelease)) (fst (fifo_step f QRelease)).
  Proof.
    intros HQ. pose proof HQ as HQ0. destruct HQ as [[Hc [Hc1 Hl]] Hcl [Hn [Hb Hlo]] [Hh1 Hh2] HS].
    cbn [q_step fifo_step]. unfold q_release.
    destruct (qheld q) as [i|] eqn:EQ.
    2:{ assert (EH : fheld f = false).
        { destruct (fheld f) eqn:E; auto. exfalso. apply (proj1 Hh1 eq_refl). reflexivity. }
        rewrite EH. cbn. split; [reflexivity|].
        destruct f as [fc fcl fi fh]. cbn in *. subst fh. exact HQ0. }
    assert (EH : fheld f = true) by (apply Hh1; discriminate). rewrite EH.
    destruct (Hh2 i eq_refl) as [D1 ES]. rewrite ES. cbn [fst snd]. split; [reflexivity|].
    assert (Li : i < length (qslots q)) by (apply nth_error_Some; congruence).
    pose proof (HS i _ ES) as [F1 _]. unfold lo in *. rewrite EQ in *.
    split; cbn [qcap qclosed qenq qdeq qslots qheld fcap fclosed fitems fheld].
    - rewrite lupd_length. auto.
    - auto.
    - unfold lo; cbn [qheld qdeq]. lia.
    - split; [split; [discriminate|intros X; exfalso; apply X; reflexivity]|discriminate].
    - intros j st Ej. unfold lo; cbn [qheld qdeq].
      destruct (Nat.eq_dec i j) as [<-|NE].
      + rewrite nth_error_lupd_eq in Ej by auto. injection Ej as <-.
        split; [|lia].
        replace (qdeq q - 1 + qcap q) with (qdeq q - 1 + 1 * qcap q) by lia. rewrite Nat.mod_add by lia. exact F1.
      + rewrite nth_error_lupd_ne in Ej by auto. pose proof (HS j st Ej) as G. unfold lo in G. rewrite ?EQ in G.
        destruct st as [m|m w|m].
        * destruct G as [G1 G2]. split; auto. lia.
        * exact G.
        * destruct G as [_ [G _]]. congruence.
  Qed.

  Lemma step_refines q f o :
    QI q f -> snd (q_step q o) = snd (fifo_step f o) /\ QI (fst (q_step q o)) (fst (fifo_step f o)).
  Proof.
    intros HQ. destruct o.
    - apply push_refines; auto.
    - (* pop = pop-hold followed at once by release *)
      destruct (pophold_refines q f HQ) as [E1 Q1].
      cbn [q_step fifo_step] in *.
      destruct (q_pop q) as [q1 r] eqn:EP. cbn [fst snd] in *.
      destruct (fheld f) eqn:EH.
      { cbn [snd fst] in *. injection E1 as ->. cbn. split; auto. }
      destruct (fitems f) as [|x rest] eqn:EI.
      { cbn [snd fst] in *. injection E1 as ->. destruct (fclosed f); cbn; split; auto. }
      cbn [snd fst] in *. injection E1 as ->. cbn [fst snd].
      destruct (release_refines _ _ Q1) as [_ Q2]. cbn [q_step fifo_step fst snd] in Q2.
      destruct (q_release q1) as [q2 bb]. cbn [fst] in *. split; [reflexivity|exact Q2].
    - apply pophold_refines; auto.
    - apply release_refines; auto.
    - cbn. split; auto. destruct HQ as [A B C D E]. split; cbn; auto.
    - cbn. split; [|exact HQ]. destruct HQ as [_ _ [Hn _] _ _]. unfold q_len. f_equal. lia.
    - cbn. split; [|exact HQ]. destruct HQ as [_ Hcl _ _ _]. rewrite Hcl. reflexivity.
  Qed.

  Theorem queue_refines_gen ops : forall q f, QI q f -> q_run q ops = fifo_run f ops.
  Proof.
    induction ops as [|o r IH]; intros q f HQ; cbn [q_run fifo_run]; auto.
    destruct (step_refines q f o HQ) as [E1 E2].
    destruct (q_step q o) as [q' x], (fifo_step f o) as [f' y]. cbn [fst snd] in *. subst y. f_equal. apply IH; auto.
  Qed.

  Theorem queue_refines cap ops : cap >= 1 ->
    q_run (@queue_new V cap) ops = fifo_run (@fifo_new V cap) ops.
  Proof. intros H. apply queue_refines_gen, QI_new; auto. Qed.

End QueueProofs.
