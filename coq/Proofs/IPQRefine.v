(* util/indexed_priority_queue.rs (Model/IPQ.v: array heap + slab + free list + epochs)
   refines the list-with-epochs specification Model/IPQSpec.v: no indexing operation ever
   fails, and every operation sequence gives the same answers. *)
Require Import NX.Base.Prelude NX.Base.ListX NX.Model.PQ NX.Model.IPQ NX.Model.IPQSpec.
Require Import NX.Proofs.PQProofs NX.Proofs.IPQOrder NX.Proofs.IPQSift NX.Proofs.IPQHeap.

Section Refine.
  Variable V : Type.
  Notation node := (node V).
  Notation strip := (strip V).
  Notation sslab := (list (option nat + V)).

  (* ---------------- free list ---------------- *)
  Fixpoint chain (ss : sslab) (ff : option nat) (l : list nat) : Prop :=
    match l with
    | [] => ff = None
    | i :: l' => ff = Some i /\ exists nx, nth_error ss i = Some (inl nx) /\ chain ss nx l'
    end.

  Definition FL (ss : sslab) (ff : option nat) : Prop := exists l, chain ss ff l /\ NoDup l.

  Lemma chain_free ss ff l i : chain ss ff l -> In i l -> exists nx, nth_error ss i = Some (inl nx).
  Proof.
    revert ff; induction l as [|j l' IH]; intros ff Hc Hi; [destruct Hi|].
    destruct Hc as (_ & nx & Hj & Hc'). destruct Hi as [->|Hi]; eauto.
  Qed.

  Lemma chain_lupd ss ff l i x : chain ss ff l -> ~ In i l -> chain (lupd ss i x) ff l.
  Proof.
    revert ff; induction l as [|j l' IH]; intros ff Hc Hi; [exact Hc|].
    destruct Hc as (Hff & nx & Hj & Hc'). split; [exact Hff|]. exists nx. split.
    - rewrite nth_error_lupd. destruct (Nat.eqb_spec j i) as [->|_]; [exfalso; apply Hi; left; reflexivity|exact Hj].
    - apply IH; [exact Hc'|]. intros H; apply Hi; right; exact H.
  Qed.

  Lemma chain_app ss ff l x : chain ss ff l -> chain (ss ++ [x]) ff l.
  Proof.
    revert ff; induction l as [|j l' IH]; intros ff Hc; [exact Hc|].
    destruct Hc as (Hff & nx & Hj & Hc'). split; [exact Hff|]. exists nx. split; [|apply IH; exact Hc'].
    rewrite nth_error_app1; [exact Hj|]. eapply nth_error_some_lt; eauto.
  Qed.

  (* ---------------- abstraction of a heap item ---------------- *)
  Definition abs_item (ss : sslab) (it : hitem) : option (item V) :=
    match nth_error ss (hslab it) with
    | Some (inr v) => Some {| PQ.ikey := hkey it; iepoch := hepoch it; ival := v |}
    | _ => None
    end.

  Lemma abs_item_some ss it x :
    abs_item ss it = Some x ->
    PQ.ikey x = hkey it /\ iepoch x = hepoch it /\ nth_error ss (hslab it) = Some (inr (ival x)).
  Proof.
    unfold abs_item. destruct (nth_error ss (hslab it)) as [[nx|v]|]; try discriminate.
    intros H; injection H as <-. cbn. auto.
  Qed.

  Lemma strip_heapnode (sl : list node) j v h :
    nth_error sl j = Some (HeapNode v h) -> nth_error (map strip sl) j = Some (inr v).
  Proof. intros H. rewrite nth_error_map, H. reflexivity. Qed.

  Lemma strip_inr (sl : list node) j v :
    nth_error (map strip sl) j = Some (inr v) -> exists h, nth_error sl j = Some (HeapNode v h).
  Proof.
    rewrite nth_error_map. destruct (nth_error sl j) as [[nx|v' h]|]; cbn; try discriminate.
    intros H; injection H as ->. eauto.
  Qed.

  Lemma strip_inl (sl : list node) j nx :
    nth_error (map strip sl) j = Some (inl nx) -> nth_error sl j = Some (FreeNode nx).
  Proof.
    rewrite nth_error_map. destruct (nth_error sl j) as [[nx'|v' h]|]; cbn; try discriminate.
    intros H; injection H as ->. reflexivity.
  Qed.

  (* ---------------- consequences of the invariants ---------------- *)
  Lemma WF_inj hp (sl : list node) i j x :
    WF V hp sl -> nth_error hp i = Some x -> nth_error hp j = Some x -> i = j.
  Proof.
    intros [H1 _] Hi Hj. destruct (H1 i x Hi) as (v & Hv). destruct (H1 j x Hj) as (v' & Hv').
    rewrite Hv in Hv'. injection Hv' as _ E. exact E.
  Qed.

  Lemma WF_abs hp (sl : list node) it :
    WF V hp sl -> In it hp -> exists x, abs_item (map strip sl) it = Some x.
  Proof.
    intros [H1 _] Hin. apply In_nth_error in Hin. destruct Hin as (i & Hi).
    destruct (H1 i it Hi) as (v & Hv). unfold abs_item. erewrite strip_heapnode by eauto. eauto.
  Qed.

  Lemma HO_root_min hp r : HO hp -> nth_error hp 0 = Some r -> forall i x, nth_error hp i = Some x -> ule r x.
  Proof.
    intros Hho Hr i. induction i as [i IH] using lt_wf_ind. intros x Hx.
    destruct i as [|i']; [rewrite Hr in Hx; injection Hx as <-; apply ule_refl|].
    pose proof (parent_lt (S i') ltac:(lia)) as Hpl.
    destruct (nth_error hp (parent (S i'))) as [p|] eqn:Ep.
    - eapply ule_trans; [eapply (IH (parent (S i'))); eauto|]. apply (Hho (S i') x p); [lia|exact Hx|exact Ep].
    - apply nth_error_None in Ep. apply nth_error_some_lt in Hx. lia.
  Qed.

  Lemma nth_error_remove_nth {A} (l : list A) : forall i j,
    nth_error (remove_nth i l) j = nth_error l (if Nat.ltb j i then j else S j).
  Proof.
    induction l as [|x r IH]; intros i j.
    - assert (E : forall n, nth_error (@nil A) n = None) by (intros [|n]; reflexivity).
      destruct i; cbn [remove_nth]; rewrite !E; reflexivity.
    - destruct i as [|i]; cbn [remove_nth]; [reflexivity|].
      destruct j as [|j]; [reflexivity|]. cbn [nth_error]. rewrite IH.
      change (Nat.ltb (S j) (S i)) with (Nat.ltb j i). destruct (Nat.ltb j i); reflexivity.
  Qed.

  Lemma in_remove_nth_iff {A} (l : list A) i x :
    In x (remove_nth i l) <-> exists j, j <> i /\ nth_error l j = Some x.
  Proof.
    rewrite In_nth_iff. split.
    - intros (j & Hj). rewrite nth_error_remove_nth in Hj.
      destruct (Nat.ltb_spec j i); eexists; split; [|exact Hj|..]; [lia| |exact Hj]; lia.
    - intros (j & Hne & Hj). destruct (Nat.lt_trichotomy j i) as [H|[H|H]]; [|lia|].
      + exists j. rewrite nth_error_remove_nth. destruct (Nat.ltb_spec j i); [exact Hj|lia].
      + exists (j - 1). rewrite nth_error_remove_nth. destruct (Nat.ltb_spec (j - 1) i); [lia|].
        replace (S (j - 1)) with j by lia. exact Hj.
  Qed.

  (* ---------------- removing the entry at heap position h ---------------- *)
  Lemma rl_nth (hp : list hitem) i x :
    nth_error (removelast hp) i = Some x -> i < length hp - 1 /\ nth_error hp i = Some x.
  Proof.
    rewrite nth_error_removelast. destruct (Nat.ltb_spec i (length hp - 1)); [auto|discriminate].
  Qed.

  Lemma rl_nth_intro (hp : list hitem) i x :
    i < length hp - 1 -> nth_error hp i = Some x -> nth_error (removelast hp) i = Some x.
  Proof.
    intros H Hx. rewrite nth_error_removelast. destruct (Nat.ltb_spec i (length hp - 1)); [exact Hx|lia].
  Qed.

  Lemma HO_removelast hp : HO hp -> HO (removelast hp).
  Proof.
    intros H i x p Hi Hx Hp. apply rl_nth in Hx. apply rl_nth in Hp. eapply H; [exact Hi|apply Hx|apply Hp].
  Qed.

  Section RemoveAt.
    Variables (hp : list hitem) (sl : list node) (h : nat) (it : hitem) (ff : option nat).
    Hypothesis Hwf : WF V hp sl.
    Hypothesis Hho : HO hp.
    Hypothesis Hit : nth_error hp h = Some it.

    Let sl1 := lupd sl (hslab it) (FreeNode ff).
    Let hp1 := removelast hp.
    Let n := length hp.

    Lemma ra_node : exists v, nth_error sl (hslab it) = Some (HeapNode v h).
    Proof. destruct Hwf as [W1 _]. apply W1. exact Hit. Qed.

    Lemma ra_upd : upd sl (hslab it) (FreeNode ff) = Some sl1.
    Proof. destruct ra_node as (v & Hv). apply upd_some. eapply nth_error_some_lt; eauto. Qed.

    Lemma ra_strip : map strip sl1 = lupd (map strip sl) (hslab it) (inl ff).
    Proof. unfold sl1. rewrite map_lupd. reflexivity. Qed.

    Lemma ra_other i x : i <> h -> nth_error hp i = Some x -> hslab x <> hslab it.
    Proof.
      intros Hne Hx E. destruct Hwf as [W1 _]. destruct (W1 i x Hx) as (v & Hv).
      destruct ra_node as (v' & Hv'). rewrite E, Hv' in Hv. injection Hv as _ E2. congruence.
    Qed.

    Lemma ra_sl1 j : nth_error sl1 j = if Nat.eqb j (hslab it) then Some (FreeNode ff) else nth_error sl j.
    Proof.
      unfold sl1. rewrite nth_error_lupd. destruct ra_node as (v & Hv).
      apply nth_error_some_lt in Hv. destruct (Nat.ltb_spec (hslab it) (length sl)); [reflexivity|lia].
    Qed.

    Lemma ra_w1 i x : i <> h -> nth_error hp i = Some x -> exists v, nth_error sl1 (hslab x) = Some (HeapNode v i).
    Proof.
      intros Hne Hx. destruct Hwf as [W1 _]. destruct (W1 i x Hx) as (v & Hv). exists v.
      rewrite ra_sl1. destruct (Nat.eqb_spec (hslab x) (hslab it)) as [E|_]; [|exact Hv].
      exfalso. eapply ra_other; eauto.
    Qed.

    Lemma ra_w2 j v h' :
      nth_error sl1 j = Some (HeapNode v h') -> h' <> h /\ exists x, nth_error hp h' = Some x /\ hslab x = j.
    Proof.
      rewrite ra_sl1. destruct (Nat.eqb_spec j (hslab it)) as [E|Hne]; [discriminate|]. intros Hj.
      destruct Hwf as [_ W2]. destruct (W2 j v h' Hj) as (x & Hx & E). split; [|eauto].
      intros ->. rewrite Hit in Hx. injection Hx as <-. congruence.
    Qed.

    Lemma ra_hlt : h < n.
    Proof. eapply nth_error_some_lt; eauto. Qed.

    Lemma ra_last_case :
      h = n - 1 ->
      WF V hp1 sl1 /\ HO hp1 /\ (forall x, In x hp1 <-> In x hp /\ x <> it).
    Proof.
      intros Hh. pose proof ra_hlt as Hlt. split; [split|split].
      - intros i x Hx. apply rl_nth in Hx. destruct Hx as [Hi Hx]. apply ra_w1; [fold n in Hi; lia|exact Hx].
      - intros j v h' Hj. apply ra_w2 in Hj. destruct Hj as (Hne & x & Hx & E). exists x. split; [|exact E].
        apply rl_nth_intro; [|exact Hx]. apply nth_error_some_lt in Hx. fold n in Hx |- *. lia.
      - apply HO_removelast. exact Hho.
      - intros x. rewrite !In_nth_iff. split.
        + intros (i & Hx). apply rl_nth in Hx. destruct Hx as [Hi Hx]. split; [eauto|].
          intros ->. assert (i = h) by (eapply WF_inj; eauto). fold n in Hi. lia.
        + intros ((i & Hx) & Hne). exists i. apply rl_nth_intro; [|exact Hx].
          assert (i <> h) by (intros ->; congruence). apply nth_error_some_lt in Hx. fold n in Hx |- *. lia.
    Qed.

    Lemma ra_inner_case last :
      h < n - 1 -> nth_error hp (n - 1) = Some last ->
      let L := last :: remove_nth h hp1 in
      hole V sl1 (n - 1) L last hp1 sl1 h /\
      (forall x, In x L <-> In x hp /\ x <> it) /\
      (ult last it -> SU last hp1 h) /\
      (h = 0 \/ ule it last -> SD last hp1 h).
    Proof.
      intros Hh Hlast L.
      assert (Hlw : exists v, nth_error sl1 (hslab last) = Some (HeapNode v (n - 1))) by (apply ra_w1; [lia|exact Hlast]).
      assert (Hchild : forall i x, 0 < i -> parent i = h -> nth_error hp1 i = Some x -> ule it x).
      { intros i x Hi Hp Hx. apply rl_nth in Hx. eapply (Hho i x it); [exact Hi|apply Hx|rewrite Hp; exact Hit]. }
      assert (Hpar : forall p, 0 < h -> nth_error hp1 (parent h) = Some p -> ule p it).
      { intros p Hh0 Hp. apply rl_nth in Hp. eapply (Hho h it p); [exact Hh0|exact Hit|apply Hp]. }
      assert (Hrest : forall i x p, 0 < i -> nth_error hp1 i = Some x -> nth_error hp1 (parent i) = Some p -> ule p x).
      { apply HO_removelast. exact Hho. }
      split; [|split; [|split]].
      - constructor.
        + unfold hp1. rewrite removelast_length. reflexivity.
        + exact Hh.
        + reflexivity.
        + intros i x Hne Hx. apply rl_nth in Hx. apply ra_w1; [exact Hne|apply Hx].
        + destruct Hlw as (v & Hv). eauto.
        + intros i x Hne Hx E. apply rl_nth in Hx. destruct Hx as [Hi Hx]. fold n in Hi.
          destruct (ra_w1 i x Hne Hx) as (v & Hv). destruct Hlw as (v' & Hv').
          rewrite E, Hv' in Hv. injection Hv as _ E2. lia.
        + intros j v h' Hj. apply ra_w2 in Hj. destruct Hj as (Hne & x & Hx & E).
          destruct (Nat.eq_dec h' (n - 1)) as [->|Hn'].
          * left. rewrite Hlast in Hx. injection Hx as <-. congruence.
          * right. split; [exact Hne|]. exists x. split; [|exact E].
            apply rl_nth_intro; [|exact Hx]. apply nth_error_some_lt in Hx. fold n in Hx |- *. lia.
        + intros x. unfold L. cbn [In]. rewrite in_remove_nth_iff. split; (intros [E|E]; [left; congruence|right; exact E]).
      - intros x. unfold L. cbn [In]. rewrite in_remove_nth_iff, In_nth_iff. split.
        + intros [<-|(i & Hne & Hx)].
          * split; [eauto|]. intros ->. assert (n - 1 = h) by (eapply WF_inj; eauto). lia.
          * apply rl_nth in Hx. destruct Hx as [Hi Hx]. split; [eauto|]. intros ->.
            apply Hne. eapply WF_inj; eauto.
        + intros ((i & Hx) & Hne). assert (i <> h) by (intros ->; congruence).
          destruct (Nat.eq_dec i (n - 1)) as [->|Hn'].
          * left. congruence.
          * right. exists i. split; [assumption|]. apply rl_nth_intro; [|exact Hx].
            apply nth_error_some_lt in Hx. fold n in Hx |- *. lia.
      - intros Hlt. constructor.
        + intros i x p Hi _ Hx Hp. eapply Hrest; eauto.
        + intros i x Hi Hp Hx. apply ult_ule. eapply ult_ule_trans; [exact Hlt|]. apply (Hchild i x Hi Hp Hx).
        + intros i x p Hi Hp Hh0 Hx Hpp. eapply ule_trans; [apply (Hpar p Hh0 Hpp)|apply (Hchild i x Hi Hp Hx)].
      - intros Hor. constructor.
        + intros i x p Hi _ _ Hx Hp. eapply Hrest; eauto.
        + intros i x p Hi Hp Hh0 Hx Hpp. eapply ule_trans; [apply (Hpar p Hh0 Hpp)|apply (Hchild i x Hi Hp Hx)].
        + intros p Hh0 Hp. destruct Hor as [->|Hle]; [lia|]. eapply ule_trans; [apply (Hpar p Hh0 Hp)|exact Hle].
    Qed.
  End RemoveAt.

  (* ---------------- the representation invariant ---------------- *)
  Definition epoch_unique (hp : list hitem) : Prop :=
    forall a b, In a hp -> In b hp -> hepoch a = hepoch b -> a = b.

  Record Inv (q : ipq V) (ks : list ikey) (a : pq V) : Prop := {
    inv_wf : WF V (heap q) (slab q);
    inv_ho : HO (heap q);
    inv_fl : FL (map strip (slab q)) (first_free q);
    inv_next : inext q = next_epoch a;
    inv_len : length (items a) = length (heap q);
    inv_rel : forall x, In x (items a) <->
                        exists it, In it (heap q) /\ abs_item (map strip (slab q)) it = Some x;
    inv_uniq : epoch_unique (heap q);
    inv_sorted : epochs_sorted V (items a);
    inv_bound : forall x, In x (items a) -> (iepoch x < next_epoch a)%N;
    inv_keys : forall n ik, nth_error ks n = Some ik ->
                 kepoch ik = N.of_nat n /\
                 forall it, In it (heap q) -> hepoch it = N.of_nat n -> hslab it = kslab ik;
    inv_nkeys : N.of_nat (length ks) = inext q
  }.

  Lemma item_lt_ult ss a b xa xb :
    abs_item ss a = Some xa -> abs_item ss b = Some xb -> (item_lt V xa xb <-> ult a b).
  Proof.
    intros Ha Hb. apply abs_item_some in Ha. apply abs_item_some in Hb.
    destruct Ha as (Ka & Ea & _), Hb as (Kb & Eb & _).
    unfold item_lt. rewrite Ka, Kb, Ea, Eb, ult_iff. unfold key_lt. rewrite (key_eq_parts (hkey a) (hkey b)). tauto.
  Qed.

  Lemma sorted_epoch_inj (l : list (item V)) a b :
    epochs_sorted V l -> In a l -> In b l -> iepoch a = iepoch b -> a = b.
  Proof.
    intros Hs Ha Hb E. apply In_nth_error in Ha. apply In_nth_error in Hb.
    destruct Ha as (i & Hi), Hb as (j & Hj).
    destruct (Nat.lt_trichotomy i j) as [H|[H|H]].
    - specialize (Hs _ _ _ _ H Hi Hj). lia.
    - subst j. congruence.
    - specialize (Hs _ _ _ _ H Hj Hi). lia.
  Qed.

  Lemma in_remove_epoch_iff (l : list (item V)) x y :
    epochs_sorted V l -> In x l -> (In y (remove_epoch (iepoch x) l) <-> In y l /\ y <> x).
  Proof.
    intros Hs Hx. destruct (In_nth_error _ _ Hx) as (i & Hi).
    rewrite (remove_epoch_nth V l i x Hs Hi), in_remove_nth_iff, In_nth_iff. split.
    - intros (j & Hne & Hj). split; [eauto|]. intros ->. apply Hne. eapply sorted_nodup_idx; eauto.
    - intros ((j & Hj) & Hne). exists j. split; [|exact Hj]. intros ->. congruence.
  Qed.

  Lemma WF_slab_inj hp (sl : list node) a b :
    WF V hp sl -> In a hp -> In b hp -> hslab a = hslab b -> a = b.
  Proof.
    intros [W1 _] Ha Hb E. apply In_nth_error in Ha. apply In_nth_error in Hb.
    destruct Ha as (i & Hi), Hb as (j & Hj).
    destruct (W1 i a Hi) as (v & Hv). destruct (W1 j b Hj) as (v' & Hv').
    rewrite E, Hv' in Hv. injection Hv as _ E2. subst j. congruence.
  Qed.

  Lemma Inv_heap_bound q ks a it : Inv q ks a -> In it (heap q) -> (hepoch it < inext q)%N.
  Proof.
    intros I Hin. destruct (WF_abs _ _ _ (inv_wf _ _ _ I) Hin) as (x & Hx).
    assert (Hxin : In x (items a)) by (apply (inv_rel _ _ _ I); eauto).
    apply (inv_bound _ _ _ I) in Hxin. apply abs_item_some in Hx. destruct Hx as (_ & E & _).
    rewrite (inv_next _ _ _ I). lia.
  Qed.

  (* the root of the heap is the abstract minimum *)
  Lemma root_is_min q ks a it rest :
    Inv q ks a -> heap q = it :: rest ->
    exists x, abs_item (map strip (slab q)) it = Some x /\ pq_peek_item a = Some x.
  Proof.
    intros I Hh. assert (Hin : In it (heap q)) by (rewrite Hh; left; reflexivity).
    destruct (WF_abs _ _ _ (inv_wf _ _ _ I) Hin) as (x & Hx). exists x. split; [exact Hx|].
    assert (Hxin : In x (items a)) by (apply (inv_rel _ _ _ I); eauto).
    unfold pq_peek_item. destruct (items a) as [|c l] eqn:El; [destruct Hxin|]. f_equal.
    pose proof (min_item_in V c l) as Hmin. pose proof (min_item_min V c l x Hxin) as Hnlt.
    set (m := min_item c l) in *.
    assert (Hm : exists im, In im (heap q) /\ abs_item (map strip (slab q)) im = Some m).
    { apply (inv_rel _ _ _ I). rewrite El. exact Hmin. }
    destruct Hm as (im & Him & Habs).
    assert (Hle : ule it im).
    { apply In_nth_error in Him. destruct Him as (i & Hi).
      eapply HO_root_min; [exact (inv_ho _ _ _ I)|rewrite Hh; reflexivity|exact Hi]. }
    assert (Hnlt2 : ~ item_lt V m x).
    { rewrite (item_lt_ult _ _ _ _ _ Habs Hx). apply ule_iff. exact Hle. }
    apply (sorted_epoch_inj (c :: l)); [rewrite <- El; exact (inv_sorted _ _ _ I)|exact Hmin|exact Hxin|].
    unfold item_lt in Hnlt, Hnlt2.
    destruct (key_lt_total (PQ.ikey m) (PQ.ikey x)) as [K|[K|K]]; [tauto| |tauto].
    destruct (N.lt_trichotomy (iepoch m) (iepoch x)) as [L|[L|L]]; [|exact L|]; exfalso; [apply Hnlt2|apply Hnlt]; right; split; congruence || lia.
  Qed.

  (* ---------------- what a removal leaves behind ---------------- *)
  Record Removed (hp : list hitem) (sl : list node) (it : hitem) (ff : option nat)
                 (hp' : list hitem) (sl' : list node) : Prop := {
    rm_wf : WF V hp' sl';
    rm_ho : HO hp';
    rm_strip : map strip sl' = lupd (map strip sl) (hslab it) (inl ff);
    rm_in : forall x, In x hp' <-> In x hp /\ x <> it;
    rm_len : S (length hp') = length hp
  }.

  Lemma inv_after_remove q ks a it x hp' sl' :
    Inv q ks a -> In it (heap q) -> abs_item (map strip (slab q)) it = Some x ->
    Removed (heap q) (slab q) it (first_free q) hp' sl' ->
    Inv {| heap := hp'; slab := sl'; first_free := Some (hslab it); inext := inext q |} ks
        {| items := remove_epoch (iepoch x) (items a); next_epoch := next_epoch a |}.
  Proof.
    intros I Hin Habs [Rwf Rho Rstrip Rin Rlen].
    assert (Hxin : In x (items a)) by (apply (inv_rel _ _ _ I); eauto).
    pose proof (abs_item_some _ _ _ Habs) as (Kx & Ex & Hnode).
    assert (Hother : forall it', In it' (heap q) -> it' <> it ->
                       abs_item (map strip sl') it' = abs_item (map strip (slab q)) it').
    { intros it' Hin' Hne. unfold abs_item. rewrite Rstrip, nth_error_lupd.
      destruct (Nat.eqb_spec (hslab it') (hslab it)) as [E|_]; [|reflexivity].
      exfalso. apply Hne. exact (WF_slab_inj _ _ _ _ (inv_wf _ _ _ I) Hin' Hin E). }
    constructor; cbn [heap slab first_free inext items next_epoch].
    - exact Rwf.
    - exact Rho.
    - destruct (inv_fl _ _ _ I) as (l & Hch & Hnd). exists (hslab it :: l).
      assert (Hnotin : ~ In (hslab it) l).
      { intros Hl. destruct (chain_free _ _ _ _ Hch Hl) as (nx & Hnx). congruence. }
      rewrite Rstrip. split; [|constructor; assumption].
      split; [reflexivity|]. exists (first_free q). split.
      + rewrite nth_error_lupd, Nat.eqb_refl.
        apply nth_error_some_lt in Hnode. destruct (Nat.ltb_spec (hslab it) (length (map strip (slab q)))); [reflexivity|lia].
      + apply chain_lupd; assumption.
    - exact (inv_next _ _ _ I).
    - pose proof (remove_epoch_length V (items a) x Hxin). pose proof (inv_len _ _ _ I). lia.
    - intros y. rewrite (in_remove_epoch_iff _ _ _ (inv_sorted _ _ _ I) Hxin). split.
      + intros [Hy Hne]. apply (inv_rel _ _ _ I) in Hy. destruct Hy as (it' & Hin' & Habs').
        assert (it' <> it) by (intros ->; congruence).
        exists it'. split; [apply Rin; auto|]. rewrite Hother; auto.
      + intros (it' & Hin' & Habs'). apply Rin in Hin'. destruct Hin' as [Hin' Hne].
        rewrite Hother in Habs' by auto. split; [apply (inv_rel _ _ _ I); eauto|].
        intros ->. apply Hne. apply (inv_uniq _ _ _ I); auto.
        apply abs_item_some in Habs'. destruct Habs' as (_ & E & _). congruence.
    - intros u w Hu Hw. apply Rin in Hu. apply Rin in Hw. apply (inv_uniq _ _ _ I); tauto.
    - destruct (In_nth_error _ _ Hxin) as (i & Hi).
      rewrite (remove_epoch_nth V _ i x (inv_sorted _ _ _ I) Hi). apply sorted_remove_nth. exact (inv_sorted _ _ _ I).
    - intros y Hy. apply in_remove_epoch in Hy. exact (inv_bound _ _ _ I y Hy).
    - intros n ik Hn. destruct (inv_keys _ _ _ I n ik Hn) as [E Hk]. split; [exact E|].
      intros it' Hin' He. apply Hk; [|exact He]. apply Rin in Hin'. tauto.
    - exact (inv_nkeys _ _ _ I).
  Qed.

  (* removal at heap position h, as performed by pull (h = 0, always sift_down) and by
     extract (sift_up if the last item is smaller than the removed one, else sift_down) *)
  Lemma remove_last_case hp (sl : list node) h it ff :
    WF V hp sl -> HO hp -> nth_error hp h = Some it -> h = length hp - 1 ->
    Removed hp sl it ff (removelast hp) (lupd sl (hslab it) (FreeNode ff)).
  Proof.
    intros Hwf Hho Hit Hh. destruct (ra_last_case hp sl h it ff Hwf Hho Hit Hh) as (W & H & Hin).
    constructor; auto.
    - apply ra_strip.
    - rewrite removelast_length. apply nth_error_some_lt in Hit. lia.
  Qed.

  Lemma remove_sift_case hp (sl : list node) h it ff last (down : bool) :
    WF V hp sl -> HO hp -> nth_error hp h = Some it -> h < length hp - 1 ->
    nth_error hp (length hp - 1) = Some last ->
    (if down then h = 0 \/ ule it last else ult last it) ->
    exists hp' sl',
      (if down then sift_down (S (length (removelast hp))) (removelast hp) (lupd sl (hslab it) (FreeNode ff)) last h
       else sift_up (S (length (removelast hp))) (removelast hp) (lupd sl (hslab it) (FreeNode ff)) last h)
      = Some (hp', sl') /\
      Removed hp sl it ff hp' sl'.
  Proof.
    intros Hwf Hho Hit Hh Hlast Hord.
    destruct (ra_inner_case hp sl h it ff Hwf Hho Hit last Hh Hlast) as (Hhole & HL & Hsu & Hsd).
    rewrite removelast_length.
    assert (Hres : forall hp' sl',
              done V (lupd sl (hslab it) (FreeNode ff)) (length hp - 1) (last :: remove_nth h (removelast hp)) hp' sl' ->
              HO hp' -> Removed hp sl it ff hp' sl').
    { intros hp' sl' (Dl & Ds & Dw & Di) Hho'. constructor; auto.
      - rewrite Ds. apply ra_strip.
      - intros x. rewrite <- Di. apply HL.
      - lia. }
    destruct down.
    - destruct (sift_down_correct V _ _ _ _ (S (length hp - 1)) _ _ _ Hhole (Hsd Hord)) as (hp' & sl' & E & D & H'); [lia|].
      exists hp', sl'. split; [exact E|apply Hres; assumption].
    - destruct (sift_up_correct V _ _ _ _ (S (length hp - 1)) _ _ _ Hhole (Hsu Hord)) as (hp' & sl' & E & D & H'); [lia|].
      exists hp', sl'. split; [exact E|apply Hres; assumption].
  Qed.

  (* ---------------- pull / peek ---------------- *)
  Lemma items_nil_of_heap q ks a : Inv q ks a -> heap q = [] -> items a = [].
  Proof.
    intros I Hh. pose proof (inv_len _ _ _ I) as Hl. rewrite Hh in Hl. destruct (items a); [reflexivity|discriminate].
  Qed.

  Lemma root_node q ks a it rest x :
    Inv q ks a -> heap q = it :: rest -> abs_item (map strip (slab q)) it = Some x ->
    nth_error (slab q) (hslab it) = Some (HeapNode (ival x) 0).
  Proof.
    intros I Hh Habs. destruct (inv_wf _ _ _ I) as [W1 _].
    destruct (W1 0 it) as (v & Hv); [rewrite Hh; reflexivity|].
    apply abs_item_some in Habs. destruct Habs as (_ & _ & Hs).
    erewrite strip_heapnode in Hs by eauto. injection Hs as ->. exact Hv.
  Qed.

  Lemma pull_sim q ks a :
    Inv q ks a ->
    exists q', ipq_pull q = Some (fst (pq_pull a), q') /\ Inv q' ks (snd (pq_pull a)).
  Proof.
    intros I. destruct (heap q) as [|it rest] eqn:Hh.
    - exists q. unfold ipq_pull, pq_pull, pq_peek_item. rewrite Hh, (items_nil_of_heap _ _ _ I Hh). split; [reflexivity|exact I].
    - destruct (root_is_min _ _ _ _ _ I Hh) as (x & Habs & Hpeek).
      pose proof (root_node _ _ _ _ _ _ I Hh Habs) as Hnode.
      pose proof (abs_item_some _ _ _ Habs) as (Kx & Ex & _).
      assert (Hit : nth_error (heap q) 0 = Some it) by (rewrite Hh; reflexivity).
      assert (Hin : In it (heap q)) by (rewrite Hh; left; reflexivity).
      assert (Hne : heap q <> []) by (rewrite Hh; discriminate).
      pose proof (last_nth_error (heap q) it Hne) as Hlast.
      unfold pq_pull. rewrite Hpeek. cbn [fst snd].
      remember (ipq_pull q) as r eqn:Hr.
      unfold ipq_pull in Hr. rewrite Hh in Hr at 1. cbv beta iota in Hr.
      unfold bind at 1 in Hr. rewrite Hnode in Hr.
      rewrite (ra_upd (heap q) (slab q) 0 it (first_free q) (inv_wf _ _ _ I) Hit) in Hr. unfold bind at 1 in Hr.
      destruct (Nat.eqb_spec (hslab (last (heap q) it)) (hslab it)) as [E|E].
      + assert (Hh0 : 0 = length (heap q) - 1).
        { destruct (Nat.eq_dec (length (heap q) - 1) 0) as [H0|H0]; [lia|]. exfalso.
          eapply (ra_other (heap q) (slab q) 0 it (inv_wf _ _ _ I) Hit (length (heap q) - 1)); eauto. }
        subst r. eexists. split; [rewrite Kx; reflexivity|].
        apply inv_after_remove; auto.
        apply (remove_last_case _ _ 0); auto. exact (inv_wf _ _ _ I). exact (inv_ho _ _ _ I).
      + assert (Hh0 : 0 < length (heap q) - 1).
        { destruct (Nat.eq_dec (length (heap q) - 1) 0) as [H0|H0]; [|lia]. exfalso.
          rewrite H0, Hit in Hlast. injection Hlast as Hl. apply E. rewrite <- Hl. reflexivity. }
        destruct (remove_sift_case (heap q) (slab q) 0 it (first_free q) (last (heap q) it) true
                    (inv_wf _ _ _ I) (inv_ho _ _ _ I) Hit Hh0 Hlast (or_introl eq_refl)) as (hp' & sl' & Es & Hrm).
        rewrite Es in Hr. unfold bind in Hr. subst r. eexists. split; [rewrite Kx; reflexivity|].
        apply inv_after_remove; auto.
  Qed.

  Lemma peek_sim q ks a : Inv q ks a -> ipq_peek q = Some (pq_peek a).
  Proof.
    intros I. unfold ipq_peek, pq_peek. destruct (heap q) as [|it rest] eqn:Hh.
    - unfold pq_peek_item. rewrite (items_nil_of_heap _ _ _ I Hh). reflexivity.
    - destruct (root_is_min _ _ _ _ _ I Hh) as (x & Habs & Hpeek).
      rewrite Hpeek. unfold bind. rewrite (root_node _ _ _ _ _ _ I Hh Habs).
      apply abs_item_some in Habs. destruct Habs as (-> & _). reflexivity.
  Qed.

  Lemma peek_key_sim q ks a :
    Inv q ks a ->
    match ipq_peek_key q with Some k => IRKey (V:=V) k | None => IRNone end =
    match pq_peek a with Some (k, _) => IRKey k | None => IRNone end.
  Proof.
    intros I. unfold ipq_peek_key, pq_peek. destruct (heap q) as [|it rest] eqn:Hh.
    - unfold pq_peek_item. rewrite (items_nil_of_heap _ _ _ I Hh). reflexivity.
    - destruct (root_is_min _ _ _ _ _ I Hh) as (x & Habs & Hpeek).
      rewrite Hpeek. apply abs_item_some in Habs. destruct Habs as (-> & _). reflexivity.
  Qed.

  (* ---------------- extract ---------------- *)
  Lemma find_epoch_some (l : list (item V)) e x :
    find (fun y => N.eqb (iepoch y) e) l = Some x -> In x l /\ iepoch x = e.
  Proof. intros H. apply find_some in H. destruct H as [H1 H2]. apply N.eqb_eq in H2. auto. Qed.

  Lemma find_epoch_none (l : list (item V)) e :
    find (fun y => N.eqb (iepoch y) e) l = None -> forall y, In y l -> iepoch y <> e.
  Proof. intros H y Hy E. pose proof (find_none _ _ H y Hy) as H2. cbv beta in H2. apply N.eqb_neq in H2. auto. Qed.

  Lemma extract_sim q ks a n ik :
    Inv q ks a -> nth_error ks n = Some ik ->
    exists q', ipq_extract q ik = Some (fst (a_extract a n), q') /\ Inv q' ks (snd (a_extract a n)).
  Proof.
    intros I Hk. destruct (inv_keys _ _ _ I n ik Hk) as [Eke Hslab].
    destruct (inv_wf _ _ _ I) as [W1 W2].
    unfold a_extract. destruct (find _ (items a)) as [x|] eqn:Ef.
    - (* the entry is still queued *)
      apply find_epoch_some in Ef. destruct Ef as [Hxin Ex].
      pose proof (proj1 (inv_rel _ _ _ I x) Hxin) as (it & Hin & Habs).
      pose proof (abs_item_some _ _ _ Habs) as (Kx & Ee & Hs).
      assert (Hsl : hslab it = kslab ik) by (apply Hslab; [exact Hin|congruence]).
      destruct (In_nth_error _ _ Hin) as (h & Hit).
      destruct (W1 h it Hit) as (v & Hv).
      assert (v = ival x).
      { erewrite strip_heapnode in Hs by eauto. congruence. }
      subst v. cbn [fst snd].
      remember (ipq_extract q ik) as r eqn:Hr. unfold ipq_extract in Hr.
      rewrite <- Hsl, Hv in Hr. unfold bind at 1 in Hr. rewrite Hit in Hr.
      assert (Hee : N.eqb (hepoch it) (kepoch ik) = true) by (apply N.eqb_eq; congruence).
      rewrite Hee in Hr. cbn [negb] in Hr.
      rewrite (ra_upd (heap q) (slab q) h it (first_free q) (inv_wf _ _ _ I) Hit) in Hr. unfold bind at 1 in Hr.
      destruct (heap q) as [|h0 rest] eqn:Hh; [destruct Hin|]. rewrite <- Hh in *.
      assert (Hne : heap q <> []) by (rewrite Hh; discriminate).
      pose proof (last_nth_error (heap q) h0 Hne) as Hlast.
      pose proof (nth_error_some_lt _ _ _ Hit) as Hhlt.
      destruct (nth_error (removelast (heap q)) h) as [cur|] eqn:Ecur.
      + apply rl_nth in Ecur. destruct Ecur as [Hh1 Ecur]. rewrite Hit in Ecur. injection Ecur as <-.
        destruct (ukey_ltb (last (heap q) h0) it) eqn:El.
        * destruct (remove_sift_case (heap q) (slab q) h it (first_free q) (last (heap q) h0) false
                      (inv_wf _ _ _ I) (inv_ho _ _ _ I) Hit Hh1 Hlast El) as (hp' & sl' & Es & Hrm).
          rewrite Es in Hr. unfold bind in Hr. subst r. eexists. split; [rewrite Kx; reflexivity|].
          apply inv_after_remove; auto.
        * assert (Hle : h = 0 \/ ule it (last (heap q) h0)) by (right; apply ukey_ltb_false; exact El).
          destruct (remove_sift_case (heap q) (slab q) h it (first_free q) (last (heap q) h0) true
                      (inv_wf _ _ _ I) (inv_ho _ _ _ I) Hit Hh1 Hlast Hle) as (hp' & sl' & Es & Hrm).
          rewrite Es in Hr. unfold bind in Hr. subst r. eexists. split; [rewrite Kx; reflexivity|].
          apply inv_after_remove; auto.
      + rewrite nth_error_removelast in Ecur.
        assert (Hh1 : h = length (heap q) - 1).
        { destruct (Nat.ltb_spec h (length (heap q) - 1)); [congruence|lia]. }
        subst r. eexists. split; [rewrite Kx; reflexivity|].
        apply inv_after_remove; auto.
        apply (remove_last_case _ _ h); auto; [exact (inv_wf _ _ _ I)|exact (inv_ho _ _ _ I)].
    - (* no entry carries the key's epoch: nothing happens *)
      pose proof (find_epoch_none _ _ Ef) as Hnone. cbn [fst snd].
      exists q. split; [|exact I]. unfold ipq_extract.
      destruct (nth_error (slab q) (kslab ik)) as [[nx|v hidx]|] eqn:En; try reflexivity.
      destruct (W2 _ _ _ En) as (it & Hit & Hsl). unfold bind. rewrite Hit.
      destruct (N.eqb_spec (hepoch it) (kepoch ik)) as [E|E]; [|reflexivity].
      exfalso. assert (Hin : In it (heap q)) by (eapply nth_error_In; eauto).
      destruct (WF_abs _ _ _ (inv_wf _ _ _ I) Hin) as (x & Hx).
      assert (Hxin : In x (items a)) by (apply (inv_rel _ _ _ I); eauto).
      apply (Hnone x Hxin). apply abs_item_some in Hx. destruct Hx as (_ & Ee & _). congruence.
  Qed.

  Lemma extract_nokey_sim q ks a n :
    Inv q ks a -> nth_error ks n = None -> a_extract a n = (None, a).
  Proof.
    intros I Hk. unfold a_extract. destruct (find _ (items a)) as [x|] eqn:Ef; [|reflexivity].
    exfalso. apply find_epoch_some in Ef. destruct Ef as [Hxin Ex].
    apply (inv_bound _ _ _ I) in Hxin. apply nth_error_None in Hk.
    pose proof (inv_nkeys _ _ _ I). pose proof (inv_next _ _ _ I). lia.
  Qed.

  (* ---------------- insert ---------------- *)
  Lemma nth_error_snoc {A} (l : list A) x i :
    nth_error (l ++ [x]) i = if Nat.ltb i (length l) then nth_error l i else if Nat.eqb i (length l) then Some x else None.
  Proof.
    destruct (Nat.ltb_spec i (length l)) as [H|H]; [apply nth_error_app1; exact H|].
    rewrite nth_error_app2 by exact H. destruct (Nat.eqb_spec i (length l)) as [->|Hne].
    - rewrite Nat.sub_diag. reflexivity.
    - destruct (i - length l) as [|m] eqn:E; [lia|]. cbn. destruct m; reflexivity.
  Qed.

  Lemma insert_finish q ks a k v (sl : list node) ff idx :
    Inv q ks a ->
    nth_error sl idx = Some (HeapNode v 0) ->
    (forall j, j <> idx -> nth_error sl j = nth_error (slab q) j) ->
    (forall v' h, nth_error (slab q) idx <> Some (HeapNode v' h)) ->
    FL (map strip sl) ff ->
    exists hp' sl',
      sift_up (S (length (heap q) + 1)) (heap q ++ [{| hkey := k; hepoch := inext q; hslab := 0 |}]) sl
              {| hkey := k; hepoch := inext q; hslab := idx |} (length (heap q)) = Some (hp', sl') /\
      Inv {| heap := hp'; slab := sl'; first_free := ff; inext := (inext q + 1)%N |}
          (ks ++ [{| kslab := idx; kepoch := inext q |}]) (pq_insert a k v).
  Proof.
    intros I Hnew Hsame Hold Hfl.
    set (it := {| hkey := k; hepoch := inext q; hslab := idx |}).
    set (it0 := {| hkey := k; hepoch := inext q; hslab := 0 |}).
    set (n := length (heap q)).
    destruct (inv_wf _ _ _ I) as [W1 W2].
    assert (Hheap_idx : forall i x, nth_error (heap q) i = Some x -> hslab x <> idx).
    { intros i x Hx E. destruct (W1 i x Hx) as (v' & Hv'). rewrite E in Hv'. eapply Hold; eauto. }
    assert (Hhole : hole V sl (n + 1) (heap q ++ [it]) it (heap q ++ [it0]) sl n).
    { constructor.
      - rewrite app_length. cbn. reflexivity.
      - lia.
      - reflexivity.
      - intros i x Hne Hx. rewrite nth_error_snoc in Hx. fold n in Hx.
        destruct (Nat.ltb_spec i n); [|destruct (Nat.eqb_spec i n); [lia|discriminate]].
        destruct (W1 i x Hx) as (v' & Hv'). exists v'. rewrite Hsame; [exact Hv'|eapply Hheap_idx; eauto].
      - exists v, 0. exact Hnew.
      - intros i x Hne Hx. rewrite nth_error_snoc in Hx. fold n in Hx.
        destruct (Nat.ltb_spec i n); [|destruct (Nat.eqb_spec i n); [lia|discriminate]].
        cbn [hslab it]. eapply Hheap_idx; eauto.
      - intros j v' h Hj. destruct (Nat.eq_dec j idx) as [->|Hne]; [left; reflexivity|right].
        rewrite Hsame in Hj by exact Hne. destruct (W2 j v' h Hj) as (x & Hx & E).
        pose proof (nth_error_some_lt _ _ _ Hx). fold n in H. split; [lia|].
        exists x. split; [|exact E]. rewrite nth_error_snoc. fold n.
        destruct (Nat.ltb_spec h n); [exact Hx|lia].
      - intros x. rewrite in_app_iff. cbn [In]. split.
        + intros [Hx|[<-|[]]]; [right|left; reflexivity].
          apply In_nth_error in Hx. destruct Hx as (i & Hi). exists i.
          pose proof (nth_error_some_lt _ _ _ Hi). fold n in H. split; [lia|].
          rewrite nth_error_snoc. fold n. destruct (Nat.ltb_spec i n); [exact Hi|lia].
        + intros [->|(i & Hne & Hi)]; [right; left; reflexivity|left].
          rewrite nth_error_snoc in Hi. fold n in Hi.
          destruct (Nat.ltb_spec i n); [|destruct (Nat.eqb_spec i n); [lia|discriminate]].
          eapply nth_error_In; eauto. }
    assert (Hsu : SU it (heap q ++ [it0]) n).
    { assert (Hin : forall i x, nth_error (heap q ++ [it0]) i = Some x -> i <> n -> nth_error (heap q) i = Some x).
      { intros i x Hx Hne. rewrite nth_error_snoc in Hx. fold n in Hx.
        destruct (Nat.ltb_spec i n); [exact Hx|destruct (Nat.eqb_spec i n); [lia|discriminate]]. }
      assert (Hnochild : forall i x, 0 < i -> parent i = n -> nth_error (heap q ++ [it0]) i = Some x -> False).
      { intros i x Hi Hp Hx. apply nth_error_some_lt in Hx. rewrite app_length in Hx. cbn in Hx. fold n in Hx.
        apply parent_child in Hp; [lia|exact Hi]. }
      constructor.
      - intros i x p Hi Hne Hx Hp. apply Hin in Hx; [|exact Hne].
        pose proof (parent_lt i Hi). pose proof (nth_error_some_lt _ _ _ Hx). fold n in H0.
        apply Hin in Hp; [|lia]. eapply (inv_ho _ _ _ I); eauto.
      - intros i x Hi Hp Hx. exfalso. eapply Hnochild; eauto.
      - intros i x p Hi Hp _ Hx _. exfalso. eapply Hnochild; eauto. }
    destruct (sift_up_correct V sl (n + 1) (heap q ++ [it]) it (S (n + 1)) _ _ _ Hhole Hsu) as (hp' & sl' & Es & (Dl & Ds & Dw & Di) & Hho'); [lia|].
    exists hp', sl'. split; [exact Es|].
    assert (Habs_old : forall it', In it' (heap q) ->
              abs_item (map strip sl') it' = abs_item (map strip (slab q)) it').
    { intros it' Hin'. unfold abs_item. rewrite Ds, !nth_error_map.
      apply In_nth_error in Hin'. destruct Hin' as (i & Hi). rewrite Hsame; [reflexivity|eapply Hheap_idx; eauto]. }
    assert (Habs_new : abs_item (map strip sl') it = Some {| PQ.ikey := k; iepoch := next_epoch a; ival := v |}).
    { unfold abs_item. rewrite Ds. cbn [hslab it]. erewrite strip_heapnode by eauto.
      cbn [hkey hepoch it]. rewrite (inv_next _ _ _ I). reflexivity. }
    assert (HR : R V (pq_insert a k v) (map (proj V) (items a) ++ [(k, v)])).
    { apply R_insert. constructor; [reflexivity|exact (inv_sorted _ _ _ I)|exact (inv_bound _ _ _ I)]. }
    constructor; cbn [heap slab first_free inext].
    - exact Dw.
    - exact Hho'.
    - rewrite Ds. exact Hfl.
    - cbn [pq_insert next_epoch]. rewrite (inv_next _ _ _ I). reflexivity.
    - cbn [pq_insert items]. rewrite app_length, Dl, (inv_len _ _ _ I). reflexivity.
    - intros x. cbn [pq_insert items]. rewrite in_app_iff. cbn [In]. split.
      + intros [Hx|[<-|[]]].
        * apply (inv_rel _ _ _ I) in Hx. destruct Hx as (it' & Hin' & Habs').
          exists it'. split; [apply Di; apply in_app_iff; left; exact Hin'|]. rewrite Habs_old; assumption.
        * exists it. split; [apply Di; apply in_app_iff; right; left; reflexivity|exact Habs_new].
      + intros (it' & Hin' & Habs'). apply Di in Hin'. apply in_app_iff in Hin'. destruct Hin' as [Hin'|[<-|[]]].
        * left. apply (inv_rel _ _ _ I). exists it'. split; [exact Hin'|]. rewrite <- Habs_old; assumption.
        * right. left. rewrite Habs_new in Habs'. congruence.
    - intros u w Hu Hw E. apply Di in Hu. apply Di in Hw. apply in_app_iff in Hu. apply in_app_iff in Hw.
      destruct Hu as [Hu|[<-|[]]], Hw as [Hw|[<-|[]]].
      + apply (inv_uniq _ _ _ I); assumption.
      + pose proof (Inv_heap_bound _ _ _ _ I Hu). cbn [hepoch it] in E. lia.
      + pose proof (Inv_heap_bound _ _ _ _ I Hw). cbn [hepoch it] in E. lia.
      + reflexivity.
    - exact (R_sorted _ _ _ HR).
    - exact (R_bound _ _ _ HR).
    - intros m ik Hm. rewrite nth_error_snoc in Hm.
      destruct (Nat.ltb_spec m (length ks)) as [Hlt|Hge].
      + destruct (inv_keys _ _ _ I m ik Hm) as [E Hk]. split; [exact E|].
        intros it' Hin' He. apply Di in Hin'. apply in_app_iff in Hin'. destruct Hin' as [Hin'|[<-|[]]].
        * apply Hk; assumption.
        * cbn [hepoch it] in He. pose proof (inv_nkeys _ _ _ I). lia.
      + destruct (Nat.eqb_spec m (length ks)) as [->|_]; [|discriminate]. injection Hm as <-.
        cbn [kepoch kslab]. split; [symmetry; exact (inv_nkeys _ _ _ I)|].
        intros it' Hin' He. apply Di in Hin'. apply in_app_iff in Hin'. destruct Hin' as [Hin'|[<-|[]]].
        * pose proof (Inv_heap_bound _ _ _ _ I Hin'). pose proof (inv_nkeys _ _ _ I). lia.
        * reflexivity.
    - rewrite app_length. cbn [length]. pose proof (inv_nkeys _ _ _ I). lia.
  Qed.

  Lemma insert_sim q ks a k v :
    Inv q ks a ->
    exists q' ik, ipq_insert q k v = Some (q', ik) /\ Inv q' (ks ++ [ik]) (pq_insert a k v).
  Proof.
    intros I. remember (ipq_insert q k v) as r eqn:Hr. unfold ipq_insert in Hr.
    destruct (inv_fl _ _ _ I) as (l & Hch & Hnd).
    destruct (first_free q) as [idx|] eqn:Eff.
    - destruct l as [|i l']; [discriminate Hch|]. destruct Hch as (Ei & nx & Hnx & Hch'). injection Ei as <-.
      pose proof (strip_inl _ _ _ Hnx) as Hnode.
      unfold bind at 2 in Hr. rewrite Hnode in Hr.
      rewrite (upd_some (slab q) idx (HeapNode v 0)) in Hr by (eapply nth_error_some_lt; eauto).
      unfold bind at 2 in Hr. unfold bind at 1 in Hr.
      assert (Hb : Nat.ltb idx (length (slab q)) = true) by (apply Nat.ltb_lt; eapply nth_error_some_lt; eauto).
      destruct (insert_finish q ks a k v (lupd (slab q) idx (HeapNode v 0)) nx idx I) as (hp' & sl' & Es & I').
      + rewrite nth_error_lupd, Nat.eqb_refl, Hb. reflexivity.
      + intros j Hne. rewrite nth_error_lupd. destruct (Nat.eqb_spec j idx); [congruence|reflexivity].
      + intros v' h. rewrite Hnode. discriminate.
      + exists l'. inversion Hnd; subst. split; [|assumption].
        rewrite map_lupd. apply chain_lupd; assumption.
      + rewrite Es in Hr. unfold bind in Hr. subst r. eauto.
    - destruct l as [|i l']; [|destruct Hch as (Ei & _); discriminate Ei].
      unfold bind at 1 in Hr.
      destruct (insert_finish q ks a k v (slab q ++ [HeapNode v 0]) None (length (slab q)) I) as (hp' & sl' & Es & I').
      + rewrite nth_error_snoc. destruct (Nat.ltb_spec (length (slab q)) (length (slab q))); [lia|]. rewrite Nat.eqb_refl. reflexivity.
      + intros j Hne. rewrite nth_error_snoc. destruct (Nat.ltb_spec j (length (slab q))) as [H|H]; [reflexivity|].
        destruct (Nat.eqb_spec j (length (slab q))); [congruence|]. symmetry. apply nth_error_None. exact H.
      + intros v' h Hc. apply nth_error_some_lt in Hc. lia.
      + exists []. split; [reflexivity|constructor].
      + rewrite Es in Hr. unfold bind in Hr. subst r. eauto.
  Qed.

  Lemma Inv_empty : Inv ipq_empty [] pq_empty.
  Proof.
    constructor; cbn.
    - split; intros [|i] ? ; discriminate.
    - intros [|i] x p _ Hx; discriminate.
    - exists []. split; [reflexivity|constructor].
    - reflexivity.
    - reflexivity.
    - intros x. split; [intros []|intros (it & [] & _)].
    - intros u w [].
    - intros [|i] j u w _ Hu; discriminate.
    - intros x [].
    - intros [|n] ik; discriminate.
    - reflexivity.
  Qed.

  (* one operation: the implementation model does not fail and answers like the specification *)
  Lemma step_sim q ks a o :
    Inv q ks a ->
    exists q' ks', ipq_step (q, ks) o = Some ((q', ks'), snd (a_step a o)) /\ Inv q' ks' (fst (a_step a o)).
  Proof.
    intros I. destruct o as [k v| | | |n|]; cbn [ipq_step a_step].
    - destruct (insert_sim q ks a k v I) as (q' & ik & E & I'). rewrite E. unfold bind. cbn [fst snd]. eauto.
    - destruct (pull_sim q ks a I) as (q' & E & I'). rewrite E. unfold bind.
      destruct (pq_pull a) as [r a']. cbn [fst snd] in *. eauto.
    - rewrite (peek_sim q ks a I). unfold bind. cbn [fst snd]. eauto.
    - rewrite (peek_key_sim q ks a I). cbn [fst snd]. eauto.
    - destruct (nth_error ks n) as [ik|] eqn:Ek.
      + destruct (extract_sim q ks a n ik I Ek) as (q' & E & I'). rewrite E. unfold bind.
        destruct (a_extract a n) as [r a']. cbn [fst snd] in *. eauto.
      + rewrite (extract_nokey_sim q ks a n I Ek). cbn [fst snd ires_of]. eauto.
    - cbn [fst snd]. unfold pq_len. rewrite (inv_len _ _ _ I). eauto.
  Qed.

  Theorem ipq_refines_gen ops : forall q ks a, Inv q ks a -> ipq_run (q, ks) ops = a_run a ops.
  Proof.
    induction ops as [|o ops IH]; intros q ks a I; [reflexivity|].
    cbn [ipq_run a_run]. destruct (step_sim q ks a o I) as (q' & ks' & E & I').
    rewrite E. destruct (a_step a o) as [a' x]. cbn [fst snd] in *. f_equal. apply IH. exact I'.
  Qed.

  Theorem ipq_refines ops : ipq_run (ipq_empty, []) ops = a_run (V:=V) pq_empty ops.
  Proof. apply ipq_refines_gen. exact Inv_empty. Qed.
End Refine.
