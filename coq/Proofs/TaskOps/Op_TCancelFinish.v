Require Import NX.Base.Prelude NX.Model.TaskSM NX.Model.TaskInv NX.Proofs.TaskTac.
Require Import ZifyBool.
Lemma step_TCancelFinish s s' : inv_b s = true -> ts_step s TCancelFinish = Some s' -> inv_b s' = true.
Proof.
  intros HI HS. case_state s; unfold inv_b in HI; cbn in HI; try discriminate HI;
    unfold ts_step in HS; cbn in HS; try discriminate HS; unfold inv_b; fin.
Qed.
