(* ConfQuiet.v — on a valid plain bench, a run of the net model that ends quiescent, without failure and
   with every mailbox empty (that is: the call returns Ok) has an EMPTY POOL: no handler is left half-way -
   not in the middle of a send, not waiting for a reply, not before a later op of its script - and no init
   is pending.  This discharges the hypothesis `pool_of b s' = []` of the schedule-independence theorems.

   The argument for queries: every reply slot still awaited has a CARRIER - the request is in a sender's
   hands, in a mailbox, or being served by a frame of a model with a larger index (queries go forward:
   bv_req); at quiescence with empty mailboxes the first two are impossible, so a waiting frame is served
   by a frame of a larger model, which cannot wait for ever: induction on the distance to the last model. *)
Require Import NX.Base.Prelude NX.Base.ListX NX.Model.PQ NX.Model.Sim NX.Model.Conf.
Require Import NX.Proofs.SimBasic NX.Proofs.NetProofs NX.Proofs.ConfProofs NX.Proofs.ConfNet.

Record bench_valid (b : bench) : Prop := {
  bv_plain : bench_plain b = true;
  bv_cap : forall m sp, nth_error (bmodels b) m = Some sp -> 1 <= mcap sp;
  bv_out : forall m sp port c m' i, nth_error (bmodels b) m = Some sp ->
           In c (nth port (mouts sp) []) -> ctgt c = TgtModel m' i -> m' < length (bmodels b);
  bv_src : forall src c m' i, In c (nth src (bsources b) []) -> ctgt c = TgtModel m' i -> m' < length (bmodels b);
  bv_req : forall m sp port q, nth_error (bmodels b) m = Some sp ->
           In q (nth port (mreqs sp) []) -> m < qmodel q /\ qmodel q < length (bmodels b)
}.

(* carriers of awaited replies: (requester task, slot, model that holds / will serve the request) *)
Definition creq (m : nat) (g : msg) : list (nat * nat * nat) :=
  match mkd g with KRequest (Some rt) j _ _ => [(rt, j, m)] | _ => [] end.
Definition cdel (d : delivery) : list (nat * nat * nat) :=
  match dtgt d with DModel m g => creq m g | DSink _ _ => [] end.
Definition cserve (x : task) (f : frame) : list (nat * nat * nat) :=
  match freply f, tk x with Some (Some rt, j, _), TKModel m => [(rt, j, m)] | _, _ => [] end.
Definition cfr (x : task) : list (nat * nat * nat) :=
  match tfr x with None => [] | Some f => flat_map cdel (fpend f) ++ cserve x f end.
Fixpoint cbox (m0 : nat) (bs : list (list msg)) : list (nat * nat * nat) :=
  match bs with [] => [] | q :: r => flat_map (creq m0) q ++ cbox (S m0) r end.
Definition carriers (s : state) : list (nat * nat * nat) := cbox 0 (boxes s) ++ flat_map cfr (tasks s).

(* what must hold of the task at index t *)
Definition TaskOK (b : bench) (t : nat) (x : task) : Prop :=
  match tk x with
  | TKModel m =>
      m = t /\ m < length (bmodels b) /\ tdone x = false /\
      forall f, tfr x = Some f -> forallb op_plain (frest f) = true
  | TKAction =>
      tinit x = false /\
      forall f, tfr x = Some f ->
        fwait f = [] /\ forallb is_action_op (frest f) = true /\
        forallb (op_target_ok (length (bmodels b))) (frest f) = true
  end /\
  forall f d m g, tfr x = Some f -> In d (fpend f) -> dtgt d = DModel m g -> m < length (bmodels b).

Definition Obl (s : state) : Prop :=
  forall rt x f j, nth_error (tasks s) rt = Some x -> tfr x = Some f ->
    nth_error (fwait f) j = Some None -> exists m, In (rt, j, m) (carriers s) /\ rt < m.

Record QInv (b : bench) (s : state) : Prop := {
  q_len : length (boxes s) = length (bmodels b);
  q_task : forall t x, nth_error (tasks s) t = Some x -> TaskOK b t x;
  q_obl : Obl s
}.

Lemma q_model b s (Q : QInv b s) t x m : nth_error (tasks s) t = Some x -> tk x = TKModel m ->
  m = t /\ m < length (bmodels b) /\ tdone x = false.
Proof. intros H K. destruct (q_task b s Q t x H) as [A _]. rewrite K in A. tauto. Qed.

Lemma q_action b s (Q : QInv b s) t x : nth_error (tasks s) t = Some x -> tk x = TKAction ->
  tinit x = false /\
  forall f, tfr x = Some f ->
    fwait f = [] /\ forallb is_action_op (frest f) = true /\
    forallb (op_target_ok (length (bmodels b))) (frest f) = true.
Proof. intros H K. destruct (q_task b s Q t x H) as [A _]. rewrite K in A. exact A. Qed.

Lemma q_pend b s (Q : QInv b s) t x f d m g : nth_error (tasks s) t = Some x -> tfr x = Some f -> In d (fpend f) ->
  dtgt d = DModel m g -> m < length (bmodels b).
Proof. intros H F D G. destruct (q_task b s Q t x H) as [_ A]. exact (A f d m g F D G). Qed.

(* ---- quiescence ---- *)

Lemma enabled_none b s t :
  net_enabled b s = [] -> t < length (tasks s) ->
  net_step b s (LStart t) = None /\ net_step b s (LOp t) = None.
Proof.
  intros H L. unfold net_enabled in H.
  assert (E : enabled_of_task b s t = []).
  { destruct (enabled_of_task b s t) as [|l r] eqn:E; [reflexivity|]. exfalso.
    assert (I : In l (flat_map (enabled_of_task b s) (seqn 0 (length (tasks s))))).
    { apply in_flat_map. exists t. split; [apply In_seqn; lia|]. rewrite E. left. reflexivity. }
    rewrite H in I. destruct I. }
  unfold enabled_of_task in E. apply app_eq_nil in E. destruct E as [E1 E2].
  apply app_eq_nil in E2. destruct E2 as [E2 _]. split.
  - destruct (net_step b s (LStart t)); [discriminate E1 | reflexivity].
  - destruct (net_step b s (LOp t)); [discriminate E2 | reflexivity].
Qed.

Lemma opt_all_false {A} (l : list (option A)) : opt_all l = false -> exists j, nth_error l j = Some None.
Proof.
  unfold opt_all. induction l as [|o r IH]; cbn; [discriminate|].
  destruct o; cbn.
  - intros H. destruct (IH H) as [j Hj]. exists (S j). exact Hj.
  - intros _. exists 0. reflexivity.
Qed.

Lemma cbox_empty bs : (forall m q, nth_error bs m = Some q -> q = []) -> forall m0, cbox m0 bs = [].
Proof.
  induction bs as [|q r IH]; intros H m0; [reflexivity|]. cbn [cbox].
  rewrite (H 0 q eq_refl). cbn. apply IH. intros m q' E. exact (H (S m) q' E).
Qed.

Lemma box_msgs_empty bs : (forall m q, nth_error bs m = Some q -> q = []) -> forall m0, box_msgs m0 bs = [].
Proof.
  induction bs as [|q r IH]; intros H m0; [reflexivity|]. cbn [box_msgs].
  rewrite (H 0 q eq_refl). cbn. apply IH. intros m q' E. exact (H (S m) q' E).
Qed.

Lemma flat_map_nil {A B} (F : A -> list B) l : (forall x, In x l -> F x = []) -> flat_map F l = [].
Proof.
  induction l as [|x r IH]; intros H; [reflexivity|]. cbn. rewrite (H x (or_introl eq_refl)).
  apply IH. intros y Hy. apply H. right. exact Hy.
Qed.

Section Quiet.
  Variable b : bench.
  Variable s : state.
  Hypothesis BV : bench_valid b.
  Hypothesis NI : NInv s.
  Hypothesis QI : QInv b s.
  Hypothesis HQ : net_enabled b s = [].
  Hypothesis HE : err s = None.
  Hypothesis HB : forall m q, nth_error (boxes s) m = Some q -> q = [].

  Lemma q_fpend_nil t x f : nth_error (tasks s) t = Some x -> tfr x = Some f -> fpend f = [].
  Proof.
    intros Ht Hf. eapply (quiescent_no_pending_delivery b s HQ HE HB (bv_cap b BV) (q_len b s QI) t x f Ht Hf).
    intros d m g Hd Hg. exact (q_pend b s QI t x f d m g Ht Hf Hd Hg).
  Qed.

  Lemma t_lt t x : nth_error (tasks s) t = Some x -> t < length (tasks s).
  Proof. intros H. apply nth_error_Some. congruence. Qed.

  (* a frame that waits for nothing can make a step *)
  Lemma frame_not_waiting_steps t x f :
    nth_error (tasks s) t = Some x -> tfr x = Some f -> opt_all (fwait f) = true -> False.
  Proof.
    intros Ht Hf Hw.
    destruct (enabled_none b s t HQ (t_lt t x Ht)) as [_ N].
    unfold net_step in N. rewrite HE in N. unfold step_op in N. rewrite Ht, Hf in N.
    rewrite (q_fpend_nil t x f Ht Hf) in N.
    destruct (fwait f) as [|w ws] eqn:FW.
    2:{ rewrite Hw in N. destruct (task_model x); discriminate N. }
    destruct (frest f) as [|o rest] eqn:FR; [discriminate N|].
    destruct NI as [N1 _]. pose proof (N1 t x f Ht Hf) as OK. rewrite FR in OK. cbn [forallb] in OK.
    apply andb_prop in OK. destruct OK as [OKo _].
    destruct (tk x) as [m|] eqn:TK.
    - destruct (q_model b s QI t x m Ht TK) as (-> & Lm & _).
      assert (TM : task_model x = Some t) by (unfold task_model; rewrite TK; reflexivity).
      rewrite TM in N.
      destruct (nth_error (bmodels b) t) as [sp|] eqn:ES; [|apply nth_error_None in ES; lia].
      destruct o; try discriminate OKo; try discriminate N.
      destruct (sched_request _ _ _ _ _ _ _) as [[s1 code] k]. discriminate N.
    - destruct (q_action b s QI t x Ht TK) as (_ & A). destruct (A f Hf) as (_ & AO & _).
      rewrite FR in AO. cbn [forallb] in AO. apply andb_prop in AO. destruct AO as [AO _].
      assert (TM : task_model x = None) by (unfold task_model; rewrite TK; reflexivity).
      rewrite TM in N. destruct o; try discriminate AO; discriminate N.
  Qed.

  Lemma no_model_frame : forall k t x f,
    nth_error (tasks s) t = Some x -> tfr x = Some f -> length (bmodels b) - t <= k -> False.
  Proof.
    induction k as [|k IH]; intros t x f Ht Hf Hk.
    - (* t is at or beyond the last model: only action tasks, or the last model, which cannot wait *)
      destruct (opt_all (fwait f)) eqn:Hw; [exact (frame_not_waiting_steps t x f Ht Hf Hw)|].
      destruct (opt_all_false _ Hw) as [j Hj].
      destruct (q_obl b s QI t x f j Ht Hf Hj) as [m [Hin Hlt]].
      unfold carriers in Hin. rewrite (cbox_empty _ HB 0) in Hin. cbn [app] in Hin.
      apply in_flat_map in Hin. destruct Hin as [x' [Hx' Hin]].
      apply In_nth_error in Hx'. destruct Hx' as [t' Ht'].
      unfold cfr in Hin. destruct (tfr x') as [f'|] eqn:Hf'; [|destruct Hin].
      rewrite (q_fpend_nil t' x' f' Ht' Hf') in Hin. cbn [flat_map app] in Hin.
      unfold cserve in Hin. destruct (freply f') as [[[[rt'|] j'] v']|]; try destruct Hin.
      destruct (tk x') as [m'|] eqn:TK'; [|destruct Hin].
      destruct Hin as [Hin|[]]. injection Hin as <- <- <-.
      destruct (q_model b s QI t' x' m' Ht' TK') as (_ & Lm & _). lia.
    - destruct (opt_all (fwait f)) eqn:Hw; [exact (frame_not_waiting_steps t x f Ht Hf Hw)|].
      destruct (opt_all_false _ Hw) as [j Hj].
      destruct (q_obl b s QI t x f j Ht Hf Hj) as [m [Hin Hlt]].
      unfold carriers in Hin. rewrite (cbox_empty _ HB 0) in Hin. cbn [app] in Hin.
      apply in_flat_map in Hin. destruct Hin as [x' [Hx' Hin]].
      apply In_nth_error in Hx'. destruct Hx' as [t' Ht'].
      unfold cfr in Hin. destruct (tfr x') as [f'|] eqn:Hf'; [|destruct Hin].
      rewrite (q_fpend_nil t' x' f' Ht' Hf') in Hin. cbn [flat_map app] in Hin.
      unfold cserve in Hin. destruct (freply f') as [[[[rt'|] j'] v']|]; try destruct Hin.
      destruct (tk x') as [m'|] eqn:TK'; [|destruct Hin].
      destruct Hin as [Hin|[]]. injection Hin as <- <- <-.
      destruct (q_model b s QI t' x' m' Ht' TK') as (-> & Lm & _).
      apply (IH t' x' f' Ht' Hf'). lia.
  Qed.

  Lemma no_frame t x : nth_error (tasks s) t = Some x -> tfr x = None.
  Proof.
    intros Ht. destruct (tfr x) as [f|] eqn:Hf; [|reflexivity]. exfalso.
    exact (no_model_frame (length (bmodels b)) t x f Ht Hf ltac:(lia)).
  Qed.

  Lemma no_pending_init t x : nth_error (tasks s) t = Some x -> tinit x = false.
  Proof.
    intros Ht. destruct (tinit x) eqn:TI; [|reflexivity]. exfalso.
    destruct (tk x) as [m|] eqn:TK.
    - destruct (q_model b s QI t x m Ht TK) as (-> & Lm & TD).
      destruct (enabled_none b s t HQ (t_lt t x Ht)) as [N _].
      unfold net_step in N. rewrite HE in N. unfold step_start in N.
      rewrite Ht, TK, (no_frame t x Ht), TD in N.
      destruct (nth_error (bmodels b) t) as [sp|] eqn:ES; [|apply nth_error_None in ES; lia].
      rewrite TI in N. discriminate N.
    - destruct (q_action b s QI t x Ht TK) as (F & _). congruence.
  Qed.

  Theorem quiescent_pool_empty : pool_of b s = [].
  Proof.
    unfold pool_of. rewrite (box_msgs_empty _ HB 0). cbn [app].
    apply flat_map_nil. intros x Hx. apply In_nth_error in Hx. destruct Hx as [t Ht].
    unfold task_msgs. rewrite (no_pending_init t x Ht), (no_frame t x Ht). reflexivity.
  Qed.
End Quiet.

(* ------------------------------------------------------------------ *)
(* The invariant is kept by every step of the net model                 *)

From AAC_tactics Require Import AAC Instances.
Import Instances.Lists.

Lemma in_flat_lupd {A B} (F : A -> list B) l t x x' z :
  nth_error l t = Some x -> In z (flat_map F l) -> In z (F x) \/ In z (flat_map F (lupd l t x')).
Proof.
  intros E H. destruct (flat_map_lupd F l t x E) as [rest [H1 H2]].
  apply (Permutation_in _ H1) in H. apply in_app_or in H. destruct H as [H|H]; [left; exact H|].
  right. apply (Permutation_in _ (Permutation_sym (H2 x'))). apply in_or_app. right. exact H.
Qed.

Lemma in_flat_lupd_new {A B} (F : A -> list B) l t x x' z :
  nth_error l t = Some x -> In z (F x') -> In z (flat_map F (lupd l t x')).
Proof.
  intros E H. destruct (flat_map_lupd F l t x E) as [rest [_ H2]].
  apply (Permutation_in _ (Permutation_sym (H2 x'))). apply in_or_app. left. exact H.
Qed.

Lemma cbox_lupd bs : forall m0 m q, nth_error bs m = Some q ->
  exists rest, Permutation (cbox m0 bs) (flat_map (creq (m0 + m)) q ++ rest) /\
               forall q', Permutation (cbox m0 (lupd bs m q')) (flat_map (creq (m0 + m)) q' ++ rest).
Proof.
  induction bs as [|y r IH]; intros m0 [|m] q H; cbn in H; try discriminate.
  - injection H as ->. exists (cbox (S m0) r). rewrite Nat.add_0_r.
    split; [reflexivity | intros q'; reflexivity].
  - destruct (IH (S m0) _ _ H) as [rest [H1 H2]].
    replace (S m0 + m) with (m0 + S m) in * by lia.
    exists (flat_map (creq m0) y ++ rest). split.
    + cbn [cbox]. rewrite H1. aac_reflexivity.
    + intros q'. cbn [lupd cbox]. rewrite (H2 q'). aac_reflexivity.
Qed.

Lemma in_cbox_lupd bs m q q' z :
  nth_error bs m = Some q -> In z (cbox 0 bs) -> In z (flat_map (creq m) q) \/ In z (cbox 0 (lupd bs m q')).
Proof.
  intros E H. destruct (cbox_lupd bs 0 m q E) as [rest [H1 H2]]. cbn [Nat.add] in *.
  apply (Permutation_in _ H1) in H. apply in_app_or in H. destruct H as [H|H]; [left; exact H|].
  right. apply (Permutation_in _ (Permutation_sym (H2 q'))). apply in_or_app. right. exact H.
Qed.

Lemma in_cbox_lupd_new bs m q q' z :
  nth_error bs m = Some q -> In z (flat_map (creq m) q') -> In z (cbox 0 (lupd bs m q')).
Proof.
  intros E H. destruct (cbox_lupd bs 0 m q E) as [rest [_ H2]]. cbn [Nat.add] in *.
  apply (Permutation_in _ (Permutation_sym (H2 q'))). apply in_or_app. left. exact H.
Qed.

Lemma lupd_some_none {A} (l : list (option A)) sl v j :
  nth_error (lupd l sl (Some v)) j = Some None -> nth_error l j = Some None /\ j <> sl.
Proof.
  revert sl j. induction l as [|o r IH]; intros [|sl] [|j] H; cbn in *; try discriminate.
  - split; [exact H | lia].
  - split; [exact H | lia].
  - destruct (IH _ _ H) as [X Y]. split; [exact X | lia].
Qed.

Lemma in_ldel_split {A} (l : list A) i d d0 :
  nth_error l i = Some d -> In d0 l -> d0 = d \/ In d0 (ldel l i).
Proof.
  revert i. induction l as [|y r IH]; intros [|i] E H; cbn in *; try discriminate.
  - injection E as ->. destruct H as [H|H]; [left; symmetry; exact H | right; exact H].
  - destruct H as [H|H]; [right; left; exact H|]. destruct (IH _ E H) as [X|X]; [left; exact X | right; right; exact X].
Qed.

Lemma in_ldel {A} (l : list A) i d0 : In d0 (ldel l i) -> In d0 l.
Proof.
  revert i. induction l as [|y r IH]; intros [|i] H; cbn in *; try tauto.
  destruct H as [H|H]; [left; exact H | right; exact (IH _ H)].
Qed.

Lemma conn_deliveries_in cs v d :
  In d (conn_deliveries cs v) ->
  cdel d = [] /\ forall m g, dtgt d = DModel m g -> exists c i, In c cs /\ ctgt c = TgtModel m i.
Proof.
  unfold conn_deliveries. intros H. apply in_flat_map in H. destruct H as [c [Hc H]].
  destruct (keep_ok (ckeep c) v); [|destruct H].
  destruct (ctgt c) as [m i|sk] eqn:E; destruct H as [<-|[]]; (split; [reflexivity|]); cbn; intros m0 g0 X.
  - injection X as <- <-. exists c, i. split; assumption.
  - discriminate X.
Qed.

Lemma query_deliveries_nth qs t v : forall slot j d,
  nth_error (query_deliveries t slot qs v) j = Some d ->
  exists q g, In q qs /\ dtgt d = DModel (qmodel q) g /\ mkd g = KRequest (Some t) (slot + j) (qrep q) (qradd q).
Proof.
  induction qs as [|q r IH]; intros slot j d H; cbn [query_deliveries] in H; [destruct j; discriminate|].
  destruct (keep_ok (qkeep q) v).
  - destruct j as [|j]; cbn in H.
    + injection H as <-. eexists q, _. split; [left; reflexivity|]. cbn. rewrite Nat.add_0_r. split; reflexivity.
    + destruct (IH _ _ _ H) as (q0 & g & I & D & K). exists q0, g. split; [right; exact I|]. split; [exact D|].
      rewrite K. f_equal. lia.
  - destruct (IH _ _ _ H) as (q0 & g & I & D & K). exists q0, g. split; [right; exact I|]. split; assumption.
Qed.

Lemma plain_scripts b m sp : bench_plain b = true -> nth_error (bmodels b) m = Some sp ->
  forallb op_plain (minit sp) = true /\
  (forall i, forallb op_plain (nth i (mhandlers sp) []) = true) /\
  (forall r, forallb op_plain (fst (nth r (mrepliers sp) ([], 0%Z))) = true).
Proof.
  unfold bench_plain. intros H E. rewrite forallb_forall in H.
  specialize (H sp (nth_error_In _ _ E)). unfold model_plain in H.
  apply andb_prop in H. destruct H as [H H4]. apply andb_prop in H. destruct H as [H H3].
  apply andb_prop in H. destruct H as [_ H2].
  split; [exact H2|]. split.
  - intros i. exact (forallb_nth (forallb op_plain) (mhandlers sp) [] i H3 eq_refl).
  - intros r. exact (forallb_nth (fun r => forallb op_plain (fst r)) (mrepliers sp) ([], 0%Z) r H4 eq_refl).
Qed.

(* the per-task part: one task replaced *)
Lemma tasks_ok_upd b s s' t x' :
  (forall t0 x0, nth_error (tasks s) t0 = Some x0 -> TaskOK b t0 x0) ->
  tasks s' = lupd (tasks s) t x' -> TaskOK b t x' ->
  forall t0 x0, nth_error (tasks s') t0 = Some x0 -> TaskOK b t0 x0.
Proof.
  intros H ET OK t0 x0 E0. rewrite ET in E0. destruct (Nat.eq_dec t t0) as [<-|N].
  - assert (L : t < length (tasks s)).
    { rewrite <- (lupd_length (tasks s) t x'). apply nth_error_Some. rewrite E0. discriminate. }
    rewrite nth_error_lupd_eq in E0 by exact L. injection E0 as <-. exact OK.
  - rewrite nth_error_lupd_ne in E0 by exact N. exact (H _ _ E0).
Qed.

(* obligations: one task replaced, mailboxes unchanged *)
Lemma obl_upd s s' t x x' :
  Obl s -> nth_error (tasks s) t = Some x -> tasks s' = lupd (tasks s) t x' -> boxes s' = boxes s ->
  (forall z, In z (cfr x) -> In z (cfr x')) ->
  (forall f' j, tfr x' = Some f' -> nth_error (fwait f') j = Some None ->
     (exists f, tfr x = Some f /\ nth_error (fwait f) j = Some None) \/
     (exists m, In (t, j, m) (cfr x') /\ t < m)) ->
  Obl s'.
Proof.
  intros O EX ET EB Hsurv Hnew rt y f' j Hy Hf Hn.
  assert (Transfer : forall z, In z (carriers s) -> In z (carriers s')).
  { intros z Hz. unfold carriers in *. rewrite ET, EB. apply in_app_or in Hz. apply in_or_app.
    destruct Hz as [Hz|Hz]; [left; exact Hz|]. right.
    destruct (in_flat_lupd cfr _ t x x' z EX Hz) as [Hz'|Hz']; [|exact Hz'].
    eapply in_flat_lupd_new; [exact EX | exact (Hsurv z Hz')]. }
  rewrite ET in Hy. destruct (Nat.eq_dec t rt) as [<-|N].
  - assert (L : t < length (tasks s)) by (apply nth_error_Some; congruence).
    rewrite nth_error_lupd_eq in Hy by exact L. injection Hy as <-.
    destruct (Hnew f' j Hf Hn) as [(f & Hf0 & Hn0) | (m & Hin & Hlt)].
    + destruct (O t x f j EX Hf0 Hn0) as [m [Hin Hlt]]. exists m. split; [exact (Transfer _ Hin) | exact Hlt].
    + exists m. split; [|exact Hlt]. unfold carriers. rewrite ET. apply in_or_app. right.
      eapply in_flat_lupd_new; [exact EX | exact Hin].
  - rewrite nth_error_lupd_ne in Hy by exact N.
    destruct (O rt y f' j Hy Hf Hn) as [m [Hin Hlt]]. exists m. split; [exact (Transfer _ Hin) | exact Hlt].
Qed.

(* obligations: one task and one mailbox replaced *)
Lemma obl_upd_box s s' t x x' m q q' :
  Obl s -> nth_error (tasks s) t = Some x -> tasks s' = lupd (tasks s) t x' ->
  nth_error (boxes s) m = Some q -> boxes s' = lupd (boxes s) m q' ->
  (forall z, In z (cfr x) -> In z (cfr x') \/ In z (flat_map (creq m) q')) ->
  (forall z, In z (flat_map (creq m) q) -> In z (flat_map (creq m) q') \/ In z (cfr x')) ->
  (forall f' j, tfr x' = Some f' -> nth_error (fwait f') j = Some None ->
     exists f, tfr x = Some f /\ nth_error (fwait f) j = Some None) ->
  Obl s'.
Proof.
  intros O EX ET EQ EB Hsurv Hbox Hnew rt y f' j Hy Hf Hn.
  assert (InT : forall z, In z (cfr x') -> In z (carriers s')).
  { intros z Hz. unfold carriers. rewrite ET. apply in_or_app. right. eapply in_flat_lupd_new; [exact EX | exact Hz]. }
  assert (InB : forall z, In z (flat_map (creq m) q') -> In z (carriers s')).
  { intros z Hz. unfold carriers. rewrite EB. apply in_or_app. left. eapply in_cbox_lupd_new; [exact EQ | exact Hz]. }
  assert (Transfer : forall z, In z (carriers s) -> In z (carriers s')).
  { intros z Hz. unfold carriers in Hz. apply in_app_or in Hz. destruct Hz as [Hz|Hz].
    - destruct (in_cbox_lupd _ m q q' z EQ Hz) as [Hz'|Hz'].
      + destruct (Hbox z Hz') as [X|X]; [exact (InB z X) | exact (InT z X)].
      + unfold carriers. rewrite EB. apply in_or_app. left. exact Hz'.
    - destruct (in_flat_lupd cfr _ t x x' z EX Hz) as [Hz'|Hz'].
      + destruct (Hsurv z Hz') as [X|X]; [exact (InT z X) | exact (InB z X)].
      + unfold carriers. rewrite ET. apply in_or_app. right. exact Hz'. }
  rewrite ET in Hy. destruct (Nat.eq_dec t rt) as [<-|N].
  - assert (L : t < length (tasks s)) by (apply nth_error_Some; congruence).
    rewrite nth_error_lupd_eq in Hy by exact L. injection Hy as <-.
    destruct (Hnew f' j Hf Hn) as (f & Hf0 & Hn0).
    destruct (O t x f j EX Hf0 Hn0) as [m0 [Hin Hlt]]. exists m0. split; [exact (Transfer _ Hin) | exact Hlt].
  - rewrite nth_error_lupd_ne in Hy by exact N.
    destruct (O rt y f' j Hy Hf Hn) as [m0 [Hin Hlt]]. exists m0. split; [exact (Transfer _ Hin) | exact Hlt].
Qed.

Lemma step_start_QInv b s t s' :
  bench_valid b -> NInv s -> QInv b s -> step_start b s t = Some s' -> QInv b s'.
Proof.
  intros BV NI Q. unfold step_start. intros H.
  destruct (nth_error (tasks s) t) as [x|] eqn:EX; [|discriminate].
  destruct (tk x) as [m|] eqn:TK; [|discriminate]. destruct (tfr x) eqn:TF; [discriminate|].
  destruct (tdone x) eqn:TD; [discriminate|]. destruct (nth_error (bmodels b) m) as [sp|] eqn:ES; [|discriminate].
  destruct (plain_scripts b m sp (bv_plain b BV) ES) as (PI & PH & PR).
  destruct (q_model b s Q t x m EX TK) as (Em & Lm & _).
  assert (CX : cfr x = []) by (unfold cfr; rewrite TF; reflexivity).
  assert (OKX : forall script v r, forallb op_plain script = true ->
                                   TaskOK b t (tset_tfr x (Some (empty_frame script v r)))).
  { intros script v r Hs. unfold TaskOK. cbn. rewrite TK. split.
    - split; [exact Em|]. split; [exact Lm|]. split; [exact TD|]. intros f E. injection E as <-. exact Hs.
    - intros f d m0 g E. injection E as <-. cbn. intros []. }
  destruct (tinit x) eqn:TI.
  { injection H as <-. split.
    - exact (q_len b s Q).
    - eapply tasks_ok_upd; [exact (q_task b s Q) | reflexivity |].
      unfold TaskOK. cbn. rewrite TK. split.
      + split; [exact Em|]. split; [exact Lm|]. split; [exact TD|]. intros f E. injection E as <-. exact PI.
      + intros f d m0 g E. injection E as <-. cbn. intros [].
    - eapply obl_upd; [exact (q_obl b s Q) | exact EX | reflexivity | reflexivity | |].
      + rewrite CX. intros z [].
      + cbn. intros f' j E. injection E as <-. cbn. destruct j; discriminate. }
  destruct (nth_error (boxes s) m) as [[|g restq]|] eqn:EB; try discriminate.
  destruct (mkd g) as [key|r slot rep radd] eqn:EK.
  - destruct NI as [_ I2]. rewrite (I2 key) in H. injection H as <-. split.
    + cbn. rewrite lupd_length. exact (q_len b s Q).
    + eapply tasks_ok_upd; [exact (q_task b s Q) | reflexivity |]. apply OKX. apply PH.
    + eapply obl_upd_box with (m := m) (q := g :: restq) (q' := restq);
        [exact (q_obl b s Q) | exact EX | reflexivity | exact EB | reflexivity | | |].
      * rewrite CX. intros z [].
      * cbn [flat_map]. intros z Hz. apply in_app_or in Hz. destruct Hz as [Hz|Hz]; [|left; exact Hz].
        unfold creq in Hz. rewrite EK in Hz. destruct Hz.
      * cbn. intros f' j E. injection E as <-. cbn. destruct j; discriminate.
  - destruct (nth rep (mrepliers sp) ([], 0%Z)) as [script c0] eqn:ER. injection H as <-. split.
    + cbn. rewrite lupd_length. exact (q_len b s Q).
    + eapply tasks_ok_upd; [exact (q_task b s Q) | reflexivity |]. apply OKX.
      specialize (PR rep). rewrite ER in PR. exact PR.
    + eapply obl_upd_box with (m := m) (q := g :: restq) (q' := restq);
        [exact (q_obl b s Q) | exact EX | reflexivity | exact EB | reflexivity | | |].
      * rewrite CX. intros z [].
      * cbn [flat_map]. intros z Hz. apply in_app_or in Hz. destruct Hz as [Hz|Hz]; [|left; exact Hz].
        right. unfold creq in Hz. rewrite EK in Hz. unfold cfr, cserve. cbn. rewrite TK.
        destruct r as [rt0|]; [exact Hz | destruct Hz].
      * cbn. intros f' j E. injection E as <-. cbn. destruct j; discriminate.
Qed.

Lemma step_deliver_QInv b s t i s' :
  bench_valid b -> NInv s -> QInv b s -> step_deliver b s t i = Some s' -> QInv b s'.
Proof.
  intros BV NI Q. unfold step_deliver. intros H.
  destruct (nth_error (tasks s) t) as [x|] eqn:EX; [|discriminate].
  destruct (tfr x) as [f|] eqn:TF; [|discriminate].
  destruct (nth_error (fpend f) i) as [d|] eqn:ED; [|discriminate].
  set (x' := tset_tfr x (Some (fset_fpend f (ldel (fpend f) i)))) in *.
  assert (OKX : TaskOK b t x').
  { destruct (q_task b s Q t x EX) as [A B]. unfold TaskOK, x'. cbn [tk tset_tfr tfr tinit tdone]. split.
    - destruct (tk x).
      + destruct A as (A1 & A2 & A3 & A4). split; [exact A1|]. split; [exact A2|]. split; [exact A3|].
        intros f0 E. injection E as <-. cbn. exact (A4 f TF).
      + destruct A as [A1 A2]. split; [exact A1|]. intros f0 E. injection E as <-. cbn. exact (A2 f TF).
    - intros f0 d0 m g E D G. injection E as <-. cbn in D. exact (B f d0 m g TF (in_ldel _ _ _ D) G). }
  assert (CF : forall z, In z (cfr x) -> In z (cdel d) \/ In z (cfr x')).
  { intros z Hz. unfold cfr in Hz. rewrite TF in Hz. apply in_app_or in Hz. destruct Hz as [Hz|Hz].
    - apply in_flat_map in Hz. destruct Hz as [d0 [Hd0 Hz]].
      destruct (in_ldel_split _ i d d0 ED Hd0) as [->|Hd].
      + left; exact Hz.
      + right. unfold cfr, x'. cbn. apply in_or_app. left. apply in_flat_map. exists d0. split; assumption.
    - right. unfold cfr, x'. cbn. apply in_or_app. right. exact Hz. }
  assert (OldSlot : forall f' j, tfr x' = Some f' -> nth_error (fwait f') j = Some None ->
                      exists f0, tfr x = Some f0 /\ nth_error (fwait f0) j = Some None).
  { unfold x'. cbn. intros f' j E. injection E as <-. cbn. intros Hn. exists f. split; [exact TF | exact Hn]. }
  destruct (dtgt d) as [m g|sk v] eqn:DT.
  - destruct (nth_error (bmodels b) m) as [sp|] eqn:ES; [|discriminate].
    destruct (nth_error (boxes s) m) as [q|] eqn:EB; [|discriminate].
    destruct (bench_plain_model b m sp (bv_plain b BV) ES) as (PL & _). rewrite PL in H.
    destruct (Nat.ltb (length q) (mcap sp)); [|discriminate]. injection H as <-. split.
    + cbn. rewrite lupd_length. exact (q_len b s Q).
    + eapply tasks_ok_upd; [exact (q_task b s Q) | reflexivity | exact OKX].
    + eapply obl_upd_box with (m := m) (q := q) (q' := q ++ [g]);
        [exact (q_obl b s Q) | exact EX | reflexivity | exact EB | reflexivity | | | exact OldSlot].
      * intros z Hz. destruct (CF z Hz) as [X|X]; [right | left; exact X].
        rewrite flat_map_app. apply in_or_app. right. cbn. rewrite app_nil_r.
        unfold cdel in X. rewrite DT in X. exact X.
      * intros z Hz. left. rewrite flat_map_app. apply in_or_app. left. exact Hz.
  - assert (G : forall s1, tasks s1 = lupd (tasks s) t x' -> boxes s1 = boxes s -> QInv b s1).
    { intros s1 ET EB. split.
      - rewrite EB. exact (q_len b s Q).
      - eapply tasks_ok_upd; [exact (q_task b s Q) | exact ET | exact OKX].
      - eapply obl_upd; [exact (q_obl b s Q) | exact EX | exact ET | exact EB | |].
        + intros z Hz. destruct (CF z Hz) as [X|X]; [|exact X]. unfold cdel in X. rewrite DT in X. destruct X.
        + intros f' j E Hn. left. exact (OldSlot f' j E Hn). }
    destruct (nth_error (sinks s) sk); injection H as <-; apply G; reflexivity.
Qed.

Lemma lupd_nil {A} i (v : A) : lupd [] i v = [].
Proof. destruct i; reflexivity. Qed.

Lemma forallb_tl {A} (p : A -> bool) x l : forallb p (x :: l) = true -> p x = true /\ forallb p l = true.
Proof. cbn. intros H. apply andb_prop in H. exact H. Qed.

(* one op of a script: the task keeps its kind and flags, its frame becomes f' *)
Lemma op_step_QInv b s s1 t x x' f f' o rest :
  bench_valid b -> QInv b s ->
  nth_error (tasks s) t = Some x -> tfr x = Some f -> fpend f = [] -> fwait f = [] -> frest f = o :: rest ->
  tasks s1 = lupd (tasks s) t x' -> boxes s1 = boxes s ->
  tk x' = tk x -> tdone x' = tdone x -> tinit x' = tinit x -> tfr x' = Some f' ->
  frest f' = rest -> freply f' = freply f ->
  (forall d m g, In d (fpend f') -> dtgt d = DModel m g -> m < length (bmodels b)) ->
  (tk x = TKAction -> fwait f' = []) ->
  (forall j, nth_error (fwait f') j = Some None -> exists m, In (t, j, m) (flat_map cdel (fpend f')) /\ t < m) ->
  QInv b s1.
Proof.
  intros BV Q EX TF FP FW FR ET EB K D I F' FR' RP PD AW NS. split.
  - rewrite EB. exact (q_len b s Q).
  - eapply tasks_ok_upd; [exact (q_task b s Q) | exact ET |].
    destruct (q_task b s Q t x EX) as [A B]. unfold TaskOK. rewrite K, D, I. split.
    + destruct (tk x) eqn:TK.
      * destruct A as (A1 & A2 & A3 & A4). split; [exact A1|]. split; [exact A2|]. split; [exact A3|].
        intros f0 E. rewrite F' in E. injection E as <-. rewrite FR'.
        specialize (A4 f TF). rewrite FR in A4. exact (proj2 (forallb_tl _ _ _ A4)).
      * destruct A as [A1 A2]. split; [exact A1|]. intros f0 E. rewrite F' in E. injection E as <-.
        destruct (A2 f TF) as (_ & X & Y). rewrite FR in X, Y. rewrite FR'.
        split; [exact (AW eq_refl)|]. split; [exact (proj2 (forallb_tl _ _ _ X)) | exact (proj2 (forallb_tl _ _ _ Y))].
    + intros f0 d m g E. rewrite F' in E. injection E as <-. intros Hd Hg. exact (PD d m g Hd Hg).
  - eapply obl_upd; [exact (q_obl b s Q) | exact EX | exact ET | exact EB | |].
    + intros z Hz. unfold cfr in *. rewrite TF in Hz. rewrite F'. rewrite FP in Hz. cbn [flat_map app] in Hz.
      apply in_or_app. right. unfold cserve in *. rewrite RP, K. exact Hz.
    + intros f0 j E Hn. rewrite F' in E. injection E as <-. right.
      destruct (NS j Hn) as [m [Hin Hlt]]. exists m. split; [|exact Hlt].
      unfold cfr. rewrite F'. apply in_or_app. left. exact Hin.
Qed.

Lemma cfr_same x y :
  tk y = tk x -> (forall f, tfr x = Some f -> exists g, tfr y = Some g /\ fpend g = fpend f /\ freply g = freply f) ->
  forall z, In z (cfr x) -> In z (cfr y).
Proof.
  intros K H z Hz. unfold cfr in *. destruct (tfr x) as [f|]; [|destruct Hz].
  destruct (H f eq_refl) as (g & -> & P & R). unfold cserve in *. rewrite P, R, K. exact Hz.
Qed.

Lemma step_op_QInv b s t s' :
  bench_valid b -> NInv s -> QInv b s -> step_op b s t = Some s' -> QInv b s'.
Proof.
  intros BV NI Q. unfold step_op. intros H.
  destruct (nth_error (tasks s) t) as [x|] eqn:EX; [|discriminate].
  destruct (tfr x) as [f|] eqn:TF; [|discriminate].
  destruct (fpend f) eqn:FP; [|discriminate].
  destruct (q_task b s Q t x EX) as [TA TB].
  destruct (fwait f) eqn:FW.
  2:{ (* all replies are in: the wait is over *)
      destruct (opt_all _); [|discriminate].
      assert (G : forall s1, tasks s1 = lupd (tasks s) t (tset_tfr x (Some (fset_fwait f []))) ->
                  boxes s1 = boxes s -> QInv b s1).
      { intros s1 ET EB. split.
        - rewrite EB. exact (q_len b s Q).
        - eapply tasks_ok_upd; [exact (q_task b s Q) | exact ET |]. unfold TaskOK. cbn [tk tset_tfr tinit tdone tfr]. split.
          + destruct (tk x).
            * destruct TA as (A1 & A2 & A3 & A4). split; [exact A1|]. split; [exact A2|]. split; [exact A3|].
              intros f0 E. injection E as <-. cbn. exact (A4 f TF).
            * destruct TA as [A1 A2]. split; [exact A1|]. intros f0 E. injection E as <-. cbn.
              destruct (A2 f TF) as (_ & X & Y). auto.
          + intros f0 d m g E. injection E as <-. cbn. rewrite FP. intros [].
        - eapply obl_upd; [exact (q_obl b s Q) | exact EX | exact ET | exact EB | |].
          + apply cfr_same; [reflexivity|]. intros f0 E. rewrite TF in E. injection E as <-.
            eexists. split; [reflexivity|]. split; reflexivity.
          + cbn. intros f' j E. injection E as <-. cbn. destruct j; discriminate. }
      destruct (task_model x); injection H as <-; apply G; reflexivity. }
  destruct (frest f) as [|o rest] eqn:FR.
  { (* the script is over: the frame goes away and the reply, if any, is delivered *)
    match type of H with Some (deliver_reply ?a _) = _ => set (s1 := a) in H end.
    injection H as <-.
    assert (X1 : exists x1, tasks s1 = lupd (tasks s) t x1 /\ tfr x1 = None /\ tinit x1 = tinit x /\ tk x1 = tk x /\
                 (tk x <> TKAction -> tdone x1 = tdone x) /\ boxes s1 = boxes s).
    { subst s1. destruct (tk x) eqn:TK; eexists; (split; [reflexivity|]); cbn; rewrite ?TK; repeat split; auto; congruence. }
    destruct X1 as (x1 & ET1 & TF1 & TI1 & TK1 & TD1 & EB1).
    assert (OK1 : TaskOK b t x1).
    { unfold TaskOK. rewrite TK1, TI1, TF1. split.
      - destruct (tk x) eqn:TK.
        + destruct TA as (A1 & A2 & A3 & _). split; [exact A1|]. split; [exact A2|].
          split; [rewrite TD1 by discriminate; exact A3|]. intros f0 E. discriminate E.
        + destruct TA as [A1 _]. split; [exact A1|]. intros f0 E. discriminate E.
      - intros f0 d m g E. discriminate E. }
    assert (CX1 : cfr x1 = []) by (unfold cfr; rewrite TF1; reflexivity).
    assert (CX : forall z, In z (cfr x) -> In z (cserve x f)).
    { intros z Hz. unfold cfr in Hz. rewrite TF, FP in Hz. exact Hz. }
    assert (L : t < length (tasks s)) by (apply nth_error_Some; congruence).
    assert (E1t : nth_error (tasks s1) t = Some x1) by (rewrite ET1; apply nth_error_lupd_eq; exact L).
    (* carriers other than the reply being delivered survive the removal of the frame *)
    assert (T1 : forall z, In z (carriers s) -> In z (cserve x f) \/ In z (carriers s1)).
    { intros z Hz. unfold carriers in *. rewrite ET1, EB1. apply in_app_or in Hz. destruct Hz as [Hz|Hz].
      - right. apply in_or_app. left. exact Hz.
      - destruct (in_flat_lupd cfr _ t x x1 z EX Hz) as [Hz'|Hz']; [left; exact (CX z Hz')|].
        right. apply in_or_app. right. exact Hz'. }
    unfold deliver_reply.
    destruct (freply f) as [[[[rq|] sl] v]|] eqn:RP.
    2:{ (* reply to process_query *)
        split; [cbn; rewrite EB1; exact (q_len b s Q) | |].
        - cbn. eapply tasks_ok_upd; [exact (q_task b s Q) | exact ET1 | exact OK1].
        - eapply obl_upd with (s' := set_qreply s1 (Some v)); [exact (q_obl b s Q) | exact EX | exact ET1 | exact EB1 | |].
          + intros z Hz. apply CX in Hz. unfold cserve in Hz. rewrite RP in Hz. destruct Hz.
          + intros f' j E. rewrite TF1 in E. discriminate E. }
    2:{ split; [rewrite EB1; exact (q_len b s Q) | |].
        - eapply tasks_ok_upd; [exact (q_task b s Q) | exact ET1 | exact OK1].
        - eapply obl_upd; [exact (q_obl b s Q) | exact EX | exact ET1 | exact EB1 | |].
          + intros z Hz. apply CX in Hz. unfold cserve in Hz. rewrite RP in Hz. destruct Hz.
          + intros f' j E. rewrite TF1 in E. discriminate E. }
    (* reply to the requester task rq, slot sl *)
    assert (SV : forall z, In z (cserve x f) -> exists m, z = (rq, sl, m)).
    { intros z Hz. unfold cserve in Hz. rewrite RP in Hz. destruct (tk x); [|destruct Hz].
      destruct Hz as [<-|[]]. eexists. reflexivity. }
    destruct (nth_error (tasks s1) rq) as [y|] eqn:EY.
    2:{ (* no such task: nothing happens *)
        split; [rewrite EB1; exact (q_len b s Q) | |].
        - eapply tasks_ok_upd; [exact (q_task b s Q) | exact ET1 | exact OK1].
        - intros rt0 y0 f0 j E0 F0 N0.
          assert (rt0 <> t) by (intro; subst rt0; rewrite E1t in E0; injection E0 as <-; congruence).
          assert (E0s : nth_error (tasks s) rt0 = Some y0) by (rewrite ET1, nth_error_lupd_ne in E0 by auto; exact E0).
          destruct (q_obl b s Q rt0 y0 f0 j E0s F0 N0) as [m [Hin Hlt]].
          destruct (T1 _ Hin) as [Hc|Hc]; [|exists m; split; assumption].
          destruct (SV _ Hc) as [m0 Em0]. inversion Em0; subst. congruence. }
    destruct (tfr y) as [fy|] eqn:FY.
    2:{ split; [rewrite EB1; exact (q_len b s Q) | |].
        - eapply tasks_ok_upd; [exact (q_task b s Q) | exact ET1 | exact OK1].
        - intros rt0 y0 f0 j E0 F0 N0.
          assert (rt0 <> t) by (intro; subst rt0; rewrite E1t in E0; injection E0 as <-; congruence).
          assert (E0s : nth_error (tasks s) rt0 = Some y0) by (rewrite ET1, nth_error_lupd_ne in E0 by auto; exact E0).
          destruct (q_obl b s Q rt0 y0 f0 j E0s F0 N0) as [m [Hin Hlt]].
          destruct (T1 _ Hin) as [Hc|Hc]; [|exists m; split; assumption].
          destruct (SV _ Hc) as [m0 Em0]. inversion Em0; subst. rewrite E0 in EY. injection EY as ->. congruence. }
    (* the slot of the requester is filled *)
    set (y' := tset_tfr y (Some (fset_fwait fy (lupd (fwait fy) sl (Some v))))).
    assert (Nq : rq <> t) by (intro; subst rq; rewrite E1t in EY; injection EY as <-; congruence).
    assert (EYs : nth_error (tasks s) rq = Some y) by (rewrite ET1, nth_error_lupd_ne in EY by auto; exact EY).
    assert (OKs1 : forall t0 x0, nth_error (tasks s1) t0 = Some x0 -> TaskOK b t0 x0).
    { eapply tasks_ok_upd; [exact (q_task b s Q) | exact ET1 | exact OK1]. }
    split.
    - cbn. rewrite EB1. exact (q_len b s Q).
    - eapply tasks_ok_upd; [exact OKs1 | reflexivity |].
      destruct (OKs1 rq y EY) as [YA YB]. unfold TaskOK, y'. cbn [tk tset_tfr tinit tdone tfr]. split.
      + destruct (tk y).
        * destruct YA as (A1 & A2 & A3 & A4). split; [exact A1|]. split; [exact A2|]. split; [exact A3|].
          intros f0 E. injection E as <-. cbn. exact (A4 fy FY).
        * destruct YA as [A1 A2]. split; [exact A1|]. intros f0 E. injection E as <-. cbn.
          destruct (A2 fy FY) as (W & X & Y). rewrite W, lupd_nil. auto.
      + intros f0 d m g E. injection E as <-. cbn. exact (YB fy d m g FY).
    - assert (T2 : forall z, In z (carriers s1) -> In z (carriers (set_task s1 rq y'))).
      { intros z Hz. unfold carriers in *. cbn [boxes tasks set_task set_tasks]. apply in_app_or in Hz.
        apply in_or_app. destruct Hz as [Hz|Hz]; [left; exact Hz|]. right.
        destruct (in_flat_lupd cfr _ rq y y' z EY Hz) as [Hz'|Hz']; [|exact Hz'].
        eapply in_flat_lupd_new; [exact EY|]. revert Hz'. apply cfr_same; [reflexivity|].
        intros f0 E. rewrite FY in E. injection E as <-. eexists. split; [reflexivity|]. split; reflexivity. }
      intros rt0 y0 f0 j E0 F0 N0. cbn [tasks set_task set_tasks] in E0.
      destruct (Nat.eq_dec rq rt0) as [<-|Nr].
      + assert (Lq : rq < length (tasks s1)) by (apply nth_error_Some; congruence).
        rewrite nth_error_lupd_eq in E0 by exact Lq. injection E0 as <-. unfold y' in F0. cbn in F0.
        injection F0 as <-. cbn in N0. destruct (lupd_some_none _ _ _ _ N0) as [N1 Nj].
        destruct (q_obl b s Q rq y fy j EYs FY N1) as [m [Hin Hlt]].
        destruct (T1 _ Hin) as [Hc|Hc].
        * destruct (SV _ Hc) as [m0 Em0]. inversion Em0; subst. congruence.
        * exists m. split; [exact (T2 _ Hc) | exact Hlt].
      + rewrite nth_error_lupd_ne in E0 by exact Nr.
        assert (rt0 <> t) by (intro; subst rt0; rewrite E1t in E0; injection E0 as <-; congruence).
        assert (E0s : nth_error (tasks s) rt0 = Some y0) by (rewrite ET1, nth_error_lupd_ne in E0 by auto; exact E0).
        destruct (q_obl b s Q rt0 y0 f0 j E0s F0 N0) as [m [Hin Hlt]].
        destruct (T1 _ Hin) as [Hc|Hc].
        * destruct (SV _ Hc) as [m0 Em0]. inversion Em0; subst. congruence.
        * exists m. split; [exact (T2 _ Hc) | exact Hlt]. }
  (* one op of the script *)
  assert (OKo : cop_ok o = true).
  { destruct NI as [N1 _]. pose proof (N1 t x f EX TF) as X. rewrite FR in X. exact (proj1 (forallb_tl _ _ _ X)). }
  destruct (match o with OSched _ _ _ _ _ => true | _ => false end) eqn:IsSched.
  { destruct o; try discriminate IsSched. destruct (task_model x) as [mm|] eqn:TM; [|discriminate].
    destruct (sched_request _ _ _ _ _ _ _) as [[s1 code] k] eqn:ESR.
    apply sched_request_frame in ESR. destruct ESR as (_ & _ & _ & _ & _ & _ & EB1 & _ & ET1 & _).
    injection H as <-.
    match goal with |- QInv b (add_log (set_task s1 t ?X) _) =>
      apply (op_step_QInv b s _ t x X f (fset_frest f rest) _ rest BV Q EX TF FP FW FR) end.
    - cbn. rewrite ET1. reflexivity.
    - cbn. exact EB1.
    - destruct slot; destruct k; reflexivity.
    - destruct slot; destruct k; reflexivity.
    - destruct slot; destruct k; reflexivity.
    - reflexivity.
    - reflexivity.
    - reflexivity.
    - cbn. rewrite FP. intros d0 m g [].
    - intros _. cbn. exact FW.
    - cbn. rewrite FW. intros j Hj. destruct j; discriminate. }
  destruct o; try discriminate OKo; try discriminate IsSched; destruct (task_model x) as [mm|] eqn:TM; try discriminate H.
  - (* send *)
    destruct (nth_error (bmodels b) mm) as [sp|] eqn:ES; [|discriminate]. injection H as <-.
    eapply op_step_QInv with (f' := fset_fpend (fset_frest f rest) (conn_deliveries (nth port (mouts sp) []) (eval e (fin f))));
      try eassumption; try reflexivity.
    + cbn. intros d m g Hd Hg. destruct (conn_deliveries_in _ _ _ Hd) as [_ X].
      destruct (X m g Hg) as (c & i & Ic & Tc). exact (bv_out b BV mm sp port c m i ES Ic Tc).
    + intros _. cbn. exact FW.
    + cbn. rewrite FW. intros j Hj. destruct j; discriminate.
  - (* query *)
    destruct (nth_error (bmodels b) mm) as [sp|] eqn:ES; [|discriminate]. injection H as <-.
    assert (TKm : tk x = TKModel mm) by (unfold task_model in TM; destruct (tk x); congruence).
    destruct (q_model b s Q t x mm EX TKm) as (-> & _ & _).
    set (ds := query_deliveries t 0 (nth port (mreqs sp) []) (eval e (fin f))).
    eapply op_step_QInv with (f' := fset_fwait (fset_fpend (fset_frest f rest) ds) (map (fun _ => None) ds));
      try eassumption; try reflexivity.
    + cbn. intros d m g Hd Hg. apply In_nth_error in Hd. destruct Hd as [j Hj].
      destruct (query_deliveries_nth _ _ _ _ _ _ Hj) as (q & g0 & Iq & Dq & _).
      rewrite Dq in Hg. injection Hg as <- _. exact (proj2 (bv_req b BV t sp port q ES Iq)).
    + intros K. congruence.
    + cbn. intros j Hj. rewrite nth_error_map in Hj. destruct (nth_error ds j) as [d|] eqn:Ed; [|discriminate].
      destruct (query_deliveries_nth _ _ _ _ _ _ Ed) as (q & g0 & Iq & Dq & Kq). cbn [Nat.add] in Kq.
      exists (qmodel q). split; [|exact (proj1 (bv_req b BV t sp port q ES Iq))].
      apply in_flat_map. exists d. split; [exact (nth_error_In _ _ Ed)|]. unfold cdel, creq. rewrite Dq, Kq. left. reflexivity.
  - (* OEvent, by a model task: excluded, its scripts are plain *)
    exfalso. assert (TKm : tk x = TKModel mm) by (unfold task_model in TM; destruct (tk x); congruence).
    rewrite TKm in TA. destruct TA as (_ & _ & _ & A4). specialize (A4 f TF). rewrite FR in A4. discriminate (proj1 (forallb_tl _ _ _ A4)).
  - (* OEvent, by an action task *)
    assert (TKa : tk x = TKAction) by (unfold task_model in TM; destruct (tk x); congruence).
    injection H as <-. rewrite TKa in TA. destruct TA as [_ A2]. destruct (A2 f TF) as (_ & _ & Y).
    rewrite FR in Y. pose proof (proj1 (forallb_tl _ _ _ Y)) as Ym. cbn in Ym. apply Nat.ltb_lt in Ym.
    eapply op_step_QInv with (f' := fset_fpend (fset_frest f rest) _); try eassumption; try reflexivity.
    + cbn. intros d m0 g [<-|[]] Hg. cbn in Hg. injection Hg as <- _. exact Ym.
    + intros _. cbn. exact FW.
    + cbn. rewrite FW. intros j Hj. destruct j; discriminate.
  - exfalso. assert (TKm : tk x = TKModel mm) by (unfold task_model in TM; destruct (tk x); congruence).
    rewrite TKm in TA. destruct TA as (_ & _ & _ & A4). specialize (A4 f TF). rewrite FR in A4. discriminate (proj1 (forallb_tl _ _ _ A4)).
  - assert (TKa : tk x = TKAction) by (unfold task_model in TM; destruct (tk x); congruence).
    injection H as <-. rewrite TKa in TA. destruct TA as [_ A2]. destruct (A2 f TF) as (_ & _ & Y).
    rewrite FR in Y. pose proof (proj1 (forallb_tl _ _ _ Y)) as Ym. cbn in Ym. apply Nat.ltb_lt in Ym.
    eapply op_step_QInv with (f' := fset_fpend (fset_frest f rest) _); try eassumption; try reflexivity.
    + cbn. intros d m0 g [<-|[]] Hg. cbn in Hg. injection Hg as <- _. exact Ym.
    + intros _. cbn. exact FW.
    + cbn. rewrite FW. intros j Hj. destruct j; discriminate.
  - exfalso. assert (TKm : tk x = TKModel mm) by (unfold task_model in TM; destruct (tk x); congruence).
    rewrite TKm in TA. destruct TA as (_ & _ & _ & A4). specialize (A4 f TF). rewrite FR in A4. discriminate (proj1 (forallb_tl _ _ _ A4)).
  - injection H as <-.
    eapply op_step_QInv with (f' := fset_fpend (fset_frest f rest) (conn_deliveries (nth src (bsources b) []) v));
      try eassumption; try reflexivity.
    + cbn. intros d m g Hd Hg. destruct (conn_deliveries_in _ _ _ Hd) as [_ X].
      destruct (X m g Hg) as (c & i & Ic & Tc). exact (bv_src b BV src c m i Ic Tc).
    + intros _. cbn. exact FW.
    + cbn. rewrite FW. intros j Hj. destruct j; discriminate.
Qed.

Theorem net_step_QInv b s l s' :
  bench_valid b -> NInv s -> QInv b s -> net_step b s l = Some s' -> QInv b s'.
Proof.
  intros BV NI Q. unfold net_step. destruct (err s); [discriminate|]. destruct l as [t|t|t i].
  - apply step_start_QInv; assumption.
  - apply step_op_QInv; assumption.
  - apply step_deliver_QInv; assumption.
Qed.

(* a run of the executor ends in a state where no step is enabled, and keeps both invariants *)
Lemma net_run_end b (BV : bench_valid b) fuel : forall ch s nd s' nd',
  NInv s -> QInv b s -> net_run b fuel ch s nd = Some (s', nd') ->
  NInv s' /\ QInv b s' /\ net_enabled b s' = [].
Proof.
  induction fuel as [|fuel IH]; intros ch s nd s' nd' NI Q H; cbn [net_run] in H; [discriminate|].
  destruct (net_enabled b s) as [|l0 ls] eqn:EN.
  { injection H as <- <-. auto. }
  destruct (match ch with [] => (0, []) | c :: r => (c, r) end) as [c rest].
  destruct (net_step b s _) as [s1|] eqn:ES; [|discriminate].
  destruct (net_step_sim b s _ s1 (bv_plain b BV) NI ES) as [NI1 _].
  exact (IH _ _ _ _ _ NI1 (net_step_QInv b s _ s1 BV NI Q ES) H).
Qed.

(* C04, first sentence, on the net model: when a run ends without failure and with every mailbox empty -
   the condition under which the call returns Ok - every message has been processed and no handler is left
   half-way: the pool is empty. *)
Theorem net_run_ok_pool_empty b fuel ch s nd s' nd' :
  bench_valid b -> NInv s -> QInv b s -> net_run b fuel ch s nd = Some (s', nd') ->
  err s' = None -> (forall m q, nth_error (boxes s') m = Some q -> q = []) ->
  pool_of b s' = [].
Proof.
  intros BV NI Q H HE HB. destruct (net_run_end b BV _ _ _ _ _ _ NI Q H) as (NI' & Q' & EN).
  exact (quiescent_pool_empty b s' BV NI' Q' EN HE HB).
Qed.

(* ... hence schedule independence without a hypothesis on the final pools: two runs from one state, under any
   two choice lists, that both return Ok have logged the same multiset of invocations and performed the
   same multiset of sink writes *)
Theorem net_confluent_ok b s f1 ch1 nd1 s1 nd1' f2 ch2 nd2 s2 nd2' :
  bench_valid b -> NInv s -> QInv b s ->
  net_run b f1 ch1 s nd1 = Some (s1, nd1') -> net_run b f2 ch2 s nd2 = Some (s2, nd2') ->
  err s1 = None -> (forall m q, nth_error (boxes s1) m = Some q -> q = []) ->
  err s2 = None -> (forall m q, nth_error (boxes s2) m = Some q -> q = []) ->
  exists l1 l2 w1 w2,
    invs (log s1) = l1 ++ invs (log s) /\ invs (log s2) = l2 ++ invs (log s) /\ Permutation l1 l2 /\
    sinks s1 = fold_left sink_apply w1 (sinks s) /\ sinks s2 = fold_left sink_apply w2 (sinks s) /\
    Permutation w1 w2.
Proof.
  intros BV NI Q H1 H2 E1 B1 E2 B2.
  eapply net_confluent; [exact (bv_plain b BV) | exact NI | exact H1 | exact H2 | |].
  - exact (net_run_ok_pool_empty b _ _ _ _ _ _ BV NI Q H1 E1 B1).
  - exact (net_run_ok_pool_empty b _ _ _ _ _ _ BV NI Q H2 E2 B2).
Qed.


(* ---- the hypotheses are decidable ---- *)

Lemma models_valid_nth n l : forall m0 m sp,
  models_valid n m0 l = true -> nth_error l m = Some sp -> model_valid n (m0 + m) sp = true.
Proof.
  induction l as [|y r IH]; intros m0 [|m] sp H E; cbn in E; try discriminate; cbn [models_valid] in H;
    apply andb_prop in H; destruct H as [H1 H2].
  - injection E as <-. rewrite Nat.add_0_r. exact H1.
  - replace (m0 + S m) with (S m0 + m) by lia. exact (IH _ _ _ H2 E).
Qed.

Theorem bench_valid_check_sound b : bench_valid_check b = true -> bench_valid b.
Proof.
  unfold bench_valid_check. intros H. apply andb_prop in H. destruct H as [H HS].
  apply andb_prop in H. destruct H as [HP HM].
  assert (MV : forall m sp, nth_error (bmodels b) m = Some sp -> model_valid (length (bmodels b)) m sp = true).
  { intros m sp E. exact (models_valid_nth _ _ 0 m sp HM E). }
  split.
  - exact HP.
  - intros m sp E. specialize (MV m sp E). unfold model_valid in MV.
    apply andb_prop in MV. destruct MV as [MV _]. apply andb_prop in MV. destruct MV as [MV _].
    apply Nat.leb_le in MV. exact MV.
  - intros m sp port c m' i E Ic Tc. specialize (MV m sp E). unfold model_valid in MV.
    apply andb_prop in MV. destruct MV as [MV _]. apply andb_prop in MV. destruct MV as [_ MV].
    pose proof (forallb_nth (forallb (conn_ok (length (bmodels b)))) (mouts sp) [] port MV eq_refl) as X.
    rewrite forallb_forall in X. specialize (X c Ic). unfold conn_ok in X. rewrite Tc in X. apply Nat.ltb_lt in X. exact X.
  - intros src c m' i Ic Tc.
    pose proof (forallb_nth (forallb (conn_ok (length (bmodels b)))) (bsources b) [] src HS eq_refl) as X.
    rewrite forallb_forall in X. specialize (X c Ic). unfold conn_ok in X. rewrite Tc in X. apply Nat.ltb_lt in X. exact X.
  - intros m sp port q E Iq. specialize (MV m sp E). unfold model_valid in MV.
    apply andb_prop in MV. destruct MV as [_ MV].
    pose proof (forallb_nth (forallb (qconn_ok (length (bmodels b)) m)) (mreqs sp) [] port MV eq_refl) as X.
    rewrite forallb_forall in X. specialize (X q Iq). unfold qconn_ok in X. apply andb_prop in X. destruct X as [X1 X2].
    apply Nat.ltb_lt in X1. apply Nat.ltb_lt in X2. split; assumption.
Qed.

Lemma tasks_ok_check_nth b l : forall t0 t x,
  tasks_ok_check b t0 l = true -> nth_error l t = Some x -> task_ok_check b (t0 + t) x = true.
Proof.
  induction l as [|y r IH]; intros t0 [|t] x H E; cbn in E; try discriminate; cbn [tasks_ok_check] in H;
    apply andb_prop in H; destruct H as [H1 H2].
  - injection E as <-. rewrite Nat.add_0_r. exact H1.
  - replace (t0 + S t) with (S t0 + t) by lia. exact (IH _ _ _ H2 E).
Qed.

Theorem qinv_check_sound b s : qinv_check b s = true -> QInv b s.
Proof.
  unfold qinv_check. intros H. apply andb_prop in H. destruct H as [HL HT]. apply Nat.eqb_eq in HL.
  assert (TC : forall t x, nth_error (tasks s) t = Some x -> task_ok_check b t x = true).
  { intros t x E. exact (tasks_ok_check_nth b _ 0 t x HT E). }
  split.
  - exact HL.
  - intros t x E. specialize (TC t x E). unfold task_ok_check in TC. apply andb_prop in TC. destruct TC as [TF TK].
    unfold TaskOK. split.
    + destruct (tk x).
      * apply andb_prop in TK. destruct TK as [TK T4]. apply andb_prop in TK. destruct TK as [TK T3].
        apply andb_prop in TK. destruct TK as [T1 T2]. apply Nat.eqb_eq in T1. apply Nat.ltb_lt in T2.
        split; [exact T1|]. split; [exact T2|]. split; [destruct (tdone x); [discriminate T3 | reflexivity]|].
        intros f Ef. rewrite Ef in T4. exact T4.
      * apply andb_prop in TK. destruct TK as [T1 T2]. split; [destruct (tinit x); [discriminate T1 | reflexivity]|].
        intros f Ef. rewrite Ef in T2, TF. apply andb_prop in T2. destruct T2 as [T2 T3].
        apply andb_prop in TF. destruct TF as [_ TW]. destruct (fwait f); [|discriminate TW]. auto.
    + intros f d m g Ef Id Dg. rewrite Ef in TF. apply andb_prop in TF. destruct TF as [TP _].
      rewrite forallb_forall in TP. specialize (TP d Id). unfold delivery_ok in TP. rewrite Dg in TP.
      apply Nat.ltb_lt in TP. exact TP.
  - intros rt x f j E Ef Hn. specialize (TC rt x E). unfold task_ok_check in TC. apply andb_prop in TC.
    destruct TC as [TF _]. rewrite Ef in TF. apply andb_prop in TF. destruct TF as [_ TW].
    destruct (fwait f); [destruct j; discriminate Hn | discriminate TW].
Qed.

(* Non-vacuity: conf_bench is valid, conf_start satisfies both invariants, and the two runs of
   net_confluent_nonvacuous end without failure and with empty mailboxes. *)
Example quiescence_nonvacuous :
  bench_valid conf_bench /\ QInv conf_bench conf_start /\
  exists s1 nd1, net_run conf_bench 500 [] conf_start false = Some (s1, nd1) /\ err s1 = None /\
                 forallb (fun q => match q with [] => true | _ => false end) (boxes s1) = true.
Proof.
  split; [apply bench_valid_check_sound; vm_compute; reflexivity|].
  split; [apply qinv_check_sound; vm_compute; reflexivity|].
  eexists. eexists. split; [vm_compute; reflexivity|]. split; vm_compute; reflexivity.
Qed.
