Require Import NX.Base.Prelude NX.Model.StRun.

Theorem strun_fixed_spec : sr_spec strun_fixed.
Proof.
  unfold sr_spec. intros c0 i0 own d p. cbn.
  destruct p as [m|]; cbn.
  - repeat split; auto; intros F; discriminate F.
  - destruct (Z.eqb (own + d) 0) eqn:E; cbn; rewrite ?E; repeat split; auto.
Qed.

(* F6 / F7: after a panic of a nested run, the enclosing executor's count and model ID are lost *)
Lemma strun_pinned_refuted :
  let '(s, r) := sr_exec 1 (Some 7) (sr_init 5 (Some 3) 0) strun_pinned in
  tl_count s = 1%Z /\ tl_id s = None /\ r = Some (SRPanic (Some 7)).
Proof. vm_compute. auto. Qed.

Lemma strun_pinned_not_spec : ~ sr_spec strun_pinned.
Proof.
  intros H. specialize (H 5%Z (Some 3) 0%Z 1%Z (Some 7)). vm_compute in H. destruct H as [F _]. discriminate F.
Qed.
