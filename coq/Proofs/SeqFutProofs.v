(* SeqFutProofs.v — SeqFuture::poll with the body [idx += 1; if idx == len return Ready] polls its
   sub-futures strictly in order, each until it is Ready and never again, returns Ready exactly with the
   poll in which the last one becomes Ready, and never indexes out of bounds - for every list of
   sub-futures and every number of Pending answers of each. *)
Require Import NX.Base.Prelude NX.Base.ListX NX.Model.SeqFut.

Definition mkst (i c : nat) (tr : list nat) : sq_state :=
  {| qidx := i; qcur := c; qtrace := tr; qbad := false; qoob := false |}.

Lemma nth_error_mid {A} (pre : list A) k post : nth_error (pre ++ k :: post) (length pre) = Some k.
Proof. rewrite nth_error_app2 by lia. rewrite Nat.sub_diag. reflexivity. Qed.

(* U1: the current sub-future is still pending *)
Lemma poll_pending pre k post c tr f :
  c < k ->
  sq_poll (S f) seqfut_fixed (pre ++ k :: post) (mkst (length pre) c tr)
  = (mkst (length pre) (S c) (tr ++ [length pre]), false).
Proof.
  intros H. cbn [sq_poll mkst qidx qcur qtrace qbad qoob]. rewrite nth_error_mid.
  destruct (Nat.ltb_spec c k) as [_|X]; [|lia].
  destruct (Nat.ltb_spec k c) as [X|_]; [lia|]. reflexivity.
Qed.

(* U2: the last sub-future becomes ready *)
Lemma poll_last pre k tr f :
  sq_poll (S f) seqfut_fixed (pre ++ [k]) (mkst (length pre) k tr)
  = (mkst (length (pre ++ [k])) 0 (tr ++ [length pre]), true).
Proof.
  cbn [sq_poll mkst qidx qcur qtrace qbad qoob]. rewrite nth_error_mid.
  rewrite Nat.ltb_irrefl. cbn [orb seqfut_fixed sq_body qidx qcur qtrace qbad qoob].
  rewrite app_length. cbn [length]. replace (length pre + 1) with (S (length pre)) by lia.
  rewrite Nat.eqb_refl. reflexivity.
Qed.

(* U3: a sub-future that is not the last becomes ready: the loop goes on with the next one *)
Lemma poll_next pre k k' post tr f :
  sq_poll (S f) seqfut_fixed (pre ++ k :: k' :: post) (mkst (length pre) k tr)
  = sq_poll f seqfut_fixed (pre ++ k :: k' :: post) (mkst (S (length pre)) 0 (tr ++ [length pre])).
Proof.
  cbn [sq_poll mkst qidx qcur qtrace qbad qoob]. rewrite nth_error_mid.
  rewrite Nat.ltb_irrefl. cbn [orb seqfut_fixed sq_body qidx qcur qtrace qbad qoob].
  rewrite app_length. cbn [length].
  destruct (Nat.eqb_spec (S (length pre)) (length pre + S (S (length post)))) as [X|_]; [lia|]. reflexivity.
Qed.

Lemma shift_pre {A} (pre : list A) k post : pre ++ k :: post = (pre ++ [k]) ++ post.
Proof. rewrite <- app_assoc. reflexivity. Qed.

Lemma len_snoc {A} (pre : list A) k : length (pre ++ [k]) = S (length pre).
Proof. rewrite app_length. cbn. lia. Qed.

(* enough fuel is enough *)
Lemma poll_fuel post : forall pre k c tr f1 f2,
  c <= k -> length post < f1 -> length post < f2 ->
  sq_poll f1 seqfut_fixed (pre ++ k :: post) (mkst (length pre) c tr)
  = sq_poll f2 seqfut_fixed (pre ++ k :: post) (mkst (length pre) c tr).
Proof.
  induction post as [|k' post IH]; intros pre k c tr f1 f2 Hc H1 H2;
    destruct f1 as [|f1]; try (cbn in H1; lia); destruct f2 as [|f2]; try (cbn in H2; lia).
  - destruct (Nat.eq_dec c k) as [->|N].
    + rewrite !poll_last. reflexivity.
    + rewrite !poll_pending by lia. reflexivity.
  - destruct (Nat.eq_dec c k) as [->|N].
    + rewrite !poll_next. rewrite (shift_pre pre k (k' :: post)). rewrite <- (len_snoc pre k).
      apply IH; cbn [length] in *; lia.
    + rewrite !poll_pending by lia. reflexivity.
Qed.

Lemma polls_step n ks st :
  sq_polls (S n) seqfut_fixed ks st =
  match sq_poll (S (S (length ks))) seqfut_fixed ks st with
  | (st1, true) => (st1, true)
  | (st1, false) => if qoob st1 then (st1, false) else sq_polls n seqfut_fixed ks st1
  end.
Proof. reflexivity. Qed.

Lemma polls_from post : forall pre k c tr, c <= k ->
  let ks := pre ++ k :: post in
  let N := (k - c) + sum_list post + 1 in
  sq_polls N seqfut_fixed ks (mkst (length pre) c tr)
  = (mkst (length ks) 0 (tr ++ repeat (length pre) (S (k - c)) ++ sq_expected (S (length pre)) post), true)
  /\ forall m, m < N -> snd (sq_polls m seqfut_fixed ks (mkst (length pre) c tr)) = false.
Proof.
  induction post as [|k' post IH]; intros pre k c tr Hc.
  - (* the current future is the last one *)
    cbn zeta. remember (k - c) as d eqn:Ed. revert c tr Hc Ed.
    induction d as [|d IHd]; intros c tr Hc Ed.
    + assert (c = k) by lia. subst c. cbn [sum_list fold_right Nat.add]. split.
      * rewrite polls_step, poll_last. cbn [repeat sq_expected]. rewrite app_nil_r. reflexivity.
      * intros m Hm. assert (m = 0) by lia. subst m. reflexivity.
    + assert (Hlt : c < k) by lia.
      destruct (IHd (S c) (tr ++ [length pre])) as [A B]; [lia|lia|].
      replace (S d + sum_list [] + 1) with (S (d + sum_list [] + 1)) by lia. split.
      * rewrite polls_step, poll_pending by exact Hlt. cbn [mkst qoob]. rewrite A.
        f_equal. unfold mkst. f_equal. rewrite <- app_assoc. cbn [repeat app]. reflexivity.
      * intros m Hm. destruct m as [|m]; [reflexivity|].
        rewrite polls_step, poll_pending by exact Hlt. cbn [mkst qoob]. apply B. lia.
  - cbn zeta. remember (k - c) as d eqn:Ed. revert c tr Hc Ed.
    induction d as [|d IHd]; intros c tr Hc Ed.
    + assert (c = k) by lia. subst c.
      (* the first poll goes on with the next future: the run is the run from there *)
      assert (First : forall n, sq_polls (S n) seqfut_fixed (pre ++ k :: k' :: post) (mkst (length pre) k tr)
                              = sq_polls (S n) seqfut_fixed (pre ++ k :: k' :: post)
                                         (mkst (S (length pre)) 0 (tr ++ [length pre]))).
      { intros n. rewrite !polls_step. rewrite poll_next.
        rewrite (shift_pre pre k (k' :: post)). rewrite <- (len_snoc pre k).
        rewrite (poll_fuel post (pre ++ [k]) k' 0 (tr ++ [length pre]) _ (S (S (length ((pre ++ [k]) ++ k' :: post)))));
          [reflexivity | lia | |].
        - rewrite app_length. cbn [length]. lia.
        - rewrite app_length. cbn [length]. lia. }
      destruct (IH (pre ++ [k]) k' 0 (tr ++ [length pre])) as [A B]; [lia|].
      rewrite <- shift_pre in A, B. rewrite len_snoc in A, B. rewrite Nat.sub_0_r in A, B.
      cbn [sum_list fold_right] in *. fold (sum_list post) in *.
      replace (0 + (k' + sum_list post) + 1) with (S (k' + sum_list post)) by lia.
      replace (k' + sum_list post + 1) with (S (k' + sum_list post)) in A, B by lia.
      split.
      * rewrite First, A. f_equal. unfold mkst. f_equal. rewrite <- app_assoc. cbn [repeat app sq_expected].
        reflexivity.
      * intros m Hm. destruct m as [|m]; [reflexivity|]. rewrite First. apply B. lia.
    + assert (Hlt : c < k) by lia.
      destruct (IHd (S c) (tr ++ [length pre])) as [A B]; [lia|lia|].
      replace (S d + sum_list (k' :: post) + 1) with (S (d + sum_list (k' :: post) + 1)) by lia. split.
      * rewrite polls_step, poll_pending by exact Hlt. cbn [mkst qoob]. rewrite A.
        f_equal. unfold mkst. f_equal. rewrite <- app_assoc. cbn [repeat app]. reflexivity.
      * intros m Hm. destruct m as [|m]; [reflexivity|].
        rewrite polls_step, poll_pending by exact Hlt. cbn [mkst qoob]. apply B. lia.
Qed.

(* The specification, for every non-empty list of sub-futures *)
Theorem seqfut_fixed_spec k ks :
  sq_polls (S (sum_list (k :: ks))) seqfut_fixed (k :: ks) sq_init
  = ({| qidx := length (k :: ks); qcur := 0; qtrace := sq_expected 0 (k :: ks); qbad := false; qoob := false |}, true)
  /\ forall m, m <= sum_list (k :: ks) -> snd (sq_polls m seqfut_fixed (k :: ks) sq_init) = false.
Proof.
  destruct (polls_from ks [] k 0 [] (Nat.le_0_l k)) as [A B]. cbn zeta in A, B. cbn [app length] in A, B.
  rewrite Nat.sub_0_r in A, B. cbn [sum_list fold_right] in *. fold (sum_list ks) in *.
  replace (k + sum_list ks + 1) with (S (k + sum_list ks)) in A, B by lia. split.
  - exact A.
  - intros m Hm. apply B. lia.
Qed.

Lemma list_nat_eqb_refl l : list_nat_eqb l l = true.
Proof. induction l as [|x r IH]; cbn; [reflexivity|]. rewrite Nat.eqb_refl, IH. reflexivity. Qed.

Corollary seqfut_fixed_check k ks : sq_check seqfut_fixed (k :: ks) = true.
Proof.
  unfold sq_check. destruct (seqfut_fixed_spec k ks) as [A B]. rewrite A.
  specialize (B (sum_list (k :: ks)) (Nat.le_refl _)).
  destruct (sq_polls (sum_list (k :: ks)) seqfut_fixed (k :: ks) sq_init) as [st0 e]. cbn [snd] in B. subst e.
  cbn [qtrace qbad qoob negb andb]. rewrite list_nat_eqb_refl. reflexivity.
Qed.

(* refutations: a body that advances twice skips sub-futures; one that never tests for the end runs off it *)
Example seqfut_skip_refuted : sq_check seqfut_skip [1; 0; 2] = false.
Proof. vm_compute. reflexivity. Qed.
Example seqfut_norecheck_refuted : sq_check seqfut_norecheck [0] = false.
Proof. vm_compute. reflexivity. Qed.
Example seqfut_nonvacuous :
  fst (sq_polls 4 seqfut_fixed [1; 0; 2] sq_init)
  = {| qidx := 3; qcur := 0; qtrace := [0; 0; 1; 2; 2; 2]; qbad := false; qoob := false |}.
Proof. vm_compute. reflexivity. Qed.
