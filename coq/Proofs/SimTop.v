(* Command-level and trace-level statements about the driver. *)
Require Import NX.Base.Prelude NX.Base.ListX NX.Model.PQ NX.Model.Sink NX.Model.Sim.
Require Import NX.Proofs.PQProofs NX.Proofs.SimBasic NX.Proofs.SimDriver NX.Proofs.SimQueue.

Definition is_process (c : cmd) : bool :=
  match c with CProcEvent _ _ _ | CProcQuery _ _ _ | CProcSrc _ _ => true | _ => false end.

Lemma spawn_q s ops : queue (spawn s ops) = queue s /\ now (spawn s ops) = now s.
Proof. split; reflexivity. Qed.

Lemma sim_run_now b fuel ch s s' r nd : sim_run b fuel ch s = (s', r, nd) -> now s' = now s.
Proof.
  unfold sim_run. destruct (terminated s); [intros H; injection H as <- _ _; auto|].
  destruct (net_run b fuel ch s false) as [[s1 nd1]|] eqn:ER; [|intros H; injection H as <- _ _; auto].
  apply net_run_frame in ER. destruct ER as [A _ _ _ _].
  intros H; injection H as <- _ _. destruct (is_ok _); cbn; auto.
Qed.

(* One command: the queue invariant is kept, time does not decrease, process_*
   and the non-stepping commands leave the time unchanged, a successful
   step_until ends exactly at its target. *)
Theorem exec_cmd_inv b fuel s c ch s' r nd :
  bugF4 b = false -> q_inv s ->
  exec_cmd b fuel s c ch = (s', r, nd) -> r <> RHang ->
  q_inv s' /\ (now s <= now s')%Z /\
  (match c with CStep | CStepUntil _ => True | _ => now s' = now s end) /\
  (forall d, c = CStepUntil d -> r = ROk -> now s' = dl_time d (now s)).
Proof.
  intros HF HI H NH. destruct c; cbn [exec_cmd] in H.
  - destruct (sched_request _ _ _ _ _ _ _) as [[s1 code] k] eqn:ES.
    pose proof (sched_request_inv _ _ _ _ _ _ _ _ _ HI ES) as HI1.
    apply sched_request_frame in ES. destruct ES as (A & _).
    injection H as <- <- <-.
    assert (Q : queue (store_dkey s1 slot k) = queue s1 /\ now (store_dkey s1 slot k) = now s1)
      by (unfold store_dkey; destruct slot, k; auto).
    destruct Q as [Q1 Q2]. unfold q_inv in *. rewrite Q1, Q2.
    split; [exact HI1|]. split; [lia|]. split; [auto|discriminate].
  - rewrite HF in H. cbn [negb] in H.
    destruct (sched_request _ _ _ _ _ _ _) as [[s1 code] k] eqn:ES.
    pose proof (sched_request_inv _ _ _ _ _ _ _ _ _ HI ES) as HI1.
    apply sched_request_frame in ES. destruct ES as (A & _).
    injection H as <- <- <-.
    assert (Q : queue (store_dkey s1 slot k) = queue s1 /\ now (store_dkey s1 slot k) = now s1)
      by (unfold store_dkey; destruct slot, k; auto).
    destruct Q as [Q1 Q2]. unfold q_inv in *. rewrite Q1, Q2.
    split; [exact HI1|]. split; [lia|]. split; [auto|discriminate].
  - injection H as <- <- <-.
    assert (Q : queue (cancel_key s (nth slot (dkeys s) None)) = queue s /\
                now (cancel_key s (nth slot (dkeys s) None)) = now s)
      by (unfold cancel_key; destruct (nth slot (dkeys s) None); auto).
    destruct Q as [Q1 Q2]. unfold q_inv in *. cbn. rewrite Q1, Q2.
    split; [exact HI|]. split; [lia|]. split; [auto|discriminate].
  - destruct (step_bounded b fuel ch s None) as [[[s1 r1] t1] nd1] eqn:ES. injection H as <- <- <-.
    destruct (step_bounded_inv _ _ _ _ _ _ _ _ _ HI ES NH) as (A & B & _).
    split; [exact A|]. split; [exact B|]. split; [auto|discriminate].
  - destruct (terminated s && negb (bugF1 b)).
    { injection H as <- <- <-. split; [exact HI|]. split; [lia|]. split; [auto|]. intros; discriminate. }
    destruct (Z.ltb_spec (dl_time d (now s)) (now s)) as [L|L].
    { injection H as <- <- <-. split; [exact HI|]. split; [lia|]. split; [auto|]. intros; discriminate. }
    destruct (step_until_loop_inv _ _ _ _ _ _ _ _ _ _ HI L H NH) as (A & B & C).
    split; [exact A|]. split; [exact B|]. split; [auto|]. intros d0 E. injection E as <-. exact C.
  - destruct (terminated s && negb (bugF1 b)).
    { injection H as <- <- <-. split; [exact HI|]. split; [lia|]. split; [auto|discriminate]. }
    pose proof (sim_run_now _ _ _ _ _ _ _ H) as N. apply sim_run_inv in H; [|exact HI].
    cbn in N. split; [exact H|]. split; [lia|]. split; [auto|discriminate].
  - destruct (terminated s && negb (bugF1 b)).
    { injection H as <- <- <-. split; [exact HI|]. split; [lia|]. split; [auto|discriminate]. }
    destruct (sim_run b fuel ch _) as [[s1 r1] nd1] eqn:ER.
    pose proof (sim_run_now _ _ _ _ _ _ _ ER) as N. apply sim_run_inv in ER; [|exact HI]. cbn in N.
    assert (s' = s1) by (destruct (is_ok r1); [destruct (qreply s1)|]; injection H; auto). subst s'.
    split; [exact ER|]. split; [lia|]. split; [auto|discriminate].
  - destruct (terminated s && negb (bugF1 b)).
    { injection H as <- <- <-. split; [exact HI|]. split; [lia|]. split; [auto|discriminate]. }
    pose proof (sim_run_now _ _ _ _ _ _ _ H) as N. apply sim_run_inv in H; [|exact HI].
    cbn in N. split; [exact H|]. split; [lia|]. split; [auto|discriminate].
  - destruct (nth_error _ _) as [k|]; [destruct (sink_drain k)|]; injection H as <- <- <-;
      (split; [exact HI|]; split; [cbn; lia|]; split; [auto|discriminate]).
  - destruct (nth_error _ _); injection H as <- <- <-;
      (split; [exact HI|]; split; [cbn; lia|]; split; [auto|discriminate]).
Qed.

(* ---------------- whole command sequences ---------------- *)

Fixpoint states_of (b : bench) (fuel : nat) (s : state) (cs : list (cmd * list nat)) : list (state * res) :=
  match cs with
  | [] => []
  | (c, ch) :: r => let '(s1, x, _) := exec_cmd b fuel s c ch in (s1, x) :: states_of b fuel s1 r
  end.

Lemma exec_cmds_states b fuel cs : forall s,
  map (fun o => (ores o, otime o)) (exec_cmds b fuel s cs) =
  map (fun p => (snd p, now (fst p))) (states_of b fuel s cs).
Proof.
  induction cs as [|[c ch] r IH]; intros s; cbn [exec_cmds states_of map]; auto.
  destruct (exec_cmd b fuel s c ch) as [[s1 x] nd]. cbn [map fst snd ores otime]. f_equal. apply IH.
Qed.

Fixpoint nondecreasing (t : Z) (l : list Z) : Prop :=
  match l with [] => True | x :: r => (t <= x)%Z /\ nondecreasing x r end.

Theorem states_inv b fuel cs : forall s,
  bugF4 b = false -> q_inv s ->
  (forall p, In p (states_of b fuel s cs) -> snd p <> RHang) ->
  (forall p, In p (states_of b fuel s cs) -> q_inv (fst p)) /\
  nondecreasing (now s) (map (fun p => now (fst p)) (states_of b fuel s cs)).
Proof.
  induction cs as [|[c ch] r IH]; intros s HF HI HH; cbn [states_of]; [split; [intros p []|exact I]|].
  cbn [states_of] in HH.
  destruct (exec_cmd b fuel s c ch) as [[s1 x] nd] eqn:EC.
  assert (NH : x <> RHang) by (apply (HH (s1, x)); left; reflexivity).
  destruct (exec_cmd_inv _ _ _ _ _ _ _ _ HF HI EC NH) as (A & B & _).
  destruct (IH s1 HF A) as [I1 I2]; [intros p Hp; apply HH; right; exact Hp|].
  split.
  - intros p [<-|Hp]; [exact A|apply I1; exact Hp].
  - cbn [map nondecreasing fst]. split; [exact B|exact I2].
Qed.

Lemma init_inv b fuel ich s r nd : sim_init b fuel ich = (s, r, nd) -> q_inv s /\ now s = bt0 b.
Proof.
  unfold sim_init. destruct (clock_sync b _ (bt0 b)) as [s2 a] eqn:EC.
  assert (Q : q_inv s2 /\ now s2 = bt0 b).
  { unfold clock_sync in EC. injection EC as <- _. unfold q_inv, q_after; cbn. split; [intros it []|auto]. }
  destruct Q as [Q1 Q2]. intros H.
  pose proof (sim_run_now _ _ _ _ _ _ _ H) as N. apply sim_run_inv in H; auto. rewrite N. auto.
Qed.

(* ---------------- the clock gates every time step (C18) ---------------- *)

Lemma classify_cases b s :
  classify b s = ROk \/ is_fatal (classify b s) = true.
Proof.
  unfold classify. destruct (err s) as [[m c|m]|]; auto.
  destruct (Z.eqb _ _); auto. destruct (observed b s); auto.
Qed.

(* The log written by one bounded step: nothing, or ETime T, EClock T (exactly
   one clock call, first), then only handler-level entries; when the clock
   reports a lag above the tolerance nothing follows the clock call and the
   result is OutOfSync with that lag. *)
Theorem step_bounded_log b fuel ch s bound s' r t nd :
  step_bounded b fuel ch s bound = (s', r, t, nd) -> r <> RHang ->
  (log s' = log s /\ clockpos s' = clockpos s /\ t = None) \/
  exists T l, log s' = l ++ EClock T :: ETime T :: log s /\ forallb plain_entry l = true /\
              clockpos s' = S (clockpos s) /\
              (forall lag, over_tolerance b (nth (clockpos s) (bclock b) None) = Some lag ->
                           r = ROutOfSync lag /\ l = [] /\ terminated s' = true) /\
              (over_tolerance b (nth (clockpos s) (bclock b) None) = None -> forall lag, r <> ROutOfSync lag).
Proof.
  unfold step_bounded. destruct (terminated s && negb (bugF1 b)).
  { intros H _; injection H as <- <- <- <-. left; auto. }
  destruct (peek_next _ s (queue s) bound) as [nk q0].
  destruct nk as [k|]; [|intros H _; injection H as <- <- <- <-; left; auto].
  destruct (crit _ _ q0 bound k [] []) as [[q1 groups]|]; [|intros H NH; injection H as <- <- <- <-; congruence].
  set (s2 := fold_left spawn groups _).
  destruct (spawn_fold_q groups (set_queue (add_log (set_now (set_queue s q0) (fst k)) (ETime (fst k))) q1))
    as (_ & _ & _ & L2 & C2). fold s2 in L2, C2. cbn in L2, C2.
  unfold clock_sync.
  set (ans := nth (clockpos s2) (bclock b) None).
  assert (EA : ans = nth (clockpos s) (bclock b) None) by (unfold ans; rewrite C2; reflexivity).
  destruct (over_tolerance b ans) as [lag|] eqn:EO.
  { intros H _; injection H as <- <- <- <-. right. exists (fst k), []. cbn. rewrite L2, C2.
    split; [reflexivity|]. split; [reflexivity|]. split; [reflexivity|]. split.
    - intros lag' E. rewrite <- EA, EO in E. injection E as <-. auto.
    - intros E. rewrite <- EA, EO in E. discriminate. }
  destruct (sim_run b fuel ch _) as [[s4 r4] nd4] eqn:ER. intros H _; injection H as <- <- <- <-.
  right. revert ER. unfold sim_run. cbn [terminated set_clockpos add_log set_log].
  destruct (terminated s2) eqn:T2.
  { intros X; injection X as <- <- <-. exists (fst k), []. cbn. rewrite L2, C2.
    split; [reflexivity|]. split; [reflexivity|]. split; [reflexivity|]. split.
    - intros lag E; rewrite <- EA, EO in E; discriminate.
    - intros _ lag; discriminate. }
  destruct (net_run b fuel ch _ false) as [[sx ndx]|] eqn:EX.
  2:{ intros X; injection X as <- <- <-. exists (fst k), []. cbn. rewrite L2, C2.
      split; [reflexivity|]. split; [reflexivity|]. split; [reflexivity|]. split.
      - intros lag E; rewrite <- EA, EO in E; discriminate.
      - intros _ lag; discriminate. }
  apply net_run_frame in EX. destruct EX as [_ _ A3 _ [l [A5 A6]]]. cbn in A3, A5.
  intros X; injection X as <- <- <-. exists (fst k), l.
  assert (LG : log (if is_ok (classify b sx) then sx else set_terminated sx true) = log sx)
    by (destruct (is_ok (classify b sx)); reflexivity).
  assert (CP : clockpos (if is_ok (classify b sx) then sx else set_terminated sx true) = clockpos sx)
    by (destruct (is_ok (classify b sx)); reflexivity).
  rewrite LG, CP, A5, A3, L2, C2.
  split; [reflexivity|]. split; [exact A6|]. split; [reflexivity|]. split.
  - intros lag E; rewrite <- EA, EO in E; discriminate.
  - intros _ lag E. revert E. unfold classify. destruct (err sx) as [[? ?|?]|]; try discriminate.
    destruct (Z.eqb _ _); try discriminate. destruct (observed b sx); discriminate.
Qed.

(* init: synchronize(t0) is the first thing that happens after the time write *)
Theorem init_log b fuel ich s r nd :
  sim_init b fuel ich = (s, r, nd) ->
  exists l, log s = l ++ [EClock (bt0 b); ETime (bt0 b)] /\ forallb plain_entry l = true.
Proof.
  unfold sim_init, clock_sync. unfold sim_run. cbn [terminated init_state set_now add_log set_log set_clockpos].
  destruct (net_run b fuel ich _ false) as [[sx ndx]|] eqn:EX.
  - apply net_run_frame in EX. destruct EX as [_ _ _ _ [l [A5 A6]]]. cbn in A5.
    intros X; injection X as <- _ _. exists l. split; auto. destruct (is_ok _); cbn; auto.
  - intros X; injection X as <- _ _. exists []. cbn. auto.
Qed.
