(* SyncCell (util/sync_cell.rs) under the release/acquire + relaxed + fences memory model of
   Model/WMem.v: for the programs wprog_proved / rprog_proved, any initial value, any sequence of
   written values, any number of readers, any schedule and any choice of the messages the loads
   read, every value returned by try_read is a value the cell actually had (never torn), and
   successive results of one reader follow the write order and are never older than what that
   reader's view already contained. *)
Require Import NX.Base.Prelude NX.Base.ListX NX.Model.WMem.

Definition vle (u v : view) : Prop := vq u <= vq v /\ va u <= va v /\ vb u <= vb v.

Fixpoint desc (l : list nat) : Prop :=
  match l with
  | [] => True
  | x :: r => (match r with [] => True | y :: _ => y <= x end) /\ desc r
  end.

(* ---------------- invariants ---------------- *)
Definition vals_of (s : wstate) : list (Z * Z) :=
  whist s ++ match threads s with w :: _ => args w | [] => [] end.

Record MemOk (m : mem) (vals : list (Z * Z)) (k wp : nat) : Prop := {
  mo_lq : length (mq m) = 2 * k + 1 + (if Nat.leb 2 wp then 1 else 0);
  mo_la : length (ma m) = k + 1 + (if Nat.leb 4 wp then 1 else 0);
  mo_lb : length (mb m) = k + 1 + (if Nat.leb 5 wp then 1 else 0);
  mo_q : forall t g, nth_error (mq m) t = Some g ->
           mval g = Z.of_nat t /\
           forall j, t = 2 * j -> t <= vq (mview g) /\ j <= va (mview g) /\ j <= vb (mview g);
  mo_a : forall p g, nth_error (ma m) p = Some g ->
           (exists v, nth_error vals p = Some v /\ mval g = fst v) /\ 2 * p - 1 <= vq (mview g);
  mo_b : forall p g, nth_error (mb m) p = Some g ->
           (exists v, nth_error vals p = Some v /\ mval g = snd v) /\ 2 * p - 1 <= vq (mview g)
}.

Record WriterOk (w : thread) (m : mem) (k : nat) : Prop := {
  wo_pc : pc w <= 5;
  wo_idle : args w = [] -> pc w = 0;
  wo_cur : cur w = {| vq := length (mq m) - 1; va := length (ma m) - 1; vb := length (mb m) - 1 |};
  wo_reg : 1 <= pc w -> rget R0 (rv w) = Z.of_nat (2 * k);
  wo_frel : 3 <= pc w -> 2 * k + 1 <= vq (frel w)
}.

Record ReaderOk (r : thread) (m : mem) (vals whist : list (Z * Z)) : Prop := {
  ro_pc : pc r <= 6;
  ro_acq : vle (cur r) (acq r);
  ro_outs : forall t v, In (t, v) (outs r) ->
              (exists j, t = 2 * j /\ nth_error whist j = Some v) /\ t <= vq (cur r);
  ro_desc : desc (map fst (outs r));
  ro_1 : 1 <= pc r ->
         rget R0 (rv r) = Z.of_nat (tget R0 (rt r)) /\ tget R0 (rt r) <= vq (cur r) /\
         tget R0 (rt r) < length (mq m) /\
         (forall j, tget R0 (rt r) = 2 * j -> j <= va (cur r) /\ j <= vb (cur r)) /\
         (forall t v, In (t, v) (outs r) -> t <= tget R0 (rt r));
  ro_2 : 2 <= pc r -> exists j, tget R0 (rt r) = 2 * j;
  ro_3 : 3 <= pc r ->
         (forall j, tget R0 (rt r) = 2 * j -> j <= tget R1 (rt r)) /\
         (exists v, nth_error vals (tget R1 (rt r)) = Some v /\ rget R1 (rv r) = fst v) /\
         2 * tget R1 (rt r) - 1 <= vq (acq r);
  ro_4 : 4 <= pc r ->
         (forall j, tget R0 (rt r) = 2 * j -> j <= tget R2 (rt r)) /\
         (exists v, nth_error vals (tget R2 (rt r)) = Some v /\ rget R2 (rv r) = snd v) /\
         2 * tget R2 (rt r) - 1 <= vq (acq r);
  ro_5 : 5 <= pc r -> 2 * tget R1 (rt r) - 1 <= vq (cur r) /\ 2 * tget R2 (rt r) - 1 <= vq (cur r);
  ro_6 : 6 <= pc r ->
         rget R3 (rv r) = Z.of_nat (tget R3 (rt r)) /\
         2 * tget R1 (rt r) - 1 <= tget R3 (rt r) /\ 2 * tget R2 (rt r) - 1 <= tget R3 (rt r)
}.

Record WInv (s : wstate) : Prop := {
  wi_wp : wprog s = wprog_proved;
  wi_rp : rprog s = rprog_proved;
  wi_hist : whist s <> [];
  wi_body : exists w rs,
      threads s = w :: rs /\
      MemOk (wmem s) (vals_of s) (length (whist s) - 1) (pc w) /\
      WriterOk w (wmem s) (length (whist s) - 1) /\
      Forall (fun r => ReaderOk r (wmem s) (vals_of s) (whist s)) rs
}.

(* ---------------- small facts ---------------- *)
Lemma odd_false_even t : Z.odd (Z.of_nat t) = false -> exists j, t = 2 * j.
Proof.
  intros H. rewrite <- Z.negb_even in H. apply negb_false_iff in H. apply Z.even_spec in H.
  destruct H as (m & Hm). exists (Z.to_nat m). lia.
Qed.

Lemma nth_error_app_stable {A} (l l' : list A) i x : nth_error l i = Some x -> nth_error (l ++ l') i = Some x.
Proof. intros H. rewrite nth_error_app1; [exact H|]. apply nth_error_Some. congruence. Qed.

Lemma nth_error_snoc_inv {A} (l : list A) y i x :
  nth_error (l ++ [y]) i = Some x -> nth_error l i = Some x \/ (i = length l /\ x = y).
Proof.
  intros H. destruct (Nat.lt_ge_cases i (length l)) as [L|L].
  - rewrite nth_error_app1 in H by exact L. auto.
  - rewrite nth_error_app2 in H by exact L. destruct (i - length l) as [|n] eqn:E.
    + cbn in H. injection H as <-. right. split; [lia|reflexivity].
    + cbn in H. destruct n; discriminate.
Qed.

(* a reader's invariant survives growth of the memory and of the history *)
Lemma reader_mono r m m' vals whist whist' :
  ReaderOk r m vals whist ->
  length (mq m) <= length (mq m') ->
  (forall j v, nth_error whist j = Some v -> nth_error whist' j = Some v) ->
  ReaderOk r m' vals whist'.
Proof.
  intros [P A O D H1 H2 H3 H4 H5 H6] Hl Hh. constructor; auto.
  - intros t v Hin. destruct (O t v Hin) as ((j & E & Hj) & Hle). split; [eauto|exact Hle].
  - intros Hp. destruct (H1 Hp) as (E1 & E2 & E3 & E4 & E5). repeat split; auto. lia. apply E4; auto. apply E4; auto.
Qed.

Ltac fields :=
  cbn [rget rset g0 g1 g2 g3 tget tset h0 h1 h2 h3 pc rv rt cur acq frel args outs set_pc
       vjoin vsingle vget vq va vb mval mview mget mq ma mb] in *.
Ltac vtac := unfold vle in *; fields; lia.

(* ---------------- a reader's step ---------------- *)
Lemma reader_step_ok r m vals whist k wp c i th1 m1 :
  MemOk m vals k wp -> length whist = k + 1 ->
  (forall j, j < length whist -> nth_error vals j = nth_error whist j) ->
  ReaderOk r m vals whist ->
  nth_error rprog_proved (pc r) = Some i -> exec i r m c = Some (th1, m1) ->
  m1 = m /\ pc th1 < 7 /\ ReaderOk th1 m vals whist.
Proof.
  intros HM Hlw Hpre [P A O D H1 H2 H3 H4 H5 H6] Hi He.
  destruct r as [rpc rrv rrt rcur racq rfrel rargs routs]. fields.
  assert (Houts : forall bq, vq rcur <= bq -> forall t v, In (t, v) routs ->
                    (exists j, t = 2 * j /\ nth_error whist j = Some v) /\ t <= bq).
  { intros bq Hc t v Hin. destruct (O t v Hin) as (Hj & Hle). split; [exact Hj|lia]. }
  assert (Hkeep1 : 1 <= rpc -> forall bq ba bb, vq rcur <= bq -> va rcur <= ba -> vb rcur <= bb ->
            g0 rrv = Z.of_nat (h0 rrt) /\ h0 rrt <= bq /\ h0 rrt < length (mq m) /\
            (forall j, h0 rrt = 2 * j -> j <= ba /\ j <= bb) /\
            (forall t v, In (t, v) routs -> t <= h0 rrt)).
  { intros Hp bq ba bb Hq Ha Hb. destruct (H1 Hp) as (E1 & E2 & E3 & E4 & E5).
    split; [exact E1|]. split; [lia|]. split; [exact E3|]. split; [|exact E5].
    intros j Ej. destruct (E4 j Ej). lia. }
  destruct rpc as [|[|[|[|[|[|[|rpc]]]]]]]; try lia; unfold rprog_proved in Hi; cbn [nth_error] in Hi;
    injection Hi as <-; unfold exec in He; fields.
  - (* load seq, Acquire *)
    destruct (nth_error (mq m) (vq rcur + c)) as [g|] eqn:Eg; [|discriminate]. injection He as <- <-.
    destruct (mo_q _ _ _ _ HM _ _ Eg) as (Ev & Hview). pose proof (nth_error_Some (mq m) (vq rcur + c)) as Hlen.
    split; [reflexivity|]. split; [fields; lia|]. constructor; fields.
    + lia.
    + vtac.
    + apply Houts. lia.
    + exact D.
    + intros _. split; [exact Ev|]. split; [lia|]. split; [apply Hlen; congruence|]. split.
      * intros j Ej. destruct (Hview j Ej) as (_ & Ha & Hb). lia.
      * intros t v Hin. destruct (O t v Hin) as (_ & Hle). lia.
    + intros Hp; exfalso; lia.
    + intros Hp; exfalso; lia.
    + intros Hp; exfalso; lia.
    + intros Hp; exfalso; lia.
    + intros Hp; exfalso; lia.
  - (* odd sequence number: Err *)
    injection He as <- <-. split; [reflexivity|]. destruct (H1 ltac:(lia)) as (E1 & E2 & E3 & E4 & E5).
    destruct (Z.odd (g0 rrv)) eqn:Eo; (split; [fields; lia|]); constructor; fields; auto; try (intros Hp; exfalso; lia); try lia.
    intros _. apply odd_false_even. rewrite <- E1. exact Eo.
  - (* load secs, Relaxed *)
    destruct (nth_error (ma m) (va rcur + c)) as [g|] eqn:Eg; [|discriminate]. injection He as <- <-.
    destruct (mo_a _ _ _ _ HM _ _ Eg) as (Hv & Hview).
    split; [reflexivity|]. split; [fields; lia|]. destruct (H1 ltac:(lia)) as (E1 & E2 & E3 & E4 & E5).
    constructor; fields.
    + lia.
    + vtac.
    + apply Houts. lia.
    + exact D.
    + intros _. apply (Hkeep1 ltac:(lia)); lia.
    + intros _. apply H2. lia.
    + intros _. split; [intros j Ej; destruct (E4 j Ej); lia|]. split; [exact Hv|lia].
    + intros Hp; exfalso; lia.
    + intros Hp; exfalso; lia.
    + intros Hp; exfalso; lia.
  - (* load nanos, Relaxed *)
    destruct (nth_error (mb m) (vb rcur + c)) as [g|] eqn:Eg; [|discriminate]. injection He as <- <-.
    destruct (mo_b _ _ _ _ HM _ _ Eg) as (Hv & Hview).
    split; [reflexivity|]. split; [fields; lia|]. destruct (H1 ltac:(lia)) as (E1 & E2 & E3 & E4 & E5).
    destruct (H3 ltac:(lia)) as (F1 & F2 & F3).
    constructor; fields.
    + lia.
    + vtac.
    + apply Houts. lia.
    + exact D.
    + intros _. apply (Hkeep1 ltac:(lia)); lia.
    + intros _. apply H2. lia.
    + intros _. split; [exact F1|]. split; [exact F2|lia].
    + intros _. split; [intros j Ej; destruct (E4 j Ej); lia|]. split; [exact Hv|lia].
    + intros Hp; exfalso; lia.
    + intros Hp; exfalso; lia.
  - (* fence Acquire *)
    injection He as <- <-. split; [reflexivity|]. split; [fields; lia|].
    destruct (H3 ltac:(lia)) as (F1 & F2 & F3). destruct (H4 ltac:(lia)) as (G1 & G2 & G3).
    constructor; fields.
    + lia.
    + unfold vle. lia.
    + apply Houts. unfold vle in A. lia.
    + exact D.
    + intros _. unfold vle in A. apply (Hkeep1 ltac:(lia)); lia.
    + intros _. apply H2. lia.
    + intros _. auto.
    + intros _. auto.
    + intros _. lia.
    + intros Hp; exfalso; lia.
  - (* reload seq, Relaxed *)
    destruct (nth_error (mq m) (vq rcur + c)) as [g|] eqn:Eg; [|discriminate]. injection He as <- <-.
    destruct (mo_q _ _ _ _ HM _ _ Eg) as (Ev & Hview).
    split; [reflexivity|]. split; [fields; lia|].
    destruct (H3 ltac:(lia)) as (F1 & F2 & F3). destruct (H4 ltac:(lia)) as (G1 & G2 & G3).
    destruct (H5 ltac:(lia)) as (K1 & K2).
    constructor; fields.
    + lia.
    + vtac.
    + apply Houts. lia.
    + exact D.
    + intros _. apply (Hkeep1 ltac:(lia)); lia.
    + intros _. apply H2. lia.
    + intros _. split; [exact F1|]. split; [exact F2|lia].
    + intros _. split; [exact G1|]. split; [exact G2|lia].
    + intros _. lia.
    + intros _. split; [exact Ev|lia].
  - (* validation *)
    injection He as <- <-. split; [reflexivity|]. split; [fields; lia|].
    destruct (H1 ltac:(lia)) as (E1 & E2 & E3 & E4 & E5).
    destruct (H2 ltac:(lia)) as (j & Ej).
    destruct (H3 ltac:(lia)) as (F1 & (v1 & Hv1 & Ev1) & F3). destruct (H4 ltac:(lia)) as (G1 & (v2 & Hv2 & Ev2) & G3).
    destruct (H6 ltac:(lia)) as (L1 & L2 & L3).
    constructor; fields; try (intros Hp; exfalso; lia).
    + lia.
    + exact A.
    + intros t v Hin. destruct (Z.eqb_spec (g0 rrv) (g3 rrv)) as [Eq|Ne]; [|apply O; exact Hin].
      destruct Hin as [Hin|Hin]; [|apply O; exact Hin]. injection Hin as <- <-.
      assert (h0 rrt = h3 rrt) by lia.
      pose proof (F1 j Ej). pose proof (G1 j Ej).
      assert (Ep : h1 rrt = j) by lia. assert (Eq2 : h2 rrt = j) by lia.
      split; [|lia]. exists j. split; [exact Ej|].
      assert (Hjk : j < length whist).
      { pose proof (mo_lq _ _ _ _ HM). destruct (Nat.leb 2 wp); lia. }
      rewrite Ep in Hv1. rewrite Eq2 in Hv2. rewrite Hv1 in Hv2. injection Hv2 as <-.
      rewrite <- (Hpre j Hjk), Hv1, Ev1, Ev2. destruct v1; reflexivity.
    + destruct (Z.eqb (g0 rrv) (g3 rrv)); [|exact D]. cbn [map fst desc]. split; [|exact D].
      destruct routs as [|[t v] ro]; [exact I|]. cbn [map fst]. apply (E5 t v). left. reflexivity.
Qed.

(* ---------------- the writer's step ---------------- *)
Lemma view_eq a b c a' b' c' : a = a' -> b = b' -> c = c' -> {| vq := a; va := b; vb := c |} = {| vq := a'; va := b'; vb := c' |}.
Proof. intros -> -> ->. reflexivity. Qed.

Ltac veq := unfold vjoin, vsingle; fields; apply view_eq; lia.

Lemma writer_step_ok w m vals k c i th1 m1 a rest :
  MemOk m vals k (pc w) -> WriterOk w m k ->
  args w = a :: rest -> nth_error vals (k + 1) = Some a ->
  nth_error wprog_proved (pc w) = Some i -> exec i w m c = Some (th1, m1) ->
  length (mq m) <= length (mq m1) /\
  if Nat.eqb (pc th1) 6
  then MemOk m1 vals (k + 1) 0 /\
       WriterOk {| pc := 0; rv := rv th1; rt := rt th1; cur := cur th1; acq := acq th1; frel := frel th1;
                   args := rest; outs := outs th1 |} m1 (k + 1)
  else MemOk m1 vals k (pc th1) /\ WriterOk th1 m1 k /\ args th1 = a :: rest.
Proof.
  intros [Lq La Lb Mq Ma Mb] [P Idle Hcur Hreg Hfrel] Hargs Hval Hi He.
  destruct w as [wpc wrv wrt wcur wacq wfrel wargs wouts]. fields. subst wargs.
  destruct wpc as [|[|[|[|[|[|wpc]]]]]]; try lia; unfold wprog_proved in Hi; cbn [nth_error] in Hi;
    injection Hi as <-; unfold exec in He; fields; cbn [Nat.leb] in Lq, La, Lb.
  - (* load seq *)
    destruct (nth_error (mq m) (vq wcur + c)) as [g|] eqn:Eg; [|discriminate]. injection He as <- <-.
    pose proof (proj1 (nth_error_Some (mq m) (vq wcur + c)) ltac:(congruence)) as Hlt.
    rewrite Hcur in Eg, Hlt |- *. fields.
    assert (c = 0) by lia. subst c. destruct (Mq _ _ Eg) as (Ev & _).
    split; [lia|]. cbn [Nat.eqb pc]. split; [|split; [|reflexivity]].
    + constructor; cbn [Nat.leb]; auto.
    + constructor; fields.
      * lia.
      * discriminate.
      * veq.
      * intros _. rewrite Ev. f_equal. lia.
      * intros Hp; exfalso; lia.
  - (* store seq + 1 *)
    injection He as <- <-. fields. rewrite app_length. cbn [length].
    split; [lia|]. cbn [Nat.eqb pc]. split; [|split; [|reflexivity]].
    + constructor; fields; cbn [Nat.leb]; rewrite ?app_length; cbn [length].
      * lia.
      * lia.
      * lia.
      * intros t g Hg. apply nth_error_snoc_inv in Hg. destruct Hg as [Hg|[Et ->]]; [apply Mq; exact Hg|].
        fields. split; [|intros j Ej; lia]. cbn [eval]. fields. rewrite (Hreg ltac:(lia)). lia.
      * exact Ma.
      * exact Mb.
    + constructor; fields; rewrite ?app_length; cbn [length].
      * lia.
      * discriminate.
      * rewrite Hcur. veq.
      * intros _. apply Hreg. lia.
      * intros Hp; exfalso; lia.
  - (* fence Release *)
    injection He as <- <-. split; [lia|]. cbn [Nat.eqb pc]. split; [|split; [|reflexivity]].
    + constructor; cbn [Nat.leb]; auto.
    + constructor; fields.
      * lia.
      * discriminate.
      * exact Hcur.
      * intros _. apply Hreg. lia.
      * intros _. rewrite Hcur. fields. lia.
  - (* store secs *)
    injection He as <- <-. fields. split; [lia|]. cbn [Nat.eqb pc]. split; [|split; [|reflexivity]].
    + constructor; fields; cbn [Nat.leb]; rewrite ?app_length; cbn [length].
      * lia.
      * lia.
      * lia.
      * exact Mq.
      * intros p g Hg. apply nth_error_snoc_inv in Hg. destruct Hg as [Hg|[Et ->]]; [apply Ma; exact Hg|].
        fields. split.
        -- exists a. split; [rewrite Et, La; replace (k + 1 + 0) with (k + 1) by lia; exact Hval|reflexivity].
        -- pose proof (Hfrel ltac:(lia)). unfold vjoin, vsingle. fields. lia.
      * exact Mb.
    + constructor; fields; rewrite ?app_length; cbn [length].
      * lia.
      * discriminate.
      * rewrite Hcur. veq.
      * intros _. apply Hreg. lia.
      * intros _. apply Hfrel. lia.
  - (* store nanos *)
    injection He as <- <-. fields. split; [lia|]. cbn [Nat.eqb pc]. split; [|split; [|reflexivity]].
    + constructor; fields; cbn [Nat.leb]; rewrite ?app_length; cbn [length].
      * lia.
      * lia.
      * lia.
      * exact Mq.
      * exact Ma.
      * intros p g Hg. apply nth_error_snoc_inv in Hg. destruct Hg as [Hg|[Et ->]]; [apply Mb; exact Hg|].
        fields. split.
        -- exists a. split; [rewrite Et, Lb; replace (k + 1 + 0) with (k + 1) by lia; exact Hval|reflexivity].
        -- pose proof (Hfrel ltac:(lia)). unfold vjoin, vsingle. fields. lia.
    + constructor; fields; rewrite ?app_length; cbn [length].
      * lia.
      * discriminate.
      * rewrite Hcur. veq.
      * intros _. apply Hreg. lia.
      * intros _. apply Hfrel. lia.
  - (* store seq + 2, Release: the write is complete *)
    injection He as <- <-. fields. rewrite app_length. cbn [length].
    split; [lia|]. cbn [Nat.eqb pc]. split.
    + constructor; fields; cbn [Nat.leb]; rewrite ?app_length; cbn [length].
      * lia.
      * lia.
      * lia.
      * intros t g Hg. apply nth_error_snoc_inv in Hg. destruct Hg as [Hg|[Et ->]]; [apply Mq; exact Hg|].
        fields. rewrite Hcur. unfold vjoin, vsingle. fields. split.
        -- cbn [eval]. fields. rewrite (Hreg ltac:(lia)). lia.
        -- intros j Ej. lia.
      * exact Ma.
      * exact Mb.
    + constructor; fields; rewrite ?app_length; cbn [length].
      * lia.
      * reflexivity.
      * rewrite Hcur. veq.
      * intros Hp; exfalso; lia.
      * intros Hp; exfalso; lia.
Qed.

(* ---------------- every step preserves the invariant ---------------- *)
Lemma Forall_lupd {A} (P : A -> Prop) (l : list A) i x : Forall P l -> P x -> Forall P (lupd l i x).
Proof.
  intros H Hx. revert i. induction H as [|y r Hy Hr IH]; intros [|i]; cbn [lupd]; constructor; auto.
Qed.

Lemma wm_step_inv s t c s' : WInv s -> wm_step s t c = Some s' -> WInv s'.
Proof.
  intros [Hwp Hrp Hh (w & rs & Hth & HM & HW & HR)] Hstep.
  unfold wm_step in Hstep. rewrite Hth in Hstep.
  assert (Hlen : length (whist s) = (length (whist s) - 1) + 1).
  { destruct (whist s); [congruence|cbn [length]; lia]. }
  assert (Hvals : vals_of s = whist s ++ args w) by (unfold vals_of; rewrite Hth; reflexivity).
  destruct t as [|t']; cbn [nth_error] in Hstep.
  - (* the writer *)
    destruct (args w) as [|a rest] eqn:Ea; [discriminate|].
    rewrite Hwp in Hstep. destruct (nth_error wprog_proved (pc w)) as [i|] eqn:Ei; [|discriminate].
    destruct (exec i w (wmem s) c) as [[th1 m1]|] eqn:Ee; [|discriminate].
    assert (Hval : nth_error (vals_of s) (length (whist s) - 1 + 1) = Some a).
    { rewrite Hvals, <- Hlen, nth_error_app2, Nat.sub_diag by lia. reflexivity. }
    destruct (writer_step_ok w (wmem s) (vals_of s) _ c i th1 m1 a rest HM HW Ea Hval Ei Ee) as (Hmq & Hres).
    change (length wprog_proved) with 6 in Hstep.
    destruct (Nat.eqb (pc th1) 6); injection Hstep as <-.
    + destruct Hres as (HM' & HW'). constructor; cbn [wprog rprog whist wmem threads lupd]; auto.
      * intros E. apply app_eq_nil in E. destruct E; discriminate.
      * eexists _, rs. split; [reflexivity|].
        assert (Ev : forall wp rp, vals_of {| wprog := wp; rprog := rp; wmem := m1;
                                threads := {| pc := 0; rv := rv th1; rt := rt th1; cur := cur th1; acq := acq th1;
                                              frel := frel th1; args := rest; outs := outs th1 |} :: rs;
                                whist := whist s ++ [a] |} = vals_of s).
        { intros wp rp. unfold vals_of at 1. cbn [threads whist args]. rewrite Hvals, <- app_assoc. reflexivity. }
        rewrite Ev. rewrite app_length. cbn [length pc].
        replace (length (whist s) + 1 - 1) with (length (whist s) - 1 + 1) by lia.
        split; [exact HM'|]. split; [exact HW'|].
        eapply Forall_impl; [|exact HR]. intros r Hr. cbv beta in Hr |- *.
        eapply reader_mono; [exact Hr|exact Hmq|]. intros j v Hj. apply nth_error_app_stable. exact Hj.
    + destruct Hres as (HM' & HW' & Ha'). constructor; cbn [wprog rprog whist wmem threads lupd]; auto.
      exists th1, rs. split; [reflexivity|].
      assert (Ev : forall wp rp, vals_of {| wprog := wp; rprog := rp; wmem := m1; threads := th1 :: rs; whist := whist s |} = vals_of s).
      { intros wp rp. unfold vals_of at 1. cbn [threads whist]. rewrite Ha', Hvals. reflexivity. }
      rewrite Ev. split; [exact HM'|]. split; [exact HW'|].
      eapply Forall_impl; [|exact HR]. intros r Hr. cbv beta in Hr |- *.
      eapply reader_mono; [exact Hr|exact Hmq|auto].
  - (* a reader *)
    destruct (nth_error rs t') as [r|] eqn:Er; [|discriminate].
    rewrite Hrp in Hstep. destruct (nth_error rprog_proved (pc r)) as [i|] eqn:Ei; [|discriminate].
    destruct (exec i r (wmem s) c) as [[th1 m1]|] eqn:Ee; [|discriminate].
    assert (Hr : ReaderOk r (wmem s) (vals_of s) (whist s)).
    { rewrite Forall_forall in HR. apply HR. eapply nth_error_In; eauto. }
    assert (Hpre : forall j, j < length (whist s) -> nth_error (vals_of s) j = nth_error (whist s) j).
    { intros j Hj. rewrite Hvals. apply nth_error_app1. exact Hj. }
    destruct (reader_step_ok r (wmem s) (vals_of s) (whist s) _ _ c i th1 m1 HM Hlen Hpre Hr Ei Ee) as (-> & Hpc & Hr').
    change (length rprog_proved) with 7 in Hstep.
    destruct (Nat.ltb_spec (pc th1) 7); [|lia]. injection Hstep as <-.
    constructor; cbn [wprog rprog whist wmem threads lupd]; auto.
    exists w, (lupd rs t' th1). split; [reflexivity|].
    assert (Ev : forall wp rp, vals_of {| wprog := wp; rprog := rp; wmem := wmem s; threads := w :: lupd rs t' th1; whist := whist s |} = vals_of s).
    { intros wp rp. unfold vals_of at 1. cbn [threads whist]. rewrite Hvals. reflexivity. }
    rewrite Ev. split; [exact HM|]. split; [exact HW|]. apply Forall_lupd; assumption.
Qed.

Lemma wm_run_inv sched : forall s, WInv s -> WInv (wm_run s sched).
Proof.
  induction sched as [|[t c] r IH]; intros s HI; [exact HI|]. cbn [wm_run].
  destruct (wm_step s t c) as [s'|] eqn:E; [apply IH; eapply wm_step_inv; eauto|apply IH; exact HI].
Qed.

Lemma wm_init_inv v0 vals n : WInv (wm_init wprog_proved rprog_proved v0 vals n).
Proof.
  constructor; cbn [wm_init wprog rprog whist]; [reflexivity|reflexivity|discriminate|].
  eexists _, _. split; [reflexivity|]. cbn [length Nat.sub wmem]. split; [|split].
  - constructor.
    + reflexivity.
    + reflexivity.
    + reflexivity.
    + intros [|t] g Hg; cbn in Hg; [|destruct t; discriminate]. injection Hg as <-. cbn. split; [reflexivity|intros j Ej; lia].
    + intros [|t] g Hg; cbn in Hg; [|destruct t; discriminate]. injection Hg as <-. cbn. split; [|lia].
      exists v0. split; reflexivity.
    + intros [|t] g Hg; cbn in Hg; [|destruct t; discriminate]. injection Hg as <-. cbn. split; [|lia].
      exists v0. split; reflexivity.
  - constructor; cbn.
    + lia.
    + reflexivity.
    + reflexivity.
    + intros Hp; exfalso; lia.
    + intros Hp; exfalso; lia.
  - apply Forall_forall. intros r Hr. apply in_map_iff in Hr. destruct Hr as (x & <- & _).
    constructor; cbn; try (intros Hp; exfalso; lia).
    + lia.
    + unfold vle; cbn; lia.
    + intros t v [].
    + exact I.
Qed.

(* ---------------- the theorems ---------------- *)
Theorem wm_not_torn v0 vals n sched r t v :
  let s := wm_run (wm_init wprog_proved rprog_proved v0 vals n) sched in
  In r (tl (threads s)) -> In (t, v) (outs r) ->
  exists j, t = 2 * j /\ nth_error (whist s) j = Some v.
Proof.
  intros s Hr Hin. destruct (wm_run_inv sched _ (wm_init_inv v0 vals n)) as [_ _ _ (w & rs & Hth & _ & _ & HR)].
  fold s in Hth, HR. rewrite Hth in Hr. cbn [tl] in Hr. rewrite Forall_forall in HR.
  destruct (ro_outs _ _ _ _ (HR r Hr) t v Hin) as (Hj & _). exact Hj.
Qed.

Theorem wm_monotone v0 vals n sched r :
  let s := wm_run (wm_init wprog_proved rprog_proved v0 vals n) sched in
  In r (tl (threads s)) ->
  desc (map fst (outs r)) /\ forall t v, In (t, v) (outs r) -> t <= vq (cur r).
Proof.
  intros s Hr. destruct (wm_run_inv sched _ (wm_init_inv v0 vals n)) as [_ _ _ (w & rs & Hth & _ & _ & HR)].
  fold s in Hth, HR. rewrite Hth in Hr. cbn [tl] in Hr. rewrite Forall_forall in HR.
  split; [exact (ro_desc _ _ _ _ (HR r Hr))|]. intros t v Hin.
  destruct (ro_outs _ _ _ _ (HR r Hr) t v Hin) as (_ & Hle). exact Hle.
Qed.

(* the history only grows, by the written values in order *)
Lemma wm_step_hist s t c s' : wm_step s t c = Some s' -> exists d, whist s' = whist s ++ d.
Proof.
  unfold wm_step. destruct (nth_error (threads s) t) as [th|]; [|discriminate]. destruct t.
  - destruct (args th) as [|a rest]; [discriminate|]. destruct (nth_error (wprog s) (pc th)); [|discriminate].
    destruct (exec _ _ _ _) as [[th1 m1]|]; [|discriminate].
    destruct (Nat.eqb _ _); intros H; injection H as <-; cbn [whist]; [exists [a]|exists []; rewrite app_nil_r]; reflexivity.
  - destruct (nth_error (rprog s) (pc th)); [|discriminate]. destruct (exec _ _ _ _) as [[th1 m1]|]; [|discriminate].
    intros H; injection H as <-. exists []. cbn [whist]. rewrite app_nil_r. reflexivity.
Qed.

Theorem wm_hist_prefix sched : forall s, exists d, whist (wm_run s sched) = whist s ++ d.
Proof.
  induction sched as [|[t c] r IH]; intros s; [exists []; rewrite app_nil_r; reflexivity|]. cbn [wm_run].
  destruct (wm_step s t c) as [s'|] eqn:E; [|apply IH].
  destruct (wm_step_hist _ _ _ _ E) as (d1 & E1). destruct (IH s') as (d2 & E2).
  exists (d1 ++ d2). rewrite E2, E1, app_assoc. reflexivity.
Qed.
