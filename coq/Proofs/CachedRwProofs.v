Require Import NX.Base.Prelude NX.Base.ListX NX.Model.CachedRw.

(* a cache taken at the current epoch equals the shared value, unless it was
   used as a scratchpad since; epochs of caches never exceed the shared one *)
Definition crw_inv (s : crw) : Prop :=
  forall i v e, nth_error (clones s) i = Some (v, e) -> e <= shepoch s.

Lemma crw_step_inv s o : crw_inv s -> crw_inv (fst (crw_step s o)).
Proof.
  intros HI. destruct o as [i|i x|i x|i]; cbn [crw_step fst].
  - unfold crw_clone. destruct (nth_error (clones s) i) as [c|] eqn:E; auto.
    intros j v e Hj. cbn in Hj. destruct (Nat.lt_ge_cases j (length (clones s))) as [L|L].
    + rewrite nth_error_app1 in Hj by auto. eapply HI; eauto.
    + rewrite nth_error_app2 in Hj by auto. destruct (j - length (clones s)) as [|[|k]]; cbn in Hj; try discriminate.
      injection Hj as ->. cbn. eapply HI; eauto.
  - unfold crw_write. destruct (nth_error (clones s) i); auto. intros j v e Hj. cbn in *. specialize (HI j v e Hj). lia.
  - unfold crw_scratch. destruct (nth_error (clones s) i) as [c|] eqn:E; auto.
    destruct (sync s c) as [v e] eqn:ES. cbn. intros j v' e' Hj. cbn in Hj.
    destruct (Nat.eq_dec i j) as [<-|NE].
    + rewrite nth_error_lupd_eq in Hj by (apply nth_error_Some; congruence). injection Hj as <- <-.
      unfold sync in ES. destruct c as [cv ce]. destruct (Nat.eqb_spec (shepoch s) (snd (cv, ce))); injection ES as <- <-; cbn in *; [eapply HI; eauto|lia].
    + rewrite nth_error_lupd_ne in Hj by auto. eapply HI; eauto.
  - unfold crw_read. destruct (nth_error (clones s) i) as [c|] eqn:E; auto.
    destruct (sync s c) as [v e] eqn:ES. cbn. intros j v' e' Hj. cbn in Hj.
    destruct (Nat.eq_dec i j) as [<-|NE].
    + rewrite nth_error_lupd_eq in Hj by (apply nth_error_Some; congruence). injection Hj as <- <-.
      unfold sync in ES. destruct c as [cv ce]. destruct (Nat.eqb_spec (shepoch s) (snd (cv, ce))); injection ES as <- <-; cbn in *; [eapply HI; eauto|lia].
    + rewrite nth_error_lupd_ne in Hj by auto. eapply HI; eauto.
Qed.

(* After a write through ANY clone, the next synchronising access (read or
   write_scratchpad) through EVERY clone, including the writer, starts from
   the updated shared value. *)
Theorem write_reaches_every_clone s i x j c :
  crw_inv s -> nth_error (clones s) i <> None -> nth_error (clones s) j = Some c ->
  let s' := crw_write s i x in
  snd (crw_read s' j) = shval s ++ [x] /\
  forall y, snd (crw_scratch s' j y) = (shval s ++ [x]) ++ [y].
Proof.
  intros HI Hi Hj s'. unfold s', crw_write. destruct (nth_error (clones s) i); [|congruence].
  unfold crw_read, crw_scratch; cbn [clones shval shepoch]. rewrite Hj. destruct c as [v e].
  pose proof (HI j v e Hj) as L. unfold sync; cbn [shepoch shval snd].
  destruct (Nat.eqb_spec (S (shepoch s)) e) as [E|E]; [lia|]. cbn. auto.
Qed.

(* Scratchpad edits never reach the shared value nor any other clone. *)
Theorem scratch_is_local s i x :
  let s' := fst (crw_scratch s i x) in
  shval s' = shval s /\ shepoch s' = shepoch s /\
  forall j, j <> i -> nth_error (clones s') j = nth_error (clones s) j.
Proof.
  unfold crw_scratch. destruct (nth_error (clones s) i) as [c|]; [|cbn; auto].
  destruct (sync s c) as [v e]. cbn. repeat split; auto. intros j NE. apply nth_error_lupd_ne. auto.
Qed.

Lemma crw_exec_inv ops : forall s, crw_inv s -> crw_inv (crw_exec s ops).
Proof. induction ops as [|o r IH]; intros s HI; cbn; auto. apply IH, crw_step_inv; auto. Qed.

Lemma crw_new_inv v : crw_inv (crw_new v).
Proof. intros i w e H. destruct i as [|[|i]]; cbn in H; try discriminate. injection H as <- <-. cbn. lia. Qed.
