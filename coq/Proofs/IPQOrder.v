(* Order facts on the unique keys (key, epoch) of util/indexed_priority_queue.rs and
   list-update facts used by the heap proofs. *)
Require Import NX.Base.Prelude NX.Base.ListX NX.Model.IPQ.
Require Import ZifyBool.

Definition ult (a b : hitem) : Prop := ukey_ltb a b = true.
Definition ule (a b : hitem) : Prop := ukey_leb a b = true.

Lemma ult_iff a b :
  ult a b <->
  (fst (hkey a) < fst (hkey b))%Z \/
  (fst (hkey a) = fst (hkey b) /\ (snd (hkey a) < snd (hkey b))%N) \/
  (hkey a = hkey b /\ (hepoch a < hepoch b)%N).
Proof.
  unfold ult, ukey_ltb. rewrite orb_true_iff, andb_true_iff, key_ltb_iff, key_eqb_iff, N.ltb_lt.
  unfold key_lt. tauto.
Qed.

Lemma ule_iff a b : ule a b <-> ~ ult b a.
Proof. unfold ule, ult, ukey_leb. destruct (ukey_ltb b a); cbn; intuition congruence. Qed.

Lemma ukey_ltb_false a b : ukey_ltb a b = false <-> ule b a.
Proof. unfold ule, ukey_leb. destruct (ukey_ltb a b); cbn; intuition congruence. Qed.

Lemma key_eq_parts (a b : key) : a = b <-> fst a = fst b /\ snd a = snd b.
Proof. destruct a, b; cbn; split; [intros H; injection H; auto|intros [-> ->]; auto]. Qed.

Ltac order_unfold :=
  repeat match goal with
  | H : ule _ _ |- _ => rewrite ule_iff in H
  | |- ule _ _ => rewrite ule_iff
  end;
  repeat match goal with
  | H : context [ult _ _] |- _ => rewrite ult_iff in H
  | |- context [ult _ _] => rewrite ult_iff
  end;
  repeat match goal with
  | H : context [@eq key _ _] |- _ => rewrite key_eq_parts in H
  | |- context [@eq key _ _] => rewrite key_eq_parts
  end.

Lemma ule_refl a : ule a a.
Proof. order_unfold. lia. Qed.

Lemma ule_trans a b c : ule a b -> ule b c -> ule a c.
Proof. intros H1 H2. order_unfold. lia. Qed.

Lemma ult_ule a b : ult a b -> ule a b.
Proof. intros H. order_unfold. lia. Qed.

Lemma ult_ule_trans a b c : ult a b -> ule b c -> ult a c.
Proof. intros H1 H2. order_unfold. lia. Qed.

Lemma ule_ult_trans a b c : ule a b -> ult b c -> ult a c.
Proof. intros H1 H2. order_unfold. lia. Qed.

Lemma ule_total a b : ule a b \/ ult b a.
Proof. rewrite ule_iff. destruct (ukey_ltb b a) eqn:E; [right; exact E|left; unfold ult; congruence]. Qed.

(* two items that are below each other agree on key and epoch *)
Lemma ule_antisym a b : ule a b -> ule b a -> hkey a = hkey b /\ hepoch a = hepoch b.
Proof. intros H1 H2. order_unfold. lia. Qed.

Lemma ule_key a b : ule a b -> key_le (hkey a) (hkey b).
Proof.
  intros H. unfold key_le, key_lt. order_unfold.
  destruct (Z.lt_trichotomy (fst (hkey a)) (fst (hkey b))) as [?|[?|?]]; [lia| |lia].
  destruct (N.lt_trichotomy (snd (hkey a)) (snd (hkey b))) as [?|[?|?]]; [lia| |lia].
  right. tauto.
Qed.

(* ---------------- upd = bounds check + lupd ---------------- *)
Lemma upd_lupd {A} (l : list A) i x :
  upd l i x = if Nat.ltb i (length l) then Some (lupd l i x) else None.
Proof.
  revert i; induction l as [|y r IH]; intros [|i]; cbn [upd lupd length]; auto.
  rewrite IH. change (Nat.ltb (S i) (S (length r))) with (Nat.ltb i (length r)).
  destruct (Nat.ltb i (length r)); reflexivity.
Qed.

Lemma upd_some {A} (l : list A) i x : i < length l -> upd l i x = Some (lupd l i x).
Proof. intros H. rewrite upd_lupd. destruct (Nat.ltb_spec i (length l)); [reflexivity|lia]. Qed.

Lemma nth_error_lupd {A} (l : list A) i j x :
  nth_error (lupd l i x) j = if Nat.eqb j i then (if Nat.ltb i (length l) then Some x else None) else nth_error l j.
Proof.
  destruct (Nat.eqb_spec j i) as [->|Hne].
  - destruct (Nat.ltb_spec i (length l)) as [H|H].
    + apply nth_error_lupd_eq; exact H.
    + apply nth_error_None. rewrite lupd_length. exact H.
  - apply nth_error_lupd_ne. congruence.
Qed.

Lemma nth_error_some_lt {A} (l : list A) i x : nth_error l i = Some x -> i < length l.
Proof. intros H. apply nth_error_Some. congruence. Qed.

Lemma nth_error_removelast {A} (l : list A) i :
  nth_error (removelast l) i = if Nat.ltb i (length l - 1) then nth_error l i else None.
Proof.
  revert i; induction l as [|x r IH]; intros i.
  - cbn. destruct i; reflexivity.
  - destruct r as [|y r'].
    + cbn. destruct i; reflexivity.
    + change (removelast (x :: y :: r')) with (x :: removelast (y :: r')).
      destruct i as [|i]; [reflexivity|].
      cbn [nth_error]. rewrite IH. cbn [length].
      replace (S (S (length r')) - 1) with (S (length r')) by lia.
      replace (S (length r') - 1) with (length r') by lia.
      change (Nat.ltb (S i) (S (length r'))) with (Nat.ltb i (length r')). reflexivity.
Qed.

Lemma removelast_length {A} (l : list A) : length (removelast l) = length l - 1.
Proof.
  induction l as [|x r IH]; [reflexivity|].
  destruct r as [|y r']; [reflexivity|].
  change (removelast (x :: y :: r')) with (x :: removelast (y :: r')).
  cbn [length] in *. lia.
Qed.

Lemma last_nth_error {A} (l : list A) d : l <> [] -> nth_error l (length l - 1) = Some (last l d).
Proof.
  induction l as [|x r IH]; [congruence|]. intros _.
  destruct r as [|y r']; [reflexivity|].
  change (last (x :: y :: r') d) with (last (y :: r') d).
  cbn [length] in *. replace (S (S (length r')) - 1) with (S (length r')) by lia.
  cbn [nth_error]. rewrite <- IH by congruence. f_equal. lia.
Qed.

(* parent / children arithmetic *)
Definition parent (i : nat) : nat := Nat.div (i - 1) 2.

Lemma parent_spec i : 0 < i -> exists r, r < 2 /\ i = 2 * parent i + 1 + r.
Proof.
  intros H. unfold parent. exists ((i - 1) mod 2).
  pose proof (Nat.div_mod (i - 1) 2 ltac:(lia)). pose proof (Nat.mod_upper_bound (i - 1) 2 ltac:(lia)). lia.
Qed.

Lemma parent_lt i : 0 < i -> parent i < i.
Proof. intros H. destruct (parent_spec i H) as (r & Hr & E). lia. Qed.

Lemma parent_child i c : 0 < i -> (parent i = c <-> i = 2 * c + 1 \/ i = 2 * c + 2).
Proof.
  intros H. destruct (parent_spec i H) as (r & Hr & E). split; [intros <-; lia|].
  intros [E2|E2]; lia.
Qed.
