(* injector.rs: the `is_empty` flag is exact, no bucket is empty or exceeds the capacity, tasks are conserved. *)
Require Import NX.Base.Prelude NX.Base.ListX NX.Model.Injector.

(* buckets pushed by the worker are non-empty and within capacity (Bucket::from_iter takes at most
   CAPACITY tasks of a non-empty drain) *)
Definition op_ok (cap : nat) (o : inj_op) : Prop :=
  match o with JPushBucket b => b <> [] /\ length b <= cap | _ => True end.

Definition inj_inv (cap : nat) (s : injector) : Prop :=
  (iflag s = true <-> ibk s = []) /\ Forall (fun b => b <> [] /\ length b <= cap) (ibk s).

Lemma inj_inv_new cap : inj_inv cap inj_new.
Proof. split; [cbn; tauto|constructor]. Qed.

Lemma inj_step_inv cap s o : 1 <= cap -> inj_inv cap s -> op_ok cap o -> inj_inv cap (fst (inj_step cap s o)).
Proof.
  intros Hc [Hf Hb] Ho. destruct o as [t|b| |]; cbn [inj_step fst].
  - unfold inj_insert. destruct (ibk s) as [|b r] eqn:E.
    + split; cbn; [split; discriminate|]. constructor; [split; [discriminate|cbn; lia]|constructor].
    + inversion Hb as [|? ? [Hb1 Hb2] Hr]; subst.
      assert (Ff : iflag s = false) by (destruct (iflag s); auto; destruct Hf as [Hf _]; discriminate (Hf eq_refl)).
      destruct (Nat.ltb_spec (length b) cap).
      * split; cbn; [rewrite Ff; split; discriminate|].
        constructor; auto. split; [destruct b; discriminate|rewrite app_length; cbn; lia].
      * split; cbn; [rewrite Ff; split; discriminate|].
        constructor; [split; [discriminate|cbn; lia]|]. apply Forall_app. split; auto.
  - unfold inj_push_bucket. cbn in Ho. split; cbn.
    + destruct (ibk s) eqn:E; cbn; [split; discriminate|].
      assert (Ff : iflag s = false) by (destruct (iflag s); auto; destruct Hf as [Hf _]; discriminate (Hf eq_refl)).
      rewrite Ff. split; [discriminate|]. intros F. destruct l; discriminate.
    + apply Forall_app. split; auto.
  - destruct s as [bk fl]. unfold inj_pop, inj_inv in *. cbn [ibk iflag] in *.
    destruct fl; cbn [fst]; [split; [exact Hf|exact Hb]|].
    destruct (rev bk) as [|b r] eqn:Er; cbn [fst ibk iflag]; [split; [tauto|constructor]|].
    assert (E : bk = rev r ++ [b]) by (rewrite <- (rev_involutive bk), Er; reflexivity).
    rewrite E in Hb. apply Forall_app in Hb. destruct Hb as [Hb1 _].
    split; auto. destruct r as [|c r]; cbn; [tauto|]. split; [discriminate|].
    intros F. apply (f_equal (@length _)) in F. rewrite app_length in F. cbn in F. lia.
  - split; auto.
Qed.

Theorem inj_run_inv cap ops : 1 <= cap -> Forall (op_ok cap) ops ->
  inj_inv cap (fst (inj_run cap inj_new ops)).
Proof.
  intros Hc. generalize (inj_inv_new cap). generalize inj_new. induction ops as [|o r IH]; intros s I Ho; cbn [inj_run]; [exact I|].
  inversion Ho as [|? ? Ho1 Ho2]; subst.
  pose proof (inj_step_inv cap s o Hc I Ho1) as I1.
  destruct (inj_step cap s o) as [s1 x]. cbn [fst] in I1.
  specialize (IH s1 I1 Ho2). destruct (inj_run cap s1 r) as [s2 xs]. exact IH.
Qed.

(* is_empty() answers exactly "no task is stored" *)
Theorem inj_flag_exact cap ops : 1 <= cap -> Forall (op_ok cap) ops ->
  let s := fst (inj_run cap inj_new ops) in iflag s = true <-> inj_tasks s = [].
Proof.
  intros Hc Ho s. destruct (inj_run_inv cap ops Hc Ho) as [Hf Hb]. fold s in Hf, Hb.
  rewrite Hf. unfold inj_tasks. split; [intros ->; reflexivity|].
  intros E. destruct (ibk s) as [|b r]; auto. inversion Hb as [|? ? [Hb1 _] _]; subst.
  cbn in E. destruct b; [contradiction|discriminate].
Qed.

(* pop_bucket returns None exactly when nothing is stored, otherwise a non-empty bucket, and the stored
   tasks are those stored before minus the returned ones *)
Theorem inj_pop_spec cap s : inj_inv cap s ->
  match inj_pop s with
  | (s', None) => inj_tasks s = [] /\ s' = s
  | (s', Some b) => b <> [] /\ Permutation (inj_tasks s) (b ++ inj_tasks s')
  end.
Proof.
  destruct s as [bk fl]. unfold inj_inv, inj_pop, inj_tasks. cbn [ibk iflag]. intros [Hf Hb].
  destruct fl.
  - split; auto. rewrite (proj1 Hf eq_refl). reflexivity.
  - destruct (rev bk) as [|b r] eqn:Er.
    + exfalso. assert (E : bk = []) by (rewrite <- (rev_involutive bk), Er; reflexivity).
      pose proof (proj2 Hf E). discriminate.
    + assert (E : bk = rev r ++ [b]) by (rewrite <- (rev_involutive bk), Er; reflexivity).
      rewrite E in Hb. apply Forall_app in Hb. destruct Hb as [_ Hb2]. inversion Hb2 as [|? ? [Hb3 _] _]; subst.
      split; auto. cbn [ibk]. rewrite concat_app. cbn. rewrite app_nil_r.
      apply Permutation_app_comm.
Qed.

Theorem inj_insert_spec cap s t : Permutation (inj_tasks (inj_insert cap s t)) (t :: inj_tasks s).
Proof.
  unfold inj_insert, inj_tasks. destruct (ibk s) as [|b r]; cbn [ibk concat]; [cbn; auto|].
  destruct (length b <? cap); cbn [ibk concat app].
  - rewrite <- app_assoc. cbn [app]. symmetry. apply Permutation_middle.
  - rewrite concat_app. cbn [concat]. rewrite app_nil_r. constructor. apply Permutation_app_comm.
Qed.

Theorem inj_push_spec s b : inj_tasks (inj_push_bucket s b) = inj_tasks s ++ b.
Proof. unfold inj_push_bucket, inj_tasks; cbn. rewrite concat_app. cbn. rewrite app_nil_r. reflexivity. Qed.
