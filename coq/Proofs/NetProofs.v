(* Message-passing layer: the in-flight counter equals the number of queued
   messages in every reachable state; what the run classification means;
   every model is initialised exactly once before it handles anything. *)
Require Import NX.Base.Prelude NX.Base.ListX NX.Model.PQ NX.Model.Sink NX.Model.Sim.
Require Import NX.Proofs.SimBasic.

Fixpoint total_len {A} (l : list (list A)) : nat :=
  match l with [] => 0 | q :: r => length q + total_len r end.

Lemma total_len_lupd {A} (l : list (list A)) : forall m old new,
  nth_error l m = Some old -> total_len (lupd l m new) + length old = total_len l + length new.
Proof.
  induction l as [|q r IH]; intros [|m] old new H; cbn in *; try discriminate.
  - injection H as ->. lia.
  - specialize (IH m old new H). lia.
Qed.

Definition count_ok (s : state) : Prop := inflight s = Z.of_nat (total_len (boxes s)).

Lemma deliver_reply_boxes s r :
  boxes (deliver_reply s r) = boxes s /\ inflight (deliver_reply s r) = inflight s /\
  err (deliver_reply s r) = err s.
Proof.
  unfold deliver_reply. destruct r as [[[[rt|] slot] v]|]; auto.
  destruct (nth_error _ _) as [y|]; auto. destruct (tfr y); auto.
Qed.

Lemma net_step_count b s l s' : count_ok s -> net_step b s l = Some s' -> count_ok s'.
Proof.
  unfold count_ok. intros HC. unfold net_step. destruct (err s); [discriminate|].
  destruct l as [t|t|t i].
  - unfold step_start. intros H.
    destruct (nth_error (tasks s) t) as [x|]; [|discriminate].
    destruct (tk x) as [m|]; [|discriminate]. destruct (tfr x); [discriminate|].
    destruct (tdone x); [discriminate|]. destruct (nth_error (bmodels b) m) as [sp|]; [|discriminate].
    destruct (tinit x).
    { injection H as <-. cbn. exact HC. }
    destruct (nth_error (boxes s) m) as [[|g rest]|] eqn:EB; try discriminate.
    assert (T : Z.of_nat (total_len (lupd (boxes s) m rest)) = (inflight s - 1)%Z).
    { pose proof (total_len_lupd (boxes s) m (g :: rest) rest EB) as L. cbn [length] in L. lia. }
    destruct (mkd g) as [key|r slot rep radd].
    + destruct (key_cancelled s key); injection H as <-; cbn; rewrite T; reflexivity.
    + destruct (nth rep (mrepliers sp) ([], 0%Z)) as [script c]. injection H as <-. cbn. rewrite T. reflexivity.
  - unfold step_op. intros H.
    destruct (nth_error (tasks s) t) as [x|]; [|discriminate].
    destruct (tfr x) as [f|]; [|discriminate].
    destruct (fpend f); [|discriminate].
    destruct (fwait f).
    2:{ destruct (opt_all _); [|discriminate]. destruct (task_model x); injection H as <-; cbn; exact HC. }
    destruct (frest f) as [|o rest].
    { injection H as <-.
      match goal with |- context [deliver_reply ?a ?r] => destruct (deliver_reply_boxes a r) as (-> & -> & _) end.
      destruct (tk x); cbn; exact HC. }
    destruct o; destruct (task_model x) as [mm|]; try discriminate H;
      try (break_match_hyp H; injection H as <-; cbn; exact HC).
    + destruct (sched_request _ _ _ _ _ _ _) as [[s1 code] k] eqn:ES.
      apply sched_request_frame in ES. destruct ES as (_ & _ & _ & _ & _ & _ & EB & EI & _).
      injection H as <-. cbn. rewrite EB, EI. exact HC.
    + injection H as <-. unfold cancel_key. destruct (nth slot (tkeys x) None); cbn; exact HC.
  - unfold step_deliver. intros H.
    destruct (nth_error (tasks s) t) as [x|]; [|discriminate].
    destruct (tfr x) as [f|]; [|discriminate].
    destruct (nth_error (fpend f) i) as [d|]; [|discriminate].
    destruct (dtgt d) as [m g|sk v].
    + destruct (nth_error (bmodels b) m) as [sp|]; [|discriminate].
      destruct (nth_error (boxes s) m) as [q|] eqn:EB; [|discriminate].
      assert (G : forall s0, boxes s0 = boxes s -> inflight s0 = inflight s ->
                  (if Nat.ltb (length q) (mcap sp)
                   then Some (set_inflight (set_boxes s0 (lupd (boxes s0) m (q ++ [g]))) (inflight s0 + 1)%Z)
                   else None) = Some s' -> inflight s' = Z.of_nat (total_len (boxes s'))).
      { intros s0 E1 E2 X. destruct (Nat.ltb _ _); [|discriminate]. injection X as <-. cbn. rewrite E1, E2.
        pose proof (total_len_lupd (boxes s) m q (q ++ [g]) EB) as L. rewrite app_length in L. cbn [length] in L. lia. }
      destruct (mplace sp).
      * eapply G; [| |exact H]; reflexivity.
      * eapply G; [| |exact H]; reflexivity.
      * destruct (dthrow d); injection H as <-; cbn; exact HC.
    + destruct (nth_error (sinks s) sk); injection H as <-; cbn; exact HC.
Qed.

Lemma net_run_count b fuel : forall ch s nd s' nd',
  count_ok s -> net_run b fuel ch s nd = Some (s', nd') -> count_ok s'.
Proof.
  induction fuel as [|f IH]; intros ch s nd s' nd' HI H; cbn [net_run] in H; [discriminate|].
  destruct (net_enabled b s) as [|l0 ls]; [injection H as <- <-; auto|].
  destruct ch as [|c r]; cbn in H;
    (destruct (net_step b s _) as [s1|] eqn:E; [|discriminate];
     eapply IH; [eapply net_step_count; eauto|eauto]).
Qed.

(* ---------------- meaning of the classification (C06) ---------------- *)

Lemma total_len_zero {A} (l : list (list A)) :
  total_len l = 0 <-> forall m q, nth_error l m = Some q -> q = [].
Proof.
  induction l as [|q r IH]; cbn.
  - split; auto. intros _ [|m] q H; discriminate.
  - split.
    + intros H [|m] q0 E; cbn in E.
      * injection E as <-. destruct q; [auto|cbn in H; lia].
      * apply (proj1 IH ltac:(lia) m q0 E).
    + intros H. rewrite (H 0 q eq_refl). cbn. apply IH. intros m q0 E. apply (H (S m) q0 E).
Qed.

Theorem classify_meaning b s :
  err s = None -> count_ok s ->
  (classify b s = ROk <-> forall m q, nth_error (boxes s) m = Some q -> q = []) /\
  (forall l, classify b s = RDeadlock l -> l = observed b s /\ l <> []) /\
  (forall n, classify b s = RMessageLoss n ->
     observed b s = [] /\ n = Z.of_nat (total_len (boxes s)) /\ n <> 0%Z).
Proof.
  intros HE HC. unfold classify. rewrite HE. unfold count_ok in HC. rewrite HC.
  destruct (Z.eqb_spec (Z.of_nat (total_len (boxes s))) 0) as [E|E].
  - split; [|split; intros; discriminate].
    split; [intros _|reflexivity]. apply total_len_zero. lia.
  - split; [|split].
    + split.
      * destruct (observed b s); discriminate.
      * intros H. exfalso. apply E. apply (proj2 (total_len_zero (boxes s))) in H. lia.
    + intros l H. destruct (observed b s) as [|o r] eqn:EO; [discriminate|]. injection H as <-. split; [auto|discriminate].
    + intros n H. destruct (observed b s) as [|o r]; [|discriminate]. injection H as <-. auto.
Qed.

(* the observed list: exactly the added models (all of them once sub-model
   observers are registered, i.e. bugF2 = false) with a non-empty mailbox, by
   qualified name and exact length, in registration order *)
Lemma observed_spec b s name n :
  In (name, n) (observed b s) <->
  exists m sp q, nth_error (bmodels b) m = Some sp /\ nth_error (boxes s) m = Some q /\
                 is_added sp = true /\ (is_top sp = true \/ bugF2 b = false) /\
                 q <> [] /\ name = mname b m /\ n = length q.
Proof.
  unfold observed. rewrite in_flat_map. split.
  - intros [m [_ H]]. destruct (nth_error (bmodels b) m) as [sp|] eqn:E1; [|destruct H].
    destruct (nth_error (boxes s) m) as [q|] eqn:E2; [|destruct H].
    destruct (is_added sp && (is_top sp || negb (bugF2 b)) && negb (Nat.eqb (length q) 0)) eqn:EC; [|destruct H].
    destruct H as [H|[]]. injection H as <- <-.
    apply andb_true_iff in EC. destruct EC as [EC E3]. apply andb_true_iff in EC. destruct EC as [E4 E5].
    exists m, sp, q. repeat split; auto.
    + apply orb_true_iff in E5. destruct E5 as [E5|E5]; auto. right. destruct (bugF2 b); auto; discriminate.
    + intros ->. discriminate.
  - intros (m & sp & q & E1 & E2 & E3 & E4 & E5 & -> & ->).
    exists m. split.
    + assert (L : m < length (bmodels b)) by (apply nth_error_Some; congruence).
      apply In_seqn. lia.
    + rewrite E1, E2, E3. cbn [andb].
      assert (X : is_top sp || negb (bugF2 b) = true) by (destruct E4 as [->| ->]; auto using orb_true_r).
      rewrite X. cbn [andb]. destruct q; [congruence|]. cbn. left. reflexivity.
Qed.

(* ---------------- deliveries of a send (C03) ---------------- *)

Definition delivery_of (c : conn) (v : Z) : delivery :=
  match ctgt c with
  | TgtModel m i => {| dtgt := DModel m {| minp := i; mval := (v + cadd c)%Z; mkd := KEvent None |}; dthrow := true |}
  | TgtSink sk => {| dtgt := DSink sk (v + cadd c)%Z; dthrow := true |}
  end.

(* one delivery per connection whose filter accepts the value, carrying the
   mapped value, in connection order; nothing else *)
Lemma conn_deliveries_spec cs v :
  conn_deliveries cs v = map (fun c => delivery_of c v) (filter (fun c => keep_ok (ckeep c) v) cs).
Proof.
  induction cs as [|c r IH]; cbn [conn_deliveries flat_map filter map]; auto.
  fold (conn_deliveries r v). rewrite IH. unfold delivery_of.
  destruct (keep_ok (ckeep c) v); [|reflexivity]. cbn [map]. destruct (ctgt c) eqn:E; cbn [app]; rewrite ?E; reflexivity.
Qed.

(* a start consumes exactly the head message of the model's own mailbox *)
Lemma start_pops_head b s t s' x m :
  step_start b s t = Some s' -> nth_error (tasks s) t = Some x -> tk x = TKModel m -> tinit x = false ->
  exists g rest, nth_error (boxes s) m = Some (g :: rest) /\ boxes s' = lupd (boxes s) m rest /\
                 inflight s' = (inflight s - 1)%Z.
Proof.
  unfold step_start. intros H H1 H2 H3. rewrite H1, H2, H3 in H.
  destruct (tfr x); [discriminate|]. destruct (tdone x); [discriminate|].
  destruct (nth_error (bmodels b) m) as [sp|]; [|discriminate].
  destruct (nth_error (boxes s) m) as [[|g rest]|]; try discriminate.
  exists g, rest. split; auto.
  destruct (mkd g) as [key|r slot rep radd].
  - destruct (key_cancelled s key); injection H as <-; cbn; auto.
  - destruct (nth rep (mrepliers sp) ([], 0%Z)). injection H as <-; cbn; auto.
Qed.

(* ---------------- quiescence (C04) ---------------- *)

Lemma enabled_complete b s t i s' :
  net_step b s (LDeliver t i) = Some s' -> t < length (tasks s) -> In (LDeliver t i) (net_enabled b s).
Proof.
  intros H L. unfold net_enabled. apply in_flat_map. exists t. split; [apply In_seqn; lia|].
  unfold enabled_of_task. apply in_or_app. right. apply in_or_app. right.
  pose proof H as H0. unfold net_step in H0. destruct (err s); [discriminate|].
  unfold step_deliver in H0.
  destruct (nth_error (tasks s) t) as [x|]; [|discriminate].
  destruct (tfr x) as [f|]; [|discriminate].
  destruct (nth_error (fpend f) i) as [d|] eqn:Ed; [|discriminate].
  apply filter_In. split.
  - apply in_map_iff. exists i. split; auto. apply In_seqn.
    assert (i < length (fpend f)) by (apply nth_error_Some; congruence). lia.
  - rewrite H. reflexivity.
Qed.

(* In a quiescent, failure-free state with all mailboxes empty no task is left
   in the middle of a send: every delivery of every port operation was made. *)
Theorem quiescent_no_pending_delivery b s :
  net_enabled b s = [] -> err s = None ->
  (forall m q, nth_error (boxes s) m = Some q -> q = []) ->
  (forall m sp, nth_error (bmodels b) m = Some sp -> 1 <= mcap sp) ->
  length (boxes s) = length (bmodels b) ->
  forall t x f, nth_error (tasks s) t = Some x -> tfr x = Some f ->
    (forall d m g, In d (fpend f) -> dtgt d = DModel m g -> m < length (bmodels b)) ->
    fpend f = [].
Proof.
  intros HQ HE HB HC HL t x f Ht Hf Hwf.
  destruct (fpend f) as [|d ds] eqn:EP; [reflexivity|]. exfalso.
  assert (L : t < length (tasks s)) by (apply nth_error_Some; congruence).
  assert (E : exists s', net_step b s (LDeliver t 0) = Some s').
  { unfold net_step. rewrite HE. unfold step_deliver. rewrite Ht, Hf, EP. cbn [nth_error].
    destruct (dtgt d) as [m g|sk v] eqn:ED.
    - assert (Lm : m < length (bmodels b)) by (eapply Hwf; [left; reflexivity|exact ED]).
      destruct (nth_error (bmodels b) m) as [sp|] eqn:E1; [|apply nth_error_None in E1; lia].
      destruct (nth_error (boxes s) m) as [q|] eqn:E2; [|apply nth_error_None in E2; lia].
      rewrite (HB m q E2). specialize (HC m sp E1).
      destruct (mplace sp).
      + destruct (Nat.ltb_spec (length (@nil msg)) (mcap sp)) as [X|X]; [eauto|cbn in X; lia].
      + destruct (Nat.ltb_spec (length (@nil msg)) (mcap sp)) as [X|X]; [eauto|cbn in X; lia].
      + destruct (dthrow d); eauto.
    - destruct (nth_error (sinks s) sk); eauto. }
  destruct E as [s' E]. pose proof (enabled_complete _ _ _ _ _ E L) as I. rewrite HQ in I. destruct I.
Qed.

(* ---------------- initialisation (C16) ---------------- *)

Fixpoint inits (m : nat) (l : list entry) : nat :=
  match l with
  | [] => 0
  | EInit m' _ :: r => (if Nat.eqb m m' then 1 else 0) + inits m r
  | _ :: r => inits m r
  end.

Fixpoint handled (m : nat) (l : list entry) : nat :=
  match l with
  | [] => 0
  | EHandler m' _ _ _ :: r => (if Nat.eqb m m' then 1 else 0) + handled m r
  | EReplier m' _ _ _ :: r => (if Nat.eqb m m' then 1 else 0) + handled m r
  | _ :: r => handled m r
  end.

Lemma set_task_same s t x : t < length (tasks s) -> nth_error (tasks (set_task s t x)) t = Some x.
Proof. intros L. unfold set_task, set_tasks; cbn [tasks]. apply nth_error_lupd_eq; auto. Qed.

Lemma set_task_other s t x t' : t <> t' -> nth_error (tasks (set_task s t x)) t' = nth_error (tasks s) t'.
Proof. intros NE. unfold set_task, set_tasks; cbn [tasks]. apply nth_error_lupd_ne; auto. Qed.

Lemma set_task_log s t x : log (set_task s t x) = log s.
Proof. reflexivity. Qed.

Definition is_init_entry (e : entry) : bool := match e with EInit _ _ => true | _ => false end.
Definition is_handler_entry (e : entry) : bool :=
  match e with EHandler _ _ _ _ | EReplier _ _ _ _ => true | _ => false end.

Definition entry_model (e : entry) : option nat :=
  match e with
  | EInit m _ | EHandler m _ _ _ | EReplier m _ _ _ | EReplies m _ => Some m
  | ESched m _ => m
  | _ => None
  end.

(* The first start of a model task runs its init - exactly then: it logs EInit,
   clears the flag and installs the init script; messages already queued stay. *)
Lemma start_runs_init b s t x m sp :
  nth_error (tasks s) t = Some x -> tk x = TKModel m -> tfr x = None -> tdone x = false ->
  tinit x = true -> nth_error (bmodels b) m = Some sp ->
  step_start b s t = Some (add_log (set_task s t (tset_tfr (tset_tinit x false)
                                     (Some (empty_frame (minit sp) 0 None)))) (EInit m (now s))).
Proof. intros H1 H2 H3 H4 H5 H6. unfold step_start. rewrite H1, H2, H3, H4, H6, H5. reflexivity. Qed.

(* A start on an initialised task never logs an init; it logs at most one
   handler entry, of the task's own model; a start on a non-initialised task
   never logs a handler entry and leaves the mailbox untouched. *)
Lemma start_log b s t s' x :
  step_start b s t = Some s' -> nth_error (tasks s) t = Some x ->
  (tinit x = true -> boxes s' = boxes s /\ exists m, tk x = TKModel m /\ log s' = EInit m (now s) :: log s) /\
  (tinit x = false -> log s' = log s \/
     exists e m, tk x = TKModel m /\ log s' = e :: log s /\ is_handler_entry e = true /\ entry_model e = Some m).
Proof.
  unfold step_start. intros H H1. rewrite H1 in H.
  destruct (tk x) as [m|] eqn:E2; [|discriminate]. destruct (tfr x); [discriminate|].
  destruct (tdone x); [discriminate|]. destruct (nth_error (bmodels b) m) as [sp|]; [|discriminate].
  destruct (tinit x).
  - injection H as <-. split; [intros _|discriminate]. split; [reflexivity|]. exists m. auto.
  - split; [discriminate|intros _].
    destruct (nth_error (boxes s) m) as [[|g rest]|]; try discriminate.
    destruct (mkd g) as [key|r slot rep radd].
    + destruct (key_cancelled s key); injection H as <-; [left; reflexivity|].
      right. eexists _, m. split; [reflexivity|]. split; [reflexivity|]. split; reflexivity.
    + destruct (nth rep (mrepliers sp) ([], 0%Z)). injection H as <-.
      right. eexists _, m. split; [reflexivity|]. split; [reflexivity|]. split; reflexivity.
Qed.

(* No other step logs an init or a handler entry. *)
Lemma other_steps_log b s l s' :
  net_step b s l = Some s' -> (forall t, l <> LStart t) ->
  exists added, log s' = added ++ log s /\
    forallb (fun e => negb (is_init_entry e) && negb (is_handler_entry e)) added = true.
Proof.
  intros H NS. unfold net_step in H. destruct (err s); [discriminate|].
  destruct l as [t|t|t i]; [exfalso; eapply NS; reflexivity| |].
  - unfold step_op in H.
    destruct (nth_error (tasks s) t) as [x|]; [|discriminate].
    destruct (tfr x) as [f|]; [|discriminate].
    destruct (fpend f); [|discriminate].
    destruct (fwait f).
    2:{ destruct (opt_all _); [|discriminate].
        destruct (task_model x); injection H as <-; [eexists [_]|exists []]; split; reflexivity. }
    destruct (frest f) as [|o rest].
    { injection H as <-. exists []. split; [|reflexivity]. cbn [app].
      match goal with |- log (deliver_reply ?a ?r) = _ => destruct (deliver_reply_frame a r) as [_ _ _ _ [l0 [E0 _]]] end.
      unfold deliver_reply. destruct (freply f) as [[[[rt|] slot] v]|]; destruct (tk x); cbn; auto;
        destruct (nth_error _ _) as [y|]; auto; destruct (tfr y); auto. }
    destruct o; destruct (task_model x) as [mm|]; try discriminate H;
      try (break_match_hyp H; injection H as <-; exists []; split; reflexivity).
    + destruct (sched_request _ _ _ _ _ _ _) as [[s1 code] k] eqn:ES.
      apply sched_request_frame in ES. destruct ES as (_ & _ & _ & _ & EL & _).
      injection H as <-. eexists [_]. cbn. rewrite EL. split; reflexivity.
    + injection H as <-. exists []. unfold cancel_key. destruct (nth slot (tkeys x) None); split; reflexivity.
  - unfold step_deliver in H. break_match_hyp H; injection H as <-; exists []; split; reflexivity.
Qed.

(* ---------------- query replies (C14) ---------------- *)

(* one request per connection whose filter accepts the value, addressed to that
   connection's replier with the mapped request, carrying the requester and
   consecutive slot numbers in CONNECTION ORDER *)
Lemma query_deliveries_spec t qs v : forall slot,
  query_deliveries t slot qs v =
  map (fun p : nat * qconn =>
         {| dtgt := DModel (qmodel (snd p)) {| minp := 0; mval := (v + qadd (snd p))%Z;
                                              mkd := KRequest (Some t) (fst p) (qrep (snd p)) (qradd (snd p)) |};
            dthrow := true |})
      (combine (seqn slot (length (filter (fun q => keep_ok (qkeep q) v) qs)))
               (filter (fun q => keep_ok (qkeep q) v) qs)).
Proof.
  induction qs as [|q r IH]; intros slot; cbn [query_deliveries filter]; [reflexivity|].
  destruct (keep_ok (qkeep q) v); [|apply IH].
  cbn [length seqn combine map fst snd]. f_equal. apply IH.
Qed.

(* the requester does not proceed while a reply is missing *)
Lemma query_waits_for_all b s t x f :
  nth_error (tasks s) t = Some x -> tfr x = Some f -> fpend f = [] -> fwait f <> [] ->
  opt_all (fwait f) = false -> step_op b s t = None.
Proof.
  intros H1 H2 H3 H4 H5. unfold step_op. rewrite H1, H2, H3.
  destruct (fwait f); [congruence|]. rewrite H5. reflexivity.
Qed.

(* when all replies are in, they are yielded in slot (= connection) order *)
Lemma query_yields_in_order b s t x f m :
  nth_error (tasks s) t = Some x -> tfr x = Some f -> fpend f = [] -> fwait f <> [] ->
  opt_all (fwait f) = true -> task_model x = Some m ->
  step_op b s t = Some (add_log (set_task s t (tset_tfr x (Some (fset_fwait f [])))) (EReplies m (opt_vals (fwait f)))).
Proof.
  intros H1 H2 H3 H4 H5 H6. unfold step_op. rewrite H1, H2, H3.
  destruct (fwait f) eqn:E; [congruence|]. rewrite H5, H6. reflexivity.
Qed.

(* a reply fills exactly the slot it is addressed to, with the replier's value *)
Lemma reply_fills_its_slot s rt slot v y f :
  nth_error (tasks s) rt = Some y -> tfr y = Some f ->
  nth_error (tasks (deliver_reply s (Some (Some rt, slot, v)))) rt =
  Some (tset_tfr y (Some (fset_fwait f (lupd (fwait f) slot (Some v))))).
Proof.
  intros H1 H2. unfold deliver_reply. rewrite H1, H2. apply set_task_same. apply nth_error_Some. congruence.
Qed.

(* ---------------- mailboxes only lose their head and gain at the tail (C02) -------- *)
Lemma net_step_mailbox_order b s l s' m q :
  net_step b s l = Some s' -> nth_error (boxes s) m = Some q ->
  exists q', nth_error (boxes s') m = Some q' /\
    (q' = q \/ (exists g, q = g :: q') \/ (exists g, q' = q ++ [g])).
Proof.
  intros H Hq. unfold net_step in H. destruct (err s); [discriminate|].
  assert (Lm : m < length (boxes s)) by (apply nth_error_Some; congruence).
  destruct l as [t|t|t i].
  - unfold step_start in H.
    destruct (nth_error (tasks s) t) as [x|]; [|discriminate].
    destruct (tk x) as [m0|]; [|discriminate]. destruct (tfr x); [discriminate|].
    destruct (tdone x); [discriminate|]. destruct (nth_error (bmodels b) m0) as [sp|]; [|discriminate].
    destruct (tinit x). { injection H as <-. cbn. eauto. }
    destruct (nth_error (boxes s) m0) as [[|g rest]|] eqn:EB; try discriminate.
    assert (G : exists q', nth_error (lupd (boxes s) m0 rest) m = Some q' /\
                (q' = q \/ (exists g0, q = g0 :: q') \/ (exists g0, q' = q ++ [g0]))).
    { destruct (Nat.eq_dec m0 m) as [->|NE].
      - rewrite nth_error_lupd_eq by auto. rewrite EB in Hq. injection Hq as <-.
        exists rest. split; [reflexivity|]. right. left. exists g. reflexivity.
      - rewrite nth_error_lupd_ne by auto. eauto. }
    destruct (mkd g) as [key|r slot rep radd].
    + destruct (key_cancelled s key); injection H as <-; cbn; exact G.
    + destruct (nth rep (mrepliers sp) ([], 0%Z)). injection H as <-; cbn; exact G.
  - assert (E : boxes s' = boxes s).
    { unfold step_op in H.
      destruct (nth_error (tasks s) t) as [x|]; [|discriminate].
      destruct (tfr x) as [f|]; [|discriminate]. destruct (fpend f); [|discriminate].
      destruct (fwait f).
      2:{ destruct (opt_all _); [|discriminate]. destruct (task_model x); injection H as <-; reflexivity. }
      destruct (frest f) as [|o rest].
      { injection H as <-.
        match goal with |- boxes (deliver_reply ?a ?r) = _ => destruct (deliver_reply_boxes a r) as (-> & _) end.
        destruct (tk x); reflexivity. }
      destruct o; destruct (task_model x) as [mm|]; try discriminate H;
        try (break_match_hyp H; injection H as <-; reflexivity).
      + destruct (sched_request _ _ _ _ _ _ _) as [[s1 code] k] eqn:ES.
        apply sched_request_frame in ES. destruct ES as (_ & _ & _ & _ & _ & _ & EB & _).
        injection H as <-. cbn. exact EB.
      + injection H as <-. unfold cancel_key. destruct (nth slot (tkeys x) None); reflexivity. }
    rewrite E. eauto.
  - unfold step_deliver in H.
    destruct (nth_error (tasks s) t) as [x|]; [|discriminate].
    destruct (tfr x) as [f|]; [|discriminate].
    destruct (nth_error (fpend f) i) as [d|]; [|discriminate].
    destruct (dtgt d) as [m0 g|sk v].
    + destruct (nth_error (bmodels b) m0) as [sp|]; [|discriminate].
      destruct (nth_error (boxes s) m0) as [q0|] eqn:EB; [|discriminate].
      assert (G : forall s0, boxes s0 = boxes s ->
                 (if Nat.ltb (length q0) (mcap sp)
                  then Some (set_inflight (set_boxes s0 (lupd (boxes s0) m0 (q0 ++ [g]))) (inflight s0 + 1)%Z)
                  else None) = Some s' ->
                 exists q', nth_error (boxes s') m = Some q' /\
                   (q' = q \/ (exists g0, q = g0 :: q') \/ (exists g0, q' = q ++ [g0]))).
      { intros s0 E1 X. destruct (Nat.ltb _ _); [|discriminate]. injection X as <-. cbn. rewrite E1.
        destruct (Nat.eq_dec m0 m) as [->|NE].
        - rewrite nth_error_lupd_eq by auto. rewrite EB in Hq. injection Hq as <-.
          exists (q0 ++ [g]). split; [reflexivity|]. right. right. exists g. reflexivity.
        - rewrite nth_error_lupd_ne by auto. eauto. }
      destruct (mplace sp).
      * eapply G; [|exact H]; reflexivity.
      * eapply G; [|exact H]; reflexivity.
      * destruct (dthrow d); injection H as <-; cbn; eauto.
    + destruct (nth_error (sinks s) sk); injection H as <-; cbn; eauto.
Qed.

(* a model task that is running a handler (or its init) does not start another
   message: one computation at a time per model (C05) *)
Lemma busy_task_cannot_start b s t x f :
  nth_error (tasks s) t = Some x -> tfr x = Some f -> step_start b s t = None.
Proof. intros H1 H2. unfold step_start. rewrite H1. destruct (tk x); auto. rewrite H2. reflexivity. Qed.

(* only the owner task of model m starts messages of mailbox m, and it is the
   task with index m: messages of m are consumed by step_start on a task whose
   tk is TKModel m *)
Lemma start_only_own_mailbox b s t s' x m' q :
  step_start b s t = Some s' -> nth_error (tasks s) t = Some x ->
  nth_error (boxes s) m' = Some q -> nth_error (boxes s') m' <> Some q -> tk x = TKModel m'.
Proof.
  unfold step_start. intros H H1 Hq NE. rewrite H1 in H.
  destruct (tk x) as [m|] eqn:E2; [|discriminate]. destruct (tfr x); [discriminate|].
  destruct (tdone x); [discriminate|]. destruct (nth_error (bmodels b) m) as [sp|]; [|discriminate].
  destruct (tinit x). { injection H as <-. cbn in NE. congruence. }
  destruct (nth_error (boxes s) m) as [[|g rest]|] eqn:EB; try discriminate.
  destruct (Nat.eq_dec m m') as [->|N]; [reflexivity|]. exfalso. apply NE.
  destruct (mkd g) as [key|r slot rep radd].
  - destruct (key_cancelled s key); injection H as <-; cbn; rewrite nth_error_lupd_ne by auto; auto.
  - destruct (nth rep (mrepliers sp) ([], 0%Z)). injection H as <-; cbn; rewrite nth_error_lupd_ne by auto; auto.
Qed.
