(* Basic facts about Model/Sim.v: scheduling requests, the sticky terminated
   flag, fatal results. *)
Require Import NX.Base.Prelude NX.Base.ListX NX.Model.PQ NX.Model.Sink NX.Model.Sim.

(* ---------------- scheduling requests (C08) ---------------- *)

Definition pzero (p : option Z) : bool := match p with Some x => Z.leb x 0 | None => false end.

Lemma pzero_false p : pzero p = false -> match p with Some x => (x > 0)%Z | None => True end.
Proof. destruct p as [x|]; cbn; auto. intros H. apply Z.leb_gt in H. lia. Qed.

(* The answer to a request: NullRepetitionPeriod (2) iff the period is checked
   and null; else InvalidScheduledTime (1) iff the deadline is not strictly
   after the current time; else accepted (0).  A rejected request changes
   nothing. *)
Lemma sched_request_code s origin d mk keyed period chk s' code k :
  sched_request s origin d mk keyed period chk = (s', code, k) ->
  code = (if chk && pzero period then 2%N
          else if Z.leb (dl_time d (now s)) (now s) then 1%N else 0%N) /\
  (code <> 0%N -> s' = s /\ k = None).
Proof.
  unfold sched_request. fold (pzero period).
  destruct (chk && pzero period).
  - intros H; injection H as <- <- <-. split; auto.
  - destruct (Z.leb (dl_time d (now s)) (now s)).
    + intros H; injection H as <- <- <-. split; auto.
    + destruct keyed; cbn; intros H; injection H as <- <- <-; split; auto; intros C; congruence.
Qed.

(* what an accepted request does: one new queue entry at the resolved deadline *)
Lemma sched_request_ok s origin d mk keyed period chk s' k :
  sched_request s origin d mk keyed period chk = (s', 0%N, k) ->
  let t := dl_time d (now s) in
  (t > now s)%Z /\
  items (queue s') = items (queue s) ++
     [{| ikey := (t, origin); iepoch := next_epoch (queue s);
         ival := {| aid := next_aid s; aop := mk k; akey := k; aperiod := period |} |}] /\
  now s' = now s /\ terminated s' = terminated s /\ boxes s' = boxes s /\ tasks s' = tasks s /\
  inflight s' = inflight s /\ err s' = err s /\ log s' = log s /\ sinks s' = sinks s /\
  clockpos s' = clockpos s /\
  (keyed = false -> k = None /\ cancelled s' = cancelled s) /\
  (keyed = true -> k = Some (length (cancelled s)) /\ cancelled s' = cancelled s ++ [false]).
Proof.
  unfold sched_request.
  destruct (chk && _); [discriminate|].
  destruct (Z.leb_spec (dl_time d (now s)) (now s)) as [L|L]; [discriminate|].
  destruct keyed; cbn; intros H; injection H as <- <-; cbn;
    repeat split; auto; try lia; try discriminate.
Qed.

(* ---------------- terminated is sticky (C11) ---------------- *)

Definition is_running (c : cmd) : bool :=
  match c with
  | CStep | CStepUntil _ | CProcEvent _ _ _ | CProcQuery _ _ _ | CProcSrc _ _ => true
  | _ => false
  end.

Lemma terminated_sticky b fuel s c ch :
  bugF1 b = false -> terminated s = true -> is_running c = true ->
  exec_cmd b fuel s c ch = (s, RTerminated, false).
Proof.
  intros HF HT HR. destruct c; try discriminate HR; cbn [exec_cmd].
  - unfold step_bounded. rewrite HT, HF. reflexivity.
  - rewrite HT, HF. reflexivity.
  - rewrite HT, HF. reflexivity.
  - rewrite HT, HF. reflexivity.
  - rewrite HT, HF. reflexivity.
Qed.

Definition is_fatal (r : res) : bool :=
  match r with
  | RDeadlock _ | RMessageLoss _ | RNoRecipient _ | RPanic _ _ | ROutOfSync _ => true
  | _ => false
  end.

Lemma classify_not_term b s : classify b s <> RTerminated.
Proof.
  unfold classify. destruct (err s) as [[m c|m]|]; try discriminate.
  destruct (Z.eqb _ _); try discriminate. destruct (observed b s); discriminate.
Qed.

(* ---------------- what the message-passing steps leave alone ---------------- *)

Ltac break_match_hyp H :=
  repeat match type of H with
         | context [match ?x with _ => _ end] =>
             let E := fresh "E" in destruct x eqn:E; try discriminate H
         end.

Definition plain_entry (e : entry) : bool :=
  match e with ETime _ | EClock _ => false | _ => true end.

(* frame: fields a net step / a scheduling request never touches *)
Record frame_eq (s s' : state) : Prop := {
  fe_now : now s' = now s;
  fe_term : terminated s' = terminated s;
  fe_clock : clockpos s' = clockpos s;
  fe_dkeys : dkeys s' = dkeys s;
  fe_log : exists l, log s' = l ++ log s /\ forallb plain_entry l = true
}.

Lemma frame_eq_refl s : frame_eq s s.
Proof. split; auto. exists []; auto. Qed.

Lemma frame_eq_trans a b c : frame_eq a b -> frame_eq b c -> frame_eq a c.
Proof.
  intros [A1 A2 A3 A4 [l1 [A5 A6]]] [B1 B2 B3 B4 [l2 [B5 B6]]]. split; try congruence.
  exists (l2 ++ l1). rewrite B5, A5, app_assoc. split; auto.
  rewrite forallb_app, B6, A6. reflexivity.
Qed.

Lemma sched_request_frame s origin d mk keyed period chk s' code k :
  sched_request s origin d mk keyed period chk = (s', code, k) ->
  now s' = now s /\ terminated s' = terminated s /\ clockpos s' = clockpos s /\
  dkeys s' = dkeys s /\ log s' = log s /\ err s' = err s /\ boxes s' = boxes s /\
  inflight s' = inflight s /\ tasks s' = tasks s /\ sinks s' = sinks s /\ qreply s' = qreply s.
Proof.
  unfold sched_request.
  destruct (chk && _); [intros H; injection H as <- <- <-; repeat split; auto|].
  destruct (Z.leb _ _); [intros H; injection H as <- <- <-; repeat split; auto|].
  destruct keyed; cbn; intros H; injection H as <- <- <-; cbn; repeat split; auto.
Qed.

Lemma frame_single s s' e : now s' = now s -> terminated s' = terminated s ->
  clockpos s' = clockpos s -> dkeys s' = dkeys s -> log s' = e :: log s -> plain_entry e = true ->
  frame_eq s s'.
Proof. intros. split; auto. exists [e]. split; auto. cbn. rewrite H4. reflexivity. Qed.

Lemma frame_nolog s s' : now s' = now s -> terminated s' = terminated s ->
  clockpos s' = clockpos s -> dkeys s' = dkeys s -> log s' = log s -> frame_eq s s'.
Proof. intros. split; auto. exists []. split; auto. Qed.

Lemma deliver_reply_frame s r : frame_eq s (deliver_reply s r).
Proof.
  unfold deliver_reply. destruct r as [[[[rt|] slot] v]|]; try apply frame_eq_refl.
  - destruct (nth_error _ _) as [y|]; [|apply frame_eq_refl].
    destruct (tfr y); apply frame_nolog; reflexivity.
  - apply frame_nolog; reflexivity.
Qed.

Lemma step_start_frame b s t s' : step_start b s t = Some s' -> frame_eq s s'.
Proof.
  unfold step_start. intros H. break_match_hyp H; injection H as <-.
  all: try (apply frame_nolog; reflexivity).
  all: eapply frame_single; try reflexivity.
Qed.

Lemma step_deliver_frame b s t i s' : step_deliver b s t i = Some s' -> frame_eq s s'.
Proof.
  unfold step_deliver. intros H. break_match_hyp H; injection H as <-;
    apply frame_nolog; reflexivity.
Qed.

Lemma step_op_frame b s t s' : step_op b s t = Some s' -> frame_eq s s'.
Proof.
  unfold step_op. intros H.
  destruct (nth_error (tasks s) t) as [x|]; [|discriminate].
  destruct (tfr x) as [f|]; [|discriminate].
  destruct (fpend f); [|discriminate].
  destruct (fwait f).
  2:{ destruct (opt_all _); [|discriminate].
      destruct (task_model x); injection H as <-;
        [eapply frame_single; try reflexivity | apply frame_nolog; reflexivity]. }
  destruct (frest f) as [|o rest].
  { injection H as <-. eapply frame_eq_trans; [|apply deliver_reply_frame].
    destruct (tk x); apply frame_nolog; reflexivity. }
  destruct o; destruct (task_model x) as [mm|]; try discriminate H;
    try (break_match_hyp H; injection H as <-; apply frame_nolog; reflexivity).
  - (* OSched *)
    destruct (sched_request _ _ _ _ _ _ _) as [[s1 code] k] eqn:ES.
    apply sched_request_frame in ES. destruct ES as (A1 & A2 & A3 & A4 & A5 & _).
    injection H as <-.
    eapply frame_single with (e := ESched (Some mm) code); cbn; auto.
    rewrite A5. reflexivity.
  - (* OCancel *) injection H as <-. unfold cancel_key. destruct (nth slot (tkeys x) None); apply frame_nolog; reflexivity.
Qed.

Lemma net_step_frame b s l s' : net_step b s l = Some s' -> frame_eq s s'.
Proof.
  unfold net_step. destruct (err s); [discriminate|].
  destruct l; [apply step_start_frame|apply step_op_frame|apply step_deliver_frame].
Qed.

Lemma net_run_frame b fuel : forall ch s nd s' nd',
  net_run b fuel ch s nd = Some (s', nd') -> frame_eq s s'.
Proof.
  induction fuel as [|f IH]; intros ch s nd s' nd' H; cbn [net_run] in H; [discriminate|].
  destruct (net_enabled b s) as [|l0 ls].
  - injection H as <- <-. apply frame_eq_refl.
  - destruct ch as [|c r]; cbn in H.
    + destruct (net_step b s _) as [s1|] eqn:E; [|discriminate].
      eapply frame_eq_trans; [eapply net_step_frame; eauto|eapply IH; eauto].
    + destruct (net_step b s _) as [s1|] eqn:E; [|discriminate].
      eapply frame_eq_trans; [eapply net_step_frame; eauto|eapply IH; eauto].
Qed.

