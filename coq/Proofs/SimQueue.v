(* The scheduler-queue invariant: every pending action has a deadline strictly
   later than the current time and a positive period; its preservation by
   requests, by the steps of a run and by the stepping commands; time never
   decreases. *)
Require Import NX.Base.Prelude NX.Base.ListX NX.Model.PQ NX.Model.Sink NX.Model.Sim.
Require Import NX.Proofs.PQProofs NX.Proofs.SimBasic NX.Proofs.SimDriver.

Definition per_pos (a : action) : Prop :=
  match aperiod a with Some p => (p > 0)%Z | None => True end.

(* all entries of q are due strictly after t, with positive periods *)
Definition q_after (q : pq action) (t : Z) : Prop :=
  forall it, In it (items q) -> (fst (ikey it) > t)%Z /\ per_pos (ival it).
(* all entries of q are due at t or later *)
Definition q_from (q : pq action) (t : Z) : Prop :=
  forall it, In it (items q) -> (fst (ikey it) >= t)%Z /\ per_pos (ival it).

Definition q_inv (s : state) : Prop := q_after (queue s) (now s).

Lemma q_after_from q t : q_after q t -> q_from q t.
Proof. intros H it Hi. destruct (H it Hi). split; auto; lia. Qed.

(* ---------------- requests ---------------- *)
Lemma sched_request_inv s origin d mk keyed period s' code k :
  q_inv s -> sched_request s origin d mk keyed period true = (s', code, k) -> q_inv s'.
Proof.
  intros HI H. destruct (N.eq_dec code 0) as [->|NE].
  - pose proof H as H0. apply sched_request_code in H0. destruct H0 as [EC _].
    destruct (true && pzero period) eqn:EP; [discriminate|]. cbn [andb] in EP.
    apply sched_request_ok in H. destruct H as (HT & HQ & HN & _).
    unfold q_inv, q_after. rewrite HQ, HN. intros it Hi. apply in_app_or in Hi.
    destruct Hi as [Hi|[<-|[]]]; [apply HI; auto|]. cbn. split; [lia|].
    unfold per_pos; cbn. apply pzero_false; auto.
  - apply sched_request_code in H. destruct H as [_ E]. destruct (E NE) as [-> _]. auto.
Qed.

(* ---------------- steps of a run ---------------- *)
Ltac same_q := (unfold q_inv; cbn; assumption).

Lemma deliver_reply_q s r : queue (deliver_reply s r) = queue s /\ now (deliver_reply s r) = now s.
Proof.
  unfold deliver_reply. destruct r as [[[[rt|] slot] v]|]; auto.
  destruct (nth_error _ _) as [y|]; auto. destruct (tfr y); auto.
Qed.

Lemma net_step_inv b s l s' : q_inv s -> net_step b s l = Some s' -> q_inv s'.
Proof.
  intros HI. unfold net_step. destruct (err s); [discriminate|].
  destruct l as [t|t|t i].
  - unfold step_start. intros H. break_match_hyp H; injection H as <-; same_q.
  - unfold step_op. intros H.
    destruct (nth_error (tasks s) t) as [x|]; [|discriminate].
    destruct (tfr x) as [f|]; [|discriminate].
    destruct (fpend f); [|discriminate].
    destruct (fwait f).
    2:{ destruct (opt_all _); [|discriminate]. destruct (task_model x); injection H as <-; same_q. }
    destruct (frest f) as [|o rest].
    { injection H as <-. unfold q_inv. destruct (deliver_reply_q
        (match tk x with
         | TKModel _ => set_task s t (tset_tfr x None)
         | TKAction => set_task s t (tset_tdone (tset_tfr x None) true)
         end) (freply f)) as [-> ->]. destruct (tk x); same_q. }
    destruct o; destruct (task_model x) as [mm|]; try discriminate H;
      try (break_match_hyp H; injection H as <-; same_q).
    + destruct (sched_request _ _ _ _ _ _ _) as [[s1 code] k] eqn:ES.
      pose proof (sched_request_inv _ _ _ _ _ _ _ _ _ HI ES) as HI1.
      injection H as <-. unfold q_inv in *. cbn. exact HI1.
    + injection H as <-. unfold cancel_key. destruct (nth slot (tkeys x) None); same_q.
  - unfold step_deliver. intros H. break_match_hyp H; injection H as <-; same_q.
Qed.

Lemma net_run_inv b fuel : forall ch s nd s' nd',
  q_inv s -> net_run b fuel ch s nd = Some (s', nd') -> q_inv s'.
Proof.
  induction fuel as [|f IH]; intros ch s nd s' nd' HI H; cbn [net_run] in H; [discriminate|].
  destruct (net_enabled b s) as [|l0 ls]; [injection H as <- <-; auto|].
  destruct ch as [|c r]; cbn in H;
    (destruct (net_step b s _) as [s1|] eqn:E; [|discriminate];
     eapply IH; [eapply net_step_inv; eauto|eauto]).
Qed.

Lemma sim_run_inv b fuel ch s s' r nd :
  q_inv s -> sim_run b fuel ch s = (s', r, nd) -> q_inv s'.
Proof.
  intros HI. unfold sim_run. destruct (terminated s); [intros H; injection H as <- <- <-; auto|].
  destruct (net_run b fuel ch s false) as [[s1 nd1]|] eqn:ER; [|intros H; injection H as <- <- <-; auto].
  intros H; injection H as <- <- <-. apply net_run_inv in ER; auto.
  destruct (is_ok _); auto.
Qed.

(* ---------------- the critical section ---------------- *)

Lemma peek_next_spec fuel : forall s q bound nk q',
  peek_next fuel s q bound = (nk, q') ->
  (forall y, In y (items q') -> In y (items q)) /\
  (forall k, nk = Some k ->
     le_bound (fst k) bound = true /\
     exists m, In m (items q') /\ ikey m = k /\ key_cancelled s (akey (ival m)) = false /\
               forall y, In y (items q') -> key_le k (ikey y)) /\
  (nk = None -> length (items q) < fuel ->
     items q' = [] \/
     exists m, In m (items q') /\ le_bound (fst (ikey m)) bound = false /\
               forall y, In y (items q') -> key_le (ikey m) (ikey y)).
Proof.
  induction fuel as [|f IH]; intros s q bound nk q' H; cbn [peek_next] in H.
  - injection H as <- <-. split; [auto|]. split; [discriminate|]. intros _ L; lia.
  - destruct (pq_peek q) as [[k a]|] eqn:EP.
    2:{ injection H as <- <-. split; [auto|]. split; [discriminate|].
        intros _ _. left. apply pq_peek_none; auto. }
    pose proof (pq_peek_spec _ _ _ _ EP) as [m (Hm & Hk & Ha & Hmin)].
    destruct (le_bound (fst k) bound) eqn:EB.
    + destruct (key_cancelled s (akey a)) eqn:EC.
      * destruct (pq_pull q) as [o q1] eqn:EL. cbn [snd] in H.
        assert (o = Some (k, a)).
        { unfold pq_pull in EL. unfold pq_peek in EP.
          destruct (pq_peek_item q) as [mm|]; [|discriminate].
          injection EL as <- _. injection EP as <- <-. reflexivity. }
        subst o. apply pq_pull_some in EL. destruct EL as (_ & Hsub & Hlen & _).
        apply IH in H. destruct H as (A & B & C).
        split; [intros y Hy; apply Hsub, A; auto|]. split; [exact B|].
        intros E L. apply C; auto. lia.
      * injection H as <- <-. split; [auto|]. split; [|discriminate].
        intros k0 E; injection E as <-. split; auto. exists m. subst a. repeat split; auto.
    + injection H as <- <-. split; [auto|]. split; [discriminate|].
      intros _ _. right. exists m. subst k. auto.
Qed.

Lemma pull_next_spec q k a q1 :
  pull_next q = Some (k, a, q1) ->
  pq_peek q = Some (k, a) /\
  forall y, In y (items q1) ->
    In y (items q) \/ exists p, aperiod a = Some p /\ ikey y = ((fst k + p)%Z, snd k) /\ ival y = a.
Proof.
  unfold pull_next. destruct (pq_pull q) as [[[k0 a0]|] q0] eqn:EL; [|discriminate].
  intros H; injection H as <- <- <-. apply pq_pull_some in EL. destruct EL as (EP & Hsub & _).
  split; auto. intros y Hy. destruct (aperiod a0) as [p|] eqn:EA.
  - unfold pq_insert in Hy; cbn [items] in Hy. apply in_app_or in Hy.
    destruct Hy as [Hy|[<-|[]]]; [left; auto|]. right. exists p. auto.
  - left; auto.
Qed.

(* crit keeps "everything is due at cur.time or later" and ends with everything
   strictly later *)
Lemma crit_spec fuel : forall s q bound cur group groups q' gs,
  crit fuel s q bound cur group groups = Some (q', gs) ->
  q_from q (fst cur) -> le_bound (fst cur) bound = true ->
  q_after q' (fst cur).
Proof.
  induction fuel as [|f IH]; intros s q bound cur group groups q' gs H HQ HB; cbn [crit] in H; [discriminate|].
  destruct (pull_next q) as [[[k a] q1]|] eqn:EP; [|discriminate].
  destruct (peek_next (S (pq_len q1)) s q1 bound) as [nk q2] eqn:EN.
  apply pull_next_spec in EP. destruct EP as [EPK Hq1].
  apply pq_peek_spec in EPK. destruct EPK as [m (Hm & Hk & Ha & Hmin)].
  assert (Hkc : (fst k >= fst cur)%Z /\ per_pos a).
  { destruct (HQ m Hm) as [A B]. subst. auto. }
  assert (HQ1 : q_from q1 (fst cur)).
  { intros y Hy. destruct (Hq1 y Hy) as [Hy'|[p (EA & EK & EV)]]; [apply HQ; auto|].
    rewrite EK, EV. cbn [fst]. destruct Hkc as [A B]. unfold per_pos in B. rewrite EA in B.
    split; [lia|]. unfold per_pos. rewrite EA. exact B. }
  pose proof (peek_next_spec _ _ _ _ _ _ EN) as (Hsub & HSome & HNone).
  assert (HQ2 : q_from q2 (fst cur)) by (intros y Hy; apply HQ1, Hsub; auto).
  destruct (opt_key_eqb nk cur) eqn:EK.
  - eapply IH; eauto.
  - destruct nk as [k'|].
    + destruct (HSome k' eq_refl) as (HB' & m' & Hm' & Hk' & _ & Hmin').
      destruct (Z.eqb_spec (fst k') (fst cur)) as [E|E].
      * rewrite <- E. eapply IH; eauto. rewrite E; auto.
      * injection H as <- <-. intros y Hy. destruct (HQ2 y Hy) as [A B]. split; auto.
        pose proof (Hmin' y Hy) as L. destruct (HQ2 m' Hm') as [A' _]. rewrite Hk' in A'.
        destruct L as [L|L]; [unfold key_lt in L; lia|rewrite <- L; lia].
    + injection H as <- <-. intros y Hy. destruct (HQ2 y Hy) as [A B]. split; auto.
      destruct (HNone eq_refl) as [E|[m' (Hm' & HB' & Hmin')]].
      * unfold pq_len. lia.
      * rewrite E in Hy. destruct Hy.
      * pose proof (Hmin' y Hy) as L.
        assert (fst (ikey m') > fst cur)%Z.
        { unfold le_bound in *. destruct bound as [x|]; [|discriminate].
          apply Z.leb_le in HB. apply Z.leb_gt in HB'. lia. }
        destruct L as [L|L]; [unfold key_lt in L; lia|rewrite <- L; lia].
Qed.

(* ---------------- the stepping commands ---------------- *)

Lemma spawn_fold_q groups : forall s,
  queue (fold_left spawn groups s) = queue s /\ now (fold_left spawn groups s) = now s /\
  terminated (fold_left spawn groups s) = terminated s /\ log (fold_left spawn groups s) = log s /\
  clockpos (fold_left spawn groups s) = clockpos s.
Proof.
  induction groups as [|g r IH]; intros s; cbn [fold_left]; auto.
  destruct (IH (spawn s g)) as (A & B & C & D & E). rewrite A, B, C, D, E. auto.
Qed.

Lemma q_after_mono q t t' : q_after q t -> (t' <= t)%Z -> q_after q t'.
Proof. intros H L it Hi. destruct (H it Hi). split; auto; lia. Qed.

Lemma step_bounded_inv b fuel ch s bound s' r t nd :
  q_inv s -> step_bounded b fuel ch s bound = (s', r, t, nd) -> r <> RHang ->
  q_inv s' /\ (now s <= now s')%Z /\
  (forall x, t = Some x -> now s' = x /\ (now s < x)%Z /\ le_bound x bound = true) /\
  (t = None -> r = ROk -> now s' = now s).
Proof.
  intros HI. unfold step_bounded. destruct (terminated s && negb (bugF1 b)).
  { intros H _; injection H as <- <- <- <-. split; [first [assumption | exact HI | exact HI0 | exact EC | idtac]|]; repeat split; auto; try lia; try (intros; discriminate); try (intros; congruence). }
  destruct (peek_next _ s (queue s) bound) as [nk q0] eqn:EN.
  pose proof (peek_next_spec _ _ _ _ _ _ EN) as (Hsub & HSome & _).
  assert (HI0 : q_after q0 (now s)) by (intros y Hy; apply HI, Hsub; auto).
  destruct nk as [k|].
  2:{ intros H _; injection H as <- <- <- <-. unfold q_inv; cbn. split; [first [assumption | exact HI | exact HI0 | exact EC | idtac]|]; repeat split; auto; try lia; try (intros; discriminate); try (intros; congruence). }
  destruct (HSome k eq_refl) as (HB & m & Hm & Hk & _ & Hmin).
  assert (HK : (fst k > now s)%Z) by (destruct (HI0 m Hm) as [A _]; subst; auto).
  destruct (crit _ _ q0 bound k [] []) as [[q1 groups]|] eqn:EC.
  2:{ intros H NH; injection H as <- <- <- <-. congruence. }
  apply crit_spec in EC; auto.
  2:{ intros y Hy. destruct (HI0 y Hy) as [_ P]. split; auto.
      destruct (Hmin y Hy) as [L|L]; [unfold key_lt in L; lia|rewrite <- L; lia]. }
  destruct (clock_sync b _ (fst k)) as [s3 ans] eqn:ECl.
  assert (F3 : queue s3 = q1 /\ now s3 = fst k).
  { unfold clock_sync in ECl. injection ECl as <- _. cbn.
    destruct (spawn_fold_q groups (set_queue (add_log (set_now (set_queue s q0) (fst k)) (ETime (fst k))) q1)) as (A & B & _).
    cbn in A, B. auto. }
  destruct F3 as [FQ FN].
  assert (HI3 : q_inv s3) by (unfold q_inv; rewrite FQ, FN; auto).
  destruct (over_tolerance b ans).
  { intros H _; injection H as <- <- <- <-. split; [unfold q_inv in *; cbn; exact HI3|]. cbn. rewrite FN.
    repeat split; try lia; try (intros; discriminate). }
  destruct (sim_run b fuel ch s3) as [[s4 r4] nd4] eqn:ER.
  intros H _; injection H as <- <- <- <-.
  pose proof (sim_run_inv _ _ _ _ _ _ _ HI3 ER) as HI4.
  assert (N4 : is_ok r4 = true -> now s4 = now s3).
  { intros OK. apply sim_run_spec in ER. destruct ER as [R1 R2].
    destruct (terminated s3).
    - destruct (R1 eq_refl) as [-> ->]. discriminate.
    - destruct (R2 eq_refl) as [->|(_ & _ & _ & A & _)]; [discriminate|auto]. }
  assert (N4' : (now s <= now s4)%Z).
  { revert ER. unfold sim_run. destruct (terminated s3); [intros X; injection X as <- _ _; lia|].
    destruct (net_run b fuel ch s3 false) as [[sx ndx]|] eqn:EX; [|intros X; injection X as <- _ _; lia].
    apply net_run_frame in EX. destruct EX as [A _ _ _ _].
    intros X; injection X as <- _ _. destruct (is_ok (classify b sx)); cbn; lia. }
  split; auto. split; auto. split.
  - intros x E. destruct (is_ok r4) eqn:OK; [|discriminate]. injection E as <-.
    rewrite (N4 eq_refl), FN. repeat split; auto; lia.
  - intros E ->. discriminate.
Qed.

Lemma step_until_loop_inv b n : forall fuel ch s target nd0 s' r nd,
  q_inv s -> (now s <= target)%Z ->
  step_until_loop b n fuel ch s target nd0 = (s', r, nd) -> r <> RHang ->
  q_inv s' /\ (now s <= now s')%Z /\ (r = ROk -> now s' = target).
Proof.
  induction n as [|n IH]; intros fuel ch s target nd0 s' r nd HI HT H NH; cbn [step_until_loop] in H.
  - injection H as <- <- <-. split; [first [assumption | exact HI | exact HI0 | exact EC | idtac]|]; repeat split; auto; try lia; try (intros; discriminate); try (intros; congruence).
  - destruct (step_bounded b fuel ch s (Some target)) as [[[s1 r1] t1] nd1] eqn:ES.
    destruct (is_ok r1) eqn:EO.
    + assert (R1 : r1 <> RHang) by (destruct r1; discriminate).
      destruct (step_bounded_inv _ _ _ _ _ _ _ _ _ HI ES R1) as (HI1 & L1 & HS & HN).
      destruct t1 as [x|].
      * destruct (HS x eq_refl) as (E1 & E2 & E3). cbn in E3. apply Z.leb_le in E3.
        destruct (Z.eqb_spec x target) as [->|NE].
        -- injection H as <- <- <-. split; [exact HI1|]. split; [lia|]. intros _. exact E1.
        -- destruct (IH fuel ch s1 target (nd0 || nd1) s' r nd HI1 ltac:(lia) H NH) as (A & B & C).
           split; [exact A|]. split; [lia|exact C].
      * assert (E1 : now s1 = now s) by (apply HN; auto; destruct r1; try discriminate; reflexivity).
        destruct (clock_sync b _ target) as [s3 ans] eqn:ECl.
        assert (F : queue s3 = queue s1 /\ now s3 = target).
        { unfold clock_sync in ECl. injection ECl as <- _. cbn. auto. }
        destruct F as [FQ FN].
        assert (HI3 : q_inv s3).
        { unfold q_inv. rewrite FQ, FN. intros it Hi.
          (* nothing is pending at or before the target any more *)
          revert ES. unfold step_bounded.
          destruct (terminated s && negb (bugF1 b)); [intros X; inversion X; subst; discriminate EO|].
          destruct (peek_next _ s (queue s) (Some target)) as [nk q0] eqn:EN.
          destruct nk as [k|].
          { destruct (crit _ _ _ _ _ _ _) as [[q1 g]|]; [|intros X; inversion X; subst; discriminate EO].
            destruct (clock_sync b _ (fst k)) as [sx ax]. destruct (over_tolerance b ax); [intros X; inversion X; subst; discriminate EO|].
            destruct (sim_run _ _ _ _) as [[s4 r4] nd4]. intros X; inversion X; subst.
            rewrite EO in *. discriminate. }
          intros X; inversion X; subst. change (In it (items q0)) in Hi.
          pose proof (peek_next_spec _ _ _ _ _ _ EN) as (Hsub & _ & HNone).
          destruct (HNone eq_refl) as [E|[m (Hm & HB & Hmin)]].
          - unfold pq_len. lia.
          - rewrite E in Hi. destruct Hi.
          - destruct (HI it (Hsub it Hi)) as [_ P]. split; auto.
            cbn in HB. apply Z.leb_gt in HB. pose proof (Hmin it Hi) as L.
            destruct L as [L|L]; [unfold key_lt in L; lia|rewrite <- L; lia]. }
        assert (LT : (now s <= target)%Z) by lia.
        destruct (bugF3 b).
        { injection H as <- <- <-. split; [exact HI3|]. rewrite FN. split; [lia|auto]. }
        destruct (over_tolerance b ans); injection H as <- <- <-.
        -- split; [unfold q_inv in *; cbn; exact HI3|]. cbn. rewrite FN. split; [lia|]. intros X; discriminate X.
        -- split; [exact HI3|]. rewrite FN. split; [lia|auto].
    + injection H as <- <- <-.
      destruct (step_bounded_inv _ _ _ _ _ _ _ _ _ HI ES NH) as (HI1 & L1 & _ & _).
      split; [exact HI1|]. split; [lia|]. intros ->. discriminate.
Qed.
