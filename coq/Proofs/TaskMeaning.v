(* Readable consequences of the boolean invariant inv_b. *)
Require Import NX.Base.Prelude NX.Model.TaskSM NX.Model.TaskInv NX.Proofs.TaskProofs.
Require Import ZifyBool.

Lemma inv_meaning s : inv_b s = true ->
    badpoll s = 0 /\ badrun s = 0 /\ badfree s = 0 /\ queued s + active s <= 1 /\
    futdrops s <= 1 /\ outdrops s <= 1 /\ deallocs s <= 1 /\
    (alloc s = true -> refs s = wakers s + b2n (token s) + b2n (promise s) + b2n (cdrop s)) /\
    (alloc s = true -> (queued s + active s = 1 <-> runnable_exists s = true)) /\
    (alloc s = true -> wakers s + b2n (token s) + b2n (promise s) + queued s + active s + b2n (cdrop s) >= 1) /\
    (alloc s = false -> deallocs s = 1 /\ futdrops s = 1 /\ wakers s = 0 /\ token s = false /\ promise s = false /\
                        queued s = 0 /\ active s = 0).
Proof.
  destruct s as [w r c p co al wk tk pr q rn cd fd od dd bp br bf].
  unfold inv_b, runnable_exists, active, phase_ok, b2n, is_fut, is_out, is_empty; cbn [wake refs closed polling tcore alloc wakers token promise queued runner cdrop futdrops outdrops deallocs badpoll badrun badfree].
  intros H. destruct al, c, p, tk, pr, cd, co, rn; cbn in H |- *; try discriminate H;
    repeat split; intros; try discriminate; try lia.
Qed.

Lemma reachable_inv ops s : s = ts_run init_forget ops \/ s = ts_run init_spawn ops -> inv_b s = true.
Proof. intros [->| ->]; apply ts_run_inv; [apply init_forget_inv|apply init_spawn_inv]. Qed.

Lemma one_poller ops s : s = ts_run init_forget ops \/ s = ts_run init_spawn ops ->
  badrun s = 0 /\ badpoll s = 0 /\ queued s + active s <= 1.
Proof. intros H. destruct (inv_meaning s (reachable_inv ops s H)) as (A & B & _ & D & _). auto. Qed.

Lemma no_leak ops s : s = ts_run init_forget ops \/ s = ts_run init_spawn ops ->
  wakers s = 0 -> token s = false -> promise s = false -> queued s = 0 -> active s = 0 -> cdrop s = false ->
  alloc s = false /\ deallocs s = 1 /\ futdrops s = 1 /\ outdrops s <= 1 /\ badfree s = 0.
Proof.
  intros H H1 H2 H3 H4 H5 H6.
  destruct (inv_meaning s (reachable_inv ops s H)) as (_ & _ & BF & _ & _ & OD & _ & _ & _ & NL & FR).
  destruct (alloc s) eqn:EA.
  - specialize (NL eq_refl). rewrite H1, H2, H3, H4, H5, H6 in NL. cbn in NL. lia.
  - destruct (FR eq_refl) as (A & B & _). auto.
Qed.
