(* Order of the actions fired by one step: the critical section pulls entries
   in strictly increasing (key, epoch) order, so within a group (one key =
   one (time, origin)) the ops are in scheduling (epoch) order, and groups
   follow the key order. *)
Require Import NX.Base.Prelude NX.Base.ListX NX.Model.PQ NX.Model.Sink NX.Model.Sim.
Require Import NX.Proofs.PQProofs NX.Proofs.SimBasic NX.Proofs.SimDriver NX.Proofs.SimQueue NX.Proofs.SimSched NX.Proofs.SimTerm NX.Proofs.SimComplete.

(* ghost twin of pull_next / crit that keeps the pulled ITEMS (key, epoch, action) *)
Definition pull_next_i (q : pq action) : option (item action * pq action) :=
  match pq_peek_item q with
  | Some m =>
      let q1 := {| items := remove_epoch (iepoch m) (items q); next_epoch := next_epoch q |} in
      Some (m, match aperiod (ival m) with
               | Some p => pq_insert q1 ((fst (ikey m) + p)%Z, snd (ikey m)) (ival m)
               | None => q1
               end)
  | None => None
  end.

Lemma pull_next_i_spec q : pull_next q = option_map (fun p => (ikey (fst p), ival (fst p), snd p)) (pull_next_i q).
Proof.
  unfold pull_next, pull_next_i, pq_pull. destruct (pq_peek_item q) as [m|]; cbn; [|reflexivity].
  destruct (aperiod (ival m)); reflexivity.
Qed.

Fixpoint crit_i (fuel : nat) (s : state) (q : pq action) (bound : option Z) (cur : key)
         (group : list (item action)) (groups : list (list (item action)))
  : option (pq action * list (list (item action))) :=
  match fuel with
  | O => None
  | S f =>
      match pull_next_i q with
      | None => None
      | Some (m, q1) =>
          let '(nk, q2) := peek_next (S (pq_len q1)) s q1 bound in
          if opt_key_eqb nk cur then crit_i f s q2 bound cur (group ++ [m]) groups
          else
            let groups' := groups ++ [group ++ [m]] in
            match nk with
            | Some k => if Z.eqb (fst k) (fst cur) then crit_i f s q2 bound k [] groups'
                        else Some (q2, groups')
            | None => Some (q2, groups')
            end
      end
  end.

Definition ops_of (g : list (item action)) : list op := map (fun m => aop (ival m)) g.

Lemma crit_i_spec fuel : forall s q bound cur group groups,
  crit fuel s q bound cur (ops_of group) (map ops_of groups) =
  option_map (fun p => (fst p, map ops_of (snd p))) (crit_i fuel s q bound cur group groups).
Proof.
  induction fuel as [|f IH]; intros s q bound cur group groups; cbn [crit crit_i]; [reflexivity|].
  rewrite pull_next_i_spec. destruct (pull_next_i q) as [[m q1]|]; cbn [option_map fst snd]; [|reflexivity].
  destruct (peek_next (S (pq_len q1)) s q1 bound) as [nk q2].
  assert (E1 : ops_of group ++ [aop (ival m)] = ops_of (group ++ [m])) by (unfold ops_of; rewrite map_app; reflexivity).
  assert (E2 : map ops_of groups ++ [ops_of group ++ [aop (ival m)]] = map ops_of (groups ++ [group ++ [m]])).
  { rewrite map_app. cbn [map]. rewrite E1. reflexivity. }
  destruct (opt_key_eqb nk cur).
  - rewrite E1. apply IH.
  - rewrite E2. destruct nk as [k|]; [|reflexivity].
    destruct (Z.eqb (fst k) (fst cur)); [|reflexivity]. apply (IH s q2 bound k [] (groups ++ [group ++ [m]])).
Qed.

(* ---------------- strict (key, epoch) order of successive pulls ---------------- *)

Lemma peek_item_strict_min (q : pq action) m :
  pq_wf q -> pq_peek_item q = Some m -> forall y, In y (items q) -> y <> m -> item_lt action m y.
Proof.
  intros [Hs _] HP y Hy NE. pose proof HP as HP0. apply peek_item_spec in HP. destruct HP as [Hm _].
  assert (N : ~ item_lt action y m).
  { unfold pq_peek_item in HP0. destruct (items q) as [|c l] eqn:E; [discriminate|]. injection HP0 as <-.
    apply min_item_min. exact Hy. }
  unfold item_lt in *.
  destruct (key_lt_total (ikey m) (ikey y)) as [K|[K|K]]; [left; exact K| |exfalso; apply N; left; exact K].
  right. split; [exact K|].
  destruct (N.lt_trichotomy (iepoch m) (iepoch y)) as [L|[L|L]]; [exact L| |].
  - exfalso. apply NE. eapply sorted_epoch_inj; eauto.
  - exfalso. apply N. right. split; [congruence|exact L].
Qed.

Lemma not_in_remove_epoch_self (l : list (item action)) m :
  epochs_sorted action l -> In m l -> ~ In m (remove_epoch (iepoch m) l).
Proof.
  induction l as [|x r IH]; intros Hs Hm; [destruct Hm|]. cbn [remove_epoch].
  assert (Hs' : epochs_sorted action r).
  { intros i j a b Hij Ha Hb. apply (Hs (S i) (S j) a b); [lia|exact Ha|exact Hb]. }
  destruct (N.eqb_spec (iepoch x) (iepoch m)) as [E|E].
  - intros Hin. apply In_nth_error in Hin. destruct Hin as [j Hj].
    pose proof (Hs 0 (S j) x m ltac:(lia) eq_refl Hj). lia.
  - destruct Hm as [->|Hm]; [congruence|]. intros [->|Hin]; [congruence|]. exact (IH Hs' Hm Hin).
Qed.

(* every entry of the queue after a pull (re-insertion included) is strictly
   after the pulled one *)
Lemma pull_next_i_after q m q1 :
  pq_wf q -> per_pos (ival m) -> pull_next_i q = Some (m, q1) ->
  forall y, In y (items q1) -> item_lt action m y.
Proof.
  intros HW PP. unfold pull_next_i. destruct (pq_peek_item q) as [m0|] eqn:EP; [|discriminate].
  intros H; injection H as <- <-. intros y Hy.
  assert (B : forall z, In z (remove_epoch (iepoch m0) (items q)) -> item_lt action m0 z).
  { intros z Hz. pose proof (in_remove_epoch action _ _ _ Hz) as Hz'.
    apply (peek_item_strict_min q m0 HW EP z Hz'). intros ->.
    destruct HW as [Hs _]. pose proof (peek_item_spec action q m0 EP) as [Hm _].
    exact (not_in_remove_epoch_self _ _ Hs Hm Hz). }
  destruct (aperiod (ival m0)) as [p|] eqn:EA.
  - unfold pq_insert in Hy; cbn [items] in Hy. apply in_app_or in Hy. destruct Hy as [Hy|[<-|[]]]; [apply B; exact Hy|].
    left. cbn [ikey]. unfold key_lt; cbn [fst snd]. unfold per_pos in PP. rewrite EA in PP. lia.
  - apply B. exact Hy.
Qed.

Fixpoint strictly_sorted (l : list (item action)) : Prop :=
  match l with
  | [] => True
  | x :: r => (forall y, In y r -> item_lt action x y) /\ strictly_sorted r
  end.

Lemma strictly_sorted_app l x :
  strictly_sorted l -> (forall y, In y l -> item_lt action y x) -> strictly_sorted (l ++ [x]).
Proof.
  induction l as [|a r IH]; intros H1 H2; cbn [app strictly_sorted]; [split; [intros y []|exact I]|].
  destruct H1 as [A B]. split.
  - intros y Hy. apply in_app_or in Hy. destruct Hy as [Hy|[<-|[]]]; [apply A; exact Hy|apply H2; left; reflexivity].
  - apply IH; [exact B|]. intros y Hy. apply H2. right. exact Hy.
Qed.

(* The pulled items, in pull order (all groups concatenated, then the current
   group), are strictly increasing for (key, epoch), and every entry still
   queued is after all of them. *)
Lemma crit_i_sorted fuel : forall s q bound cur group groups q' gs,
  pq_wf q -> q_from q (fst cur) -> (exists m0, pq_peek_item q = Some m0 /\ ikey m0 = cur) ->
  strictly_sorted (concat groups ++ group) ->
  (forall x y, In x (concat groups ++ group) -> In y (items q) -> item_lt action x y) ->
  crit_i fuel s q bound cur group groups = Some (q', gs) ->
  strictly_sorted (concat gs).
Proof.
  induction fuel as [|f IH]; intros s q bound cur group groups q' gs HW HQ [m0 [HP HK]] HS HB H; cbn [crit_i] in H; [discriminate|].
  destruct (pull_next_i q) as [[m q1]|] eqn:EPN; [|discriminate].
  assert (Em : m = m0) by (unfold pull_next_i in EPN; rewrite HP in EPN; injection EPN as <- _; reflexivity). subst m0.
  pose proof (peek_item_spec action q m HP) as [Hm _].
  assert (PP : per_pos (ival m)) by (destruct (HQ m Hm) as [_ P]; exact P).
  pose proof (pull_next_i_after _ _ _ HW PP EPN) as AFTER.
  assert (EPN' : pull_next q = Some (ikey m, ival m, q1)) by (rewrite pull_next_i_spec, EPN; reflexivity).
  destruct (pull_next_wf _ _ _ _ HW PP EPN') as (W1 & _).
  pose proof (pull_next_spec _ _ _ _ EPN') as [_ Hq1].
  destruct (peek_next (S (pq_len q1)) s q1 bound) as [nk q2] eqn:EN.
  destruct (peek_next_wf _ _ _ _ _ _ W1 EN) as (W2 & _).
  pose proof (peek_next_spec _ _ _ _ _ _ EN) as (Hsub & _ & _).
  assert (HQ1 : q_from q1 (fst cur)).
  { intros z Hz. destruct (Hq1 z Hz) as [Hz'|[p (EA & EK & EV)]]; [apply HQ; auto|].
    rewrite EK, EV. cbn [fst]. unfold per_pos in PP. rewrite EA in PP. rewrite HK in *. split; [lia|]. unfold per_pos. rewrite EA. exact PP. }
  assert (HQ2 : q_from q2 (fst cur)) by (intros z Hz; apply HQ1, Hsub; auto).
  assert (S1 : strictly_sorted ((concat groups ++ group) ++ [m])).
  { apply strictly_sorted_app; [exact HS|]. intros y Hy. apply HB; auto. }
  assert (B1 : forall x y, In x ((concat groups ++ group) ++ [m]) -> In y (items q2) -> item_lt action x y).
  { intros x y Hx Hy. apply in_app_or in Hx. destruct Hx as [Hx|[<-|[]]].
    - eapply item_lt_trans; [apply HB; [exact Hx|exact Hm]|apply AFTER, Hsub; exact Hy].
    - apply AFTER, Hsub; exact Hy. }
  assert (HEAD : forall k', nk = Some k' -> exists m1, pq_peek_item q2 = Some m1 /\ ikey m1 = k').
  { intros k' ->. destruct (peek_next_head _ _ _ _ _ _ EN) as [a1 (H1 & _)].
    unfold pq_peek in H1. destruct (pq_peek_item q2) as [m1|]; [|discriminate]. injection H1 as <- _. eauto. }
  destruct (opt_key_eqb nk cur) eqn:EK.
  - destruct nk as [k'|]; [|discriminate]. cbn in EK. apply key_eqb_iff in EK. subst k'.
    eapply IH; [exact W2|exact HQ2|apply HEAD; reflexivity| | |exact H].
    + rewrite app_assoc. exact S1.
    + intros x y Hx Hy. apply B1; [rewrite <- app_assoc; exact Hx|exact Hy].
  - assert (EC : concat (groups ++ [group ++ [m]]) = (concat groups ++ group) ++ [m]).
    { rewrite concat_app. cbn [concat]. rewrite app_nil_r, app_assoc. reflexivity. }
    destruct nk as [k'|].
    + destruct (Z.eqb_spec (fst k') (fst cur)) as [E|E].
      * eapply IH; [exact W2|rewrite E; exact HQ2|apply HEAD; reflexivity| | |exact H].
        -- rewrite app_nil_r, EC. exact S1.
        -- intros x y Hx Hy. rewrite app_nil_r, EC in Hx. apply B1; auto.
      * injection H as <- <-. rewrite EC. exact S1.
    + injection H as <- <-. rewrite EC. exact S1.
Qed.
