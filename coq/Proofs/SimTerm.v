(* The critical section of a step terminates: with positive periods the loop
   pulls each entry due at the current time once; the fuel handed to it by
   step_bounded (one more than the queue length) always suffices.  Hence a
   stepping call never "hangs" (RHang) from a state satisfying the queue
   invariants. *)
Require Import NX.Base.Prelude NX.Base.ListX NX.Model.PQ NX.Model.Sink NX.Model.Sim.
Require Import NX.Proofs.PQProofs NX.Proofs.SimBasic NX.Proofs.SimDriver NX.Proofs.SimQueue NX.Proofs.SimSched.

(* well-formed queue: epochs strictly increase along the item list and stay
   below the next epoch (the representation invariant of PQProofs) *)
Definition pq_wf (q : pq action) : Prop :=
  epochs_sorted action (items q) /\ forall a, In a (items q) -> (iepoch a < next_epoch q)%N.

Lemma pq_wf_empty : pq_wf pq_empty.
Proof. destruct (R_empty action) as [_ A B]. split; auto. Qed.

Lemma pq_wf_R q : pq_wf q <-> R action q (map (proj action) (items q)).
Proof. split; [intros [A B]; split; auto|intros [_ A B]; split; auto]. Qed.

Lemma pq_wf_insert q k v : pq_wf q -> pq_wf (pq_insert q k v).
Proof. intros H. apply pq_wf_R in H. apply (R_insert action _ _ k v) in H. destruct H as [_ A B]. split; auto. Qed.

(* number of entries due exactly at time T *)
Definition at_time (T : Z) (it : item action) : bool := Z.eqb (fst (ikey it)) T.
Definition cnt (T : Z) (q : pq action) : nat := length (filter (at_time T) (items q)).

Lemma filter_remove_epoch_le T (l : list (item action)) e :
  length (filter (at_time T) (remove_epoch e l)) <= length (filter (at_time T) l).
Proof.
  induction l as [|x r IH]; cbn [remove_epoch filter]; [lia|].
  destruct (N.eqb (iepoch x) e).
  - destruct (at_time T x); cbn [length]; lia.
  - cbn [filter]. destruct (at_time T x); cbn [length]; lia.
Qed.

Lemma filter_remove_epoch_lt T (l : list (item action)) m :
  epochs_sorted action l -> In m l -> at_time T m = true ->
  S (length (filter (at_time T) (remove_epoch (iepoch m) l))) = length (filter (at_time T) l).
Proof.
  induction l as [|x r IH]; intros Hs Hi Ht; [destruct Hi|].
  cbn [remove_epoch filter].
  assert (Hs' : epochs_sorted action r).
  { intros i j a b Hij Ha Hb. apply (Hs (S i) (S j) a b); [lia|exact Ha|exact Hb]. }
  destruct (N.eqb_spec (iepoch x) (iepoch m)) as [E|E].
  - (* x is m: epochs are unique *)
    assert (x = m).
    { destruct Hi as [->|Hi]; [reflexivity|]. apply In_nth_error in Hi. destruct Hi as [j Hj].
      pose proof (Hs 0 (S j) x m ltac:(lia) eq_refl Hj). lia. }
    subst x. rewrite Ht. reflexivity.
  - destruct Hi as [->|Hi]; [congruence|].
    cbn [filter]. destruct (at_time T x); cbn [length]; rewrite <- (IH Hs' Hi Ht); reflexivity.
Qed.

Lemma pq_pull_wf q k a q' : pq_wf q -> pq_pull q = (Some (k, a), q') ->
  pq_wf q' /\ cnt (fst k) q' < cnt (fst k) q /\ (forall T, cnt T q' <= cnt T q).
Proof.
  intros [Hs Hb]. unfold pq_pull. destruct (pq_peek_item q) as [m|] eqn:E; [|discriminate].
  intros H; injection H as <- <- <-. apply peek_item_spec in E. destruct E as [Hm _].
  split; [split|split].
  - cbn [items]. apply In_nth_error in Hm. destruct Hm as [i Hi].
    rewrite (remove_epoch_nth action (items q) i m Hs Hi). apply sorted_remove_nth; auto.
  - cbn [items next_epoch]. intros x Hx. apply Hb. eapply in_remove_epoch; eauto.
  - unfold cnt; cbn [items].
    pose proof (filter_remove_epoch_lt (fst (ikey m)) (items q) m Hs Hm) as L.
    unfold at_time in L at 1. rewrite Z.eqb_refl in L. specialize (L eq_refl). lia.
  - intros T. unfold cnt; cbn [items]. apply filter_remove_epoch_le.
Qed.

Lemma cnt_insert_other T q k v : fst k <> T -> cnt T (pq_insert q k v) = cnt T q.
Proof.
  intros NE. unfold cnt, pq_insert; cbn [items]. rewrite filter_app, app_length. cbn [filter].
  unfold at_time at 2; cbn [ikey fst]. destruct (Z.eqb_spec (fst k) T); [congruence|]. cbn. lia.
Qed.

Lemma peek_next_wf fuel : forall s q bound nk q',
  pq_wf q -> peek_next fuel s q bound = (nk, q') -> pq_wf q' /\ forall T, cnt T q' <= cnt T q.
Proof.
  induction fuel as [|f IH]; intros s q bound nk q' HW H; cbn [peek_next] in H.
  - injection H as <- <-. auto.
  - destruct (pq_peek q) as [[k a]|] eqn:EP; [|injection H as <- <-; auto].
    destruct (le_bound (fst k) bound); [|injection H as <- <-; auto].
    destruct (key_cancelled s (akey a)); [|injection H as <- <-; auto].
    destruct (pq_pull q) as [o q1] eqn:EL. cbn [snd] in H.
    assert (o = Some (k, a)).
    { unfold pq_pull in EL. unfold pq_peek in EP. destruct (pq_peek_item q) as [mm|]; [|discriminate].
      injection EL as <- _. injection EP as <- <-. reflexivity. }
    subst o. destruct (pq_pull_wf _ _ _ _ HW EL) as (W1 & _ & C1).
    destruct (IH _ _ _ _ _ W1 H) as (W2 & C2). split; auto. intros T. specialize (C1 T). specialize (C2 T). lia.
Qed.

Lemma pull_next_wf q k a q1 :
  pq_wf q -> per_pos a -> pull_next q = Some (k, a, q1) ->
  pq_wf q1 /\ cnt (fst k) q1 < cnt (fst k) q.
Proof.
  intros HW HP. unfold pull_next. destruct (pq_pull q) as [[[k0 a0]|] q0] eqn:EL; [|discriminate].
  intros H; injection H as <- <- <-. destruct (pq_pull_wf _ _ _ _ HW EL) as (W1 & C1 & _).
  destruct (aperiod a0) as [p|] eqn:EA; [|auto].
  split; [apply pq_wf_insert; auto|].
  rewrite cnt_insert_other; auto. cbn [fst]. unfold per_pos in HP. rewrite EA in HP. lia.
Qed.

(* the critical section never runs out of fuel *)
Lemma crit_terminates fuel : forall s q bound cur group groups,
  pq_wf q -> q_from q (fst cur) ->
  (exists a0, pq_peek q = Some (cur, a0)) ->
  cnt (fst cur) q < fuel ->
  crit fuel s q bound cur group groups <> None.
Proof.
  induction fuel as [|f IH]; intros s q bound cur group groups HW HQ [a0 HP] HC; [lia|].
  cbn [crit].
  destruct (pull_next q) as [[[k a] q1]|] eqn:EPN.
  2:{ exfalso. unfold pull_next in EPN. destruct (pq_pull q) as [[[k0 a1]|] q0] eqn:EL; [discriminate|].
      apply pq_pull_none in EL. destruct EL as [_ E]. apply pq_peek_spec in HP. destruct HP as [m [Hm _]].
      rewrite E in Hm. destruct Hm. }
  pose proof EPN as EPN'. apply pull_next_spec in EPN'. destruct EPN' as [EPK Hq1]. rewrite HP in EPK. injection EPK as <- <-.
  assert (PP : per_pos a0).
  { apply pq_peek_spec in HP. destruct HP as [m (Hm & _ & Ha & _)]. destruct (HQ m Hm) as [_ P]. subst. auto. }
  destruct (pull_next_wf _ _ _ _ HW PP EPN) as (W1 & C1).
  destruct (peek_next (S (pq_len q1)) s q1 bound) as [nk q2] eqn:EN.
  destruct (peek_next_wf _ _ _ _ _ _ W1 EN) as (W2 & C2).
  assert (HQ1 : q_from q1 (fst cur)).
  { intros y Hy. destruct (Hq1 y Hy) as [Hy'|[p (EA & EK & EV)]]; [apply HQ; auto|].
    rewrite EK, EV. cbn [fst]. unfold per_pos in PP. rewrite EA in PP. split; [lia|]. unfold per_pos. rewrite EA. exact PP. }
  pose proof (peek_next_spec _ _ _ _ _ _ EN) as (Hsub & _ & _).
  assert (HQ2 : q_from q2 (fst cur)) by (intros y Hy; apply HQ1, Hsub; auto).
  destruct (opt_key_eqb nk cur) eqn:EK.
  - destruct nk as [k'|]; [|discriminate]. cbn in EK. apply key_eqb_iff in EK. subst k'.
    destruct (peek_next_head _ _ _ _ _ _ EN) as [a1 (H1 & _)].
    apply IH; auto; [eexists; eauto|]. specialize (C2 (fst cur)). lia.
  - destruct nk as [k'|]; [|discriminate].
    destruct (Z.eqb_spec (fst k') (fst cur)) as [E|E]; [|discriminate].
    destruct (peek_next_head _ _ _ _ _ _ EN) as [a1 (H1 & _)].
    apply IH; auto; [rewrite E; auto|eexists; eauto|]. rewrite E. specialize (C2 (fst cur)). lia.
Qed.

(* ---------------- well-formedness is kept everywhere ---------------- *)

Definition qwf (s : state) : Prop := pq_wf (queue s).

Lemma sched_request_wf s origin d mk keyed period chk s' code k :
  qwf s -> sched_request s origin d mk keyed period chk = (s', code, k) -> qwf s'.
Proof.
  intros HW. unfold sched_request. destruct (chk && _); [intros H; injection H as <- _ _; auto|].
  destruct (Z.leb _ _); [intros H; injection H as <- _ _; auto|].
  destruct keyed; cbn; intros H; injection H as <- _ _; unfold qwf; cbn; apply pq_wf_insert; exact HW.
Qed.

Lemma net_step_wf b s l s' : qwf s -> net_step b s l = Some s' -> qwf s'.
Proof.
  intros HW. unfold net_step. destruct (err s); [discriminate|].
  destruct l as [t|t|t i].
  - unfold step_start. intros H. break_match_hyp H; injection H as <-; exact HW.
  - unfold step_op. intros H.
    destruct (nth_error (tasks s) t) as [x|]; [|discriminate].
    destruct (tfr x) as [f|]; [|discriminate]. destruct (fpend f); [|discriminate].
    destruct (fwait f).
    2:{ destruct (opt_all _); [|discriminate]. destruct (task_model x); injection H as <-; exact HW. }
    destruct (frest f) as [|o rest].
    { injection H as <-. unfold qwf.
      match goal with |- pq_wf (queue (deliver_reply ?a ?r)) => destruct (deliver_reply_q a r) as [-> _] end.
      destruct (tk x); exact HW. }
    destruct o; destruct (task_model x) as [mm|]; try discriminate H;
      try (break_match_hyp H; injection H as <-; exact HW).
    + destruct (sched_request _ _ _ _ _ _ _) as [[s1 code] k] eqn:ES.
      pose proof (sched_request_wf _ _ _ _ _ _ _ _ _ _ HW ES) as W1. injection H as <-. exact W1.
    + injection H as <-. unfold cancel_key. destruct (nth slot (tkeys x) None); exact HW.
  - unfold step_deliver. intros H. break_match_hyp H; injection H as <-; exact HW.
Qed.

Lemma net_run_wf b fuel : forall ch s nd s' nd', qwf s -> net_run b fuel ch s nd = Some (s', nd') -> qwf s'.
Proof.
  induction fuel as [|f IH]; intros ch s nd s' nd' HI H; cbn [net_run] in H; [discriminate|].
  destruct (net_enabled b s) as [|l0 ls]; [injection H as <- <-; auto|].
  destruct ch as [|c r]; cbn in H;
    (destruct (net_step b s _) as [s1|] eqn:E; [|discriminate]; eapply IH; [eapply net_step_wf; eauto|eauto]).
Qed.

Lemma sim_run_wf b fuel ch s s' r nd : qwf s -> sim_run b fuel ch s = (s', r, nd) -> qwf s'.
Proof.
  intros HI. unfold sim_run. destruct (terminated s); [intros H; injection H as <- <- <-; auto|].
  destruct (net_run b fuel ch s false) as [[s1 nd1]|] eqn:ER; [|intros H; injection H as <- <- <-; auto].
  intros H; injection H as <- <- <-. apply net_run_wf in ER; auto. destruct (is_ok _); auto.
Qed.

Lemma crit_wf fuel : forall s q bound cur group groups q' gs,
  pq_wf q -> q_from q (fst cur) -> (exists a0, pq_peek q = Some (cur, a0)) ->
  crit fuel s q bound cur group groups = Some (q', gs) -> pq_wf q'.
Proof.
  induction fuel as [|f IH]; intros s q bound cur group groups q' gs HW HQ [a0 HP] H; cbn [crit] in H; [discriminate|].
  destruct (pull_next q) as [[[k a] q1]|] eqn:EPN; [|discriminate].
  pose proof EPN as EPN'. apply pull_next_spec in EPN'. destruct EPN' as [EPK Hq1]. rewrite HP in EPK. injection EPK as <- <-.
  assert (PP : per_pos a0).
  { apply pq_peek_spec in HP. destruct HP as [m (Hm & _ & Ha & _)]. destruct (HQ m Hm) as [_ P]. subst. auto. }
  destruct (pull_next_wf _ _ _ _ HW PP EPN) as (W1 & _).
  destruct (peek_next (S (pq_len q1)) s q1 bound) as [nk q2] eqn:EN.
  destruct (peek_next_wf _ _ _ _ _ _ W1 EN) as (W2 & _).
  assert (HQ1 : q_from q1 (fst cur)).
  { intros y Hy. destruct (Hq1 y Hy) as [Hy'|[p (EA & EK & EV)]]; [apply HQ; auto|].
    rewrite EK, EV. cbn [fst]. unfold per_pos in PP. rewrite EA in PP. split; [lia|]. unfold per_pos. rewrite EA. exact PP. }
  pose proof (peek_next_spec _ _ _ _ _ _ EN) as (Hsub & _ & _).
  assert (HQ2 : q_from q2 (fst cur)) by (intros y Hy; apply HQ1, Hsub; auto).
  destruct (opt_key_eqb nk cur) eqn:EK.
  - destruct nk as [k'|]; [|discriminate]. cbn in EK. apply key_eqb_iff in EK. subst k'.
    destruct (peek_next_head _ _ _ _ _ _ EN) as [a1 (H1 & _)]. eapply IH; eauto.
  - destruct nk as [k'|]; [|injection H as <- <-; exact W2].
    destruct (Z.eqb_spec (fst k') (fst cur)) as [E|E]; [|injection H as <- <-; exact W2].
    destruct (peek_next_head _ _ _ _ _ _ EN) as [a1 (H1 & _)].
    eapply IH; [exact W2|rewrite E; exact HQ2|eexists; exact H1|exact H].
Qed.

Lemma cnt_le_len T q : cnt T q <= pq_len q.
Proof.
  unfold cnt, pq_len. induction (items q) as [|x r IH]; cbn [filter length]; [lia|].
  destruct (at_time T x); cbn [length]; lia.
Qed.

(* a bounded step never hangs and keeps the queue well formed *)
Lemma step_bounded_returns b fuel ch s bound s' r t nd :
  qwf s -> q_inv s -> step_bounded b fuel ch s bound = (s', r, t, nd) -> r <> RHang /\ qwf s'.
Proof.
  intros HW HI. unfold step_bounded. destruct (terminated s && negb (bugF1 b)).
  { intros H; injection H as <- <- <- <-. split; [discriminate|auto]. }
  destruct (peek_next _ s (queue s) bound) as [nk q0] eqn:EN.
  destruct (peek_next_wf _ _ _ _ _ _ HW EN) as (W0 & _).
  pose proof (peek_next_spec _ _ _ _ _ _ EN) as (Hsub & HSome & _).
  assert (HI0 : q_after q0 (now s)) by (intros y Hy; apply HI, Hsub; auto).
  destruct nk as [k|]; [|intros H; injection H as <- <- <- <-; split; [discriminate|exact W0]].
  destruct (HSome k eq_refl) as (HB & m & Hm & Hk & _ & Hmin).
  destruct (peek_next_head _ _ _ _ _ _ EN) as [a1 (H1 & _)].
  assert (HQ0 : q_from q0 (fst k)).
  { intros y Hy. destruct (HI0 y Hy) as [_ P]. split; auto.
    destruct (Hmin y Hy) as [L|L]; [unfold key_lt in L; lia|rewrite <- L; lia]. }
  destruct (crit _ _ q0 bound k [] []) as [[q1 groups]|] eqn:EC.
  2:{ exfalso. eapply (crit_terminates (S (pq_len q0))); [exact W0|exact HQ0|eexists; exact H1| |exact EC].
      pose proof (cnt_le_len (fst k) q0). lia. }
  pose proof (crit_wf _ _ _ _ _ _ _ _ _ W0 HQ0 (ex_intro _ a1 H1) EC) as W1.
  destruct (clock_sync b _ (fst k)) as [s3 ans] eqn:ECl.
  assert (F3 : queue s3 = q1).
  { unfold clock_sync in ECl. injection ECl as <- _. cbn.
    destruct (spawn_fold_q groups (set_queue (add_log (set_now (set_queue s q0) (fst k)) (ETime (fst k))) q1)) as (A & _). exact A. }
  destruct (over_tolerance b ans).
  { intros H; injection H as <- <- <- <-. split; [discriminate|]. unfold qwf; cbn. rewrite F3. exact W1. }
  destruct (sim_run b fuel ch s3) as [[s4 r4] nd4] eqn:ER. intros H; injection H as <- <- <- <-.
  assert (W3 : qwf s3) by (unfold qwf; rewrite F3; exact W1).
  split; [|eapply sim_run_wf; eauto].
  revert ER. unfold sim_run. destruct (terminated s3); [intros X; injection X as _ <- _; discriminate|].
  destruct (net_run _ _ _ _ _) as [[sx ndx]|]; [|intros X; injection X as _ <- _; discriminate].
  intros X; injection X as _ <- _. unfold classify. destruct (err sx) as [[? ?|?]|]; try discriminate.
  destruct (Z.eqb _ _); try discriminate. destruct (observed b sx); discriminate.
Qed.

Lemma step_until_loop_returns b n : forall fuel ch s target nd0 s' r nd,
  qwf s -> q_inv s -> (now s <= target)%Z ->
  step_until_loop b n fuel ch s target nd0 = (s', r, nd) -> r <> RHang /\ qwf s'.
Proof.
  induction n as [|n IH]; intros fuel ch s target nd0 s' r nd HW HI HT H; cbn [step_until_loop] in H.
  - injection H as <- <- <-. split; [discriminate|auto].
  - destruct (step_bounded b fuel ch s (Some target)) as [[[s1 r1] t1] nd1] eqn:ES.
    destruct (step_bounded_returns _ _ _ _ _ _ _ _ _ HW HI ES) as [NH W1].
    destruct (step_bounded_inv _ _ _ _ _ _ _ _ _ HI ES NH) as (HI1 & L1 & HS & HN).
    destruct (is_ok r1) eqn:EO.
    + destruct t1 as [x|].
      * destruct (HS x eq_refl) as (E1 & E2 & E3). cbn in E3. apply Z.leb_le in E3.
        destruct (Z.eqb x target); [injection H as <- <- <-; split; [discriminate|auto]|].
        eapply IH; [exact W1|exact HI1| |exact H]. lia.
      * destruct (clock_sync b _ target) as [s3 ans] eqn:ECl.
        assert (F : queue s3 = queue s1) by (unfold clock_sync in ECl; injection ECl as <- _; reflexivity).
        destruct (bugF3 b); [injection H as <- <- <-; split; [discriminate|unfold qwf; rewrite F; exact W1]|].
        destruct (over_tolerance b ans); injection H as <- <- <-; (split; [discriminate|unfold qwf; cbn; rewrite ?F; exact W1]).
    + injection H as <- <- <-. auto.
Qed.

(* Every command returns (never RHang) and keeps both queue invariants. *)
Theorem exec_cmd_returns b fuel s c ch s' r nd :
  bugF4 b = false -> qwf s -> q_inv s -> exec_cmd b fuel s c ch = (s', r, nd) -> r <> RHang /\ qwf s'.
Proof.
  intros HF HW HI H. destruct c; cbn [exec_cmd] in H.
  - destruct (sched_request _ _ _ _ _ _ _) as [[s1 code] k] eqn:ES.
    pose proof (sched_request_wf _ _ _ _ _ _ _ _ _ _ HW ES) as W1. injection H as <- <- <-.
    split; [discriminate|]. unfold store_dkey. destruct slot, k; exact W1.
  - destruct (sched_request _ _ _ _ _ _ _) as [[s1 code] k] eqn:ES.
    pose proof (sched_request_wf _ _ _ _ _ _ _ _ _ _ HW ES) as W1. injection H as <- <- <-.
    split; [discriminate|]. unfold store_dkey. destruct slot, k; exact W1.
  - injection H as <- <- <-. split; [discriminate|]. unfold qwf, cancel_key. destruct (nth slot (dkeys s) None); exact HW.
  - destruct (step_bounded b fuel ch s None) as [[[s1 r1] t1] nd1] eqn:ES. injection H as <- <- <-.
    eapply step_bounded_returns; eauto.
  - destruct (terminated s && negb (bugF1 b)); [injection H as <- <- <-; split; [discriminate|auto]|].
    destruct (Z.ltb_spec (dl_time d (now s)) (now s)); [injection H as <- <- <-; split; [discriminate|auto]|].
    eapply step_until_loop_returns; eauto.
  - destruct (terminated s && negb (bugF1 b)); [injection H as <- <- <-; split; [discriminate|auto]|].
    split; [|eapply sim_run_wf; [|exact H]; exact HW].
    revert H. unfold sim_run. destruct (terminated _); [intros X; injection X as _ <- _; discriminate|].
    destruct (net_run _ _ _ _ _) as [[sx ndx]|]; [|intros X; injection X as _ <- _; discriminate].
    intros X; injection X as _ <- _. unfold classify. destruct (err sx) as [[? ?|?]|]; try discriminate.
    destruct (Z.eqb _ _); try discriminate. destruct (observed b sx); discriminate.
  - destruct (terminated s && negb (bugF1 b)); [injection H as <- <- <-; split; [discriminate|auto]|].
    destruct (sim_run b fuel ch _) as [[s1 r1] nd1] eqn:ER.
    assert (W1 : qwf s1) by (eapply sim_run_wf; [|exact ER]; exact HW).
    assert (N1 : r1 <> RHang).
    { revert ER. unfold sim_run. destruct (terminated _); [intros X; injection X as _ <- _; discriminate|].
      destruct (net_run _ _ _ _ _) as [[sx ndx]|]; [|intros X; injection X as _ <- _; discriminate].
      intros X; injection X as _ <- _. unfold classify. destruct (err sx) as [[? ?|?]|]; try discriminate.
      destruct (Z.eqb _ _); try discriminate. destruct (observed b sx); discriminate. }
    destruct (is_ok r1); [destruct (qreply s1)|]; injection H as <- <- <-; split; auto; discriminate.
  - destruct (terminated s && negb (bugF1 b)); [injection H as <- <- <-; split; [discriminate|auto]|].
    split; [|eapply sim_run_wf; [|exact H]; exact HW].
    revert H. unfold sim_run. destruct (terminated _); [intros X; injection X as _ <- _; discriminate|].
    destruct (net_run _ _ _ _ _) as [[sx ndx]|]; [|intros X; injection X as _ <- _; discriminate].
    intros X; injection X as _ <- _. unfold classify. destruct (err sx) as [[? ?|?]|]; try discriminate.
    destruct (Z.eqb _ _); try discriminate. destruct (observed b sx); discriminate.
  - destruct (nth_error _ _) as [k|]; [destruct (sink_drain k)|]; injection H as <- <- <-; split; auto; discriminate.
  - destruct (nth_error _ _); injection H as <- <- <-; split; auto; discriminate.
Qed.

Lemma init_wf b fuel ich s r nd : sim_init b fuel ich = (s, r, nd) -> qwf s /\ r <> RHang.
Proof.
  unfold sim_init. destruct (clock_sync b _ (bt0 b)) as [s2 a] eqn:EC.
  assert (Q : qwf s2) by (unfold clock_sync in EC; injection EC as <- _; unfold qwf; cbn; apply pq_wf_empty).
  intros H. split; [eapply sim_run_wf; eauto|].
  revert H. unfold sim_run. destruct (terminated _); [intros X; injection X as _ <- _; discriminate|].
  destruct (net_run _ _ _ _ _) as [[sx ndx]|]; [|intros X; injection X as _ <- _; discriminate].
  intros X; injection X as _ <- _. unfold classify. destruct (err sx) as [[? ?|?]|]; try discriminate.
  destruct (Z.eqb _ _); try discriminate. destruct (observed b sx); discriminate.
Qed.

(* ---------------- unconditional trace-level statement ---------------- *)
Require Import NX.Proofs.SimTop.

Theorem states_all b fuel cs : forall s,
  bugF4 b = false -> qwf s -> q_inv s ->
  (forall p, In p (states_of b fuel s cs) -> q_inv (fst p) /\ qwf (fst p) /\ snd p <> RHang) /\
  nondecreasing (now s) (map (fun p => now (fst p)) (states_of b fuel s cs)).
Proof.
  induction cs as [|[c ch] r IH]; intros s HF HW HI; cbn [states_of]; [split; [intros p []|exact I]|].
  destruct (exec_cmd b fuel s c ch) as [[s1 x] nd] eqn:EC.
  destruct (exec_cmd_returns _ _ _ _ _ _ _ _ HF HW HI EC) as [NH W1].
  destruct (exec_cmd_inv _ _ _ _ _ _ _ _ HF HI EC NH) as (A & B & _).
  destruct (IH s1 HF W1 A) as [I1 I2]. split.
  - intros p [<-|Hp]; [cbn; auto|apply I1; exact Hp].
  - cbn [map nondecreasing fst]. split; [exact B|exact I2].
Qed.

(* from SimInit::init on: every state ever reached by a driver sequence *)
Theorem sim_all b fuel ich cs s0 r0 nd0 :
  bugF4 b = false -> sim_init b fuel ich = (s0, r0, nd0) ->
  r0 <> RHang /\ q_inv s0 /\ qwf s0 /\ now s0 = bt0 b /\
  (forall p, In p (states_of b fuel s0 cs) -> q_inv (fst p) /\ qwf (fst p) /\ snd p <> RHang) /\
  nondecreasing (bt0 b) (map (fun p => now (fst p)) (states_of b fuel s0 cs)).
Proof.
  intros HF H. destruct (init_wf _ _ _ _ _ _ H) as [W0 N0]. destruct (init_inv _ _ _ _ _ _ H) as [I0 T0].
  destruct (states_all b fuel cs s0 HF W0 I0) as [A B]. rewrite T0 in B.
  split; [exact N0|]. split; [exact I0|]. split; [exact W0|]. split; [exact T0|]. split; [exact A|exact B].
Qed.
