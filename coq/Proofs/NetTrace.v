(* Trace-level statement for mailboxes: along ANY execution (any sequence of
   enabled steps, i.e. any schedule) the content of a mailbox is its initial
   content followed by the messages enqueued into it, in enqueue order, minus
   the prefix consumed by its owner; the owner consumed exactly that prefix, in
   that order.  Nothing is lost, duplicated, reordered or invented. *)
Require Import NX.Base.Prelude NX.Base.ListX NX.Model.PQ NX.Model.Sink NX.Model.Sim.
Require Import NX.Proofs.SimBasic NX.Proofs.SimSched NX.Proofs.NetProofs.

Inductive mevent := MEnq (g : msg) | MDeq.

(* what step [l], taken in state [s], does to mailbox [m] *)
Definition step_event (b : bench) (s : state) (l : label) (m : nat) : option mevent :=
  match l with
  | LStart t =>
      match nth_error (tasks s) t with
      | Some x => match tk x with
                  | TKModel m' => if Nat.eqb m' m && negb (tinit x) then Some MDeq else None
                  | TKAction => None
                  end
      | None => None
      end
  | LOp _ => None
  | LDeliver t i =>
      match nth_error (tasks s) t with
      | Some x => match tfr x with
                  | Some f => match nth_error (fpend f) i with
                              | Some d => match dtgt d with
                                          | DModel m' g =>
                                              match nth_error (bmodels b) m' with
                                              | Some sp => match mplace sp with
                                                           | Dropped => None
                                                           | _ => if Nat.eqb m' m then Some (MEnq g) else None
                                                           end
                                              | None => None
                                              end
                                          | DSink _ _ => None
                                          end
                              | None => None
                              end
                  | None => None
                  end
      | None => None
      end
  end.

(* an execution: a list of labels, each enabled in the state it is taken in *)
Fixpoint net_exec (b : bench) (s : state) (ls : list label) : option state :=
  match ls with
  | [] => Some s
  | l :: r => match net_step b s l with Some s1 => net_exec b s1 r | None => None end
  end.

Fixpoint enqs (b : bench) (s : state) (ls : list label) (m : nat) : list msg :=
  match ls with
  | [] => []
  | l :: r => match net_step b s l with
              | Some s1 => (match step_event b s l m with Some (MEnq g) => [g] | _ => [] end) ++ enqs b s1 r m
              | None => []
              end
  end.

Fixpoint deqs (b : bench) (s : state) (ls : list label) (m : nat) : nat :=
  match ls with
  | [] => 0
  | l :: r => match net_step b s l with
              | Some s1 => (match step_event b s l m with Some MDeq => 1 | _ => 0 end) + deqs b s1 r m
              | None => 0
              end
  end.

(* one step: the mailbox changes exactly as its event says *)
Lemma step_event_spec b s l s1 m q :
  net_step b s l = Some s1 -> nth_error (boxes s) m = Some q ->
  match step_event b s l m with
  | None => nth_error (boxes s1) m = Some q
  | Some (MEnq g) => nth_error (boxes s1) m = Some (q ++ [g])
  | Some MDeq => exists g rest, q = g :: rest /\ nth_error (boxes s1) m = Some rest
  end.
Proof.
  intros H Hq. pose proof H as H0. unfold net_step in H0. destruct (err s); [discriminate|].
  assert (Lm : m < length (boxes s)) by (apply nth_error_Some; congruence).
  destruct l as [t|t|t i]; cbn [step_event].
  - destruct (nth_error (tasks s) t) as [x|] eqn:Et; [|unfold step_start in H0; rewrite Et in H0; discriminate].
    destruct (tk x) as [m'|] eqn:Ek; [|unfold step_start in H0; rewrite Et, Ek in H0; discriminate].
    destruct (tinit x) eqn:Ei.
    + rewrite andb_false_r. destruct (start_log _ _ _ _ _ H0 Et) as [A _]. destruct (A Ei) as [E _]. rewrite E. exact Hq.
    + rewrite andb_true_r. destruct (start_pops_head _ _ _ _ _ _ H0 Et Ek Ei) as (g & rest & B1 & B2 & _).
      destruct (Nat.eqb_spec m' m) as [->|NE].
      * rewrite Hq in B1. injection B1 as ->. exists g, rest. split; auto. rewrite B2. apply nth_error_lupd_eq; auto.
      * rewrite B2. rewrite nth_error_lupd_ne by auto. exact Hq.
  - assert (E : boxes s1 = boxes s).
    { unfold step_op in H0.
      destruct (nth_error (tasks s) t) as [x|]; [|discriminate].
      destruct (tfr x) as [f|]; [|discriminate]. destruct (fpend f); [|discriminate].
      destruct (fwait f).
      2:{ destruct (opt_all _); [|discriminate]. destruct (task_model x); injection H0 as <-; reflexivity. }
      destruct (frest f) as [|o rest].
      { injection H0 as <-.
        match goal with |- boxes (deliver_reply ?a ?r) = _ => destruct (deliver_reply_boxes a r) as (-> & _) end.
        destruct (tk x); reflexivity. }
      destruct o; destruct (task_model x) as [mm|]; try discriminate H0;
        try (break_match_hyp H0; injection H0 as <-; reflexivity).
      + destruct (sched_request _ _ _ _ _ _ _) as [[s2 code] k] eqn:ES.
        apply sched_request_frame in ES. destruct ES as (_ & _ & _ & _ & _ & _ & EB & _).
        injection H0 as <-. cbn. exact EB.
      + injection H0 as <-. unfold cancel_key. destruct (nth slot (tkeys x) None); reflexivity. }
    rewrite E. exact Hq.
  - unfold step_deliver in H0.
    destruct (nth_error (tasks s) t) as [x|]; [|discriminate].
    destruct (tfr x) as [f|]; [|discriminate].
    destruct (nth_error (fpend f) i) as [d|]; [|discriminate].
    destruct (dtgt d) as [m' g|sk v].
    + destruct (nth_error (bmodels b) m') as [sp|]; [|discriminate].
      destruct (nth_error (boxes s) m') as [q0|] eqn:EB; [|discriminate].
      assert (G : forall s0, boxes s0 = boxes s ->
                 (if Nat.ltb (length q0) (mcap sp)
                  then Some (set_inflight (set_boxes s0 (lupd (boxes s0) m' (q0 ++ [g]))) (inflight s0 + 1)%Z)
                  else None) = Some s1 ->
                 match (if Nat.eqb m' m then Some (MEnq g) else None) with
                 | None => nth_error (boxes s1) m = Some q
                 | Some (MEnq g0) => nth_error (boxes s1) m = Some (q ++ [g0])
                 | Some MDeq => exists g0 rest, q = g0 :: rest /\ nth_error (boxes s1) m = Some rest
                 end).
      { intros s0 E1 X. destruct (Nat.ltb _ _); [|discriminate]. injection X as <-. cbn [boxes set_inflight set_boxes]. rewrite E1.
        destruct (Nat.eqb_spec m' m) as [->|NE].
        - rewrite nth_error_lupd_eq by auto. rewrite EB in Hq. injection Hq as <-. reflexivity.
        - rewrite nth_error_lupd_ne by auto. exact Hq. }
      destruct (mplace sp).
      * eapply G; [|exact H0]; reflexivity.
      * eapply G; [|exact H0]; reflexivity.
      * destruct (dthrow d); injection H0 as <-; cbn; exact Hq.
    + destruct (nth_error (sinks s) sk); injection H0 as <-; cbn; exact Hq.
Qed.

(* ---------------- the trace theorem ---------------- *)
Theorem mailbox_trace b ls : forall s s' m q,
  net_exec b s ls = Some s' -> nth_error (boxes s) m = Some q ->
  deqs b s ls m <= length (q ++ enqs b s ls m) /\
  nth_error (boxes s') m = Some (skipn (deqs b s ls m) (q ++ enqs b s ls m)).
Proof.
  induction ls as [|l r IH]; intros s s' m q H Hq; cbn [net_exec enqs deqs] in *.
  - injection H as <-. rewrite app_nil_r. cbn. split; [lia|exact Hq].
  - destruct (net_step b s l) as [s1|] eqn:ES; [|discriminate].
    pose proof (step_event_spec _ _ _ _ _ _ ES Hq) as SE.
    destruct (step_event b s l m) as [[g|]|].
    + destruct (IH _ _ _ _ H SE) as [A B]. cbn [app Nat.add]. rewrite <- app_assoc in A, B. cbn [app] in A, B. auto.
    + destruct SE as (g & rest & -> & SE). destruct (IH _ _ _ _ H SE) as [A B].
      cbn [app Nat.add length skipn]. split; [lia|exact B].
    + destruct (IH _ _ _ _ H SE) as [A B]. cbn [app Nat.add]. auto.
Qed.

(* from the start of a run (all mailboxes as they are), a mailbox that ends
   empty has had every message ever enqueued into it consumed, in order *)
Corollary mailbox_all_consumed b ls s s' m q :
  net_exec b s ls = Some s' -> nth_error (boxes s) m = Some q -> nth_error (boxes s') m = Some [] ->
  deqs b s ls m = length q + length (enqs b s ls m).
Proof.
  intros H Hq He. destruct (mailbox_trace _ _ _ _ _ _ H Hq) as [A B]. rewrite He in B. injection B as B.
  rewrite app_length in A. assert (L : length (skipn (deqs b s ls m) (q ++ enqs b s ls m)) = 0) by (rewrite <- B; reflexivity).
  rewrite skipn_length, app_length in L. lia.
Qed.

(* net_run is an execution: the run of the executor under any choice sequence
   is one of the executions quantified over above *)
Lemma net_run_is_exec b fuel : forall ch s nd s' nd',
  net_run b fuel ch s nd = Some (s', nd') -> exists ls, net_exec b s ls = Some s' /\ net_enabled b s' = [].
Proof.
  induction fuel as [|f IH]; intros ch s nd s' nd' H; cbn [net_run] in H; [discriminate|].
  destruct (net_enabled b s) as [|l0 ls0] eqn:EE.
  - injection H as <- <-. exists []. split; [reflexivity|exact EE].
  - destruct ch as [|c r]; cbn in H.
    + destruct (net_step b s _) as [s1|] eqn:E1; [|discriminate].
      destruct (IH _ _ _ _ _ H) as [ls [A B]]. eexists (_ :: ls). cbn [net_exec]. rewrite E1. auto.
    + destruct (net_step b s _) as [s1|] eqn:E1; [|discriminate].
      destruct (IH _ _ _ _ _ H) as [ls [A B]]. eexists (_ :: ls). cbn [net_exec]. rewrite E1. auto.
Qed.
