(* Invariant of the blocking protocol of channel.rs for the program of the current tree. *)
Require Import NX.Base.Prelude NX.Base.ListX NX.Model.Chan.

Definition b2n (b : bool) : nat := if b then 1 else 0.
Fixpoint nsh (l : list csender) : nat := match l with [] => 0 | v :: r => b2n (sh v) + nsh r end.
Definition notes (s : cstate) : nat := b2n (rpend s) + nsh (csnd s).

Definition awake_pc (pc : spc) : bool :=
  match pc with SPoll | SCheck1 | SCheck2 | SCancel => true | _ => false end.
Definition in_pc (pc : spc) : bool :=
  match pc with SPoll | SCheck2 | SCancel | SSleep => true | _ => false end.
Definition will_notify_recv (pc : spc) : bool :=
  match pc with
  | SCancel => true
  | SPost ops => existsb (fun o => match o with SNotifyRecv => true | _ => false end) ops
  | _ => false
  end.
Definition post_ok (pc : spc) : Prop :=
  match pc with
  | SPost ops => ops = [SNotifyRecv; SCountInc] \/ ops = [SCountInc] \/ ops = []
  | _ => True
  end.
Definition got_ok (pc : rpc) : Prop :=
  match pc with
  | RGot ops => ops = [RCountDec; RTake; RRelease; RNotifyOne] \/ ops = [RTake; RRelease; RNotifyOne]
                \/ ops = [RRelease; RNotifyOne] \/ ops = [RNotifyOne] \/ ops = []
  | _ => True
  end.

Definition holds_msg (pc : rpc) : bool :=
  match pc with RGot ops => existsb (fun o => match o with RRelease => true | _ => false end) ops | _ => false end.

Record CInv (s : cstate) : Prop := {
  c_cap : cocc s <= ccap s;
  c_av : cavail s <= cocc s;
  c_hold : holds_msg (rpc_ s) = true -> S (cavail s) <= cocc s;
  c_post : forall x, post_ok (spc_ (S_ s x));
  c_got : got_ok (rpc_ s);
  c_sh : forall x, sh (S_ s x) = true ->
         sin (S_ s x) = false /\ (awake_pc (spc_ (S_ s x)) = true \/ (spc_ (S_ s x) = SSleep /\ swk (S_ s x) = true));
  c_in : forall x, sin (S_ s x) = true -> in_pc (spc_ (S_ s x)) = true /\ swk (S_ s x) = false;
  c_slp : forall x, spc_ (S_ s x) = SSleep -> sin (S_ s x) = false -> swk (S_ s x) = true;
  c_c2 : forall x, spc_ (S_ s x) = SCheck2 -> sin (S_ s x) = false -> swk (S_ s x) = true;
  c_aw : forall x, spc_ (S_ s x) = SCheck1 \/ spc_ (S_ s x) = SIns -> sin (S_ s x) = false /\ swk (S_ s x) = false;
  c_main : forall x, spc_ (S_ s x) = SSleep -> sin (S_ s x) = true -> ccap s - cocc s <= notes s;
  c_rp : rpend s = true <-> rpc_ s = RGot [RNotifyOne];
  c_r1 : rpc_ s = RSleep -> rreg s = true -> cavail s = 0 \/ exists x, will_notify_recv (spc_ (S_ s x)) = true;
  c_r2 : rpc_ s = RSleep -> rreg s = false -> rwk s = true;
  c_r4 : rpc_ s = RCheck2 -> rreg s = false -> rwk s = true
}.

(* list facts *)
Lemma nth_lupd_s (l : list csender) i j x d :
  nth j (lupd l i x) d = if Nat.eqb j i && (i <? length l) then x else nth j l d.
Proof.
  revert i j; induction l as [|y l IH]; intros i j.
  - cbn [lupd length]. replace (i <? 0) with false by (symmetry; apply Nat.ltb_ge; lia).
    rewrite andb_false_r. reflexivity.
  - destruct i as [|i], j as [|j]; cbn [lupd nth length Nat.eqb andb]; try reflexivity.
    rewrite IH. replace (S i <? S (length l)) with (i <? length l); [reflexivity|].
    destruct (Nat.ltb_spec i (length l)), (Nat.ltb_spec (S i) (S (length l))); auto; lia.
Qed.

Lemma S_upd s s' x v y : csnd s' = lupd (csnd s) x v -> x < length (csnd s) ->
  S_ s' y = if Nat.eqb y x then v else S_ s y.
Proof.
  intros E H. unfold S_. rewrite E, nth_lupd_s.
  destruct (Nat.ltb_spec x (length (csnd s))); [|lia]. rewrite andb_true_r. reflexivity.
Qed.

Lemma S_nth_error s x v : nth_error (csnd s) x = Some v -> S_ s x = v /\ x < length (csnd s).
Proof. intros H. split; [unfold S_; apply nth_error_nth; auto|apply nth_error_Some; congruence]. Qed.

Lemma S_out s x : length (csnd s) <= x -> S_ s x = csdef.
Proof. intros H. unfold S_. apply nth_overflow; auto. Qed.

Lemma nsh_lupd l x v : x < length l -> nsh (lupd l x v) + b2n (sh (nth x l csdef)) = nsh l + b2n (sh v).
Proof.
  revert x; induction l as [|y l IH]; intros x H; cbn [length] in H; [lia|].
  destruct x; cbn [lupd nsh nth]; [lia|]. specialize (IH x ltac:(lia)). lia.
Qed.

Lemma existsb_sin_false l : existsb sin l = false -> forall x, sin (nth x l csdef) = false.
Proof.
  induction l as [|y l IH]; intros H x; [destruct x; reflexivity|].
  cbn [existsb] in H. apply orb_false_iff in H. destruct H as [H1 H2].
  destruct x; cbn [nth]; auto.
Qed.

Lemma nsh_repeat n : nsh (repeat csdef n) = 0.
Proof. induction n as [|n IH]; cbn [repeat nsh]; [reflexivity|]. rewrite IH. reflexivity. Qed.

Lemma S_init c n x : S_ (c_init c n) x = csdef.
Proof.
  unfold S_, c_init; cbn [csnd]. destruct (Nat.lt_ge_cases x n) as [H|H].
  - apply nth_repeat.
  - apply nth_overflow. rewrite repeat_length; auto.
Qed.

Lemma cinv_init c n : CInv (c_init c n).
Proof.
  constructor; intros; rewrite ?S_init in *; cbn in *;
    try solve [auto | discriminate | lia | tauto | split; intros; discriminate].
Qed.
