(* The countdown of the concurrent task set: only take_scheduled sets it, only a successful push
   decrements it, and the push that takes it from one to zero calls notify() exactly once. *)
Require Import NX.Base.Prelude NX.Base.ListX NX.Model.TaskSetConc NX.Proofs.TaskSetConcProofs.

(* what a step does to (countdown, number of notifications) *)
Theorem tk_step_countdown s l s' :
  tk_step s l = Some s' ->
  (* unchanged *)
  (fst (thead s') = fst (thead s) /\ tnotif s' = tnotif s) \/
  (* a successful push: decrement (if non-zero), notify iff it was one *)
  (exists j w, l = LStep (S j) false /\ nth_error (tkwakers s) j = Some w /\ kpc w = 4 /\ thead s = khd w /\
     fst (thead s') = fst (thead s) - 1 /\ snd (thead s') = Some (kti w) /\
     tnotif s' = tnotif s + (if Nat.eqb (fst (thead s)) 1 then 1 else 0)) \/
  (* take_scheduled(k) by the owner: the countdown becomes k if nothing was scheduled, else zero *)
  (exists k hd, cph s = CTake k (Some hd) /\ thead s = hd /\ tnotif s' = tnotif s /\
     thead s' = match snd hd with None => (k, None) | Some _ => (0, None) end).
Proof.
  intros H. destruct l as [[|j] b|[k| |]]; cbn [tk_step] in H.
  - unfold cons_step in H.
    destruct (cph s) as [|k [hd|]|[idx|]|[idx|] [nx|]] eqn:Ec; try discriminate.
    + destruct (negb b && hd_eqb (thead s) hd) eqn:Eb; injection H as <-.
      * apply andb_true_iff in Eb. destruct Eb as [_ Eb]. apply hd_eqb_true in Eb.
        right. right. exists k, hd. cbn. auto.
      * left. cbn. auto.
    + injection H as <-. left. cbn. auto.
    + destruct (nth idx (tnext s) NSleep); injection H as <-; left; cbn; auto.
    + injection H as <-. left. cbn. auto.
    + destruct nx; injection H as <-; left; cbn; auto.
    + injection H as <-. left. cbn. auto.
    + injection H as <-. left. cbn. auto.
    + injection H as <-. left. cbn. auto.
  - destruct (nth_error (tkwakers s) j) as [w|] eqn:Ej; [|discriminate]. unfold wake_step in H.
    destruct (kpc w) as [|[|[|[|[|[|n]]]]]] eqn:Epc; try discriminate.
    + injection H as <-. left. cbn. auto.
    + destruct (knxt w); injection H as <-; left; cbn; auto.
    + destruct (negb b && nst_eqb _ _); injection H as <-; left; cbn; auto.
    + destruct (negb b && nst_eqb _ _); injection H as <-; left; cbn; auto.
    + destruct (negb b && hd_eqb (thead s) (khd w)) eqn:Eb; injection H as <-.
      * apply andb_true_iff in Eb. destruct Eb as [Eb1 Eb]. apply hd_eqb_true in Eb.
        apply negb_true_iff in Eb1. subst b.
        right. left. exists j, w. rewrite Eb. cbn. repeat split; auto.
      * left. cbn. auto.
    + injection H as <-. left. cbn. auto.
  - destruct (cph s); try discriminate. injection H as <-. left. cbn. auto.
  - discriminate.
  - destruct (cph s); try discriminate. injection H as <-. left. cbn. auto.
Qed.

(* the case used by BroadcastFuture (take_scheduled(1)): once the owner has been told that
   nothing is scheduled and the countdown is one, the next successful push notifies *)
Corollary tk_armed_push_notifies s j w s' :
  fst (thead s) = 1 -> nth_error (tkwakers s) j = Some w -> kpc w = 4 -> thead s = khd w ->
  tk_step s (LStep (S j) false) = Some s' ->
  tnotif s' = S (tnotif s) /\ fst (thead s') = 0 /\ snd (thead s') = Some (kti w).
Proof.
  intros H1 Hj Hpc Hh Hs. cbn [tk_step] in Hs. rewrite Hj in Hs. unfold wake_step in Hs. rewrite Hpc in Hs.
  assert (E : hd_eqb (thead s) (khd w) = true).
  { rewrite Hh. unfold hd_eqb. rewrite Nat.eqb_refl. destruct (snd (khd w)); [apply Nat.eqb_refl|reflexivity]. }
  cbn [negb andb] in Hs. rewrite E in Hs. injection Hs as <-. cbn. rewrite <- Hh, H1. cbn. split; [lia|auto].
Qed.
