(* Conservation of tasks in the pool model, for ANY barrier program: every task made runnable (spawned by
   the main thread or woken by a running task) is, at any time, either in the injector, in a local queue,
   in a fast slot, in a worker's hands, or has been taken and run - exactly once. *)
Require Import NX.Base.Prelude NX.Base.ListX NX.Model.Pool NX.Proofs.PoolInv NX.Proofs.PoolProofs.

Definition wload (w : pworker) : nat := wlq w + (if wslot w then 1 else 0) + whand w.
Fixpoint sumload (l : list pworker) : nat :=
  match l with [] => 0 | w :: r => wload w + sumload r end.

Definition Cons (s : pstate) : Prop := psched s = pran s + pinj s + sumload (pws s).

Lemma sumload_lupd l j w : j < length l -> sumload (lupd l j w) + wload (nth j l wdef) = sumload l + wload w.
Proof.
  revert j; induction l as [|y l IH]; intros j H; cbn [length] in H; [lia|].
  destruct j; cbn [lupd sumload nth]; [lia|]. specialize (IH j ltac:(lia)). lia.
Qed.

Lemma sumload_map_act l b : sumload (map (fun x => set_act x b) l) = sumload l.
Proof. induction l as [|y l IH]; cbn [map sumload]; [reflexivity|]. rewrite IH. reflexivity. Qed.

Lemma sumload_repeat n : sumload (repeat wdef n) = 0.
Proof. induction n as [|n IH]; cbn [repeat sumload]; [reflexivity|]. rewrite IH. reflexivity. Qed.

Lemma cons_init n : Cons (p_init n).
Proof. unfold Cons; cbn. rewrite sumload_repeat. reflexivity. Qed.

Lemma nth_error_nth_wdef (l : list pworker) j w : nth_error l j = Some w -> nth j l wdef = w /\ j < length l.
Proof. intros H. split; [apply nth_error_nth; auto|apply nth_error_Some; congruence]. Qed.

(* the state after updating worker j: what a step needs to re-establish *)
Lemma cons_upd s j w w' (ds dr : nat) inj' :
  Cons s -> nth_error (pws s) j = Some w ->
  ds + pinj s + wload w = dr + inj' + wload w' ->
  psched s + ds = pran s + dr + inj' + sumload (lupd (pws s) j w').
Proof.
  unfold Cons. intros C Hn E. destruct (nth_error_nth_wdef _ _ _ Hn) as [Hw Hj].
  pose proof (sumload_lupd (pws s) j w' Hj) as L. rewrite Hw in L. lia.
Qed.

Ltac cons_one C Hn :=
  unfold Cons; cbn [psched pran pinj pws set_w set_ws set_inj set_msg set_net set_mtok set_main add_sched add_ran add_panic add_read];
  first [ exact C
        | pose proof (cons_upd _ _ _ _ 0 0 _ C Hn) as X; cbn [wload set_pc set_act set_tok set_lq set_slot set_hand set_cnt wlq wslot whand] in X;
          rewrite ?Nat.add_0_r in X; apply X; cbn; lia ].

Lemma exec_bop_cons s j w o cont s' :
  Cons s -> nth_error (pws s) j = Some w -> exec_bop s j w o cont = Some s' -> Cons s'.
Proof.
  intros C Hn H. destruct (nth_error_nth_wdef _ _ _ Hn) as [Hw Hj]. unfold Cons in *.
  destruct o; cbn in H.
  - injection H as <-. cbn. pose proof (sumload_lupd (pws s) j (set_pc (set_cnt w 0) cont) Hj) as L.
    rewrite Hw in L. unfold wload in L; cbn in L. unfold wload in *. lia.
  - destruct (wtok w); [|discriminate]. injection H as <-. cbn.
    pose proof (sumload_lupd (pws s) j (set_pc (set_tok w false) cont) Hj) as L.
    rewrite Hw in L. unfold wload in L; cbn in L. unfold wload in *. lia.
  - injection H as <-. cbn.
    assert (Hj' : j < length (map (fun x => set_act x false) (pws s))) by (rewrite map_length; exact Hj).
    pose proof (sumload_lupd _ j (set_pc (set_act w false) cont) Hj') as L.
    rewrite sumload_map_act in L.
    replace (nth j (map (fun x => set_act x false) (pws s)) wdef) with (set_act w false) in L.
    + unfold wload in L; cbn in L. unfold wload in *. lia.
    + rewrite nth_map_act by reflexivity. rewrite Hw. reflexivity.
  - injection H as <-. cbn. pose proof (sumload_lupd (pws s) j (set_pc w cont) Hj) as L.
    rewrite Hw in L. unfold wload in L; cbn in L. unfold wload in *. lia.
  - injection H as <-. cbn. pose proof (sumload_lupd (pws s) j (set_pc w cont) Hj) as L.
    rewrite Hw in L. unfold wload in L; cbn in L. unfold wload in *. lia.
Qed.


Ltac upd1 C Hw Hj w' :=
  let L := fresh "L" in
  pose proof (sumload_lupd _ _ w' Hj) as L; rewrite Hw in L; unfold wload in L; cbn in L; unfold wload in *; cbn in *; lia.

Lemma worker_step_cons B s j w c s' :
  Cons s -> nth_error (pws s) j = Some w -> worker_step B s j w c = Some s' -> Cons s'.
Proof.
  intros C Hn H. destruct (nth_error_nth_wdef _ _ _ Hn) as [Hw Hj].
  unfold worker_step in H.
  destruct (wpc w) as [[|o r]| | |[|o r]| | | | | | |v|v] eqn:Epc.
  - injection H as <-. unfold Cons in *; cbn. upd1 C Hw Hj (set_pc w WTry).
  - eapply exec_bop_cons; eauto.
  - destruct (negb (wact w)); [injection H as <-; exact C|].
    destruct (only_bit (acts s) j); injection H as <-; unfold Cons in *; cbn.
    + upd1 C Hw Hj (set_pc w WChk).
    + upd1 C Hw Hj (set_pc (set_act w false) (WPost (b_inactive B))).
  - destruct (Nat.eqb (pinj s) 0); injection H as <-; unfold Cons in *; cbn.
    + upd1 C Hw Hj (set_pc w (WPost (b_last_empty B))).
    + upd1 C Hw Hj (set_pc w (WPost (b_last_busy B))).
  - injection H as <-. unfold Cons in *; cbn. upd1 C Hw Hj (set_pc w WSearch).
  - eapply exec_bop_cons; eauto.
  - destruct c; try discriminate.
    + destruct ((1 <=? k) && (k <=? pinj s)) eqn:Ek; [|discriminate]. injection H as <-.
      apply andb_true_iff in Ek. destruct Ek as [E1 E2]. apply Nat.leb_le in E1, E2.
      unfold Cons in *; cbn. upd1 C Hw Hj (set_pc (set_hand w (whand w + k)) WExt).
    + destruct (Nat.eqb_spec v j) as [|Hvj]; [discriminate|].
      destruct (nth_error (pws s) v) as [x|] eqn:Ev; [|discriminate].
      destruct (nth_error_nth_wdef _ _ _ Ev) as [Hx Hv].
      destruct (wslot w) eqn:Esl; [injection H as <-; exact C|].
      destruct ((1 <=? k) && (k <=? wlq x)) eqn:Ek; [|discriminate]. injection H as <-.
      apply andb_true_iff in Ek. destruct Ek as [E1 E2]. apply Nat.leb_le in E1, E2.
      unfold Cons in *; cbn.
      pose proof (sumload_lupd (pws s) v (set_lq x (wlq x - k)) Hv) as L1. rewrite Hx in L1.
      assert (Hj1 : j < length (lupd (pws s) v (set_lq x (wlq x - k)))) by (rewrite lupd_length; exact Hj).
      pose proof (sumload_lupd _ j (set_pc (set_slot (set_lq w (wlq w + (k - 1))) true) WRun) Hj1) as L2.
      rewrite nth_lupd in L2. destruct (Nat.eqb_spec j v); [congruence|]. cbn [andb] in L2. rewrite Hw in L2.
      unfold wload in *; cbn in *. rewrite Esl in *. lia.
    + injection H as <-. unfold Cons in *; cbn. upd1 C Hw Hj (set_pc w (WPre (b_pre B))).
  - injection H as <-. unfold Cons in *; cbn. upd1 C Hw Hj (set_pc (set_hand (set_lq w (wlq w + whand w)) 0) WRun).
  - destruct (wslot w) eqn:Esl; [|destruct (wlq w) as [|q] eqn:Elq]; injection H as <-; unfold Cons in *; cbn.
    + pose proof (sumload_lupd _ _ (set_pc (set_slot w false) WTask) Hj) as L; rewrite Hw in L; unfold wload in *; cbn in *; rewrite Esl in L; lia.
    + upd1 C Hw Hj (set_pc w WSearch).
    + pose proof (sumload_lupd _ _ (set_pc (set_lq w q) WTask) Hj) as L; rewrite Hw in L; unfold wload in *; cbn in *; rewrite Esl, Elq in L; lia.
  - destruct c; try discriminate.
    + injection H as <-. unfold Cons in *; cbn. upd1 C Hw Hj (set_cnt w (wcnt w + d)).
    + destruct (wslot w) eqn:Esl; injection H as <-; unfold Cons in *; cbn.
      * pose proof (sumload_lupd _ _ (set_pc (set_hand w (S (whand w))) WSched1) Hj) as L; rewrite Hw in L; unfold wload in *; cbn in *; lia.
      * pose proof (sumload_lupd _ _ (set_slot w true) Hj) as L; rewrite Hw in L; unfold wload in *; cbn in *; rewrite Esl in L; lia.
    + injection H as <-. unfold Cons in *; cbn. upd1 C Hw Hj (set_pc w WRun).
  - destruct c; try discriminate.
    + destruct (whand w) as [|h] eqn:Eh; [discriminate|]. injection H as <-. unfold Cons in *; cbn.
      pose proof (sumload_lupd _ _ (set_hand (set_lq w (S (wlq w))) h) Hj) as L; rewrite Hw in L; unfold wload in *; cbn in *; rewrite Eh in L; lia.
    + destruct (Nat.leb_spec k (wlq w)); [|discriminate]. injection H as <-. unfold Cons in *; cbn.
      upd1 C Hw Hj (set_hand (set_lq w (wlq w - k)) (whand w + k)).
    + destruct ((1 <=? k) && (k <=? whand w)) eqn:Ek; [|discriminate]. injection H as <-.
      apply andb_true_iff in Ek. destruct Ek as [E1 E2]. apply Nat.leb_le in E1, E2.
      unfold Cons in *; cbn. upd1 C Hw Hj (set_hand w (whand w - k)).
    + destruct (whand w) as [|h] eqn:Eh; [|discriminate]. injection H as <-. unfold Cons in *; cbn.
      upd1 C Hw Hj (set_pc w WSched2).
  - destruct c; try discriminate.
    + destruct (v <? length (pws s)); [|discriminate]. injection H as <-. unfold Cons in *; cbn. upd1 C Hw Hj (set_pc w (WAct v)).
    + injection H as <-. unfold Cons in *; cbn. upd1 C Hw Hj (set_pc w WTask).
  - destruct (nth_error (pws s) v) as [x|] eqn:Ev; [|discriminate].
    destruct (nth_error_nth_wdef _ _ _ Ev) as [Hx Hv].
    destruct (wact x).
    + injection H as <-. unfold Cons in *; cbn. upd1 C Hw Hj (set_pc w WSched2).
    + destruct (Nat.eqb_spec v j) as [->|Hvj]; injection H as <-; unfold Cons in *; cbn.
      * upd1 C Hw Hj (set_pc (set_act w true) (WUnpark j)).
      * pose proof (sumload_lupd (pws s) v (set_act x true) Hv) as L1. rewrite Hx in L1.
        assert (Hj1 : j < length (lupd (pws s) v (set_act x true))) by (rewrite lupd_length; exact Hj).
        pose proof (sumload_lupd _ j (set_pc w (WUnpark v)) Hj1) as L2.
        rewrite nth_lupd in L2. destruct (Nat.eqb_spec j v); [congruence|]. cbn [andb] in L2. rewrite Hw in L2.
        unfold wload in *; cbn in *. lia.
  - destruct (nth_error (pws s) v) as [x|] eqn:Ev; [|discriminate].
    destruct (nth_error_nth_wdef _ _ _ Ev) as [Hx Hv].
    destruct (Nat.eqb_spec v j) as [->|Hvj]; injection H as <-; unfold Cons in *; cbn.
    + upd1 C Hw Hj (set_pc (set_tok w true) WTask).
    + pose proof (sumload_lupd (pws s) v (set_tok x true) Hv) as L1. rewrite Hx in L1.
      assert (Hj1 : j < length (lupd (pws s) v (set_tok x true))) by (rewrite lupd_length; exact Hj).
      pose proof (sumload_lupd _ j (set_pc w WTask) Hj1) as L2.
      rewrite nth_lupd in L2. destruct (Nat.eqb_spec j v); [congruence|]. cbn [andb] in L2. rewrite Hw in L2.
      unfold wload in *; cbn in *. lia.
Qed.

Lemma main_step_cons s s' : Cons s -> main_step s = Some s' -> Cons s'.
Proof.
  intros C H. unfold main_step in H. destruct (pmain s) as [|a|v| | |].
  - discriminate.
  - destruct (first_idle a) as [f|].
    + destruct (nth_error (pws s) f) as [x|] eqn:Ef; [|discriminate].
      destruct (nth_error_nth_wdef _ _ _ Ef) as [Hx Hf].
      destruct (wact x); injection H as <-; unfold Cons in *; cbn; [exact C|].
      pose proof (sumload_lupd _ _ (set_act x true) Hf) as L; rewrite Hx in L; unfold wload in *; cbn in *; lia.
    + destruct (bools_eqb (acts s) a); injection H as <-; exact C.
  - destruct (nth_error (pws s) v) as [x|] eqn:Ev; [|discriminate].
    destruct (nth_error_nth_wdef _ _ _ Ev) as [Hx Hv]. injection H as <-. unfold Cons in *; cbn.
    pose proof (sumload_lupd _ _ (set_tok x true) Hv) as L; rewrite Hx in L; unfold wload in *; cbn in *; lia.
  - destruct (all_inactive (acts s)); injection H as <-; exact C.
  - destruct (pmtok s); [|discriminate]. injection H as <-. exact C.
  - injection H as <-. exact C.
Qed.

Lemma p_step_cons B s l s' : Cons s -> p_step B s l = Some s' -> Cons s'.
Proof.
  intros C H. destruct l as [j c| | |]; cbn in H.
  - destruct (nth_error (pws s) j) as [w|] eqn:E; [|discriminate]. eapply worker_step_cons; eauto.
  - eapply main_step_cons; eauto.
  - destruct (pmain s); try discriminate. injection H as <-. unfold Cons in *; cbn. lia.
  - destruct (pmain s); try discriminate. injection H as <-. exact C.
Qed.

Theorem pool_run_cons B n ls : Cons (p_run B (p_init n) ls).
Proof.
  generalize (cons_init n). generalize (p_init n). induction ls as [|l ls IH]; intros s C; cbn [p_run]; auto.
  destruct (p_step B s l) as [s'|] eqn:E; [apply IH; eapply p_step_cons; eauto|apply IH; exact C].
Qed.

Lemma sumload_zero l : (forall j, wload (nth j l wdef) = 0) -> sumload l = 0.
Proof.
  induction l as [|y l IH]; intros H; cbn [sumload]; [reflexivity|].
  rewrite IH; [|intros j; apply (H (S j))]. specialize (H 0); cbn in H. lia.
Qed.

(* when Executor::run reads the idle pool, every task ever spawned or woken has been run *)
Theorem pool_all_tasks_run n ls : 1 <= n ->
  let s := p_run barrier_fixed (p_init n) ls in
  pmain s = MRead -> pran s = psched s.
Proof.
  intros Hn s Em. pose proof (pool_run_cons barrier_fixed n ls) as C. fold s in C.
  destruct (pool_idle_read_exact n ls Hn Em) as (_ & Hi & Hq). fold s in Hi, Hq.
  unfold Cons in C. rewrite Hi in C. rewrite sumload_zero in C; [lia|].
  intros j. destruct (Hq j) as (A & B & D & _). fold (W s j). unfold wload. rewrite A, B, D. reflexivity.
Qed.
