(* The heap/slab invariants of util/indexed_priority_queue.rs and their preservation by
   sift_up / sift_down (Model/IPQ.v). *)
Require Import NX.Base.Prelude NX.Base.ListX NX.Model.IPQ NX.Proofs.IPQOrder NX.Proofs.IPQSift.

Section Heap.
  Variable V : Type.
  Notation node := (node V).
  Notation strip := (strip V).

  (* heap order *)
  Definition HO (hp : list hitem) : Prop :=
    forall i x p, 0 < i -> nth_error hp i = Some x -> nth_error hp (parent i) = Some p -> ule p x.

  (* cross-indexing of heap and slab: every heap item points to a heap node that points back,
     and every heap node of the slab is pointed to *)
  Definition WF (hp : list hitem) (sl : list node) : Prop :=
    (forall i it, nth_error hp i = Some it -> exists v, nth_error sl (hslab it) = Some (HeapNode v i)) /\
    (forall j v h, nth_error sl j = Some (HeapNode v h) -> exists it, nth_error hp h = Some it /\ hslab it = j).

  (* the state in the middle of a sift: position c of the heap is a hole (its content is stale),
     [item] is the entry to be placed; L is the intended content *)
  Record hole (sl0 : list node) (n : nat) (L : list hitem) (item : hitem)
              (hp : list hitem) (sl : list node) (c : nat) : Prop := {
    hi_len : length hp = n;
    hi_c : c < n;
    hi_strip : map strip sl = map strip sl0;
    hi_wf : forall i it, i <> c -> nth_error hp i = Some it ->
                         exists v, nth_error sl (hslab it) = Some (HeapNode v i);
    hi_item : exists v h, nth_error sl (hslab item) = Some (HeapNode v h);
    hi_distinct : forall i it, i <> c -> nth_error hp i = Some it -> hslab it <> hslab item;
    hi_conv : forall j v h, nth_error sl j = Some (HeapNode v h) ->
                            j = hslab item \/ (h <> c /\ exists it, nth_error hp h = Some it /\ hslab it = j);
    hi_content : forall it, In it L <-> (it = item \/ exists i, i <> c /\ nth_error hp i = Some it)
  }.

  Definition done (sl0 : list node) (n : nat) (L : list hitem) (hp : list hitem) (sl : list node) : Prop :=
    length hp = n /\ map strip sl = map strip sl0 /\ WF hp sl /\ (forall it, In it L <-> In it hp).

  Lemma In_nth_iff {A} (l : list A) x : In x l <-> exists i, nth_error l i = Some x.
  Proof. split; [apply In_nth_error|intros [i H]; eapply nth_error_In; eauto]. Qed.

  Ltac nth_lupd :=
    repeat match goal with
    | H : context [nth_error (lupd _ _ _) _] |- _ => rewrite nth_error_lupd in H
    | |- context [nth_error (lupd _ _ _) _] => rewrite nth_error_lupd
    end.

  Lemma hole_fill sl0 n L item hp sl c :
    hole sl0 n L item hp sl c ->
    exists hp' sl', upd hp c item = Some hp' /\ set_hidx sl (hslab item) c = Some sl' /\
                    done sl0 n L hp' sl'.
  Proof.
    intros [Hlen Hc Hstrip Hwf (v & h0 & Hitem) Hdist Hconv Hcont].
    exists (lupd hp c item), (lupd sl (hslab item) (HeapNode v c)).
    split; [apply upd_some; lia|]. split; [eapply set_hidx_some; eauto|].
    assert (Hb : Nat.ltb c (length hp) = true) by (apply Nat.ltb_lt; lia).
    assert (Hbs : Nat.ltb (hslab item) (length sl) = true).
    { apply Nat.ltb_lt. eapply nth_error_some_lt; eauto. }
    unfold done. split; [rewrite lupd_length; exact Hlen|].
    split; [erewrite strip_set; eauto|]. split; [split|].
    - intros i it Hi. nth_lupd. rewrite Hb in Hi.
      destruct (Nat.eqb_spec i c) as [->|Hne].
      + injection Hi as <-. exists v. rewrite Nat.eqb_refl, Hbs. reflexivity.
      + destruct (Hwf i it Hne Hi) as (v' & Hv'). exists v'.
        destruct (Nat.eqb_spec (hslab it) (hslab item)) as [E|_]; [|exact Hv'].
        exfalso. eapply Hdist; eauto.
    - intros j v' h Hj. nth_lupd. rewrite Hbs in Hj. rewrite Hb.
      destruct (Nat.eqb_spec j (hslab item)) as [->|Hne].
      + injection Hj as <- <-. exists item. rewrite Nat.eqb_refl. auto.
      + destruct (Hconv j v' h Hj) as [E|(Hh & it & Hit & E)]; [congruence|].
        exists it. destruct (Nat.eqb_spec h c); [congruence|auto].
    - intros it. rewrite Hcont, In_nth_iff. split.
      + intros [->|(i & Hne & Hi)].
        * exists c. nth_lupd. rewrite Nat.eqb_refl, Hb. reflexivity.
        * exists i. nth_lupd. destruct (Nat.eqb_spec i c); [congruence|auto].
      + intros (i & Hi). nth_lupd. rewrite Hb in Hi.
        destruct (Nat.eqb_spec i c) as [_|Hne]; [left; congruence|right; eauto].
  Qed.

  Lemma hole_move sl0 n L item hp sl c c' p :
    hole sl0 n L item hp sl c -> c' <> c -> nth_error hp c' = Some p ->
    exists hp' sl', upd hp c p = Some hp' /\ set_hidx sl (hslab p) c = Some sl' /\
                    hp' = lupd hp c p /\ hole sl0 n L item hp' sl' c'.
  Proof.
    intros [Hlen Hc Hstrip Hwf (v & h0 & Hitem) Hdist Hconv Hcont] Hne Hp.
    destruct (Hwf c' p Hne Hp) as (vp & Hvp).
    exists (lupd hp c p), (lupd sl (hslab p) (HeapNode vp c)).
    split; [apply upd_some; lia|]. split; [eapply set_hidx_some; eauto|]. split; [reflexivity|].
    assert (Hb : Nat.ltb c (length hp) = true) by (apply Nat.ltb_lt; lia).
    assert (Hbs : Nat.ltb (hslab p) (length sl) = true).
    { apply Nat.ltb_lt. eapply nth_error_some_lt; eauto. }
    assert (Hpi : hslab p <> hslab item) by (eapply Hdist; eauto).
    constructor.
    - rewrite lupd_length; exact Hlen.
    - apply nth_error_some_lt in Hp. lia.
    - erewrite strip_set; eauto.
    - intros i it Hi Hit. nth_lupd. rewrite Hb in Hit.
      destruct (Nat.eqb_spec i c) as [->|Hic].
      + injection Hit as <-. exists vp. rewrite Nat.eqb_refl, Hbs. reflexivity.
      + destruct (Hwf i it Hic Hit) as (v' & Hv'). exists v'.
        destruct (Nat.eqb_spec (hslab it) (hslab p)) as [E|_]; [|exact Hv'].
        exfalso. rewrite E in Hv'. rewrite Hvp in Hv'. injection Hv' as _ E2. congruence.
    - exists v, h0. nth_lupd. destruct (Nat.eqb_spec (hslab item) (hslab p)); [congruence|exact Hitem].
    - intros i it Hi Hit. nth_lupd. rewrite Hb in Hit.
      destruct (Nat.eqb_spec i c) as [->|Hic]; [injection Hit as <-; exact Hpi|].
      eapply Hdist; eauto.
    - intros j v' h Hj. nth_lupd. rewrite Hbs in Hj.
      destruct (Nat.eqb_spec j (hslab p)) as [->|Hjp].
      + injection Hj as <- <-. right. split; [congruence|]. exists p. nth_lupd. rewrite Nat.eqb_refl, Hb. auto.
      + destruct (Hconv j v' h Hj) as [E|(Hh & it & Hit & E)]; [left; exact E|right].
        assert (h <> c') by (intros ->; rewrite Hp in Hit; congruence).
        split; [assumption|]. exists it. nth_lupd. destruct (Nat.eqb_spec h c); [congruence|auto].
    - intros it. rewrite Hcont. split.
      + intros [->|(i & Hi & Hit)]; [left; reflexivity|right].
        destruct (Nat.eq_dec i c') as [->|Hic'].
        * exists c. split; [congruence|]. nth_lupd. rewrite Nat.eqb_refl, Hb. congruence.
        * exists i. split; [assumption|]. nth_lupd. destruct (Nat.eqb_spec i c); [congruence|auto].
      + intros [->|(i & Hi & Hit)]; [left; reflexivity|right]. nth_lupd. rewrite Hb in Hit.
        destruct (Nat.eqb_spec i c) as [->|Hic].
        * exists c'. split; [assumption|congruence].
        * exists i. auto.
  Qed.

  (* ---------------- heap order through sift_up ---------------- *)
  Record SU (item : hitem) (hp : list hitem) (c : nat) : Prop := {
    su1 : forall i x p, 0 < i -> i <> c -> nth_error hp i = Some x -> nth_error hp (parent i) = Some p -> ule p x;
    su2 : forall i x, 0 < i -> parent i = c -> nth_error hp i = Some x -> ule item x;
    su3 : forall i x p, 0 < i -> parent i = c -> 0 < c -> nth_error hp i = Some x ->
                        nth_error hp (parent c) = Some p -> ule p x
  }.

  Lemma SU_final item hp c :
    SU item hp c -> c < length hp ->
    (c = 0 \/ exists p, nth_error hp (parent c) = Some p /\ ukey_ltb item p = false) ->
    HO (lupd hp c item).
  Proof.
    intros [H1 H2 H3] Hc Hstop i x p Hi Hx Hp.
    assert (Hb : Nat.ltb c (length hp) = true) by (apply Nat.ltb_lt; lia).
    rewrite nth_error_lupd, Hb in Hx, Hp.
    pose proof (parent_lt i Hi) as Hpl.
    destruct (Nat.eqb_spec i c) as [->|Hic].
    - injection Hx as <-. destruct (Nat.eqb_spec (parent c) c) as [E|_]; [lia|].
      destruct Hstop as [->|(p' & Hp' & Hlt)]; [lia|].
      rewrite Hp in Hp'. injection Hp' as <-. apply ukey_ltb_false. exact Hlt.
    - destruct (Nat.eqb_spec (parent i) c) as [E|Hpc].
      + injection Hp as <-. eapply H2; eauto.
      + eapply H1; eauto.
  Qed.

  Lemma SU_step item hp c p :
    SU item hp c -> c <> 0 -> c < length hp -> nth_error hp (parent c) = Some p -> ukey_ltb item p = true ->
    SU item (lupd hp c p) (parent c).
  Proof.
    intros [H1 H2 H3] Hc0 Hc Hp Hlt.
    assert (Hb : Nat.ltb c (length hp) = true) by (apply Nat.ltb_lt; lia).
    pose proof (parent_lt c ltac:(lia)) as Hpl.
    constructor.
    - intros i x q Hi Hne Hx Hq. rewrite nth_error_lupd, Hb in Hx, Hq.
      pose proof (parent_lt i Hi).
      destruct (Nat.eqb_spec i c) as [->|Hic].
      + injection Hx as <-. destruct (Nat.eqb_spec (parent c) c); [lia|].
        rewrite Hp in Hq. injection Hq as <-. apply ule_refl.
      + destruct (Nat.eqb_spec (parent i) c) as [E|Hpc].
        * injection Hq as <-. eapply H3; eauto. lia.
        * eapply H1; eauto.
    - intros i x Hi Hpi Hx. rewrite nth_error_lupd, Hb in Hx.
      destruct (Nat.eqb_spec i c) as [->|Hic].
      + injection Hx as <-. apply ult_ule. exact Hlt.
      + assert (ule p x) by (eapply (H1 i x p); eauto; congruence).
        apply ult_ule. eapply ult_ule_trans; [exact Hlt|assumption].
    - intros i x q Hi Hpi Hpc Hx Hq. rewrite nth_error_lupd, Hb in Hx, Hq.
      pose proof (parent_lt (parent c) Hpc).
      destruct (Nat.eqb_spec (parent (parent c)) c); [lia|].
      assert (Hqp : ule q p) by (eapply (H1 (parent c) p q); eauto; lia).
      destruct (Nat.eqb_spec i c) as [->|Hic].
      + injection Hx as <-. exact Hqp.
      + eapply ule_trans; [exact Hqp|]. eapply (H1 i x p); eauto; congruence.
  Qed.

  (* ---------------- heap order through sift_down ---------------- *)
  Record SD (item : hitem) (hp : list hitem) (c : nat) : Prop := {
    sd1 : forall i x p, 0 < i -> i <> c -> parent i <> c -> nth_error hp i = Some x ->
                        nth_error hp (parent i) = Some p -> ule p x;
    sd2 : forall i x p, 0 < i -> parent i = c -> 0 < c -> nth_error hp i = Some x ->
                        nth_error hp (parent c) = Some p -> ule p x;
    sd3 : forall p, 0 < c -> nth_error hp (parent c) = Some p -> ule p item
  }.

  Lemma sel_child_cases hp c c0 : sel_child hp c c0 = 2 * c + 1 \/ sel_child hp c c0 = 2 * c + 2.
  Proof.
    unfold sel_child. destruct (nth_error hp (2 * c + 1 + 1)) as [c1|]; [destruct (ukey_ltb c1 c0)|]; lia.
  Qed.

  Lemma sel_child_min hp c c0 ch :
    nth_error hp (2 * c + 1) = Some c0 -> nth_error hp (sel_child hp c c0) = Some ch ->
    forall i x, 0 < i -> parent i = c -> nth_error hp i = Some x -> ule ch x.
  Proof.
    intros H0 Hch i x Hi Hpi Hx. apply parent_child in Hpi; [|exact Hi].
    unfold sel_child in Hch. replace (2 * c + 2) with (2 * c + 1 + 1) in Hpi by lia.
    destruct (nth_error hp (2 * c + 1 + 1)) as [c1|] eqn:E1.
    - destruct (ukey_ltb c1 c0) eqn:El.
      + rewrite E1 in Hch. injection Hch as <-.
        destruct Hpi as [->| ->]; [|rewrite E1 in Hx; injection Hx as <-; apply ule_refl].
        rewrite H0 in Hx. injection Hx as <-. apply ult_ule. exact El.
      + rewrite H0 in Hch. injection Hch as <-.
        destruct Hpi as [->| ->]; [rewrite H0 in Hx; injection Hx as <-; apply ule_refl|].
        rewrite E1 in Hx. injection Hx as <-. apply ukey_ltb_false. exact El.
    - rewrite H0 in Hch. injection Hch as <-.
      destruct Hpi as [->| ->]; [rewrite H0 in Hx; injection Hx as <-; apply ule_refl|congruence].
  Qed.

  Lemma SD_final item hp c :
    SD item hp c -> c < length hp ->
    (length hp <= 2 * c + 1 \/
     exists c0 ch, nth_error hp (2 * c + 1) = Some c0 /\ nth_error hp (sel_child hp c c0) = Some ch /\
                   ukey_leb item ch = true) ->
    HO (lupd hp c item).
  Proof.
    intros [H1 H2 H3] Hc Hstop i x p Hi Hx Hp.
    assert (Hb : Nat.ltb c (length hp) = true) by (apply Nat.ltb_lt; lia).
    rewrite nth_error_lupd, Hb in Hx, Hp.
    pose proof (parent_lt i Hi) as Hpl.
    destruct (Nat.eqb_spec i c) as [->|Hic].
    - injection Hx as <-. destruct (Nat.eqb_spec (parent c) c) as [E|_]; [lia|]. eapply H3; eauto.
    - destruct (Nat.eqb_spec (parent i) c) as [E|Hpc].
      + injection Hp as <-.
        destruct Hstop as [Hn|(c0 & ch & E0 & Ech & Hle)].
        * apply nth_error_some_lt in Hx. apply parent_child in E; [lia|exact Hi].
        * eapply ule_trans; [exact Hle|]. eapply sel_child_min; eauto.
      + eapply H1; eauto.
  Qed.

  Lemma SD_step item hp c c0 ch :
    SD item hp c -> c < length hp ->
    nth_error hp (2 * c + 1) = Some c0 -> nth_error hp (sel_child hp c c0) = Some ch ->
    ukey_leb item ch = false ->
    SD item (lupd hp c ch) (sel_child hp c c0).
  Proof.
    intros [H1 H2 H3] Hc E0 Ech Hle.
    assert (Hb : Nat.ltb c (length hp) = true) by (apply Nat.ltb_lt; lia).
    set (c' := sel_child hp c c0) in *.
    assert (Hc' : 0 < c' /\ parent c' = c).
    { pose proof (sel_child_cases hp c c0) as Hcs. fold c' in Hcs. split; [lia|].
      apply parent_child; lia. }
    destruct Hc' as [Hc'0 Hc'p].
    assert (Hmin : forall i x, 0 < i -> parent i = c -> nth_error hp i = Some x -> ule ch x).
    { eapply sel_child_min; eauto. }
    assert (Hlt : ult ch item).
    { unfold ukey_leb in Hle. unfold ult. destruct (ukey_ltb ch item); [reflexivity|discriminate]. }
    constructor.
    - intros i x p Hi Hne Hpne Hx Hp. rewrite nth_error_lupd, Hb in Hx, Hp.
      pose proof (parent_lt i Hi).
      destruct (Nat.eqb_spec i c) as [->|Hic].
      + injection Hx as <-. destruct (Nat.eqb_spec (parent c) c); [lia|].
        eapply (H2 c' ch p); eauto; lia.
      + destruct (Nat.eqb_spec (parent i) c) as [E|Hpc].
        * injection Hp as <-. eapply Hmin; eauto.
        * eapply H1; eauto.
    - intros i x p Hi Hpi _ Hx Hp. rewrite nth_error_lupd, Hb in Hx, Hp.
      rewrite Hc'p in Hp. rewrite Nat.eqb_refl in Hp. injection Hp as <-.
      pose proof (parent_lt i Hi). pose proof (parent_lt c' Hc'0).
      destruct (Nat.eqb_spec i c) as [->|Hic]; [lia|].
      eapply (H1 i x ch); eauto; [lia|congruence].
    - intros p _ Hp. rewrite nth_error_lupd, Hb in Hp. rewrite Hc'p, Nat.eqb_refl in Hp.
      injection Hp as <-. apply ult_ule. exact Hlt.
  Qed.

  (* ---------------- the two sifts ---------------- *)
  Theorem sift_up_correct sl0 n L item fuel hp sl c :
    hole sl0 n L item hp sl c -> SU item hp c -> c < fuel ->
    exists hp' sl', sift_up fuel hp sl item c = Some (hp', sl') /\ done sl0 n L hp' sl' /\ HO hp'.
  Proof.
    intros Hh Hs Hf.
    apply (sift_up_ind V item (fun hp sl c => hole sl0 n L item hp sl c /\ SU item hp c)
                       (fun hp' sl' => done sl0 n L hp' sl' /\ HO hp')); [| |exact Hf|split; assumption].
    - intros hp1 sl1 c1 [Hh1 Hs1] Hstop.
      destruct (hole_fill _ _ _ _ _ _ _ Hh1) as (hp' & sl' & E1 & E2 & Hd).
      exists hp', sl'. split; [exact E1|]. split; [exact E2|]. split; [exact Hd|].
      rewrite upd_some in E1 by (destruct Hh1; lia). injection E1 as <-.
      eapply SU_final; eauto. destruct Hh1; lia.
    - intros hp1 sl1 c1 [Hh1 Hs1] Hc1.
      assert (Hpl : parent c1 < c1) by (apply parent_lt; lia).
      destruct (nth_error hp1 (parent c1)) as [p|] eqn:Ep.
      2:{ apply nth_error_None in Ep. destruct Hh1; lia. }
      exists p. split; [reflexivity|]. intros Hlt.
      destruct (hole_move _ _ _ _ _ _ _ (parent c1) p Hh1) as (hp' & sl' & E1 & E2 & -> & Hh'); [lia|exact Ep|].
      exists (lupd hp1 c1 p), sl'. split; [exact E1|]. split; [exact E2|]. split; [exact Hh'|].
      eapply SU_step; eauto. destruct Hh1; lia.
  Qed.

  Theorem sift_down_correct sl0 n L item fuel hp sl c :
    hole sl0 n L item hp sl c -> SD item hp c -> n - c < fuel ->
    exists hp' sl', sift_down fuel hp sl item c = Some (hp', sl') /\ done sl0 n L hp' sl' /\ HO hp'.
  Proof.
    intros Hh Hs Hf.
    apply (sift_down_ind V item (fun hp sl c => hole sl0 n L item hp sl c /\ SD item hp c)
                         (fun hp' sl' => done sl0 n L hp' sl' /\ HO hp') n); [| | |exact Hf|split; assumption].
    - intros hp1 sl1 c1 [Hh1 _]. destruct Hh1; auto.
    - intros hp1 sl1 c1 [Hh1 Hs1] Hstop.
      destruct (hole_fill _ _ _ _ _ _ _ Hh1) as (hp' & sl' & E1 & E2 & Hd).
      exists hp', sl'. split; [exact E1|]. split; [exact E2|]. split; [exact Hd|].
      rewrite upd_some in E1 by (destruct Hh1; lia). injection E1 as <-.
      eapply SD_final; eauto; [destruct Hh1; lia|].
      destruct Hstop as [Hn|Hr]; [left; destruct Hh1; lia|right; exact Hr].
    - intros hp1 sl1 c1 [Hh1 Hs1] Hch.
      destruct (nth_error hp1 (2 * c1 + 1)) as [c0|] eqn:E0.
      2:{ apply nth_error_None in E0. destruct Hh1; lia. }
      pose proof (sel_child_cases hp1 c1 c0) as Hcs.
      destruct (nth_error hp1 (sel_child hp1 c1 c0)) as [ch|] eqn:Ech.
      2:{ exfalso. unfold sel_child in Ech, Hcs.
          destruct (nth_error hp1 (2 * c1 + 1 + 1)) as [c1'|] eqn:E1; [|congruence].
          destruct (ukey_ltb c1' c0); congruence. }
      exists c0, ch. split; [first [reflexivity|exact E0]|]. split; [exact Ech|]. intros Hle.
      destruct (hole_move _ _ _ _ _ _ _ (sel_child hp1 c1 c0) ch Hh1) as (hp' & sl' & E1 & E2 & -> & Hh'); [lia|exact Ech|].
      exists (lupd hp1 c1 ch), sl'. split; [exact E1|]. split; [exact E2|]. split; [exact Hh'|].
      eapply SD_step; eauto. destruct Hh1; lia.
  Qed.
End Heap.
