(* Induction principles for sift_up / sift_down of Model/IPQ.v (total correctness:
   the loop invariant P also yields that no indexing operation fails) and the
   slab lemmas. *)
Require Import NX.Base.Prelude NX.Base.ListX NX.Model.IPQ NX.Proofs.IPQOrder.

Section Sift.
  Variable V : Type.
  Notation node := (node V).

  Definition strip (n : node) : option nat + V :=
    match n with FreeNode nx => inl nx | HeapNode v _ => inr v end.

  Lemma map_lupd {A B} (f : A -> B) (l : list A) i x : map f (lupd l i x) = lupd (map f l) i (f x).
  Proof. revert i; induction l as [|y r IH]; intros [|i]; cbn; auto. rewrite IH; auto. Qed.

  Lemma lupd_same {A} (l : list A) i x : nth_error l i = Some x -> lupd l i x = l.
  Proof.
    revert i; induction l as [|y r IH]; intros [|i] H; cbn in *; try congruence.
    rewrite IH; auto.
  Qed.

  Lemma set_hidx_some (sl : list node) i v h0 h :
    nth_error sl i = Some (HeapNode v h0) -> set_hidx sl i h = Some (lupd sl i (HeapNode v h)).
  Proof.
    intros H. unfold set_hidx, bind. rewrite H. apply upd_some. eapply nth_error_some_lt; eauto.
  Qed.

  Lemma strip_set (sl : list node) i v h0 h :
    nth_error sl i = Some (HeapNode v h0) -> map strip (lupd sl i (HeapNode v h)) = map strip sl.
  Proof.
    intros H. rewrite map_lupd. apply lupd_same. rewrite nth_error_map, H. reflexivity.
  Qed.

  Definition sel_child (hp : list hitem) (c : nat) (c0 : hitem) : nat :=
    match nth_error hp (2 * c + 1 + 1) with
    | Some c1 => if ukey_ltb c1 c0 then 2 * c + 1 + 1 else 2 * c + 1
    | None => 2 * c + 1
    end.

  Section Ind.
    Variable item : hitem.
    Variable P : list hitem -> list node -> nat -> Prop.
    Variable Q : list hitem -> list node -> Prop.

    Lemma sift_up_ind :
      (forall hp sl c, P hp sl c ->
         (c = 0 \/ exists p, nth_error hp (parent c) = Some p /\ ukey_ltb item p = false) ->
         exists hp' sl', upd hp c item = Some hp' /\ set_hidx sl (hslab item) c = Some sl' /\ Q hp' sl') ->
      (forall hp sl c, P hp sl c -> c <> 0 ->
         exists p, nth_error hp (parent c) = Some p /\
           (ukey_ltb item p = true ->
            exists hp' sl', upd hp c p = Some hp' /\ set_hidx sl (hslab p) c = Some sl' /\ P hp' sl' (parent c))) ->
      forall fuel hp sl c, c < fuel -> P hp sl c ->
        exists hp' sl', sift_up fuel hp sl item c = Some (hp', sl') /\ Q hp' sl'.
    Proof.
      intros Hfin Hstep. induction fuel as [|fuel IH]; intros hp sl c Hf HP; [lia|].
      cbn [sift_up]. destruct (Nat.eqb_spec c 0) as [Hc|Hc].
      - destruct (Hfin hp sl c HP (or_introl Hc)) as (hp' & sl' & E1 & E2 & HQ).
        unfold bind. rewrite E1, E2. eauto.
      - destruct (Hstep hp sl c HP Hc) as (p & Ep & Hlt).
        change (Nat.div (c - 1) 2) with (parent c). unfold bind at 1. rewrite Ep.
        destruct (ukey_ltb item p) eqn:El; cbn [negb].
        + destruct (Hlt eq_refl) as (hp' & sl' & E1 & E2 & HP').
          unfold bind at 1. rewrite E1. unfold bind at 1. rewrite E2.
          apply IH; [|exact HP']. pose proof (parent_lt c). lia.
        + destruct (Hfin hp sl c HP) as (hp' & sl' & E1 & E2 & HQ); [right; eauto|].
          unfold bind. rewrite E1, E2. eauto.
    Qed.

    Variable n : nat.

    Lemma sift_down_ind :
      (forall hp sl c, P hp sl c -> length hp = n /\ c < n) ->
      (forall hp sl c, P hp sl c ->
         (n <= 2 * c + 1 \/
          exists c0 ch, nth_error hp (2 * c + 1) = Some c0 /\ nth_error hp (sel_child hp c c0) = Some ch /\
                        ukey_leb item ch = true) ->
         exists hp' sl', upd hp c item = Some hp' /\ set_hidx sl (hslab item) c = Some sl' /\ Q hp' sl') ->
      (forall hp sl c, P hp sl c -> 2 * c + 1 < n ->
         exists c0 ch, nth_error hp (2 * c + 1) = Some c0 /\ nth_error hp (sel_child hp c c0) = Some ch /\
           (ukey_leb item ch = false ->
            exists hp' sl', upd hp c ch = Some hp' /\ set_hidx sl (hslab ch) c = Some sl' /\
                            P hp' sl' (sel_child hp c c0))) ->
      forall fuel hp sl c, n - c < fuel -> P hp sl c ->
        exists hp' sl', sift_down fuel hp sl item c = Some (hp', sl') /\ Q hp' sl'.
    Proof.
      intros Hlen Hfin Hstep. induction fuel as [|fuel IH]; intros hp sl c Hf HP; [lia|].
      destruct (Hlen hp sl c HP) as [Hl Hc].
      cbn [sift_down]. rewrite Hl.
      destruct (Nat.ltb_spec (2 * c + 1) n) as [Hch|Hch].
      - destruct (Hstep hp sl c HP Hch) as (c0 & ch & E0 & Ech & Hgo).
        unfold bind at 1. rewrite E0. fold (sel_child hp c c0).
        unfold bind at 1. rewrite Ech.
        destruct (ukey_leb item ch) eqn:El.
        + destruct (Hfin hp sl c HP) as (hp' & sl' & E1 & E2 & HQ); [right; eauto 6|].
          unfold bind. rewrite E1, E2. eauto.
        + destruct (Hgo eq_refl) as (hp' & sl' & E1 & E2 & HP').
          unfold bind at 1. rewrite E1. unfold bind at 1. rewrite E2.
          apply IH; [|exact HP'].
          assert (2 * c + 1 <= sel_child hp c c0).
          { unfold sel_child. destruct (nth_error hp (2 * c + 1 + 1)) as [c1|]; [destruct (ukey_ltb c1 c0)|]; lia. }
          lia.
      - destruct (Hfin hp sl c HP (or_introl Hch)) as (hp' & sl' & E1 & E2 & HQ).
        unfold bind. rewrite E1, E2. eauto.
    Qed.
  End Ind.
End Sift.
