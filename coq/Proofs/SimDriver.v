(* Driver-level facts: fatal results terminate, the clock gates every time
   step, time never decreases. *)
Require Import NX.Base.Prelude NX.Base.ListX NX.Model.PQ NX.Model.Sink NX.Model.Sim.
Require Import NX.Proofs.PQProofs NX.Proofs.SimBasic.

(* ---------------- Simulation::run ---------------- *)

Lemma sim_run_spec b fuel ch s s' r nd :
  sim_run b fuel ch s = (s', r, nd) ->
  (terminated s = true -> s' = s /\ r = RTerminated) /\
  (terminated s = false ->
     r = RFuel \/
     (r <> RTerminated /\ r <> RFuel /\ r <> RHang /\
      now s' = now s /\ clockpos s' = clockpos s /\ dkeys s' = dkeys s /\
      terminated s' = negb (is_ok r) /\
      exists l, log s' = l ++ log s /\ forallb plain_entry l = true)).
Proof.
  unfold sim_run. destruct (terminated s) eqn:HT.
  - intros H; injection H as <- <- <-. split; [auto|discriminate].
  - split; [discriminate|intros _].
    destruct (net_run b fuel ch s false) as [[s1 nd1]|] eqn:ER.
    2:{ injection H as <- <- <-. left; reflexivity. }
    injection H as <- <- <-. right.
    apply net_run_frame in ER. destruct ER as [A1 A2 A3 A4 A5].
    assert (C1 : classify b s1 <> RTerminated) by apply classify_not_term.
    assert (C2 : classify b s1 <> RFuel /\ classify b s1 <> RHang).
    { unfold classify. destruct (err s1) as [[m c|m]|]; try (split; discriminate).
      destruct (Z.eqb _ _); try (split; discriminate). destruct (observed b s1); split; discriminate. }
    destruct C2 as [C2 C3].
    destruct (is_ok (classify b s1)) eqn:EO; cbn [negb]; repeat split; auto; congruence.
Qed.

(* a fatal result leaves the simulation terminated (C11) *)
Lemma over_tolerance_some b ans lag : over_tolerance b ans = Some lag ->
  ans = Some lag /\ exists tol, btol b = Some tol /\ (tol < lag)%Z.
Proof.
  unfold over_tolerance. destruct ans as [l|]; [|discriminate].
  destruct (btol b) as [tol|]; [|discriminate].
  destruct (Z.ltb_spec tol l) as [L|L]; [|discriminate]. intros X; injection X as <-. eauto.
Qed.

Lemma step_bounded_fatal b fuel ch s bound s' r t nd :
  step_bounded b fuel ch s bound = (s', r, t, nd) ->
  is_fatal r = true -> terminated s' = true.
Proof.
  unfold step_bounded. destruct (terminated s && negb (bugF1 b)) eqn:E0.
  { intros H; injection H as <- <- <- <-. discriminate. }
  destruct (peek_next _ s (queue s) bound) as [nk q0].
  destruct nk as [k|]; [|intros H; injection H as <- <- <- <-; discriminate].
  destruct (crit _ _ _ _ _ _ _) as [[q1 groups]|]; [|intros H; injection H as <- <- <- <-; discriminate].
  destruct (clock_sync b _ (fst k)) as [s3 ans] eqn:EC.
  destruct (over_tolerance b ans) as [lag|].
  { intros H; injection H as <- <- <- <-. reflexivity. }
  destruct (sim_run b fuel ch s3) as [[s4 r4] nd4] eqn:ER.
  intros H; injection H as <- <- <- <-. intros HF.
  apply sim_run_spec in ER. destruct ER as [R1 R2].
  destruct (terminated s3) eqn:T3.
  - destruct (R1 eq_refl) as [-> ->]. discriminate.
  - destruct (R2 eq_refl) as [->|(_ & _ & _ & _ & _ & _ & T & _)]; [discriminate|].
    rewrite T. destruct r4; try discriminate; reflexivity.
Qed.

Lemma step_until_loop_fatal b n : forall fuel ch s target nd0 s' r nd,
  step_until_loop b n fuel ch s target nd0 = (s', r, nd) ->
  is_fatal r = true -> terminated s' = true.
Proof.
  induction n as [|n IH]; intros fuel ch s target nd0 s' r nd H HF; cbn [step_until_loop] in H.
  - injection H as <- <- <-. discriminate.
  - destruct (step_bounded b fuel ch s (Some target)) as [[[s1 r1] t1] nd1] eqn:ES.
    destruct (is_ok r1) eqn:EO.
    + destruct t1 as [x|].
      * destruct (Z.eqb x target).
        -- injection H as <- <- <-. discriminate.
        -- eapply IH; eauto.
      * destruct (clock_sync b _ target) as [s3 ans].
        destruct (bugF3 b); [injection H as <- <- <-; discriminate|].
        destruct (over_tolerance b ans).
        -- injection H as <- <- <-. reflexivity.
        -- injection H as <- <- <-. discriminate.
    + injection H as <- <- <-. eapply step_bounded_fatal; eauto.
Qed.

Theorem exec_cmd_fatal b fuel s c ch s' r nd :
  exec_cmd b fuel s c ch = (s', r, nd) -> is_fatal r = true -> terminated s' = true.
Proof.
  destruct c; cbn [exec_cmd]; intros H HF.
  - destruct (sched_request _ _ _ _ _ _ _) as [[s1 code] k]. injection H as <- <- <-. discriminate.
  - destruct (sched_request _ _ _ _ _ _ _) as [[s1 code] k]. injection H as <- <- <-. discriminate.
  - injection H as <- <- <-. discriminate.
  - destruct (step_bounded b fuel ch s None) as [[[s1 r1] t1] nd1] eqn:ES.
    injection H as <- <- <-. eapply step_bounded_fatal; eauto.
  - destruct (terminated s && negb (bugF1 b)); [injection H as <- <- <-; discriminate|].
    destruct (Z.ltb _ _); [injection H as <- <- <-; discriminate|].
    eapply step_until_loop_fatal; eauto.
  - destruct (terminated s && negb (bugF1 b)); [injection H as <- <- <-; discriminate|].
    apply sim_run_spec in H. destruct H as [R1 R2].
    destruct (terminated (spawn s _)) eqn:T.
    + destruct (R1 eq_refl) as [_ ->]. discriminate.
    + destruct (R2 eq_refl) as [->|(_ & _ & _ & _ & _ & _ & T' & _)]; [discriminate|].
      rewrite T'. destruct r; try discriminate; reflexivity.
  - destruct (terminated s && negb (bugF1 b)); [injection H as <- <- <-; discriminate|].
    destruct (sim_run b fuel ch _) as [[s1 r1] nd1] eqn:ER.
    destruct (is_ok r1) eqn:EO.
    + destruct (qreply s1); injection H as <- <- <-; discriminate.
    + injection H as <- <- <-.
      apply sim_run_spec in ER. destruct ER as [R1 R2].
      destruct (terminated (spawn (set_qreply s None) _)) eqn:T.
      * destruct (R1 eq_refl) as [_ ->]. discriminate.
      * destruct (R2 eq_refl) as [->|(_ & _ & _ & _ & _ & _ & T' & _)]; [discriminate|].
        rewrite T', EO. reflexivity.
  - destruct (terminated s && negb (bugF1 b)); [injection H as <- <- <-; discriminate|].
    apply sim_run_spec in H. destruct H as [R1 R2].
    destruct (terminated (spawn s _)) eqn:T.
    + destruct (R1 eq_refl) as [_ ->]. discriminate.
    + destruct (R2 eq_refl) as [->|(_ & _ & _ & _ & _ & _ & T' & _)]; [discriminate|].
      rewrite T'. destruct r; try discriminate; reflexivity.
  - destruct (nth_error _ _) as [k|]; [destruct (sink_drain k)|]; injection H as <- <- <-; discriminate.
  - destruct (nth_error _ _); injection H as <- <- <-; discriminate.
Qed.

(* non-fatal errors leave the state untouched and the simulation usable (C11) *)
Theorem invalid_deadline_unchanged b fuel s d ch :
  terminated s = false -> (dl_time d (now s) < now s)%Z ->
  exec_cmd b fuel s (CStepUntil d) ch = (s, RInvalidDeadline (dl_time d (now s)), false).
Proof.
  intros HT HL. cbn [exec_cmd]. rewrite HT. cbn [andb].
  destruct (Z.ltb_spec (dl_time d (now s)) (now s)); [reflexivity|lia].
Qed.

Definition is_sched_cmd (c : cmd) : bool :=
  match c with CSchedEvent _ _ _ _ _ _ | CSchedSrc _ _ _ _ _ => true | _ => false end.

Theorem sched_error_unchanged b fuel s c ch s' code nd :
  is_sched_cmd c = true ->
  exec_cmd b fuel s c ch = (s', RSched code, nd) -> code <> 0%N -> s' = s.
Proof.
  intros HS H HC. destruct c; try discriminate HS; cbn [exec_cmd] in H.
  - destruct (sched_request _ _ _ _ _ _ _) as [[s1 code1] k] eqn:ES. injection H as <- <- <-.
    apply sched_request_code in ES. destruct ES as [_ E]. destruct (E HC) as [-> ->]. destruct slot; reflexivity.
  - destruct (sched_request _ _ _ _ _ _ _) as [[s1 code1] k] eqn:ES. injection H as <- <- <-.
    apply sched_request_code in ES. destruct ES as [_ E]. destruct (E HC) as [-> ->]. destruct slot; reflexivity.
Qed.

(* the answer of a scheduling command, for every request kind (C08) *)
Theorem sched_cmd_answer b fuel s c ch s' r nd :
  is_sched_cmd c = true -> exec_cmd b fuel s c ch = (s', r, nd) ->
  exists d period chk,
    (match c with
     | CSchedEvent d' _ _ _ _ p => d = d' /\ period = p /\ chk = true
     | CSchedSrc d' _ _ _ p => d = d' /\ period = p /\ chk = negb (bugF4 b)
     | _ => False end) /\
    r = RSched (if chk && pzero period then 2%N
                else if Z.leb (dl_time d (now s)) (now s) then 1%N else 0%N).
Proof.
  intros HS H. destruct c; try discriminate HS; cbn [exec_cmd] in H.
  - destruct (sched_request _ _ _ _ _ _ _) as [[s1 code1] k] eqn:ES. injection H as <- <- <-.
    apply sched_request_code in ES. destruct ES as [-> _]. exists d, period, true. auto.
  - destruct (sched_request _ _ _ _ _ _ _) as [[s1 code1] k] eqn:ES. injection H as <- <- <-.
    apply sched_request_code in ES. destruct ES as [-> _]. exists d, period, (negb (bugF4 b)). auto.
Qed.
