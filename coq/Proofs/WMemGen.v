(* The programs GENERATED from util/sync_cell.rs and time/monotonic_time.rs (gen/SyncCellProg.v,
   rewritten from the source on every run) are the programs the weak-memory proofs are about.
   This is the proof obligation that breaks when the code's atomic operations, their order or
   their memory orderings change. *)
Require Import NX.Base.Prelude NX.Base.ListX NX.Model.WMem NX.gen.SyncCellProg NX.Proofs.WMemProofs.

Lemma gen_is_proved : wprog_gen = wprog_proved /\ rprog_gen = rprog_proved.
Proof. split; reflexivity. Qed.

Theorem wm_gen_not_torn v0 vals n sched r t v :
  let s := wm_run (wm_init wprog_gen rprog_gen v0 vals n) sched in
  In r (tl (threads s)) -> In (t, v) (outs r) ->
  exists j, t = 2 * j /\ nth_error (whist s) j = Some v.
Proof. destruct gen_is_proved as [-> ->]. exact (wm_not_torn v0 vals n sched r t v). Qed.

Theorem wm_gen_monotone v0 vals n sched r :
  let s := wm_run (wm_init wprog_gen rprog_gen v0 vals n) sched in
  In r (tl (threads s)) ->
  desc (map fst (outs r)) /\ forall t v, In (t, v) (outs r) -> t <= vq (cur r).
Proof. destruct gen_is_proved as [-> ->]. exact (wm_monotone v0 vals n sched r). Qed.

(* The model distinguishes the orderings: with the Release fence issued AFTER the stores of the
   value instead of before them, a reader can return the seconds of the new time with the
   nanoseconds of the old one, validated against the old (even) sequence number. *)
Definition wprog_fence_late : list instr :=
  [Ld LSeq Rlx R0; St LSeq Rlx (EReg R0 1); St LSec Rlx EArgA; St LNan Rlx EArgB; Fn Rel; St LSeq Rel (EReg R0 2)].
Definition sched_torn : list (nat * nat) :=
  [(0, 0); (0, 0); (0, 0); (1, 0); (1, 0); (1, 1); (1, 0); (1, 0); (1, 0); (1, 0)].

Lemma fence_late_torn :
  wm_outputs (wm_run (wm_init wprog_fence_late rprog_proved (1, 10)%Z [(2, 20)%Z] 1) sched_torn) = [[(2, 10)%Z]].
Proof. vm_compute. reflexivity. Qed.

(* and a relaxed (instead of acquire) first load of the sequence number lets a reader that has
   seen the new sequence number still read the old value: same schedule shape, different flaw *)
Definition rprog_first_load_relaxed : list instr :=
  [Ld LSeq Rlx R0; FailIfOdd R0; Ld LSec Rlx R1; Ld LNan Rlx R2; Fn Acq; Ld LSeq Rlx R3; RetIfEq R0 R3 R1 R2].
Definition sched_stale : list (nat * nat) :=
  [(0, 0); (0, 0); (0, 0); (0, 0); (0, 0); (0, 0); (1, 2); (1, 0); (1, 0); (1, 1); (1, 0); (1, 0); (1, 0)].
Lemma first_load_relaxed_torn :
  wm_outputs (wm_run (wm_init wprog_proved rprog_first_load_relaxed (1, 10)%Z [(2, 20)%Z] 1) sched_stale) = [[(1, 20)%Z]].
Proof. vm_compute. reflexivity. Qed.

(* non-vacuity of the theorems: a run of the generated programs in which a reader obtains the
   initial value and then, racing with the second write, the first written value *)
Definition sched_ok : list (nat * nat) :=
  [(1, 0); (1, 0); (1, 0); (1, 0); (1, 0); (1, 0); (1, 0);
   (0, 0); (0, 0); (0, 0); (0, 0); (0, 0); (0, 0); (0, 0); (0, 0);
   (1, 2); (1, 0); (1, 0); (0, 0); (1, 0); (1, 0); (1, 0); (1, 0)].
Lemma gen_run_example :
  wm_outputs (wm_run (wm_init wprog_gen rprog_gen (1, 10)%Z [(2, 20); (3, 30)]%Z 1) sched_ok) = [[(1, 10); (2, 20)]%Z].
Proof. vm_compute. reflexivity. Qed.
