(* Invariant of the concurrent queue model (Model/QueueConc.v) and arithmetic of the ring. *)
Require Import NX.Base.Prelude NX.Base.ListX NX.Model.QueueConc.

Section Inv.
  Variable V : Type.
  Notation cstate := (cstate V).
  Notation prod := (prod V).

  (* number of tickets whose slot has been handed back (the drop of the borrow completed) *)
  Definition rel (s : cstate) : nat := deq s - (if Nat.leb 3 (cpc (con s)) then 1 else 0).
  (* number of values the consumer has taken out of the cells *)
  Definition taken (s : cstate) : nat := deq s - (if Nat.eqb (cpc (con s)) 3 then 1 else 0).

  Definition in_flight (p : prod) : Prop := ppc p = 3 \/ ppc p = 4.

  Fixpoint sdesc (l : list nat) : Prop :=
    match l with
    | [] => True
    | x :: r => (match r with [] => True | y :: _ => y < x end) /\ sdesc r
    end.

  (* what a published ticket m (stamp 2m+1) holds *)
  Definition published_ok (s : cstate) (m : nat) : Prop :=
    (deq s <= m -> exists v, nth_error (log s) m = Some v /\ snd (slot_at s m) = CPop v) /\
    (m < deq s -> (cpc (con s) = 3 -> exists v, nth_error (log s) m = Some v /\ snd (slot_at s m) = CPop v) /\
                  (cpc (con s) = 4 -> snd (slot_at s m) = CNone) /\
                  (cpc (con s) = 5 -> snd (slot_at s m) = CVac)).

  Definition slot_ok (s : cstate) (m : nat) : Prop :=
    (m < enq s -> (fst (slot_at s m) = 2 * m + 1 /\ published_ok s m) \/ fst (slot_at s m) = 2 * m) /\
    (enq s <= m -> slot_at s m = (2 * m, CVac)).

  Definition prod_ok (s : cstate) (p : prod) : Prop :=
    ppc p <= 4 /\
    (pvals p = [] -> ppc p = 0) /\
    (1 <= ppc p -> ppos p <= enq s) /\
    (ppc p = 2 -> pclo p = false /\ pst p <= fst (slot_at s (ppos p))) /\
    (in_flight p ->
       rel s <= ppos p < enq s /\ deq s <= ppos p /\ pst p = 2 * ppos p /\ fst (slot_at s (ppos p)) = 2 * ppos p /\
       (exists v rest, pvals p = v :: rest /\ nth_error (log s) (ppos p) = Some v /\
                       (ppc p = 3 -> snd (slot_at s (ppos p)) = CVac) /\
                       (ppc p = 4 -> snd (slot_at s (ppos p)) = CPop v))) /\
    (forall n v, In (n, v) (ptix p) -> nth_error (log s) n = Some v) /\
    sdesc (map fst (ptix p)).

  Definition con_ok (s : cstate) : Prop :=
    cpc (con s) <= 5 /\
    (1 <= cpc (con s) <= 2 -> cdeq (con s) = deq s) /\
    (cpc (con s) = 2 ->
       cst (con s) = 2 * deq s \/
       (cst (con s) = 2 * deq s + 1 /\ fst (slot_at s (deq s)) = 2 * deq s + 1 /\ deq s < enq s)) /\
    (3 <= cpc (con s) -> deq s = S (cdeq (con s)) /\ cst (con s) = 2 * cdeq (con s) + 1 /\
                         fst (slot_at s (cdeq (con s))) = 2 * cdeq (con s) + 1).

  Record CInv (s : cstate) : Prop := {
    ci_cap : 1 <= cap s;
    ci_len : length (slots s) = cap s;
    ci_log : length (log s) = enq s;
    ci_err : cerr s = 0;
    ci_deq : deq s <= enq s;
    ci_full : enq s <= rel s + cap s;
    ci_slots : forall m, rel s <= m < rel s + cap s -> slot_ok s m;
    ci_prod : forall i p, nth_error (prods s) i = Some p -> prod_ok s p;
    ci_uniq : forall i j p q, nth_error (prods s) i = Some p -> nth_error (prods s) j = Some q ->
        i <> j -> in_flight p -> in_flight q -> ppos p <> ppos q;
    ci_con : con_ok s;
    ci_popped : popped s = firstn (taken s) (log s)
  }.

  (* ---------------- ring arithmetic ---------------- *)
  Lemma mod_window c a m n : 1 <= c -> a <= m < a + c -> a <= n < a + c -> m mod c = n mod c -> m = n.
  Proof.
    intros Hc Hm Hn E.
    pose proof (Nat.div_mod m c ltac:(lia)) as Dm. pose proof (Nat.div_mod n c ltac:(lia)) as Dn.
    pose proof (Nat.mod_upper_bound m c ltac:(lia)). pose proof (Nat.mod_upper_bound n c ltac:(lia)).
    rewrite E in Dm. set (r := n mod c) in *. set (qm := m / c) in *. set (qn := n / c) in *.
    assert (qm = qn) by nia. subst qm. lia.
  Qed.

  Lemma mod_lap c m : 1 <= c -> (m + c) mod c = m mod c.
  Proof.
    intros Hc. replace (m + c) with (m + 1 * c) by lia. apply Nat.mod_add. lia.
  Qed.

  Lemma slot_at_lap (s : cstate) m : 1 <= cap s -> slot_at s (m + cap s) = slot_at s m.
  Proof. intros H. unfold slot_at. rewrite mod_lap by exact H. reflexivity. Qed.

  Lemma nth_lupd {A} (l : list A) i j x d :
    i < length l -> nth j (lupd l i x) d = if Nat.eqb j i then x else nth j l d.
  Proof.
    intros Hi. destruct (Nat.eqb_spec j i) as [->|Hne].
    - apply nth_error_nth. apply nth_error_lupd_eq. exact Hi.
    - destruct (nth_error (lupd l i x) j) as [y|] eqn:E.
      + rewrite (nth_error_nth _ _ d E). rewrite nth_error_lupd_ne in E by congruence.
        symmetry. apply nth_error_nth. exact E.
      + pose proof E as E2. rewrite nth_error_lupd_ne in E2 by congruence.
        apply nth_error_None in E. apply nth_error_None in E2. rewrite !nth_overflow; auto.
  Qed.

  Lemma slot_at_set (s : cstate) n x m :
    length (slots s) = cap s -> 1 <= cap s ->
    nth (m mod cap s) (set_slot s n x) (0, CNone) = if Nat.eqb (m mod cap s) (n mod cap s) then x else slot_at s m.
  Proof.
    intros Hl Hc. unfold set_slot, slot_at. apply nth_lupd. rewrite Hl. apply Nat.mod_upper_bound. lia.
  Qed.

  Lemma nth_error_lupd_inv {A} (l : list A) i j x y :
    nth_error (lupd l i x) j = Some y -> (j = i /\ y = x) \/ (j <> i /\ nth_error l j = Some y).
  Proof.
    intros H. destruct (Nat.eq_dec j i) as [->|Hne].
    - left. split; [reflexivity|]. destruct (Nat.lt_ge_cases i (length l)) as [L|L].
      + rewrite nth_error_lupd_eq in H by exact L. congruence.
      + assert (nth_error (lupd l i x) i = None) by (apply nth_error_None; rewrite lupd_length; exact L). congruence.
    - right. split; [exact Hne|]. rewrite nth_error_lupd_ne in H by congruence. exact H.
  Qed.

  Lemma firstn_snoc_nth {A} (l : list A) n x : nth_error l n = Some x -> firstn (S n) l = firstn n l ++ [x].
  Proof.
    revert n; induction l as [|y r IH]; intros [|n] H; cbn in *; try discriminate.
    - injection H as ->. reflexivity.
    - f_equal. apply IH. exact H.
  Qed.
End Inv.
